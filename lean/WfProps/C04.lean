import WfProofs.RunnerTerminal
import WfProofs.EngineTelemetry
import WfProofs.RunnerNoCrash
import WfProofs.EnginePolicyEscapes
import WfProofs.StreamGate
import WfProofs.WorkerCleanup
/-!
# C04 — every run ends once, and its stream ends with the matching terminal event

On the runner LTS (`WfModel/Runner.lean`), for **every** configuration, retry-policy oracle
(including one that raises), initial state satisfying the worker-slot invariant, start event,
timeout and action list (schedules, worker results, external ticks, step-side stream writes) whose
user-supplied content does not itself publish a `StopEvent`:

* the run either is still live with no terminal event published, or has ended with a
  stream whose **last** element is the **only** terminal event and is of the kind of
  the outcome (`EndedWell`) — `C04_terminal_last_unconditional`; there is no third case;
* once ended, nothing changes any more (one outcome, nothing published after it);
* so a consumer that stops at the first terminal element stops exactly when the run has ended
  (`C04_consumer_terminates`).

`crashed` is the model's name for an exception escaping `_reduce_tick`.  The reducer has three
sources of it (`WfProofs/EngineNoCrash.lean`): no free worker id (`IndexError`), a step result for an
unknown step (`KeyError`), a step result for a worker that is not in progress (`ValueError`).  All
three are unreachable from `Runner.init` (`C04_crash_unreachable`): the first by the worker-slot
invariant (C01), the other two because the loop builds step-result ticks only from its table of started
workers, which is included in `in_progress` (`RunInv`, `WfProofs/RunnerWorkers.lean`).

Until the repair "a retry policy whose next() raises is treated as granting no retry" there was a fourth
source — user code run inside the reducer: the exception of `retry_policy.next()` escaped, no terminal
event was published and `stream_events()` never returned (finding
C04/engine_side_failure_no_terminal_event, fixed).  The old reducer is kept as a variant
(`WfProofs/EnginePolicyEscapes.lean`); of it the statement is false (`C04_refuted_unrepaired`), of the
model it is a theorem (`C04_statement_holds`).
-/
set_option linter.unusedVariables false
open Engine

theorem C04.execCmds_plain_live : ∀ (cmds : List Cmd) (r : Runner),
    (∀ c ∈ cmds, plainCmd c = true ∧ c ≠ .crash) → Live r → Live (execCmds r cmds)
  | [], r, _, h => by simpa [execCmds] using h
  | c :: cs, r, hplain, h => by
    have hl := execCmd_plain r c (hplain c (by simp)).1 (hplain c (by simp)).2 h
    simp only [execCmds, hl.1, Option.isSome_none, Bool.false_eq_true, ↓reduceIte]
    exact C04.execCmds_plain_live cs _ (fun x hx => hplain x (by simp [hx])) hl

theorem C04.rewind_plain (cfg : Cfg) (st0 : State) (now : Int) :
    ∀ c ∈ (rewind cfg st0 now).2, plainCmd c = true ∧ c ≠ .crash := by
  have hloop : ∀ (cs : List StepCfg) (st : State) (cmds : List Cmd),
      (∀ c ∈ cmds, plainCmd c = true ∧ c ≠ .crash) →
      ∀ c ∈ (rewindLoop now cs st cmds).2, plainCmd c = true ∧ c ≠ .crash := by
    intro cs
    induction cs with
    | nil => intro st cmds h; simpa [rewindLoop] using h
    | cons d ds ih =>
      intro st cmds h
      unfold rewindLoop
      apply ih
      intro c hc
      rcases List.mem_append.mp hc with hc | hc
      · exact h c hc
      · unfold rewindStep at hc
        refine ⟨drain_plain _ _ _ _ _ c hc, ?_⟩
        intro hcr; subst hcr
        exact drain_no_crash d.name d.numWorkers now _ _ (by simp [IdsOk, usedIds]) hc
  unfold rewind
  exact hloop _ _ _ (by simp)

theorem C04_init_live (cfg : Cfg) (hwf : cfg.WF) (st0 : State) (now : Int) (start : Option Ev)
    (timeout : Option Nat) : Live (Runner.init cfg st0 now start timeout) := by
  unfold Runner.init
  dsimp only
  apply C04.execCmds_plain_live _ _ (C04.rewind_plain cfg st0 now)
  have hbuf : ∀ t ∈ rehydrateTicks cfg st0 ++
      (match start with | some e => [Tick.addEvent { ev := e } none] | none => []), t.ok = true := by
    intro t ht
    rcases List.mem_append.mp ht with ht | ht
    · simp only [rehydrateTicks, List.mem_flatMap, List.mem_map] at ht
      obtain ⟨_, _, _, _, rfl⟩ := ht
      rfl
    · cases start with
      | none => simp at ht
      | some e => simp only [List.mem_singleton] at ht; subst ht; rfl
  cases timeout with
  | none => exact ⟨rfl, by intro p hp; simp at hp, hbuf, by intro t ht; simp at ht, by intro t ht; simp at ht⟩
  | some tmo =>
    refine ⟨rfl, by intro p hp; simp [Runner.push] at hp, hbuf, by intro t ht; simp [Runner.push] at ht, ?_⟩
    intro t ht
    simp only [Runner.push, List.nil_append, List.mem_singleton] at ht
    subst ht; rfl

/-- C04 without any assumption on the initial state: at every point of every run, exactly one of three
things holds.  (The third is excluded by `C04_crash_unreachable` as soon as the initial state satisfies
the worker-slot invariant: `C04_terminal_last_unconditional`.) -/
theorem C04_terminal_last (cfg : Cfg) (hwf : cfg.WF) (pol : Policy) (st0 : State) (now : Int)
    (start : Option Ev) (timeout : Option Nat) (acts : List Act) (hok : ∀ a ∈ acts, a.ok = true) :
    let r := Runner.run cfg pol (Runner.init cfg st0 now start timeout) acts
    Live r ∨ EndedWell r ∨ r.outcome = some .crashed :=
  run_spec cfg pol acts _ hok (C04_init_live cfg hwf st0 now start timeout)

/-- **no exception escapes the reducer**: for every configuration, every retry-policy oracle (also one
that raises on every call), every initial state satisfying the worker-slot invariant, every start event
and timeout and **every** action list (no condition on its content at all), the run never ends `crashed`.
All three sources of `Cmd.crash` in `reduce` are unreachable from `Runner.init`. -/
theorem C04_crash_unreachable (cfg : Cfg) (hwf : cfg.WF) (pol : Policy) (st0 : State) (h0 : IdsInv cfg st0)
    (now : Int) (start : Option Ev) (timeout : Option Nat) (acts : List Act) :
    (Runner.run cfg pol (Runner.init cfg st0 now start timeout) acts).outcome ≠ some .crashed :=
  run_not_crashed cfg hwf pol acts _ (init_runInv cfg hwf False st0 h0 now start timeout)
    (by rw [(C04_init_live cfg hwf st0 now start timeout).1]; simp)

/-- **C04**: at every point of every run, exactly one of two things holds — the run is live and no
terminal event is on the stream, or it has ended and the last element of the stream is the only terminal
event, of the kind of the outcome.  No `crashed` case. -/
theorem C04_terminal_last_unconditional (cfg : Cfg) (hwf : cfg.WF) (pol : Policy) (st0 : State)
    (h0 : IdsInv cfg st0) (now : Int) (start : Option Ev) (timeout : Option Nat) (acts : List Act)
    (hok : ∀ a ∈ acts, a.ok = true) :
    let r := Runner.run cfg pol (Runner.init cfg st0 now start timeout) acts
    Live r ∨ EndedWell r := by
  intro r
  rcases C04_terminal_last cfg hwf pol st0 now start timeout acts hok with h | h | h
  · exact Or.inl h
  · exact Or.inr h
  · exact absurd h (C04_crash_unreachable cfg hwf pol st0 h0 now start timeout acts)

/-- A run ends at most once: after the outcome is set no action changes the outcome or the
stream (nothing is published after the terminal event). -/
theorem C04_outcome_once (cfg : Cfg) (pol : Policy) (r : Runner) (acts : List Act)
    (h : r.outcome.isSome = true) : Runner.run cfg pol r acts = r :=
  run_ended cfg pol acts r h

/-- the terminal element of a run that ended well exists, is unique and is last -/
theorem C04_consumer_terminates_of_endedWell (r : Runner) (h : EndedWell r) :
    ∃ pre p, r.stream = pre ++ [p] ∧ isTerminalPub p = true ∧ ∀ q ∈ pre, isTerminalPub q = false := by
  obtain ⟨_, p, pre, _, hs, hn, hp, _⟩ := h
  exact ⟨pre, p, hs, hp, hn⟩

/-- **A consumer of the stream that stops at the first terminal element terminates exactly when the run
does.**  While the run has no outcome the stream holds no terminal element (the consumer keeps waiting);
as soon as it has one — whatever it is: there is no engine-side failure case — the stream is `pre ++ [p]`
with `p` terminal, of the kind of the outcome, and nothing terminal before it. -/
theorem C04_consumer_terminates (cfg : Cfg) (hwf : cfg.WF) (pol : Policy) (st0 : State)
    (h0 : IdsInv cfg st0) (now : Int) (start : Option Ev) (timeout : Option Nat) (acts : List Act)
    (hok : ∀ a ∈ acts, a.ok = true) :
    let r := Runner.run cfg pol (Runner.init cfg st0 now start timeout) acts
    (r.outcome = none → ∀ q ∈ r.stream, isTerminalPub q = false) ∧
    (∀ o, r.outcome = some o →
      ∃ pre p, r.stream = pre ++ [p] ∧ isTerminalPub p = true ∧ outcomeMatches p o = true ∧
        ∀ q ∈ pre, isTerminalPub q = false) := by
  intro r
  rcases C04_terminal_last_unconditional cfg hwf pol st0 h0 now start timeout acts hok with h | h
  · refine ⟨fun _ => h.2.1, ?_⟩
    intro o ho
    rw [show r.outcome = none from h.1] at ho
    cases ho
  · obtain ⟨o', p, pre, ho', hs, hn, hp, hm⟩ := h
    refine ⟨?_, ?_⟩
    · intro hnone
      rw [show r.outcome = some o' from ho'] at hnone
      cases hnone
    · intro o ho
      rw [show r.outcome = some o' from ho'] at ho
      injection ho with ho
      subst ho
      exact ⟨pre, p, hs, hp, hm, hn⟩

/-! ## The unconditional statement: a theorem of the model, false of the reducer before the repair -/

/-- every run (of the given runner) that has ended has ended well -/
def C04_statementFor (run : Cfg → Policy → Runner → List Act → Runner) : Prop :=
  ∀ (cfg : Cfg), cfg.WF → ∀ (pol : Policy) (start : Ev) (acts : List Act), (∀ a ∈ acts, a.ok = true) →
    let r := run cfg pol (Runner.init cfg initState 0 (some start) none) acts
    r.outcome.isSome = true → EndedWell r

def C04_statement : Prop := C04_statementFor Runner.run

theorem C04_statement_holds : C04_statement := by
  intro cfg hwf pol start acts hok r ho
  rcases C04_terminal_last_unconditional cfg hwf pol initState (idsInv_init cfg) 0 (some start) none acts hok
    with h | h
  · rw [show r.outcome = none from h.1] at ho
    cases ho
  · exact h

def C04.wCfg : Cfg := { steps := [{ name := 0, accepted := [0], numWorkers := 1, hasRetry := true }] }
def C04.startEv : Ev := { ty := 0, kind := .start, uid := 1 }
def C04.wActs : List Act := [.drain, .workerDone 0 0 [.failed 7 0], .drain]

/-- F07, before the repair: the step fails, the user's retry policy raises inside the reducer: the run
ends (`crashed`) and the stream holds no terminal event at all. -/
theorem C04_refuted_witness_unrepaired :
    let r := Runner.runPolicyEscapes C04.wCfg (fun _ _ _ _ => .raise)
      (Runner.init C04.wCfg initState 0 (some C04.startEv) none) C04.wActs
    r.outcome = some .crashed ∧ r.stream.all (fun p => !isTerminalPub p) = true := by decide

theorem C04_refuted_unrepaired : ¬ C04_statementFor Runner.runPolicyEscapes := by
  intro h
  have hw := C04_refuted_witness_unrepaired
  have h1 := h C04.wCfg (by simp [Cfg.WF, Cfg.names, C04.wCfg]) (fun _ _ _ _ => .raise) C04.startEv C04.wActs
    (by decide)
  simp only at hw h1
  obtain ⟨o, p, pre, ho, _, _, _, hm⟩ := h1 (by rw [hw.1]; rfl)
  rw [hw.1] at ho
  injection ho with ho
  subst ho
  simp [outcomeMatches] at hm

/-- … and with a policy that does not raise the old reducer and the model are the same function -/
theorem C04_unrepaired_differs_only_on_raise (cfg : Cfg) (pol : Policy) (step : Nat) (tickEv : Ev) (dc : Bool)
    (acc : ResAcc) (r : Res)
    (h : ∀ exc failedAt, r = .failed exc failedAt →
      retryDecision cfg pol step (failedAt - acc.exec.firstAt) (acc.exec.attempts + 1) exc ≠ .raise) :
    applyResPolicyEscapes cfg pol step tickEv dc acc r = applyRes cfg pol step tickEv dc acc r :=
  applyResPolicyEscapes_eq cfg pol step tickEv dc acc r h

/-- the same program and schedule after the repair: the raising policy grants no retry, the run fails with
the **step's** error (7) and the `WorkflowFailedEvent` is the last element of the stream -/
example :
    let r := Runner.run C04.wCfg (fun _ _ _ _ => .raise)
      (Runner.init C04.wCfg initState 0 (some C04.startEv) none) C04.wActs
    (r.outcome, r.stream.getLast?, (r.stream.filter isTerminalPub).length) =
      (some (.failed 0 7), some (.failed 0 7 1 0), 1) := by decide

/-- … and when the failing step is owned by a `@catch_error` handler within its budget, the failure is
routed to the handler (which here completes the run) although the policy raised -/
def C04.hCfg : Cfg :=
  { steps := [{ name := 0, accepted := [0], numWorkers := 1, hasRetry := true },
              { name := 1, accepted := [tyStepFailed], numWorkers := 1, hasRetry := false }],
    handlerFor := [(0, 1)], handlers := [(1, 1)] }
def C04.stopEv : Ev := { ty := 1, kind := .stop, uid := 9 }
example :
    let r := Runner.run C04.hCfg (fun _ _ _ _ => .raise)
      (Runner.init C04.hCfg initState 0 (some C04.startEv) none)
      [.drain, .workerDone 0 0 [.failed 7 0], .drain, .drain, .drain,
       .workerDone 1 0 [.result (some C04.stopEv)], .drain]
    (r.outcome, r.stream.getLast?, (r.stream.filter isTerminalPub).length) =
      (some (.completed (.event C04.stopEv)), some (.event C04.stopEv), 1) := by decide

/-! Non-vacuity: a run that completes, one that fails, one that is cancelled; the hypotheses of the
unconditional theorem hold of the initial state of every fresh run. -/
def C04.okCfg : Cfg := { steps := [{ name := 0, accepted := [0], numWorkers := 1, hasRetry := false }] }
example : C04.okCfg.WF ∧ C04.wCfg.WF ∧ C04.hCfg.WF ∧ IdsInv C04.wCfg initState :=
  ⟨by simp [Cfg.WF, Cfg.names, C04.okCfg], by simp [Cfg.WF, Cfg.names, C04.wCfg],
   by simp [Cfg.WF, Cfg.names, C04.hCfg], idsInv_init _⟩
example :
    let r := Runner.run C04.okCfg (fun _ _ _ _ => .stop) (Runner.init C04.okCfg initState 0 (some C04.startEv) none)
      [.drain, .workerDone 0 0 [.result (some C04.stopEv)], .drain, .drain]
    (r.outcome, r.stream.getLast?) = (some (.completed (.event C04.stopEv)), some (.event C04.stopEv)) := by decide
example :
    let r := Runner.run C04.okCfg (fun _ _ _ _ => .stop) (Runner.init C04.okCfg initState 0 (some C04.startEv) none)
      [.drain, .workerDone 0 0 [.failed 3 5], .drain]
    (r.outcome, r.stream.getLast?) = (some (.failed 0 3), some (.failed 0 3 1 5)) := by decide
example :
    let r := Runner.run C04.okCfg (fun _ _ _ _ => .stop) (Runner.init C04.okCfg initState 0 (some C04.startEv) none)
      [.drain, .external .cancelRun, .pull, .drain]
    (r.outcome, r.stream.getLast?) = (some (.halted .cancelledByUser), some .cancelled) := by decide
/-- a state that is *not* reachable — a step result for a worker that never started — is what the
invariant excludes: there the reducer does raise -/
example :
    let r0 : Runner := { st := initState, buf := [.stepResult 0 0 C04.startEv [.result none]] }
    (Runner.run C04.okCfg (fun _ _ _ _ => .stop) r0 [.drain]).outcome = some .crashed := by decide

/-! ## Several consumers of one run's stream (`ExternalAsyncioAdapter.stream_published_events`)

"... so a consumer of stream_events() always terminates when the run does" — for *every* consumer, also one that
arrives while another one owns the stream.  On the stream-gate LTS (`WfModel/StreamGate.lean`: FIFO stream lock,
"already consumed" guard, publish queue; actions = the await-free sections of the code, any number of consumers,
any interleaving with the run's publications and the end of its task), with the guard as the current source has
it (`StreamGate.srcCfg`, re-extracted on every run):

* `C04_overlap_source_shape` pins the extracted shape: one guard, first statement under the stream lock, testing
  `(stream_finished or complete.done()) and publish_queue.empty()`, followed by the pulling loop that sets
  `stream_finished` before it yields the terminal item and stops after it;
* `C04_overlap_exactly_once`: in every reachable state what was delivered, in delivery order, followed by what is
  still queued is exactly what the run published — nothing lost, nothing delivered twice, whatever the consumers do;
* the statement at full strength, `C04_overlap_statement`: whenever the terminal item has been taken, the run's task
  is done and nothing is enabled any more, every consumer has terminated.  `C04_overlap_holds`: it is a theorem of
  the current source.  Of the code **before** the repair of
  C04/overlap_consumer_never_terminates:stream_free_before_outcome_available (guard testing `complete.done()` alone)
  it is false (`C04_overlap_refuted_unrepaired`): the lock is released as soon as the consumer that has the terminal
  item asks for more, which may be before the run's task is done; the next consumer passed the guard and waited
  for ever.  The strongest part true of that code, `C04_overlap_guarded_unrepaired`: if no consumer enters the
  locked section between "terminal item taken" and "run's task done" (decidable on the run, `noEntryInWindow`) —
  e.g. because the owner awaits the run's outcome before it lets go;
* `C04_overlap_guard_position_matters`: with the guard evaluated in front of the lock the statement fails again,
  flag or not (the waiter was admitted when the run was still going and nothing re-checks).
-/
section Overlap
open StreamGate

theorem C04_overlap_source_shape :
    GenStreamGate.found = true ∧ GenStreamGate.lockIsStreamLock = true ∧ GenStreamGate.guardCount = 1 ∧
    GenStreamGate.guardUnderLock = true ∧ GenStreamGate.guardFirstUnderLock = true ∧
    GenStreamGate.guardTest = 2 ∧ GenStreamGate.loopShape = 2 ∧ GenStreamGate.flagInit = true ∧
    GenStreamGate.flagWrites = 2 ∧ GenStreamGate.stmtsOutsideLock = 0 ∧
    srcCfg = { guardUnderLock := true, finishedFlag := true } := by decide

theorem C04_overlap_exactly_once (cfg : StreamGate.Cfg) (acts : List StreamGate.Act) :
    let s := StreamGate.run cfg StreamGate.init acts
    s.log.map Prod.snd ++ s.queue = s.published :=
  run_log cfg acts StreamGate.init rfl

example :
    let s := StreamGate.run srcCfg StreamGate.init
      [.arrive 0 (some 1), .arrive 1 none, .publish (.note 5), .take, .publish (.note 6), .wake, .publish .term, .take]
    (s.log, s.queue, s.published) =
      ([(0, .note 5), (1, .note 6), (1, .term)], [], [.note 5, .note 6, .term]) := by decide

/-- every consumer terminates once the run has ended (full strength) -/
def C04_overlap_statement (cfg : StreamGate.Cfg) : Prop :=
  ∀ acts : List StreamGate.Act,
    let s := StreamGate.run cfg StreamGate.init acts
    s.termTaken = true → s.complete = true → quiescent s = true → allTerminated s = true

theorem C04_overlap_holds : C04_overlap_statement srcCfg := by
  intro acts s htt _ hq
  exact terminated_of_inv s (run_inv_flag srcCfg rfl rfl acts StreamGate.init inv_init) htt hq

/-- consumer 0 owns the stream, consumer 1 queues behind it; the run publishes its terminal item, consumer 0 takes
it and asks for more (its generator ends, the lock is released) before the run's task is done; consumer 1 gets the
lock; then the task finishes -/
def C04.overlapWitness : List StreamGate.Act :=
  [.arrive 0 none, .arrive 1 none, .publish .term, .take, .finish, .wake, .complete]

/-- non-vacuity: on the witness the current source refuses consumer 1 -/
example :
    let s := StreamGate.run srcCfg StreamGate.init C04.overlapWitness
    s.termTaken = true ∧ s.complete = true ∧ quiescent s = true ∧ s.done = [(1, .refused), (0, .ended)] := by decide

/-- the code before the repair: the guard sees "not done", consumer 1 waits on the empty queue, nothing wakes it -/
theorem C04_overlap_refuted_unrepaired : ¬ C04_overlap_statement { guardUnderLock := true, finishedFlag := false } := by
  intro h
  have := h C04.overlapWitness
  revert this
  decide

theorem C04_overlap_guarded_unrepaired (flag : Bool) (acts : List StreamGate.Act)
    (hg : noEntryInWindow { guardUnderLock := true, finishedFlag := flag } StreamGate.init acts = true) :
    let s := StreamGate.run { guardUnderLock := true, finishedFlag := flag } StreamGate.init acts
    s.termTaken = true → s.complete = true → quiescent s = true → allTerminated s = true := by
  intro s htt _ hq
  exact terminated_of_inv s (run_inv _ rfl acts StreamGate.init inv_init hg) htt hq

/-- non-vacuity: the owner holds the terminal item until the run's task is done; the two consumers behind it are
refused one after the other -/
example :
    let cfg : StreamGate.Cfg := { guardUnderLock := true, finishedFlag := false }
    let acts : List StreamGate.Act := [.arrive 0 none, .arrive 1 none, .arrive 2 (some 2), .publish (.note 1), .take,
                            .publish .term, .take, .complete, .finish, .wake, .wake]
    let s := StreamGate.run cfg StreamGate.init acts
    noEntryInWindow cfg StreamGate.init acts = true ∧ s.termTaken = true ∧ s.complete = true ∧
      quiescent s = true ∧ s.done = [(2, .refused), (1, .refused), (0, .ended)] := by decide

/-- the witness of `C04_overlap_refuted_unrepaired` is excluded by the guard of `C04_overlap_guarded_unrepaired` -/
example : noEntryInWindow { guardUnderLock := true, finishedFlag := false } StreamGate.init C04.overlapWitness = false := by
  decide

theorem C04_overlap_guard_position_matters (flag : Bool) :
    ∃ acts : List StreamGate.Act,
      let s := StreamGate.run { guardUnderLock := false, finishedFlag := flag } StreamGate.init acts
      noEntryInWindow { guardUnderLock := false, finishedFlag := flag } StreamGate.init acts = true ∧ s.termTaken = true ∧
        s.complete = true ∧ quiescent s = true ∧ allTerminated s = false :=
  ⟨[.arrive 0 none, .arrive 1 none, .publish .term, .take, .complete, .finish, .wake], by cases flag <;> decide⟩

end Overlap

/-! ## Step workers whose cancellation takes a while (`cleanup_tasks`)

Every ending stops the other step workers **before** the terminal event is published (`_process_tick` /
`run`: `await self.cleanup_tasks()` first).  Cancelling a task is only a request: a body with an asynchronous
teardown (`finally: await client.aclose()`), or one that catches the `CancelledError`, keeps running for a while and
may write to the stream when it is through.  `WfModel/WorkerCleanup.lean` models the rest of a cancelled body as any
list of segments (wait, reaction to a further cancellation: abort / skip / ignore, optional write) and the await of
`cleanup_tasks` as the current source has it (`WorkerCleanup.srcAwait`, `srcGrace`; re-extracted on every run):

* `C04_cleanup_source_shape` pins the extracted shape: every worker task is cancelled, then ONE await on them,
  `asyncio.wait_for(asyncio.gather(*self.worker_tasks, return_exceptions=True), timeout=0.5)` under `except Exception`,
  and the table is cleared only afterwards;
* the statement, `C04_cleanup_statement`: for every list of workers, when `cleanup_tasks` returns — the terminal event
  goes out next — no worker is still running and none writes later.  `C04_cleanup_holds`: a theorem of the current
  source, for all bodies (also ones deaf to cancellation: the method then returns late, `C04_cleanup_returns_with_last`),
  whatever the grace period (`C04_cleanup_any_grace`);
* with `asyncio.wait(self.worker_tasks, timeout=0.5)` in its place ("never raises") the statement is false
  (`C04_cleanup_refuted_wait_only`: one worker, a teardown of 1.25 s, then a write); what remains true then
  (`C04_cleanup_wait_only_partial`): only bodies that are through within the grace period on their own. -/

section Cleanup
open WorkerCleanup

theorem C04_cleanup_source_shape :
    GenWorkerCleanup.found = true ∧ GenWorkerCleanup.cancelsEvery = true ∧ GenWorkerCleanup.cancelBeforeAwait = true ∧
    GenWorkerCleanup.awaitCount = 1 ∧ GenWorkerCleanup.awaitShape = 1 ∧ GenWorkerCleanup.awaitGuarded = true ∧
    GenWorkerCleanup.clearAfterAwait = true ∧ GenWorkerCleanup.graceEighths = 4 ∧
    srcAwait = .waitForGather ∧ srcGrace = 4 := by decide

/-- whatever the cancelled bodies do: when `cleanup_tasks` returns nobody is still running and nobody writes later -/
def C04_cleanup_statement (a : Await) (grace : Nat) : Prop :=
  ∀ ws : List Prog, ∃ o, cleanup a grace ws = some o ∧ NoStraggler o

theorem C04_cleanup_any_grace (grace : Nat) : C04_cleanup_statement .waitForGather grace :=
  fun ws => waitForGather_noStraggler grace ws

theorem C04_cleanup_holds : C04_cleanup_statement srcAwait srcGrace := by
  have h : srcAwait = .waitForGather := by decide
  rw [h]
  exact C04_cleanup_any_grace srcGrace

/-- a teardown of 1.25 s that then writes, one cut short by the second cancellation that still writes, one deaf to
cancellation (the method waits for it: 2.5 s), one through in time -/
example : cleanup srcAwait srcGrace [slowTeardown, [⟨10, .skip, true⟩], [⟨20, .ignore, true⟩], [⟨2, .abort, true⟩]]
    = some ⟨20, [⟨4, []⟩, ⟨4, [4]⟩, ⟨20, [20]⟩, ⟨2, [2]⟩]⟩ := by decide

theorem C04_cleanup_returns_with_last (grace : Nat) (ws : List Prog) (o : Out)
    (h : cleanup .waitForGather grace ws = some o) : o.returned = maxList (o.workers.map (·.done)) :=
  waitForGather_returns_with_last grace ws o h

theorem C04_cleanup_refuted_wait_only : ¬ C04_cleanup_statement .waitOnly 4 := by
  intro h
  obtain ⟨o, ho, hn⟩ := h [slowTeardown]
  have h2 : cleanup .waitOnly 4 [slowTeardown] = some ⟨4, [⟨10, [10]⟩]⟩ := by decide
  rw [h2] at ho
  have := Option.some.inj ho
  subst this
  exact absurd hn (by decide)

theorem C04_cleanup_wait_only_partial (grace : Nat) (ws : List Prog)
    (hfast : ∀ p ∈ ws, (runProg p 0 none).done ≤ grace) :
    ∃ o, cleanup .waitOnly grace ws = some o ∧ NoStraggler o :=
  waitOnly_noStraggler_of_fast grace ws hfast

example : ∀ p ∈ [[(⟨2, .abort, true⟩ : Seg)], [⟨1, .skip, false⟩, ⟨2, .ignore, true⟩]], (runProg p 0 none).done ≤ 4 := by decide

end Cleanup
