import WfProofs.IterUtilsMergeThm
/-! Deadlock-freedom of the merge: its own next action is enabled unless it waits for the sources. -/
namespace IterUtils
open Merge

def slotDone (slots : List (Slot α)) (i : Nat) : Bool :=
  match slots[i]? with | some s => s.isDone | none => false

/-- the finished tasks, in index order (one possible iteration order of the `done` set) -/
def doneIdx (m : Merge α) : List Nat := (List.range m.slots.length).filter (slotDone m.slots)

theorem validOrder_doneIdx (m : Merge α) (i : Nat) (s : Slot α) (hs : m.slots[i]? = some s)
    (hd : s.isDone = true) : m.validOrder (doneIdx m) = true := by
  have hi : i < m.slots.length := (List.getElem?_eq_some_iff.mp hs).1
  have hmem : i ∈ doneIdx m := by
    simp only [doneIdx, List.mem_filter, List.mem_range]
    exact ⟨hi, by simp [slotDone, hs, hd]⟩
  simp only [Merge.validOrder, Bool.and_eq_true, Bool.not_eq_true', decide_eq_true_eq, List.all_eq_true]
  refine ⟨⟨⟨?_, ?_⟩, ?_⟩, ?_⟩
  · cases hl : doneIdx m with
    | nil => rw [hl] at hmem; simp at hmem
    | cons a as => rfl
  · exact List.Pairwise.filter _ List.nodup_range
  · intro j hj
    simp only [doneIdx, List.mem_filter, List.mem_range, slotDone] at hj
    exact hj.2
  · intro j hj
    simp only [List.mem_range] at hj
    cases hsj : m.slots[j]? with
    | none => rfl
    | some sj =>
      simp only [Bool.or_eq_true, Bool.not_eq_true', List.contains_iff_mem]
      cases hdj : sj.isDone with
      | false => exact Or.inl rfl
      | true =>
        right
        simp only [doneIdx, List.mem_filter, List.mem_range]
        exact ⟨hj, by simp [slotDone, hsj, hdj]⟩

theorem batch_enabled (m : Merge α) (hw : m.phase = .waiting) (order : List Nat)
    (hv : m.validOrder order = true) : (m.step (.batch order)).isSome = true := by
  simp only [Merge.step, hw, hv, if_true]
  split <;> rfl

theorem never_stuck {m : Merge α} (h : MInv m) :
    match m.phase with
    | .finished _ => True
    | .suspended _ _ => (m.step .resume).isSome = true
    | .waiting => ((∃ i : Nat, m.slots[i]? = some Slot.pending) ∧
          ∀ (i : Nat) (s : Slot α), m.slots[i]? = some s → s.hasTask = true → s = Slot.pending)
        ∨ (m.step (.batch (doneIdx m))).isSome = true := by
  cases hp : m.phase with
  | finished r => trivial
  | suspended i rest => simp [Merge.step, hp]
  | waiting =>
    simp only
    by_cases hall : ∀ (i : Nat) (s : Slot α), m.slots[i]? = some s → s.hasTask = true → s = Slot.pending
    · left
      refine ⟨?_, hall⟩
      obtain ⟨s, hs, ht⟩ := List.any_eq_true.mp (h.waitOk hp).2.2
      obtain ⟨i, hi⟩ := List.mem_iff_getElem?.mp hs
      exact ⟨i, by rw [hi, hall i s hi ht]⟩
    · right
      have : ∃ (i : Nat) (s : Slot α), m.slots[i]? = some s ∧ s.hasTask = true ∧ s ≠ Slot.pending := by
        apply Classical.byContradiction
        intro hn
        apply hall
        intro i s hs ht
        apply Classical.byContradiction
        intro hne
        exact hn ⟨i, s, hs, ht, hne⟩
      obtain ⟨i, s, hs, ht, hne⟩ := this
      have hd : s.isDone = true := by
        cases s <;> simp_all [Slot.hasTask, Slot.isDone]
      exact batch_enabled m hp _ (validOrder_doneIdx m i s hs hd)

/-- once an exception is pending, each `resume` hands out one more collected result or raises -/
theorem error_countdown (m : Merge α) (e : Nat) (i : Nat) (rest : List (Nat × α))
    (hx : m.exc = some e) (hp : m.phase = .suspended i rest) :
    ∃ m' em, m.step .resume = some (m', em) ∧ m'.exc = some e ∧
      ((rest = [] ∧ em = none ∧ m'.phase = .finished (some e)) ∨
       (∃ j v rest', rest = (j, v) :: rest' ∧ em = some (j, v) ∧ m'.phase = .suspended j rest')) := by
  simp only [Merge.step, hp]
  cases rest with
  | nil =>
    refine ⟨_, _, rfl, ?_, Or.inl ⟨rfl, ?_, ?_⟩⟩
    · simp only [loopTop, hx]; split <;> simp
    · simp
    · simp [loopTop, hx]
  | cons p rest' =>
    obtain ⟨j, v⟩ := p
    exact ⟨_, _, rfl, by simpa [yieldNext] using hx, Or.inr ⟨j, v, rest', rfl, by simp, by simp⟩⟩

end IterUtils
