import WfProofs.LifecycleSafe
/-!
M7 (A): schedules of a store whose calls never suspend.  With `MemoryWorkflowStore` / `SqliteWorkflowStore` an
`await store.…` inside a lock section returns without yielding to the event loop, so the store call and the
synchronous code after it run back to back: every `idle_since` access of a lock holder (`sClear`, `sRClear`,
`tQuery`) is immediately followed by the action that uses it (`sDeliver`, `tDecide`).  Such schedules are
window-free by construction.
-/
set_option linter.unusedVariables false
set_option linter.unusedSimpArgs false
namespace Lifecycle

/-- every window-opening action is immediately followed by its closing action -/
def coarse : List Act → Bool
  | [] => true
  | .sClear i :: .sDeliver i' :: rest => i == i' && coarse rest
  | .sRClear i :: .sDeliver i' :: rest => i == i' && coarse rest
  | .tQuery j :: .tDecide j' :: rest => j == j' && coarse rest
  | .sClear _ :: _ => false
  | .sRClear _ :: _ => false
  | .tQuery _ :: _ => false
  | _ :: rest => coarse rest

def Act.opensWindow : Act → Bool
  | .sClear _ | .sRClear _ | .tQuery _ => true
  | _ => false

theorem stepD_keeps_closed (s : S) (a : Act) (ha : a.opensWindow = false) (h : s.inWindow = false) :
    (stepD s a).inWindow = false := by
  rcases stepD_eq s a with e | e
  · rw [e]; exact h
  · generalize stepD s a = s' at e
    cases a
    all_goals (first | (simp [Act.opensWindow] at ha; done) | skip)
    all_goals destruct_step e
    all_goals (first | (simp_all [S.inWindow]; done) | (simp [S.inWindow]; done) | (cases hl : s.lock <;> simp_all [S.inWindow]; done) | skip)

theorem pair_sClear (s : S) (i : Nat) (h : s.inWindow = false) :
    (stepD (stepD s (.sClear i)) (.sDeliver i)).inWindow = false := by
  rcases stepD_eq s (.sClear i) with e | e
  · rw [e]; exact stepD_keeps_closed s _ rfl h
  · generalize stepD s (.sClear i) = s1 at e
    destruct_step e
    simp only [stepD, step, beq_self_eq_true, if_true]
    cases s.cur <;> simp [S.inWindow]

theorem pair_sRClear (s : S) (i : Nat) (h : s.inWindow = false) :
    (stepD (stepD s (.sRClear i)) (.sDeliver i)).inWindow = false := by
  rcases stepD_eq s (.sRClear i) with e | e
  · rw [e]; exact stepD_keeps_closed s _ rfl h
  · generalize stepD s (.sRClear i) = s1 at e
    destruct_step e
    simp only [stepD, step, beq_self_eq_true, if_true]
    cases s.cur <;> simp [S.inWindow]

theorem pair_tQuery (s : S) (j : Nat) (h : s.inWindow = false) :
    (stepD (stepD s (.tQuery j)) (.tDecide j)).inWindow = false := by
  rcases stepD_eq s (.tQuery j) with e | e
  · rw [e]; exact stepD_keeps_closed s _ rfl h
  · generalize stepD s (.tQuery j) = s1 at e
    destruct_step e
    simp only [stepD, step, if_true]
    cases s.idleSince with
    | none => simp [S.inWindow]
    | some t0 =>
      simp only
      split
      · simp [S.inWindow]
      · split
        · simp [S.inWindow]
        · simp [S.inWindow]

/-- a schedule of a non-suspending store is window-free, from any state outside a window -/
theorem coarse_windowFree (acts : List Act) (s : S) (hc : coarse acts = true) (h : s.inWindow = false) :
    Along windowFreeAt s acts := by
  induction acts using coarse.induct generalizing s with
  | case1 => simp [Along, alongB]
  | case2 i i' rest ih =>
    simp only [coarse, Bool.and_eq_true, beq_iff_eq] at hc
    obtain ⟨rfl, hc⟩ := hc
    rw [along_cons, along_cons]
    exact ⟨rfl, rfl, ih _ hc (pair_sClear s i h)⟩
  | case3 i i' rest ih =>
    simp only [coarse, Bool.and_eq_true, beq_iff_eq] at hc
    obtain ⟨rfl, hc⟩ := hc
    rw [along_cons, along_cons]
    exact ⟨rfl, rfl, ih _ hc (pair_sRClear s i h)⟩
  | case4 j j' rest ih =>
    simp only [coarse, Bool.and_eq_true, beq_iff_eq] at hc
    obtain ⟨rfl, hc⟩ := hc
    rw [along_cons, along_cons]
    exact ⟨rfl, rfl, ih _ hc (pair_tQuery s j h)⟩
  | case5 => simp [coarse] at hc
  | case6 => simp [coarse] at hc
  | case7 => simp [coarse] at hc
  | case8 a rest h1 h2 h3 n1 n2 n3 ih =>
    have hop : a.opensWindow = false := by
      cases a <;> simp [Act.opensWindow]
      · exact n1 _ rfl
      · exact n2 _ rfl
      · exact n3 _ rfl
    have hc' : coarse rest = true := by
      cases a <;> first | (simpa [coarse] using hc) | (simp [Act.opensWindow] at hop)
    rw [along_cons]
    refine ⟨?_, ih _ hc' (stepD_keeps_closed s a hop h)⟩
    cases a <;> simp [windowFreeAt, h]

/-- **stock stores**: for schedules of a store whose calls never suspend, truthful idle announcements alone
guarantee that nothing is lost, every release finds the run quiet, and no release is early -/
theorem coarse_safe (tau : Nat) (acts : List Act) (hc : coarse acts = true) (hIdle : Along idleSoundAt (init tau) acts) :
    Safe (run (init tau) acts) :=
  Safe.run acts (init tau) (Safe.init tau) (Inv.init tau) hIdle
    (coarse_windowFree acts (init tau) hc (by simp [Lifecycle.init, S.inWindow]))

end Lifecycle
