import WfModel.CliConfig
import WfModel.CliConfigHeld
import Driver.Util
open CliConfig Drv

/-! Line protocol for model M16 (`wfdriver cliconfig`).

Input, one op per line, fields separated by `|`; every string is a comma-separated list of
code points (empty field = empty string); optional strings use `~` for `None`:

    env-add|URL|0/1|MINVER?      env-upsert|URL|0/1|MINVER?     env-switch|URL     env-del|URL     probe|0/1|MINVER?
    create-token|PROJECT|KEY?    create-oidc|PROJECT|UID|EMAIL|TOK
    select|NAME   select-any     delete|NAME   set-project|NAME|PROJECT
    update-key|NAME|KEY?|KEYID?  destroy      reset (harness only: back to a fresh database)
    refresh|PID|UID|TOK          held|URL|<any op line above> (the op through an AuthService bound to URL)

Output: `RESULT;cur=URL:ra;ptr=NAME?;active=PID?;pick=NAME@URL?;envs=…;profiles=…` with strings
as `.`-joined code points, tables sorted (environments by url, profiles by pid). -/
namespace Drv.CliConfig

def parseStr? (s : String) : Option String := (parseChars? s).map String.ofList

def parseOpt? (s : String) : Option (Option String) :=
  if s == "~" then some none else (parseStr? s).map some

def enc (s : String) : String := ".".intercalate (s.toList.map (toString ·.toNat))

def encOpt : Option String → String
  | none => "~"
  | some s => enc s

def encBool (b : Bool) : String := if b then "1" else "0"

def parseOp? (line : String) : Option Op :=
  match line.splitOn "|" with
  | ["env-add", u, ra, mv] => do some (.envAdd (← parseStr? u) (← parseBool? ra) (← parseOpt? mv))
  | ["env-upsert", u, ra, mv] => do some (.envUpsert (← parseStr? u) (← parseBool? ra) (← parseOpt? mv))
  | ["env-switch", u] => do some (.envSwitch (← parseStr? u))
  | ["env-del", u] => do some (.envDelete (← parseStr? u))
  | ["create-token", p, k] => do some (.createToken (← parseStr? p) (← parseOpt? k))
  | ["create-oidc", p, uid, em, tok] => do some (.createOidc (← parseStr? p) (← parseStr? uid) (← parseStr? em) (← parseStr? tok))
  | ["select", n] => do some (.select (← parseStr? n))
  | ["select-any"] => some .selectAny
  | ["delete", n] => do some (.deleteProfile (← parseStr? n))
  | ["set-project", n, p] => do some (.setProject (← parseStr? n) (← parseStr? p))
  | ["update-key", n, k, kid] => do some (.updateKey (← parseStr? n) (← parseOpt? k) (← parseOpt? kid))
  | ["destroy"] => some .destroy
  | ["probe", ra, mv] => do some (.probe (← parseBool? ra) (← parseOpt? mv))
  | ["refresh", pid, uid, tok] => do some (.refresh (← parseNat? pid) (← parseStr? uid) (← parseStr? tok))
  | _ => none

def showRes : Res → String
  | .ok => "ok"
  | .profile pid n => s!"profile {pid} {enc n}"
  | .bool b => if b then "true" else "false"
  | .noProfile => "no-profile"
  | .errEnvNotFound => "err-env-not-found"
  | .errExists => "err-exists"
  | .errBlankProject => "err-blank-project"

def showEnv (r : EnvRow) : String := s!"{enc r.url}:{encBool r.requiresAuth}:{encOpt r.minVer}"

def showProfile (p : Profile) : String :=
  let o := match p.oidc with
    | none => "~"
    | some o => s!"{enc o.uid}/{enc o.tok}"
  s!"{p.pid}:{enc p.name}:{enc p.env}:{enc p.project}:{encOpt p.apiKey}:{encOpt p.apiKeyId}:{o}"

/-- `list_environments()`: rows `ORDER BY api_url`, or the built-in default when the table is empty. -/
def listEnvs (c : Cfg) (s : State) : List EnvRow :=
  if s.envs.isEmpty then [⟨c.defaultUrl, c.defaultRequiresAuth, none⟩]
  else s.envs.mergeSort (fun a b => !decide (b.url < a.url))

def showState (c : Cfg) (s : State) : String :=
  let cur := currentEnvironment c s
  let act := match active s with
    | none => "~"
    | some p => toString p.pid
  let pick := match s.pick with
    | none => "~"
    | some (n, e) => s!"{enc n}@{enc e}"
  let envs := ",".intercalate ((listEnvs c s).map showEnv)
  let profs := ",".intercalate ((s.profiles.mergeSort (fun a b => decide (a.pid ≤ b.pid))).map showProfile)
  s!"cur={enc cur.url}:{encBool cur.requiresAuth};ptr={encOpt s.curProf};active={act};pick={pick};envs={envs};profiles={profs}"

def step (s : State) (line : String) : State × String :=
  if line == "reset" then (init srcCfg, "reset") else
  match line.splitOn "|" with
  | "held" :: u :: rest =>
    match parseStr? u, parseOp? ("|".intercalate rest) with
    | some e, some op =>
      let (s', r) := stepHeld srcCfg s e op
      (s', showRes r ++ ";" ++ showState srcCfg s')
    | _, _ => (s, "bad-op")
  | _ =>
  match parseOp? line with
  | none => (s, "bad-op")
  | some op =>
    let (s', r) := _root_.CliConfig.step srcCfg s op
    (s', showRes r ++ ";" ++ showState srcCfg s')

end Drv.CliConfig
