import WfModel.Handlers
import Driver.Engine
open Handlers Drv.Engine
namespace Drv.Handlers

def decl : P Decl := do
  let name ← nat
  let fs ← opt (counted nat)
  let m ← nat
  pure { name, forSteps := fs, maxRec := m }

def sErr : LayoutErr → String
  | .wildcards n => s!"W{n}"
  | .unknown h t => s!"U{h}:{t}"
  | .coversHandler h t => s!"C{h}:{t}"
  | .claimedTwice t o h => s!"D{t}:{o}:{h}"

def step (_ : Unit) (line : String) : Unit × String :=
  match tokens line with
  | "E" :: ts =>
    -- the messages of validate_catch_error_handlers for the layout, classified, in order (`none`: no message)
    match (do let steps ← counted nat; let hs ← counted decl; pure (steps, hs)) ts with
    | some ((steps, hs), []) =>
      let es := errors steps hs
      ((), if es.isEmpty then "none" else " ".intercalate (es.map sErr))
    | _ => ((), "bad-op")
  | "H" :: ts =>
    match (do let steps ← counted nat; let hs ← counted decl; pure (steps, hs)) ts with
    | some ((steps, hs), []) =>
      if !valid steps hs then ((), "invalid")
      else ((), " ".intercalate (steps.map fun s => s!"{s}:{sOptNat (handlerFor steps hs s)}"))
    | _ => ((), "bad-op")
  | _ => ((), "bad-op")

end Drv.Handlers
