import WfModel.CollectConc
import WfProofs.ContextCollect
/-!
Invariant of the concurrent collect histories (`WfModel/CollectConc.lean`) over every schedule.
-/
set_option linter.unusedVariables false
namespace Engine

/-- an event of a type of which the pool holds no more than expected is always taken -/
theorem c09_takeInOrder_mem_of_count_le : ∀ (expected : List Nat) (pool : List Ev) (x : Ev),
    x ∈ pool → (pool.map (·.ty)).count x.ty ≤ expected.count x.ty → x ∈ takeInOrder expected pool
  | [], pool, x, hx, hc => by
    have : 0 < (pool.map (·.ty)).count x.ty := List.count_pos_iff.mpr (List.mem_map.mpr ⟨x, hx, rfl⟩)
    simp at hc; omega
  | t :: ts, pool, x, hx, hc => by
    unfold takeInOrder
    cases hf : pool.find? (fun e => e.ty == t) with
    | none =>
      have hne : t ≠ x.ty := by
        intro h
        have := List.find?_eq_none.mp hf x hx
        simp [h] at this
      have hc' : (pool.map (·.ty)).count x.ty ≤ ts.count x.ty := by
        simp only [List.count_cons, beq_iff_eq] at hc
        rw [if_neg hne] at hc; omega
      simpa using c09_takeInOrder_mem_of_count_le ts pool x hx hc'
    | some e =>
      have hmem : e ∈ pool := List.mem_of_find?_eq_some hf
      have hty : e.ty = t := by have := List.find?_some hf; simpa using this
      by_cases hex : x = e
      · subst hex; simp
      · have hx' : x ∈ pool.erase e := (List.mem_erase_of_ne hex).mpr hx
        have h2 := count_map_erase hmem x.ty
        have hc' : ((pool.erase e).map (·.ty)).count x.ty ≤ ts.count x.ty := by
          simp only [List.count_cons, beq_iff_eq] at hc
          rw [hty] at h2
          by_cases htx : t = x.ty
          · rw [if_pos htx] at hc h2; omega
          · rw [if_neg htx] at hc h2; omega
        simp only [List.mem_cons]
        exact Or.inr (c09_takeInOrder_mem_of_count_le ts _ x hx' hc')

/-- whatever the snapshot holds (no buffer invariant): a returned list is ordered as `expected`, consists of
snapshot events and the incoming event, and contains the incoming event -/
theorem c09_complete_facts (expected : List Nat) (buf : Nat) (collected : List Ev) (ev : Ev) (evs : List Ev)
    (h : collectEvents expected buf collected ev = .complete evs) :
    ev ∈ evs ∧ (∀ x ∈ evs, x ∈ collected ∨ x = ev) ∧
      expected.count ev.ty = (collected.map (·.ty)).count ev.ty + 1 ∧
      ∀ t, t ≠ ev.ty → expected.count t ≤ (collected.map (·.ty)).count t := by
  unfold collectEvents at h
  split at h
  · cases h
  · split at h
    · split at h <;> cases h
    · rename_i hom
      injection h with h; subst h
      have hom' : onlyMissing expected collected ev.ty = true := by simpa using hom
      obtain ⟨h1, h2⟩ := (onlyMissing_iff _ _ _).mp hom'
      refine ⟨?_, ?_, by omega, ?_⟩
      · apply c09_takeInOrder_mem_of_count_le
        · simp
        · rw [count_snoc, if_pos rfl]; omega
      · intro x hx
        have := takeInOrder_subset _ _ x hx
        simpa using this
      · intro t ht
        by_cases hmem : t ∈ expected
        · have := h2 t hmem ht; omega
        · have : expected.count t = 0 := List.count_eq_zero_of_not_mem hmem
          omega

theorem c09_complete_types (expected : List Nat) (buf : Nat) (collected : List Ev) (ev : Ev)
    (evs : List Ev) (h : collectEvents expected buf collected ev = .complete evs) :
    evs.map (·.ty) = expected := by
  unfold collectEvents at h
  split at h
  · cases h
  · split at h
    · split at h <;> cases h
    · rename_i hom
      injection h with h; subst h
      have hom' : onlyMissing expected collected ev.ty = true := by simpa using hom
      obtain ⟨h1, h2⟩ := (onlyMissing_iff _ _ _).mp hom'
      apply takeInOrder_types
      intro t
      rw [count_snoc]
      by_cases hty : ev.ty = t
      · subst hty; rw [if_pos rfl]; omega
      · rw [if_neg hty]
        by_cases hmem : t ∈ expected
        · have := h2 t hmem (fun h => hty h.symm); omega
        · have : expected.count t = 0 := List.count_eq_zero_of_not_mem hmem
          omega

theorem c09_mem_modifyFirst_cases {α : Type} (p : α → Bool) (f : α → α) (x : α) :
    ∀ (l : List α), x ∈ modifyFirst p f l → x ∈ l ∨ ∃ y ∈ l, p y = true ∧ x = f y
  | [], h => by simp [modifyFirst] at h
  | y :: ys, h => by
    unfold modifyFirst at h
    by_cases hy : p y = true
    · simp only [hy, if_true] at h
      rcases List.mem_cons.mp h with rfl | h'
      · exact Or.inr ⟨y, List.mem_cons_self, hy, rfl⟩
      · exact Or.inl (List.mem_cons_of_mem _ h')
    · simp only [hy, Bool.false_eq_true, if_false] at h
      rcases List.mem_cons.mp h with rfl | h'
      · exact Or.inl List.mem_cons_self
      · rcases c09_mem_modifyFirst_cases p f x ys h' with h1 | ⟨z, hz, hpz, hxz⟩
        · exact Or.inl (List.mem_cons_of_mem _ h1)
        · exact Or.inr ⟨z, List.mem_cons_of_mem _ hz, hpz, hxz⟩

theorem c09_map_modifyFirst {α β : Type} (p : α → Bool) (f : α → α) (g : α → β) (hg : ∀ a, g (f a) = g a) :
    ∀ (l : List α), (modifyFirst p f l).map g = l.map g
  | [] => rfl
  | y :: ys => by
    unfold modifyFirst
    by_cases hy : p y = true
    · simp [hy, hg]
    · simp [hy, c09_map_modifyFirst p f g hg ys]

/-- the invariant of every schedule in which no event is admitted twice (`started`: the events admitted so far) -/
structure C09CInv (expected : List Nat) (started : List Ev) (h : C09Conc) : Prop where
  pendNodup : (h.flights.map (·.ev)).Nodup
  pendBuf : ∀ f ∈ h.flights, f.ev ∉ h.buffer
  pendSnap : ∀ f ∈ h.flights, ∀ g ∈ h.flights, f.ev ∉ g.snap
  pendRet : ∀ f ∈ h.flights, ∀ p ∈ h.returned, f.ev ∉ p.2
  pendDrop : ∀ f ∈ h.flights, f.ev ∉ h.dropped
  bufNodup : h.buffer.Nodup
  dropNodup : h.dropped.Nodup
  bufDrop : ∀ e ∈ h.buffer, e ∉ h.dropped
  subPend : ∀ f ∈ h.flights, f.ev ∈ started
  subBuf : ∀ e ∈ h.buffer, e ∈ started
  subSnap : ∀ f ∈ h.flights, ∀ e ∈ f.snap, e ∈ started
  subRet : ∀ p ∈ h.returned, ∀ e ∈ p.2, e ∈ started
  subDrop : ∀ e ∈ h.dropped, e ∈ started
  retOrdered : ∀ p ∈ h.returned, p.2.map (·.ty) = expected
  trigIn : ∀ p ∈ h.returned, p.1 ∈ p.2
  trigBuf : ∀ p ∈ h.returned, p.1 ∉ h.buffer
  trigSnap : ∀ p ∈ h.returned, ∀ g ∈ h.flights, p.1 ∉ g.snap
  trigDrop : ∀ p ∈ h.returned, p.1 ∉ h.dropped
  trigOnly : ∀ p ∈ h.returned, ∀ q ∈ h.returned, p.1 ∈ q.2 → q.1 = p.1
  trigNodup : (h.returned.map (·.1)).Nodup

theorem c09_cinv_init (expected : List Nat) : C09CInv expected [] {} := by
  constructor <;> simp

theorem c09_cinv_mono (expected : List Nat) (s s' : List Ev) (h : C09Conc) (hs : ∀ e ∈ s, e ∈ s')
    (hi : C09CInv expected s h) : C09CInv expected s' h :=
  { hi with
    subPend := fun f hf => hs _ (hi.subPend f hf)
    subBuf := fun e he => hs _ (hi.subBuf e he)
    subSnap := fun f hf e he => hs _ (hi.subSnap f hf e he)
    subRet := fun p hp e he => hs _ (hi.subRet p hp e he)
    subDrop := fun e he => hs _ (hi.subDrop e he) }

theorem c09_cinv_start (expected : List Nat) (s : List Ev) (h : C09Conc) (ev : Ev) (hnew : ev ∉ s)
    (hi : C09CInv expected s h) : C09CInv expected (s ++ [ev]) (c09ConcStep expected h (.start ev)) := by
  have hi' := c09_cinv_mono expected s (s ++ [ev]) h (fun e he => List.mem_append_left _ he) hi
  have hnp : ∀ f ∈ h.flights, f.ev ≠ ev := fun f hf he => hnew (he ▸ hi.subPend f hf)
  have hnb : ev ∉ h.buffer := fun hb => hnew (hi.subBuf _ hb)
  have hns : ∀ g ∈ h.flights, ev ∉ g.snap := fun g hg he => hnew (hi.subSnap g hg _ he)
  have hnr : ∀ p ∈ h.returned, ev ∉ p.2 := fun p hp he => hnew (hi.subRet p hp _ he)
  have hnd : ev ∉ h.dropped := fun hd => hnew (hi.subDrop _ hd)
  simp only [c09ConcStep]
  constructor
  · simp only [List.map_append, List.map_cons, List.map_nil]
    refine List.nodup_append.mpr ⟨hi.pendNodup, by simp, ?_⟩
    intro a ha b hb
    simp only [List.mem_singleton] at hb
    subst hb
    obtain ⟨f, hf, rfl⟩ := List.mem_map.mp ha
    exact hnp f hf
  · intro f hf
    rcases List.mem_append.mp hf with hf | hf
    · exact hi.pendBuf f hf
    · simp only [List.mem_singleton] at hf; subst hf; exact hnb
  · intro f hf g hg
    rcases List.mem_append.mp hf with hf | hf <;> rcases List.mem_append.mp hg with hg | hg
    · exact hi.pendSnap f hf g hg
    · simp only [List.mem_singleton] at hg; subst hg; exact hi.pendBuf f hf
    · simp only [List.mem_singleton] at hf; subst hf; exact hns g hg
    · simp only [List.mem_singleton] at hf hg; subst hf; subst hg; exact hnb
  · intro f hf p hp
    rcases List.mem_append.mp hf with hf | hf
    · exact hi.pendRet f hf p hp
    · simp only [List.mem_singleton] at hf; subst hf; exact hnr p hp
  · intro f hf
    rcases List.mem_append.mp hf with hf | hf
    · exact hi.pendDrop f hf
    · simp only [List.mem_singleton] at hf; subst hf; exact hnd
  · exact hi.bufNodup
  · exact hi.dropNodup
  · exact hi.bufDrop
  · intro f hf
    rcases List.mem_append.mp hf with hf | hf
    · exact hi'.subPend f hf
    · simp only [List.mem_singleton] at hf; subst hf; simp
  · exact hi'.subBuf
  · intro f hf e he
    rcases List.mem_append.mp hf with hf | hf
    · exact hi'.subSnap f hf e he
    · simp only [List.mem_singleton] at hf; subst hf; exact hi'.subBuf e he
  · exact hi'.subRet
  · exact hi'.subDrop
  · exact hi.retOrdered
  · exact hi.trigIn
  · exact hi.trigBuf
  · intro p hp g hg
    rcases List.mem_append.mp hg with hg | hg
    · exact hi.trigSnap p hp g hg
    · simp only [List.mem_singleton] at hg; subst hg; exact hi.trigBuf p hp
  · exact hi.trigDrop
  · exact hi.trigOnly
  · exact hi.trigNodup

theorem c09_eraseP_ev : ∀ (l : List C09Flight) (e : Ev), (l.map (·.ev)).Nodup →
    ∀ g ∈ l.eraseP (fun g => g.ev == e), g ∈ l ∧ g.ev ≠ e
  | [], e, _, g, hg => by simp at hg
  | y :: ys, e, hnd, g, hg => by
    have hnd' : y.ev ∉ ys.map (·.ev) ∧ (ys.map (·.ev)).Nodup := List.nodup_cons.mp hnd
    by_cases hy : y.ev = e
    · have : (y :: ys).eraseP (fun g => g.ev == e) = ys := by simp [List.eraseP_cons, hy]
      rw [this] at hg
      refine ⟨List.mem_cons_of_mem _ hg, fun hge => hnd'.1 ?_⟩
      rw [hy, ← hge]; exact List.mem_map.mpr ⟨g, hg, rfl⟩
    · have : (y :: ys).eraseP (fun g => g.ev == e) = y :: ys.eraseP (fun g => g.ev == e) := by
        simp [List.eraseP_cons, hy]
      rw [this] at hg
      rcases List.mem_cons.mp hg with rfl | hg'
      · exact ⟨List.mem_cons_self, hy⟩
      · have := c09_eraseP_ev ys e hnd'.2 g hg'
        exact ⟨List.mem_cons_of_mem _ this.1, this.2⟩

/-- fewer invocations in flight: everything is kept -/
theorem c09_cinv_flights_sub (expected : List Nat) (s : List Ev) (h : C09Conc) (fl : List C09Flight)
    (hsub : ∀ g ∈ fl, g ∈ h.flights) (hnd : (fl.map (·.ev)).Nodup) (hi : C09CInv expected s h) :
    C09CInv expected s { h with flights := fl } :=
  { hi with
    pendNodup := hnd
    pendBuf := fun f hf => hi.pendBuf f (hsub f hf)
    pendSnap := fun f hf g hg => hi.pendSnap f (hsub f hf) g (hsub g hg)
    pendRet := fun f hf => hi.pendRet f (hsub f hf)
    pendDrop := fun f hf => hi.pendDrop f (hsub f hf)
    subPend := fun f hf => hi.subPend f (hsub f hf)
    subSnap := fun f hf => hi.subSnap f (hsub f hf)
    trigSnap := fun p hp g hg => hi.trigSnap p hp g (hsub g hg) }

/-- what is known of the event `e` of an invocation that has just left its slot -/
structure C09Left (s : List Ev) (h : C09Conc) (e : Ev) : Prop where
  pend : ∀ g ∈ h.flights, g.ev ≠ e
  buf : e ∉ h.buffer
  snap : ∀ g ∈ h.flights, e ∉ g.snap
  ret : ∀ p ∈ h.returned, e ∉ p.2
  drop : e ∉ h.dropped
  inS : e ∈ s

theorem c09_left_ne_trig {s : List Ev} {h : C09Conc} {e : Ev} {expected : List Nat} (hi : C09CInv expected s h)
    (hl : C09Left s h e) : ∀ p ∈ h.returned, p.1 ≠ e :=
  fun p hp he => hl.ret p hp (he ▸ hi.trigIn p hp)

theorem c09_cinv_add (expected : List Nat) (s : List Ev) (h : C09Conc) (e : Ev) (hi : C09CInv expected s h)
    (hl : C09Left s h e) : C09CInv expected s { h with buffer := h.buffer ++ [e] } :=
  { hi with
    pendBuf := fun f hf hm => by
      rcases List.mem_append.mp hm with hm | hm
      · exact hi.pendBuf f hf hm
      · exact hl.pend f hf (by simpa using hm)
    bufNodup := List.nodup_append.mpr ⟨hi.bufNodup, by simp, fun a ha b hb => by
      simp only [List.mem_singleton] at hb; subst hb; intro hab; subst hab; exact hl.buf ha⟩
    bufDrop := fun x hx => by
      rcases List.mem_append.mp hx with hx | hx
      · exact hi.bufDrop x hx
      · simp only [List.mem_singleton] at hx; subst hx; exact hl.drop
    subBuf := fun x hx => by
      rcases List.mem_append.mp hx with hx | hx
      · exact hi.subBuf x hx
      · simp only [List.mem_singleton] at hx; subst hx; exact hl.inS
    trigBuf := fun p hp hm => by
      rcases List.mem_append.mp hm with hm | hm
      · exact hi.trigBuf p hp hm
      · exact c09_left_ne_trig hi hl p hp (by simpa using hm) }

theorem c09_cinv_drop (expected : List Nat) (s : List Ev) (h : C09Conc) (e : Ev) (hi : C09CInv expected s h)
    (hl : C09Left s h e) : C09CInv expected s { h with dropped := h.dropped ++ [e] } :=
  { hi with
    pendDrop := fun f hf hm => by
      rcases List.mem_append.mp hm with hm | hm
      · exact hi.pendDrop f hf hm
      · exact hl.pend f hf (by simpa using hm)
    dropNodup := List.nodup_append.mpr ⟨hi.dropNodup, by simp, fun a ha b hb => by
      simp only [List.mem_singleton] at hb; subst hb; intro hab; subst hab; exact hl.drop ha⟩
    bufDrop := fun x hx hm => by
      rcases List.mem_append.mp hm with hm | hm
      · exact hi.bufDrop x hx hm
      · simp only [List.mem_singleton] at hm; subst hm; exact hl.buf hx
    subDrop := fun x hx => by
      rcases List.mem_append.mp hx with hx | hx
      · exact hi.subDrop x hx
      · simp only [List.mem_singleton] at hx; subst hx; exact hl.inS
    trigDrop := fun p hp hm => by
      rcases List.mem_append.mp hm with hm | hm
      · exact hi.trigDrop p hp hm
      · exact c09_left_ne_trig hi hl p hp (by simpa using hm) }

/-- a completed collection: the live buffer is popped, the list is recorded.  `snap`: the snapshot the list was
built from — its events were admitted, are not in flight and triggered no returned list -/
theorem c09_cinv_complete (expected : List Nat) (s : List Ev) (h : C09Conc) (e : Ev) (evs snap : List Ev)
    (hi : C09CInv expected s h) (hl : C09Left s h e)
    (hin : e ∈ evs) (hsub : ∀ x ∈ evs, x ∈ snap ∨ x = e) (hord : evs.map (·.ty) = expected)
    (hsS : ∀ x ∈ snap, x ∈ s) (hsP : ∀ x ∈ snap, ∀ g ∈ h.flights, g.ev ≠ x)
    (hsT : ∀ x ∈ snap, ∀ p ∈ h.returned, p.1 ≠ x) :
    C09CInv expected s { h with buffer := [], returned := h.returned ++ [(e, evs)] } :=
  { hi with
    pendBuf := fun f hf => by simp
    pendRet := fun f hf p hp hm => by
      rcases List.mem_append.mp hp with hp | hp
      · exact hi.pendRet f hf p hp hm
      · simp only [List.mem_singleton] at hp; subst hp
        rcases hsub _ hm with hx | hx
        · exact hsP _ hx f hf rfl
        · exact hl.pend f hf hx
    bufNodup := by simp
    bufDrop := fun x hx => by simp at hx
    subBuf := fun x hx => by simp at hx
    subRet := fun p hp x hx => by
      rcases List.mem_append.mp hp with hp | hp
      · exact hi.subRet p hp x hx
      · simp only [List.mem_singleton] at hp; subst hp
        rcases hsub _ hx with hx | hx
        · exact hsS _ hx
        · subst hx; exact hl.inS
    retOrdered := fun p hp => by
      rcases List.mem_append.mp hp with hp | hp
      · exact hi.retOrdered p hp
      · simp only [List.mem_singleton] at hp; subst hp; exact hord
    trigIn := fun p hp => by
      rcases List.mem_append.mp hp with hp | hp
      · exact hi.trigIn p hp
      · simp only [List.mem_singleton] at hp; subst hp; exact hin
    trigBuf := fun p hp => by simp
    trigSnap := fun p hp g hg => by
      rcases List.mem_append.mp hp with hp | hp
      · exact hi.trigSnap p hp g hg
      · simp only [List.mem_singleton] at hp; subst hp; exact hl.snap g hg
    trigDrop := fun p hp => by
      rcases List.mem_append.mp hp with hp | hp
      · exact hi.trigDrop p hp
      · simp only [List.mem_singleton] at hp; subst hp; exact hl.drop
    trigOnly := fun p hp q hq hm => by
      rcases List.mem_append.mp hp with hp | hp <;> rcases List.mem_append.mp hq with hq | hq
      · exact hi.trigOnly p hp q hq hm
      · simp only [List.mem_singleton] at hq; subst hq
        rcases hsub _ hm with hx | hx
        · exact absurd rfl (hsT _ hx p hp)
        · exact hx.symm
      · simp only [List.mem_singleton] at hp; subst hp
        exact absurd hm (hl.ret q hq)
      · simp only [List.mem_singleton] at hp hq; subst hp; subst hq; rfl
    trigNodup := by
      simp only [List.map_append, List.map_cons, List.map_nil]
      refine List.nodup_append.mpr ⟨hi.trigNodup, by simp, ?_⟩
      intro a ha b hb
      simp only [List.mem_singleton] at hb; subst hb
      obtain ⟨p, hp, rfl⟩ := List.mem_map.mp ha
      exact c09_left_ne_trig hi hl p hp }


/-- a re-run: the invocation stays in its slot, its snapshot becomes a copy of the live buffer -/
theorem c09_cinv_rerun (expected : List Nat) (s : List Ev) (h : C09Conc) (e : Ev) (hi : C09CInv expected s h) :
    C09CInv expected s
      { h with flights := modifyFirst (fun g => g.ev == e) (fun g => { g with snap := h.buffer }) h.flights } := by
  have hm : ∀ g' ∈ modifyFirst (fun g => g.ev == e) (fun g => { g with snap := h.buffer }) h.flights,
      ∃ y ∈ h.flights, g'.ev = y.ev ∧ (g'.snap = y.snap ∨ g'.snap = h.buffer) := by
    intro g' hg'
    rcases c09_mem_modifyFirst_cases _ _ _ _ hg' with h1 | ⟨y, hy, _, hxy⟩
    · exact ⟨g', h1, rfl, Or.inl rfl⟩
    · exact ⟨y, hy, by rw [hxy], Or.inr (by rw [hxy])⟩
  exact
  { hi with
    pendNodup := by
      show (List.map (·.ev) (modifyFirst (fun g => g.ev == e) (fun g => { g with snap := h.buffer }) h.flights)).Nodup
      rw [c09_map_modifyFirst (fun g => g.ev == e) (fun g : C09Flight => { g with snap := h.buffer }) (·.ev) (fun a => rfl)]
      exact hi.pendNodup
    pendBuf := fun f hf => by
      obtain ⟨y, hy, he, _⟩ := hm f hf
      rw [he]; exact hi.pendBuf y hy
    pendSnap := fun f hf g hg => by
      obtain ⟨y, hy, he, _⟩ := hm f hf
      obtain ⟨z, hz, _, hs⟩ := hm g hg
      rw [he]
      rcases hs with hs | hs <;> rw [hs]
      · exact hi.pendSnap y hy z hz
      · exact hi.pendBuf y hy
    pendRet := fun f hf => by
      obtain ⟨y, hy, he, _⟩ := hm f hf
      rw [he]; exact hi.pendRet y hy
    pendDrop := fun f hf => by
      obtain ⟨y, hy, he, _⟩ := hm f hf
      rw [he]; exact hi.pendDrop y hy
    subPend := fun f hf => by
      obtain ⟨y, hy, he, _⟩ := hm f hf
      rw [he]; exact hi.subPend y hy
    subSnap := fun f hf => by
      obtain ⟨y, hy, _, hs⟩ := hm f hf
      rcases hs with hs | hs <;> rw [hs]
      · exact hi.subSnap y hy
      · exact hi.subBuf
    trigSnap := fun p hp g hg => by
      obtain ⟨y, hy, _, hs⟩ := hm g hg
      rcases hs with hs | hs <;> rw [hs]
      · exact hi.trigSnap p hp y hy
      · exact hi.trigBuf p hp }

theorem c09_cinv_finish (expected : List Nat) (s : List Ev) (h : C09Conc) (f : C09Flight) (hf : f ∈ h.flights)
    (hi : C09CInv expected s h) : C09CInv expected s (c09Finish expected h f) := by
  have hrest := c09_eraseP_ev h.flights f.ev hi.pendNodup
  have hndr : ((h.flights.eraseP (fun g => g.ev == f.ev)).map (·.ev)).Nodup :=
    hi.pendNodup.sublist ((List.eraseP_sublist (l := h.flights)).map _)
  have hi1 := c09_cinv_flights_sub expected s h _ (fun g hg => (hrest g hg).1) hndr hi
  have hl : C09Left s { h with flights := h.flights.eraseP (fun g => g.ev == f.ev) } f.ev :=
    { pend := fun g hg => (hrest g hg).2
      buf := hi.pendBuf f hf
      snap := fun g hg => hi.pendSnap f hf g (hrest g hg).1
      ret := hi.pendRet f hf
      drop := hi.pendDrop f hf
      inS := hi.subPend f hf }
  unfold c09Finish
  split
  · rename_i evs hc
    obtain ⟨hin, hsub, _, _⟩ := c09_complete_facts expected 0 f.snap f.ev evs hc
    have hord : evs.map (·.ty) = expected := by
      have := c09_complete_types expected 0 f.snap f.ev evs hc
      exact this
    exact c09_cinv_complete expected s _ f.ev evs f.snap hi1 hl hin hsub hord (hi.subSnap f hf)
      (fun x hx g hg hge => hi.pendSnap g (hrest g hg).1 f hf (hge ▸ hx))
      (fun x hx p hp hpe => hi.trigSnap p hp f hf (hpe ▸ hx))
  · split
    · exact c09_cinv_rerun expected s h f.ev hi
    · exact c09_cinv_add expected s _ f.ev hi1 hl
  · exact c09_cinv_drop expected s _ f.ev hi1 hl
  · exact hi1

/-- one action of a schedule that admits no event twice -/
theorem c09_cinv_step (expected : List Nat) (s : List Ev) (h : C09Conc) (a : C09Act)
    (hnew : ∀ e, a.started = some e → e ∉ s) (hi : C09CInv expected s h) :
    C09CInv expected (s ++ a.started.toList) (c09ConcStep expected h a) := by
  cases a with
  | start ev => exact c09_cinv_start expected s h ev (hnew ev rfl) hi
  | finish ev =>
    simp only [C09Act.started, Option.toList_none, List.append_nil, c09ConcStep]
    split
    · rename_i f hfind
      exact c09_cinv_finish expected s h f (List.mem_of_find?_eq_some hfind) hi
    · exact hi

theorem c09_cinv_run (expected : List Nat) : ∀ (acts : List C09Act) (s : List Ev) (h : C09Conc),
    (s ++ acts.filterMap C09Act.started).Nodup → C09CInv expected s h →
    C09CInv expected (s ++ acts.filterMap C09Act.started) (acts.foldl (c09ConcStep expected) h)
  | [], s, h, _, hi => by simpa using hi
  | a :: as, s, h, hnd, hi => by
    have hnew : ∀ e, a.started = some e → e ∉ s := by
      intro e he hes
      rw [List.filterMap_cons, he] at hnd
      have := (List.nodup_append.mp hnd).2.2 e hes e List.mem_cons_self
      exact this rfl
    have h1 := c09_cinv_step expected s h a hnew hi
    have heq : s ++ (a :: as).filterMap C09Act.started =
        (s ++ a.started.toList) ++ as.filterMap C09Act.started := by
      cases hs : a.started <;> simp [List.filterMap_cons, hs]
    rw [heq] at hnd ⊢
    exact c09_cinv_run expected as _ _ hnd h1


/-- the abstraction of a history with nothing in flight -/
def C09Conc.toHist (c : C09Conc) : CollectHist :=
  { buffer := c.buffer, returned := c.returned.map (·.2), dropped := c.dropped }

/-- `start e; finish e` with nothing else in flight is one `collectRound` -/
theorem c09_single_round (expected : List Nat) (c : C09Conc) (hfl : c.flights = []) (e : Ev) :
    let c' := c09ConcStep expected (c09ConcStep expected c (.start e)) (.finish e)
    c'.flights = [] ∧ c'.toHist = collectRound expected c.toHist e := by
  simp only [c09ConcStep, hfl, List.nil_append, List.find?_cons, beq_self_eq_true, c09Finish, List.eraseP_cons,
    List.eraseP_nil, C09Conc.toHist, collectRound]
  cases hc : collectEvents expected 0 c.buffer e with
  | empty => simp
  | complete evs => simp
  | pending r =>
    cases r with
    | none => simp
    | some r => simp

theorem c09_single_flight_run (expected : List Nat) : ∀ (evs : List Ev) (c : C09Conc), c.flights = [] →
    let c' := (c09SingleFlight evs).foldl (c09ConcStep expected) c
    c'.flights = [] ∧ c'.toHist = evs.foldl (collectRound expected) c.toHist
  | [], c, hfl => by simp [c09SingleFlight, hfl]
  | e :: es, c, hfl => by
    obtain ⟨h1, h2⟩ := c09_single_round expected c hfl e
    have ih := c09_single_flight_run expected es _ h1
    simp only [c09SingleFlight, List.foldl_cons]
    rw [← h2]
    exact ih

end Engine
