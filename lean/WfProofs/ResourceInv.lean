import WfProofs.ResourceSpec
/-!
The invariant of M9 under *solo* scheduling: exclusive scopes (`c.excl`), or the
unlocked code driven by a serial schedule.  At most one task is inside a scope; the
manager's bookkeeping is exactly that task's `_get` activations; the ghost trace
relates every delivered object to the factory call that made it.
-/
namespace Resource

def Delivered (s : St) (t : Nat) (d v : Nat) : Prop := Ev.deliver t d v ∈ s.log

def keys (l : List (Nat × Nat)) : List Nat := l.map Prod.fst

def FrameOk (g : Graph) (s : St) (t : Nat) (f : Frame) : Prop :=
  ∃ r pre, g[f.rid]? = some r ∧ r.deps = pre ++ f.rem ∧ Paired (Delivered s t) pre f.args ∧
    f.rid ∉ keys s.scache ∧ (r.cached = true → f.rid ∉ keys s.resources) ∧
    (∀ obj, f.waiting = some obj → f.rem = [] ∧ Ev.call t f.rid obj f.args ∈ s.log)

/-- what the caller of the activation `f` is waiting for -/
def CallerOk (todo : List Nat) (fs : List Frame) (x : Nat) : Prop :=
  match fs with
  | [] => todo.head? = some x
  | p :: _ => p.rem.head? = some x ∧ p.waiting = none

def Frames (g : Graph) (s : St) (t : Nat) (todo : List Nat) : List Frame → Prop
  | [] => True
  | f :: fs => FrameOk g s t f ∧ CallerOk todo fs f.rid ∧ Frames g s t todo fs

structure ActInv (g : Graph) (s : St) (t : Nat) (k : Task) : Prop where
  owns : k.owns = true
  depth : s.depth = 1
  resolving : s.resolving = (k.stack.map Frame.rid).reverse
  nodup : (k.stack.map Frame.rid).Nodup
  prog : ∃ pre, k.reqs = pre ++ k.todo ∧ Paired (Delivered s t) pre k.got
  frames : Frames g s t k.todo k.stack
  scOk : ∀ x v, (x, v) ∈ s.scache →
    if isCached g x then (∃ t0, Ev.made t0 x v ∈ s.log) else Ev.made t x v ∈ s.log
  madeNA : ∀ x, x ∉ keys s.scache → countMadeBy s.log t x = 0

def OutcomeOk (g : Graph) (s : St) (t : Nat) (reqs : List Nat) : Outcome → Prop
  | .ok objs => Paired (Delivered s t) reqs objs
  | .cycle chain => (∃ r, r ∈ reqs ∧ ¬ Acyc g r) ∧ CycleChain g chain
  | .failed x => ∃ r, g[x]? = some r ∧ r.fails = true
  | .badRef x => g[x]? = none
  | .cancelled => True

def Task.isDone (k : Task) : Prop := ∃ o, k.phase = .done o
def Task.unstarted (k : Task) : Prop := k.phase = .fresh ∨ k.phase = .lockWait

/-- the part of the invariant that only concerns the ghost trace, the cached values
and the identity counter -/
structure LogInv (g : Graph) (s : St) : Prop where
  resOk : ∀ x v, (x, v) ∈ s.resources → isCached g x = true ∧ ∃ t0, Ev.made t0 x v ∈ s.log
  delivC : ∀ t x v, Ev.deliver t x v ∈ s.log → isCached g x = true → ∃ t0, Ev.made t0 x v ∈ s.log
  delivN : ∀ t x v, Ev.deliver t x v ∈ s.log → isCached g x = false → Ev.made t x v ∈ s.log
  madeA : ∀ t x v, Ev.made t x v ∈ s.log → Acyc g x
  madeC : ∀ x, isCached g x = true → countMade s.log x ≤ 1 ∧ (x ∉ keys s.resources → countMade s.log x = 0)
  madeN : ∀ t x, countMadeBy s.log t x ≤ 1
  madeCall : ∀ t x v, Ev.made t x v ∈ s.log → ∃ a, Ev.call t x v a ∈ s.log
  callLt : ∀ t x v a, Ev.call t x v a ∈ s.log → v < s.nextObj
  callInj : ∀ t x v a t' x' a', Ev.call t x v a ∈ s.log → Ev.call t' x' v a' ∈ s.log → t = t' ∧ x = x'
  callArgs : ∀ t x v a, Ev.call t x v a ∈ s.log → ∃ r, g[x]? = some r ∧ Paired (Delivered s t) r.deps a

structure Inv (c : Cfg) (g : Graph) (s : St) : Prop extends LogInv g s where
  lockOf : c.excl = true → ∀ (t : Nat) (k : Task), s.tasks[t]? = some k → k.phase = .active → s.lock = some t
  serial : c.excl = false → ∀ (t t' : Nat) (k k' : Task), s.tasks[t]? = some k → s.tasks[t']? = some k' →
    ¬ k.isDone → ¬ k'.isDone → t = t'
  idle : (∀ (t : Nat) (k : Task), s.tasks[t]? = some k → k.phase ≠ .active) → s.resolving = [] ∧ s.depth = 0 ∧ s.scache = []
  inactive : ∀ (t : Nat) (k : Task), s.tasks[t]? = some k → k.phase ≠ .active → k.stack = []
  unstarted : ∀ (t : Nat) (k : Task), s.tasks[t]? = some k → k.unstarted → k.todo = k.reqs ∧ k.got = []
  act : ∀ (t : Nat) (k : Task), s.tasks[t]? = some k → k.phase = .active → ActInv g s t k
  madeN0 : ∀ t, (∀ k : Task, s.tasks[t]? = some k → k.unstarted) → ∀ x, countMadeBy s.log t x = 0
  finOk : ∀ (t : Nat) (k : Task) (o : Outcome), s.tasks[t]? = some k → k.phase = .done o → OutcomeOk g s t k.reqs o

/-- at most one task is inside a scope -/
theorem Inv.solo {c : Cfg} {g : Graph} {s : St} (h : Inv c g s) {t t' : Nat} {k k' : Task} (h1 : s.tasks[t]? = some k) (h2 : s.tasks[t']? = some k')
    (a1 : k.phase = .active) (a2 : k'.phase = .active) : t = t' := by
  cases he : c.excl with
  | true =>
    have := h.lockOf he t k h1 a1
    have := h.lockOf he t' k' h2 a2
    simp_all
  | false =>
    apply h.serial he t t' k k' h1 h2
    · rintro ⟨o, ho⟩; simp [ho] at a1
    · rintro ⟨o, ho⟩; simp [ho] at a2

theorem Inv.delivA {c : Cfg} {g : Graph} {s : St} (h : Inv c g s) {t x v : Nat} (hd : Ev.deliver t x v ∈ s.log) : Acyc g x := by
  cases hc : isCached g x with
  | true => obtain ⟨t0, h0⟩ := h.delivC t x v hd hc; exact h.madeA _ _ _ h0
  | false => exact h.madeA _ _ _ (h.delivN t x v hd hc)

theorem inv_init (c : Cfg) (g : Graph) : Inv c g St.init := by
  have hl : LogInv g St.init := by constructor <;> simp [St.init, countMade, countMadeBy, keys]
  constructor <;> first | exact hl | simp [St.init, countMadeBy]

end Resource
