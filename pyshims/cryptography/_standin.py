"""STAND-IN primitives (NOT AES-GCM, NOT an iterated PBKDF2) -- see cryptography/__init__.py.

seal(key, nonce, data, aad)  = stream(key, nonce, len(data)) XOR data  ||  HMAC-SHA256(key, nonce|aad|ct)[:16]
open(...)                    = verify the 16-byte tag in constant time, then XOR; raise InvalidTag otherwise
kdf(password, salt, iterations, length, algorithm) = one pass of PBKDF2-HMAC-SHA256 over
    SHA-256(len(password) || password) whose salt is salt || iterations || algorithm name -- every
    parameter influences the key, but the work factor is NOT reproduced (600 000 real iterations per
    derivation would make generated runs unusable).  The password is hashed together with its length
    first so that the stand-in is collision-free on passwords: genuine PBKDF2-HMAC is not -- HMAC
    zero-pads its key, so "pw" and "pw\0" (and a password longer than 64 bytes and its SHA-256
    digest) derive the same key.  The verification states its "different password" claims for an
    AEAD without such collisions (see ASSUMPTIONS of harness/props/c33.py).
"""
from __future__ import annotations

import hashlib
import hmac

TAG_LENGTH = 16


def _stream(key: bytes, nonce: bytes, n: int) -> bytes:
    out = bytearray()
    ctr = 0
    while len(out) < n:
        out += hashlib.sha256(b"stream\0" + len(key).to_bytes(2, "big") + key + len(nonce).to_bytes(2, "big")
                              + nonce + ctr.to_bytes(8, "big")).digest()
        ctr += 1
    return bytes(out[:n])


def _tag(key: bytes, nonce: bytes, aad: bytes, ct: bytes) -> bytes:
    msg = len(nonce).to_bytes(2, "big") + nonce + len(aad).to_bytes(8, "big") + aad + ct
    return hmac.new(key, b"tag\0" + msg, hashlib.sha256).digest()[:TAG_LENGTH]


def seal(key: bytes, nonce: bytes, data: bytes, aad: bytes | None) -> bytes:
    aad = aad or b""
    ct = bytes(a ^ b for a, b in zip(data, _stream(key, nonce, len(data))))
    return ct + _tag(key, nonce, aad, ct)


def open_(key: bytes, nonce: bytes, data: bytes, aad: bytes | None) -> bytes:
    from .exceptions import InvalidTag

    aad = aad or b""
    if len(data) < TAG_LENGTH:
        raise InvalidTag()
    ct, tag = data[:-TAG_LENGTH], data[-TAG_LENGTH:]
    if not hmac.compare_digest(tag, _tag(key, nonce, aad, ct)):
        raise InvalidTag()
    return bytes(a ^ b for a, b in zip(ct, _stream(key, nonce, len(ct))))


def kdf(password: bytes, salt: bytes, iterations: int, length: int, algorithm: str = "sha256") -> bytes:
    mixed = salt + b"\0iter=" + str(int(iterations)).encode() + b"\0alg=" + algorithm.encode()
    pre = hashlib.sha256(len(password).to_bytes(8, "big") + password).digest()
    return hashlib.pbkdf2_hmac("sha256", pre, mixed, 1, dklen=length)
