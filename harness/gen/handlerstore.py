"""Generator for lean/WfModel/GenHandlerStore.lean (property C24).

Re-extracted from /repo's *current* sources on every run (``ast`` + light SQL
parsing), nothing is imported or executed:

* ``abstract_workflow_store.py``: the ``Status`` literal, ``TERMINAL_STATUSES``
  (as one flag per status, in literal order), the statuses for which
  ``update_handler_status`` stamps ``completed_at``, the ``HandlerQuery`` fields.
* ``memory_workflow_store._matches_query``: for every ``*_in`` filter the handler
  attribute it is tested against and whether an empty list rejects; the
  ``is_idle`` test (attribute, ``is not None`` polarity).
* ``sqlite_workflow_store._build_filters``: for every ``*_in`` filter the column
  of the ``IN`` clause and whether an empty list makes the whole filter ``None``;
  the two ``is_idle`` clauses (column, ``IS [NOT] NULL``); the clause template,
  the join string, what ``query`` / ``delete`` do with ``None`` / no clauses; the
  SELECT / DELETE / upsert statements (table, columns, conflict key, SET list,
  parameter order) and the row -> ``PersistentHandler`` mapping.

The ``*_in`` blocks are emitted **sorted by query field**: they are independent
early returns / AND-ed clauses, so their order in the source is irrelevant.
The Lean model *interprets* these tables (``WfModel/HandlerStore.lean``), so a
flipped ``IS NULL``, a dropped filter or a changed terminal set changes the model
the theorems are about; the plain strings are pinned by ``C24_source_shape``.
Unknown shapes give the sentinel index 99 / ``"<missing>"`` and a note.
"""
from __future__ import annotations

import ast
import re
from typing import Any

from ..boot import repo_path

LEAN_MODULE = "GenHandlerStore"

BASE = "packages/llama-agents-server/src/llama_agents/server/_store/"
ABSTRACT = BASE + "abstract_workflow_store.py"
MEMORY = BASE + "memory_workflow_store.py"
SQLITE = BASE + "sqlite/sqlite_workflow_store.py"

# index tables shared with the Lean model (Query.field / Handler.col)
FIELDS = ["handler_id_in", "run_id_in", "workflow_name_in", "status_in"]
ATTRS = ["handler_id", "run_id", "workflow_name", "status", "idle_since"]
UNKNOWN = 99


def lean_str(s: str) -> str:
    out = ['"']
    for ch in s:
        if ch == '"':
            out.append('\\"')
        elif ch == "\\":
            out.append("\\\\")
        elif ch == "\n":
            out.append("\\n")
        elif ch == "\t":
            out.append("\\t")
        elif 32 <= ord(ch) < 127:
            out.append(ch)
        else:
            out.append("\\u{%x}" % ord(ch))
    out.append('"')
    return "".join(out)


def lean_strs(xs: list[str]) -> str:
    return "[" + ", ".join(lean_str(x) for x in xs) + "]"


def lean_bool(b: bool) -> str:
    return "true" if b else "false"


def _ws(s: str) -> str:
    return re.sub(r"\s+", " ", s).strip()


def _parse(rel: str) -> ast.Module | None:
    try:
        return ast.parse(open(repo_path(rel)).read())
    except (OSError, SyntaxError):
        return None


def _find_def(tree: ast.AST | None, name: str) -> Any:
    if tree is None:
        return None
    for n in ast.walk(tree):
        if isinstance(n, (ast.FunctionDef, ast.AsyncFunctionDef, ast.ClassDef)) and n.name == name:
            return n
    return None


def _body(fn: Any) -> list[ast.stmt]:
    b = list(fn.body)
    if b and isinstance(b[0], ast.Expr) and isinstance(b[0].value, ast.Constant) and isinstance(b[0].value.value, str):
        b = b[1:]
    return b


def _str_consts(node: ast.AST | None) -> list[str] | None:
    """tuple/list/set/frozenset((..)) of string constants -> list"""
    if node is None:
        return None
    if isinstance(node, ast.Call) and isinstance(node.func, ast.Name) and node.func.id in ("frozenset", "set", "tuple", "list") \
            and len(node.args) == 1 and not node.keywords:
        node = node.args[0]
    if isinstance(node, (ast.Tuple, ast.List, ast.Set)) and all(isinstance(e, ast.Constant) and isinstance(e.value, str) for e in node.elts):
        return [e.value for e in node.elts]  # type: ignore[attr-defined]
    return None


def _is_attr(node: ast.AST, base: str, attr: str | None = None) -> bool:
    return isinstance(node, ast.Attribute) and isinstance(node.value, ast.Name) and node.value.id == base \
        and (attr is None or node.attr == attr)


def _not_none_test(test: ast.AST, base: str) -> str | None:
    """`<base>.F is not None` -> F"""
    if isinstance(test, ast.Compare) and len(test.ops) == 1 and isinstance(test.ops[0], ast.IsNot) \
            and isinstance(test.comparators[0], ast.Constant) and test.comparators[0].value is None \
            and _is_attr(test.left, base):
        return test.left.attr  # type: ignore[attr-defined]
    return None


def _len_zero_test(test: ast.AST, base: str, field: str) -> bool:
    """`len(<base>.F) == 0` or `not <base>.F`"""
    if isinstance(test, ast.Compare) and len(test.ops) == 1 and isinstance(test.ops[0], ast.Eq) \
            and isinstance(test.comparators[0], ast.Constant) and test.comparators[0].value == 0 \
            and isinstance(test.left, ast.Call) and isinstance(test.left.func, ast.Name) and test.left.func.id == "len" \
            and len(test.left.args) == 1 and _is_attr(test.left.args[0], base, field):
        return True
    if isinstance(test, ast.UnaryOp) and isinstance(test.op, ast.Not) and _is_attr(test.operand, base, field):
        return True
    return False


def _returns_const(st: ast.stmt, value: Any) -> bool:
    if not isinstance(st, ast.Return):
        return False
    if st.value is None:
        return value is None
    if isinstance(st.value, ast.Constant):
        return st.value.value is value or (value == [] and False)
    if value == [] and isinstance(st.value, ast.List) and not st.value.elts:
        return True
    return False


def _idx(table: list[str], name: str | None) -> int:
    return table.index(name) if name in table else UNKNOWN


# --------------------------------------------------------------------------
# abstract_workflow_store.py


def _gen_abstract(notes: list[str]) -> tuple[list[str], list[str]]:
    tree = _parse(ABSTRACT)
    names: list[str] = []
    terminal: list[str] | None = None
    completed: list[str] | None = None
    qfields: list[str] = []
    defaults_none = False
    is_term_shape = False
    if tree is None:
        notes.append("translate: gen/handlerstore: abstract_workflow_store.py not parsable")
    else:
        for n in tree.body:
            if isinstance(n, ast.Assign) and len(n.targets) == 1 and isinstance(n.targets[0], ast.Name):
                if n.targets[0].id == "Status" and isinstance(n.value, ast.Subscript) and isinstance(n.value.value, ast.Name) \
                        and n.value.value.id == "Literal":
                    names = _str_consts(n.value.slice) or []
                if n.targets[0].id == "TERMINAL_STATUSES":
                    terminal = _str_consts(n.value)
            if isinstance(n, ast.AnnAssign) and isinstance(n.target, ast.Name) and n.target.id == "TERMINAL_STATUSES":
                terminal = _str_consts(n.value)
        fn = _find_def(tree, "is_terminal_status")
        if fn is not None:
            b = _body(fn)
            arg = fn.args.args[0].arg if fn.args.args else "?"
            if len(b) == 1 and isinstance(b[0], ast.Return) and ast.unparse(b[0].value) == f"{arg} in TERMINAL_STATUSES":
                is_term_shape = True
        cls = _find_def(tree, "HandlerQuery")
        if cls is not None:
            defaults_none = True
            for st in cls.body:
                if isinstance(st, ast.AnnAssign) and isinstance(st.target, ast.Name):
                    qfields.append(st.target.id)
                    if not (isinstance(st.value, ast.Constant) and st.value.value is None):
                        defaults_none = False
        fn = _find_def(tree, "update_handler_status")
        if fn is not None:
            for n in ast.walk(fn):
                if isinstance(n, ast.If) and isinstance(n.test, ast.Compare) and len(n.test.ops) == 1 \
                        and isinstance(n.test.ops[0], ast.In) and isinstance(n.test.left, ast.Name) and n.test.left.id == "status" \
                        and any(isinstance(s, ast.Assign) and isinstance(s.targets[0], ast.Attribute) and s.targets[0].attr == "completed_at"
                                for s in n.body):
                    comp = n.test.comparators[0]
                    if isinstance(comp, ast.Name) and comp.id == "TERMINAL_STATUSES":
                        completed = terminal
                    else:
                        completed = _str_consts(comp)
    if not names:
        notes.append("translate: gen/handlerstore: Status literal not found")
    if terminal is None:
        notes.append("translate: gen/handlerstore: TERMINAL_STATUSES is not a frozenset of string constants")
        terminal = []
    if not is_term_shape:
        notes.append("translate: gen/handlerstore: is_terminal_status is not `status in TERMINAL_STATUSES`")
    if completed is None:
        notes.append("translate: gen/handlerstore: completed_at rule of update_handler_status not recognised")
        completed = []
    stray = [t for t in terminal + completed if t not in names]
    L = ["/-! abstract_workflow_store.py -/",
         f"def statusNames : List String := {lean_strs(names)}",
         "/-- `is_terminal_status`, one flag per status in literal order -/",
         "def terminalFlags : List Bool := [" + ", ".join(lean_bool(n in terminal) for n in names) + "]",
         f"def terminalIsMembership : Bool := {lean_bool(is_term_shape)}",
         "/-- statuses for which `update_handler_status` stamps `completed_at` -/",
         "def completedAtFlags : List Bool := [" + ", ".join(lean_bool(n in completed) for n in names) + "]",
         f"def strayStatusNames : List String := {lean_strs(sorted(set(stray)))}",
         f"def queryFields : List String := {lean_strs(qfields)}",
         f"def queryDefaultsNone : Bool := {lean_bool(defaults_none)}"]
    return L, names


# --------------------------------------------------------------------------
# memory_workflow_store._matches_query


def _gen_memory(notes: list[str]) -> list[str]:
    tree = _parse(MEMORY)
    fn = _find_def(tree, "_matches_query")
    ins: list[tuple[int, int, bool]] = []
    idle: tuple[int, bool] | None = None
    final_true = False
    unknown = 0
    if fn is None or len(fn.args.args) != 2:
        notes.append("translate: gen/handlerstore: _matches_query(handler, query) not found")
    else:
        hp, qp = fn.args.args[0].arg, fn.args.args[1].arg
        body = _body(fn)
        for st in body:
            if isinstance(st, ast.Return):
                final_true = _returns_const(st, True)
                break
            f = _not_none_test(st.test, qp) if isinstance(st, ast.If) and not st.orelse else None
            if f is None:
                unknown += 1
                notes.append(f"translate: gen/handlerstore: _matches_query: unrecognised statement `{_ws(ast.unparse(st))[:70]}`")
                continue
            if f == "is_idle":
                env: dict[str, ast.expr] = {}
                got = None
                for s in st.body:
                    if isinstance(s, ast.Assign) and len(s.targets) == 1 and isinstance(s.targets[0], ast.Name):
                        env[s.targets[0].id] = s.value
                    elif isinstance(s, ast.If) and not s.orelse and len(s.body) == 1 and _returns_const(s.body[0], False) \
                            and isinstance(s.test, ast.Compare) and len(s.test.ops) == 1 and isinstance(s.test.ops[0], ast.NotEq):
                        a, b = s.test.left, s.test.comparators[0]
                        if _is_attr(b, qp, "is_idle"):
                            a, b = b, a
                        if _is_attr(a, qp, "is_idle"):
                            if isinstance(b, ast.Name) and b.id in env:
                                b = env[b.id]
                            if isinstance(b, ast.Compare) and len(b.ops) == 1 and isinstance(b.ops[0], (ast.IsNot, ast.Is)) \
                                    and isinstance(b.comparators[0], ast.Constant) and b.comparators[0].value is None and _is_attr(b.left, hp):
                                got = (_idx(ATTRS, b.left.attr), isinstance(b.ops[0], ast.IsNot))  # type: ignore[attr-defined]
                    else:
                        got = None
                        break
                if got is None:
                    notes.append("translate: gen/handlerstore: _matches_query: is_idle block not recognised")
                    idle = (UNKNOWN, True)
                else:
                    idle = got
                continue
            empty_rejects = False
            attr: int | None = None
            ok = True
            for s in st.body:
                if isinstance(s, ast.If) and not s.orelse and len(s.body) == 1 and _returns_const(s.body[0], False):
                    if _len_zero_test(s.test, qp, f):
                        empty_rejects = True
                        continue
                    t = s.test
                    if isinstance(t, ast.Compare) and len(t.ops) == 1 and isinstance(t.ops[0], ast.NotIn) and _is_attr(t.left, hp) \
                            and _is_attr(t.comparators[0], qp, f) and attr is None:
                        attr = _idx(ATTRS, t.left.attr)  # type: ignore[attr-defined]
                        continue
                ok = False
            if not ok or attr is None:
                notes.append(f"translate: gen/handlerstore: _matches_query: block for {f} not recognised")
                attr = UNKNOWN
            ins.append((_idx(FIELDS, f), attr, empty_rejects))
    ins.sort()
    L = ["", "/-! memory_workflow_store._matches_query -/",
         "/-- (query field, handler attribute, empty list rejects), sorted by field -/",
         "def memIn : List (Nat × Nat × Bool) := [" + ", ".join(f"({a}, {b}, {lean_bool(c)})" for a, b, c in ins) + "]",
         "/-- `is_idle`: (attribute, handler_is_idle := attribute is not None); a mismatch rejects -/",
         "def memIdle : Option (Nat × Bool) := " + ("none" if idle is None else f"some ({idle[0]}, {lean_bool(idle[1])})"),
         f"def memFallsThroughTrue : Bool := {lean_bool(final_true)}",
         f"def memUnrecognised : Nat := {unknown}"]
    return L


# --------------------------------------------------------------------------
# sqlite_workflow_store


def _null_clause(node: ast.AST) -> tuple[int, bool] | None:
    """clauses.append("<col> IS [NOT] NULL") -> (column, is_not_null)"""
    if isinstance(node, ast.Expr) and isinstance(node.value, ast.Call) and isinstance(node.value.func, ast.Attribute) \
            and node.value.func.attr == "append" and len(node.value.args) == 1 and isinstance(node.value.args[0], ast.Constant) \
            and isinstance(node.value.args[0].value, str):
        m = re.match(r"^\s*(\w+)\s+IS\s+(NOT\s+)?NULL\s*$", node.value.args[0].value, re.I)
        if m:
            return _idx(ATTRS, m.group(1)), m.group(2) is not None
    return None


def _sql_of(fn: Any, start: str) -> str:
    """first string constant / f-string in `fn` whose text starts with `start` (whitespace-normalised; {..} for holes)"""
    if fn is None:
        return "<missing>"
    for n in ast.walk(fn):
        if isinstance(n, ast.JoinedStr):
            txt = "".join(v.value if isinstance(v, ast.Constant) else "{" + _ws(ast.unparse(v.value)) + "}" for v in n.values)  # type: ignore[attr-defined]
            if _ws(txt).upper().startswith(start):
                return _ws(txt)
    for n in ast.walk(fn):
        if isinstance(n, ast.Constant) and isinstance(n.value, str) and _ws(n.value).upper().startswith(start):
            return _ws(n.value)
    return "<missing>"


def _gen_sqlite(notes: list[str]) -> list[str]:
    tree = _parse(SQLITE)
    cls = _find_def(tree, "SqliteWorkflowStore")
    fn = _find_def(cls, "_build_filters")
    ins: list[tuple[int, int, bool]] = []
    idle_t: tuple[int, bool] | None = None
    idle_f: tuple[int, bool] | None = None
    template = "<missing>"
    placeholders = "<missing>"
    params_ext = False
    unknown = 0
    if fn is None or len(fn.args.args) != 2:
        notes.append("translate: gen/handlerstore: SqliteWorkflowStore._build_filters(self, query) not found")
    else:
        qp = fn.args.args[1].arg
        helper = None
        for st in _body(fn):
            if isinstance(st, ast.FunctionDef):
                helper = st
        hname = helper.name if helper is not None else "add_in_clause"
        if helper is not None and len(helper.args.args) == 2:
            cp, vp = helper.args.args[0].arg, helper.args.args[1].arg
            locals_: dict[str, str] = {}
            for s in _body(helper):
                if isinstance(s, ast.Assign) and len(s.targets) == 1 and isinstance(s.targets[0], ast.Name):
                    locals_[s.targets[0].id] = _ws(ast.unparse(s.value)).replace(vp, "values")
                elif isinstance(s, ast.Expr) and isinstance(s.value, ast.Call) and isinstance(s.value.func, ast.Attribute):
                    if s.value.func.attr == "append" and len(s.value.args) == 1 and isinstance(s.value.args[0], ast.JoinedStr):
                        parts = []
                        for v in s.value.args[0].values:
                            if isinstance(v, ast.Constant):
                                parts.append(v.value)
                            elif isinstance(v, ast.FormattedValue) and isinstance(v.value, ast.Name):
                                if v.value.id == cp:
                                    parts.append("{column}")
                                elif v.value.id in locals_:
                                    parts.append("{placeholders}")
                                    placeholders = locals_[v.value.id]
                                else:
                                    parts.append("{" + v.value.id + "}")
                            else:
                                parts.append("{?}")
                        template = "".join(parts)
                    if s.value.func.attr == "extend" and len(s.value.args) == 1 and isinstance(s.value.args[0], ast.Name) \
                            and s.value.args[0].id == vp:
                        params_ext = True
        else:
            notes.append("translate: gen/handlerstore: _build_filters: IN-clause helper not found")
        for st in _body(fn):
            if isinstance(st, (ast.FunctionDef, ast.AnnAssign, ast.Assign, ast.Return)):
                continue
            if isinstance(st, ast.If) and isinstance(st.test, ast.UnaryOp) and isinstance(st.test.op, ast.Not) \
                    and all(isinstance(s, ast.Return) for s in st.body):
                continue  # `if not clauses: return clauses, params`
            f = _not_none_test(st.test, qp) if isinstance(st, ast.If) and not st.orelse else None
            if f is None:
                unknown += 1
                notes.append(f"translate: gen/handlerstore: _build_filters: unrecognised statement `{_ws(ast.unparse(st))[:70]}`")
                continue
            if f == "is_idle":
                ok = False
                if len(st.body) == 1 and isinstance(st.body[0], ast.If) and _is_attr(st.body[0].test, qp, "is_idle") \
                        and len(st.body[0].body) == 1 and len(st.body[0].orelse) == 1:
                    idle_t = _null_clause(st.body[0].body[0])
                    idle_f = _null_clause(st.body[0].orelse[0])
                    ok = idle_t is not None and idle_f is not None
                if not ok:
                    notes.append("translate: gen/handlerstore: _build_filters: is_idle block not recognised")
                    idle_t = idle_t or (UNKNOWN, True)
                    idle_f = idle_f or (UNKNOWN, False)
                continue
            empty_none = False
            col: int | None = None
            ok = True
            for s in st.body:
                if isinstance(s, ast.If) and not s.orelse and len(s.body) == 1 and _returns_const(s.body[0], None) \
                        and _len_zero_test(s.test, qp, f):
                    empty_none = True
                    continue
                if isinstance(s, ast.Expr) and isinstance(s.value, ast.Call) and isinstance(s.value.func, ast.Name) \
                        and s.value.func.id == hname and len(s.value.args) == 2 and isinstance(s.value.args[0], ast.Constant) \
                        and _is_attr(s.value.args[1], qp, f) and col is None:
                    col = _idx(ATTRS, s.value.args[0].value)
                    continue
                ok = False
            if not ok or col is None:
                notes.append(f"translate: gen/handlerstore: _build_filters: block for {f} not recognised")
                col = UNKNOWN
            ins.append((_idx(FIELDS, f), col, empty_none))
    ins.sort()

    qfn = _find_def(cls, "query")
    dfn = _find_def(cls, "delete")
    ufn = _find_def(cls, "update")

    def none_guard(f: Any, value: Any) -> bool:
        if f is None:
            return False
        for n in ast.walk(f):
            if isinstance(n, ast.If) and isinstance(n.test, ast.Compare) and len(n.test.ops) == 1 and isinstance(n.test.ops[0], ast.Is) \
                    and isinstance(n.test.comparators[0], ast.Constant) and n.test.comparators[0].value is None \
                    and len(n.body) == 1 and isinstance(n.body[0], ast.Return):
                r = n.body[0].value
                if value == [] and isinstance(r, ast.List) and not r.elts:
                    return True
                if value == 0 and isinstance(r, ast.Constant) and r.value == 0 and not isinstance(r.value, bool):
                    return True
        return False

    def no_clause_guard(f: Any) -> bool:
        if f is None:
            return False
        for n in ast.walk(f):
            if isinstance(n, ast.If) and isinstance(n.test, ast.UnaryOp) and isinstance(n.test.op, ast.Not) \
                    and isinstance(n.test.operand, ast.Name) and len(n.body) == 1 and isinstance(n.body[0], ast.Return) \
                    and isinstance(n.body[0].value, ast.Constant) and n.body[0].value.value == 0:
                return True
        return False

    def joins(f: Any) -> list[str]:
        res = []
        if f is not None:
            for n in ast.walk(f):
                if isinstance(n, ast.Call) and isinstance(n.func, ast.Attribute) and n.func.attr == "join" \
                        and isinstance(n.func.value, ast.Constant) and isinstance(n.func.value.value, str):
                    res.append(n.func.value.value)
        return res

    select_sql = _sql_of(qfn, "SELECT")
    where_sql = _sql_of(qfn, "{SQL} WHERE")
    delete_sql = _sql_of(dfn, "DELETE")
    upsert_sql = _sql_of(ufn, "INSERT")
    m = re.match(r"^SELECT (.*) FROM (\w+)$", select_sql)
    sel_cols = [c.strip() for c in m.group(1).split(",")] if m else []
    sel_table = m.group(2) if m else "<missing>"
    m = re.match(r"^INSERT INTO (\w+) \(([^)]*)\) VALUES \(([^)]*)\) ON CONFLICT\((\w+)\) DO UPDATE SET (.*)$", upsert_sql)
    up_table, up_cols, up_vals, up_key, up_set = "<missing>", [], [], "<missing>", []
    if m:
        up_table = m.group(1)
        up_cols = [c.strip() for c in m.group(2).split(",")]
        up_vals = [c.strip() for c in m.group(3).split(",")]
        up_key = m.group(4)
        for a in m.group(5).split(","):
            mm = re.match(r"^\s*(\w+)\s*=\s*excluded\.(\w+)\s*$", a)
            up_set.append(mm.group(1) if mm and mm.group(1) == mm.group(2) else "<" + a.strip() + ">")
    else:
        notes.append("translate: gen/handlerstore: upsert statement not recognised")
    up_params: list[str] = []
    if ufn is not None:
        hp = ufn.args.args[1].arg if len(ufn.args.args) > 1 else "handler"
        for n in ast.walk(ufn):
            if isinstance(n, ast.Call) and isinstance(n.func, ast.Attribute) and n.func.attr == "execute" and len(n.args) == 2 \
                    and isinstance(n.args[1], ast.Tuple):
                for e in n.args[1].elts:
                    nm = "<?>"
                    for sub in ast.walk(e):
                        if _is_attr(sub, hp):
                            nm = sub.attr  # type: ignore[attr-defined]
                            break
                    up_params.append(nm)
    row_fields: list[tuple[str, int]] = []
    rfn = _find_def(tree, "_row_to_persistent_handler")
    if rfn is not None:
        for n in ast.walk(rfn):
            if isinstance(n, ast.Call) and isinstance(n.func, ast.Name) and n.func.id == "PersistentHandler":
                for kw in n.keywords:
                    ix = UNKNOWN
                    for sub in ast.walk(kw.value):
                        if isinstance(sub, ast.Subscript) and isinstance(sub.slice, ast.Constant) and isinstance(sub.slice.value, int):
                            ix = sub.slice.value
                            break
                    row_fields.append((kw.arg or "<?>", ix))
    jq, jd = joins(qfn), joins(dfn)
    L = ["", "/-! sqlite_workflow_store -/",
         "/-- `_build_filters`: (query field, column of the IN clause, empty list -> None), sorted by field -/",
         "def sqlIn : List (Nat × Nat × Bool) := [" + ", ".join(f"({a}, {b}, {lean_bool(c)})" for a, b, c in ins) + "]",
         "/-- clause appended for `is_idle=True` / `False`: (column, IS NOT NULL) -/",
         "def sqlIdleTrue : Option (Nat × Bool) := " + ("none" if idle_t is None else f"some ({idle_t[0]}, {lean_bool(idle_t[1])})"),
         "def sqlIdleFalse : Option (Nat × Bool) := " + ("none" if idle_f is None else f"some ({idle_f[0]}, {lean_bool(idle_f[1])})"),
         f"def sqlUnrecognised : Nat := {unknown}",
         f"def sqlInTemplate : String := {lean_str(template)}",
         f"def sqlPlaceholders : String := {lean_str(placeholders)}",
         f"def sqlParamsExtended : Bool := {lean_bool(params_ext)}",
         f"def sqlJoins : List String := {lean_strs(jq + jd)}",
         "/-- `query`: filter None -> []; `delete`: filter None -> 0, no clauses -> 0 -/",
         f"def sqlQueryNoneIsEmpty : Bool := {lean_bool(none_guard(qfn, []))}",
         f"def sqlDeleteNoneIsZero : Bool := {lean_bool(none_guard(dfn, 0))}",
         f"def sqlDeleteNoClausesIsZero : Bool := {lean_bool(no_clause_guard(dfn))}",
         f"def sqlSelectColumns : List String := {lean_strs(sel_cols)}",
         f"def sqlSelectTable : String := {lean_str(sel_table)}",
         f"def sqlWhere : String := {lean_str(where_sql)}",
         f"def sqlDelete : String := {lean_str(delete_sql)}",
         f"def sqlUpsertTable : String := {lean_str(up_table)}",
         f"def sqlUpsertColumns : List String := {lean_strs(up_cols)}",
         f"def sqlUpsertValues : List String := {lean_strs(up_vals)}",
         f"def sqlUpsertKey : String := {lean_str(up_key)}",
         f"def sqlUpsertSet : List String := {lean_strs(up_set)}",
         f"def sqlUpsertParams : List String := {lean_strs(up_params)}",
         "def sqlRowFields : List (String × Nat) := [" + ", ".join(f"({lean_str(a)}, {b})" for a, b in row_fields) + "]"]
    return L


# --------------------------------------------------------------------------
# memory_workflow_store.MemoryWorkflowStore: constructor, query, update, delete, eviction loop


def _self_attr(node: ast.AST, attr: str) -> bool:
    return isinstance(node, ast.Attribute) and isinstance(node.value, ast.Name) and node.value.id == "self" and node.attr == attr


def _call_self(node: ast.AST, attr: str, meth: str | None) -> ast.Call | None:
    """`self.<attr>.<meth>(...)` (or `self.<attr>(...)` when meth is None) as an expression statement or a bare call"""
    if isinstance(node, ast.Expr):
        node = node.value
    if not isinstance(node, ast.Call):
        return None
    f = node.func
    if meth is None:
        return node if _self_attr(f, attr) else None
    if isinstance(f, ast.Attribute) and f.attr == meth and _self_attr(f.value, attr):
        return node
    return None


def _is_none(node: ast.AST | None) -> bool:
    return isinstance(node, ast.Constant) and node.value is None


def _short(st: ast.AST) -> str:
    return "?" + _ws(ast.unparse(st))[:48]


def _terminal_call(node: ast.AST, base: str) -> bool:
    return isinstance(node, ast.Call) and isinstance(node.func, ast.Name) and node.func.id == "is_terminal_status" \
        and len(node.args) == 1 and _is_attr(node.args[0], base, "status")


def _queue_key(node: ast.AST) -> ast.AST | None:
    """`self._terminal_queue[K]` -> K"""
    if isinstance(node, ast.Subscript) and _self_attr(node.value, "_terminal_queue"):
        return node.slice
    return None


def _gen_memory_store(notes: list[str]) -> list[str]:
    tree = _parse(MEMORY)
    cls = _find_def(tree, "MemoryWorkflowStore")
    default: int | None | str = "<missing>"
    neg_raises = False
    query_shape = False
    upd: list[str] = []
    dele: list[str] = []
    evi: list[str] = []
    tables: list[str] = []

    init = _find_def(cls, "__init__")
    if init is not None:
        args = init.args.args
        defaults = [None] * (len(args) - len(init.args.defaults)) + list(init.args.defaults)
        for a, d in zip(args, defaults):
            if a.arg == "max_completed" and isinstance(d, ast.Constant) and (d.value is None or (isinstance(d.value, int) and not isinstance(d.value, bool))):
                default = d.value
        for n in ast.walk(init):
            if isinstance(n, ast.If) and any(isinstance(x, ast.Raise) for x in n.body):
                t = _ws(ast.unparse(n.test))
                if t in ("max_completed is not None and max_completed < 0", "max_completed is not None and 0 > max_completed"):
                    exc = next(x for x in n.body if isinstance(x, ast.Raise)).exc
                    if isinstance(exc, ast.Call) and isinstance(exc.func, ast.Name) and exc.func.id == "ValueError":
                        neg_raises = True
    if default == "<missing>":
        notes.append("translate: gen/handlerstore: MemoryWorkflowStore.__init__: default of max_completed not found")

    qfn = _find_def(cls, "query")
    if qfn is not None and len(qfn.args.args) == 2:
        qp = qfn.args.args[1].arg
        b = _body(qfn)
        if len(b) == 1 and isinstance(b[0], ast.Return) and isinstance(b[0].value, ast.ListComp) and len(b[0].value.generators) == 1:
            lc = b[0].value
            g = lc.generators[0]
            if isinstance(g.target, ast.Name) and isinstance(lc.elt, ast.Name) and lc.elt.id == g.target.id \
                    and _call_self(g.iter, "handlers", "values") is not None and len(g.ifs) == 1 \
                    and _ws(ast.unparse(g.ifs[0])) == f"_matches_query({g.target.id}, {qp})":
                query_shape = True
    if not query_shape:
        notes.append("translate: gen/handlerstore: MemoryWorkflowStore.query is not the filtered listing of handlers.values()")

    ufn = _find_def(cls, "update")
    if ufn is not None and len(ufn.args.args) == 2:
        hp = ufn.args.args[1].arg

        def is_hid(n: ast.AST | None) -> bool:
            return n is not None and _is_attr(n, hp, "handler_id")

        def enqueue_assign(st: ast.stmt) -> bool:
            return isinstance(st, ast.Assign) and len(st.targets) == 1 and is_hid(_queue_key(st.targets[0])) and _is_none(st.value)

        def branch(stmts: list[ast.stmt]) -> list[str]:
            out: list[str] = []
            for st in stmts:
                c = _call_self(st, "_terminal_queue", "pop")
                if c is not None and len(c.args) == 2 and is_hid(c.args[0]) and _is_none(c.args[1]):
                    out.append("dequeue")
                elif _call_self(st, "_evict_oldest_completed", None) is not None:
                    out.append("evict")
                elif enqueue_assign(st):
                    out.append("enqueue-always")
                elif isinstance(st, ast.If) and not st.orelse and len(st.body) == 1 and enqueue_assign(st.body[0]) \
                        and isinstance(st.test, ast.Compare) and len(st.test.ops) == 1 and isinstance(st.test.ops[0], ast.NotIn) \
                        and is_hid(st.test.left) and _self_attr(st.test.comparators[0], "_terminal_queue"):
                    out.append("enqueue-if-absent")
                else:
                    c = _call_self(st, "_terminal_queue", "move_to_end")
                    out.append("move-to-end" if c is not None else _short(st))
            return out

        for st in _body(ufn):
            if isinstance(st, ast.Assign) and len(st.targets) == 1 and isinstance(st.targets[0], ast.Subscript) \
                    and _self_attr(st.targets[0].value, "handlers") and is_hid(st.targets[0].slice) \
                    and isinstance(st.value, ast.Name) and st.value.id == hp:
                upd.append("store")
            elif isinstance(st, ast.If) and _terminal_call(st.test, hp):
                upd += ["if-terminal"] + branch(st.body) + ["else"] + branch(st.orelse)
            else:
                upd.append(_short(st))
    if any(t.startswith("?") for t in upd) or not upd:
        notes.append(f"translate: gen/handlerstore: MemoryWorkflowStore.update: shape not recognised {upd}")

    dfn = _find_def(cls, "delete")
    if dfn is not None and len(dfn.args.args) == 2:
        qp = dfn.args.args[1].arg
        coll: str | None = None
        for st in _body(dfn):
            if isinstance(st, ast.Assign) and len(st.targets) == 1 and isinstance(st.targets[0], ast.Name) and isinstance(st.value, ast.ListComp) \
                    and len(st.value.generators) == 1:
                g = st.value.generators[0]
                it = g.iter
                if isinstance(it, ast.Call) and isinstance(it.func, ast.Name) and it.func.id == "list" and len(it.args) == 1:
                    it = it.args[0]
                ok = _call_self(it, "handlers", "items") is not None and isinstance(g.target, ast.Tuple) and len(g.target.elts) == 2 \
                    and all(isinstance(e, ast.Name) for e in g.target.elts) and isinstance(st.value.elt, ast.Name) \
                    and st.value.elt.id == g.target.elts[0].id and len(g.ifs) == 1 \
                    and _ws(ast.unparse(g.ifs[0])) == f"_matches_query({g.target.elts[1].id}, {qp})"  # type: ignore[attr-defined]
                if ok:
                    coll = st.targets[0].id
                    dele.append("collect-matching")
                else:
                    dele.append(_short(st))
            elif isinstance(st, ast.For) and isinstance(st.target, ast.Name) and isinstance(st.iter, ast.Name) and st.iter.id == coll and not st.orelse:
                v = st.target.id
                for s2 in st.body:
                    c = _call_self(s2, "_terminal_queue", "pop")
                    if isinstance(s2, ast.Delete) and len(s2.targets) == 1 and isinstance(s2.targets[0], ast.Subscript) \
                            and _self_attr(s2.targets[0].value, "handlers") and isinstance(s2.targets[0].slice, ast.Name) and s2.targets[0].slice.id == v:
                        dele.append("del-handler")
                    elif c is not None and len(c.args) == 2 and isinstance(c.args[0], ast.Name) and c.args[0].id == v and _is_none(c.args[1]):
                        dele.append("dequeue")
                    else:
                        dele.append(_short(s2))
            elif isinstance(st, ast.Return) and st.value is not None and _ws(ast.unparse(st.value)) == f"len({coll})":
                dele.append("count")
            else:
                dele.append(_short(st))
    if any(t.startswith("?") for t in dele) or not dele:
        notes.append(f"translate: gen/handlerstore: MemoryWorkflowStore.delete: shape not recognised {dele}")

    efn = _find_def(cls, "_evict_oldest_completed")
    if efn is not None:
        for st in _body(efn):
            if isinstance(st, ast.If) and not st.orelse and len(st.body) == 1 and isinstance(st.body[0], ast.Return) and st.body[0].value is None \
                    and isinstance(st.test, ast.Compare) and len(st.test.ops) == 1 and isinstance(st.test.ops[0], ast.Is) \
                    and _self_attr(st.test.left, "max_completed") and _is_none(st.test.comparators[0]):
                evi.append("unbounded-returns")
            elif isinstance(st, ast.While) and not st.orelse and isinstance(st.test, ast.Compare) and len(st.test.ops) == 1 \
                    and _ws(ast.unparse(st.test.left)) == "len(self._terminal_queue)" and _self_attr(st.test.comparators[0], "max_completed"):
                evi.append("while-len" + {ast.Gt: ">", ast.GtE: ">=", ast.NotEq: "!="}.get(type(st.test.ops[0]), "?") + "max")
                idv: str | None = None
                hv: str | None = None
                rv: str | None = None
                for s2 in st.body:
                    if isinstance(s2, ast.Assign) and len(s2.targets) == 1:
                        tgt, val = s2.targets[0], s2.value
                        c = _call_self(val, "_terminal_queue", "popitem")
                        if c is not None and isinstance(tgt, ast.Tuple) and len(tgt.elts) == 2 and isinstance(tgt.elts[0], ast.Name) and not c.args \
                                and len(c.keywords) == 1 and c.keywords[0].arg == "last" and isinstance(c.keywords[0].value, ast.Constant):
                            idv = tgt.elts[0].id
                            evi.append("pop-oldest" if c.keywords[0].value.value is False else "pop-newest")
                            continue
                        c = _call_self(val, "handlers", "get")
                        if c is not None and isinstance(tgt, ast.Name) and len(c.args) == 1 and isinstance(c.args[0], ast.Name) and c.args[0].id == idv:
                            hv = tgt.id
                            continue
                        if isinstance(tgt, ast.Name) and hv is not None and _is_attr(val, hv, "run_id"):
                            rv = tgt.id
                            continue
                        evi.append(_short(s2))
                        continue
                    if isinstance(s2, ast.If) and not s2.orelse and len(s2.body) == 1 and isinstance(s2.body[0], ast.Continue) and hv is not None:
                        t = s2.test
                        if isinstance(t, ast.Compare) and len(t.ops) == 1 and isinstance(t.ops[0], ast.Is) and isinstance(t.left, ast.Name) \
                                and t.left.id == hv and _is_none(t.comparators[0]):
                            evi.append("skip-missing")
                            continue
                        if isinstance(t, ast.UnaryOp) and isinstance(t.op, ast.Not) and _terminal_call(t.operand, hv):
                            evi.append("skip-nonterminal")
                            continue
                    c = _call_self(s2, "handlers", "pop")
                    if c is not None and c.args and isinstance(c.args[0], ast.Name) and c.args[0].id == idv:
                        evi.append("remove-handler")
                        continue
                    if isinstance(s2, ast.If) and not s2.orelse and rv is not None and _ws(ast.unparse(s2.test)) == f"{rv} is not None":
                        okp = True
                        for s3 in s2.body:
                            c3 = s3.value if isinstance(s3, ast.Expr) else None
                            if isinstance(c3, ast.Call) and isinstance(c3.func, ast.Attribute) and c3.func.attr == "pop" \
                                    and isinstance(c3.func.value, ast.Attribute) and isinstance(c3.func.value.value, ast.Name) \
                                    and c3.func.value.value.id == "self" and c3.args and isinstance(c3.args[0], ast.Name) and c3.args[0].id == rv:
                                tables.append(c3.func.value.attr)
                            else:
                                okp = False
                        evi.append("drop-run-data" if okp else _short(s2))
                        continue
                    evi.append(_short(s2))
            else:
                evi.append(_short(st))
    if any(t.startswith("?") for t in evi) or not evi:
        notes.append(f"translate: gen/handlerstore: MemoryWorkflowStore._evict_oldest_completed: shape not recognised {evi}")

    dflt = "some (-99)" if default == "<missing>" else ("none" if default is None else f"some {default}" if default >= 0 else f"some ({default})")  # type: ignore[operator]
    return ["", "/-! memory_workflow_store.MemoryWorkflowStore -/",
            "/-- default of `max_completed` in `__init__` (`none` = `None`, no bound) -/",
            f"def memMaxCompletedDefault : Option Int := {dflt}",
            "/-- `__init__` raises `ValueError` for a negative `max_completed` -/",
            f"def memNegativeMaxRaises : Bool := {lean_bool(neg_raises)}",
            "/-- `query` is `[h for h in self.handlers.values() if _matches_query(h, query)]` -/",
            f"def memQueryIsFilteredListing : Bool := {lean_bool(query_shape)}",
            "/-- statement shapes of `update`, `delete`, `_evict_oldest_completed` (parameter and local names abstracted) -/",
            f"def memUpdateShape : List String := {lean_strs(upd)}",
            f"def memDeleteShape : List String := {lean_strs(dele)}",
            f"def memEvictShape : List String := {lean_strs(evi)}",
            "/-- per-run tables an eviction also clears (sorted) -/",
            f"def memEvictRunTables : List String := {lean_strs(sorted(tables))}"]


def generate(notes: list[str]) -> list[str]:
    L = ["namespace Gen.HandlerStore", "",
         f"def fieldNames : List String := {lean_strs(FIELDS)}",
         f"def attrNames : List String := {lean_strs(ATTRS)}", ""]
    a, _names = _gen_abstract(notes)
    L += a
    L += _gen_memory(notes)
    L += _gen_memory_store(notes)
    L += _gen_sqlite(notes)
    L += ["", "end Gen.HandlerStore"]
    return L
