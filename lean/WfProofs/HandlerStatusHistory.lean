import WfProofs.HandlerStatusSticky
/-! The retry budget of one write does not depend on the history of the runtime: nothing the stack does
changes `backoff` (in the code: `_retry_store_write` pops from a copy made inside the call). -/
set_option linter.unusedVariables false
set_option linter.unusedSimpArgs false
namespace HandlerStatus

/-- everything one runtime instance does over its lifetime: runs are started (`run_workflow_handler`), and any
`LateOp` (events of any run through its adapter, idle clears, restarts, cancels, late status updates, the store
starting or ceasing to fail) -/
inductive HistOp
  | start (run : Nat)
  | op (o : LateOp)

def St.hist (s : St) : HistOp → St
  | .start run => (s.start run).1
  | .op o => s.late o

theorem upsert_backoff (s : St) (run : Nat) : (s.upsert run).1.backoff = s.backoff := by
  unfold St.upsert
  split
  · rfl
  · split <;> rfl

theorem retry_upsert_backoff (run : Nat) : ∀ (bs : List Nat) (s : St),
    (retry (fun x => x.upsert run) bs s).1.backoff = s.backoff
  | [], s => by simpa [retry] using upsert_backoff s run
  | b :: bs, s => by
    simp only [retry]
    cases h : s.upsert run with
    | mk s' ok =>
      have hb : s'.backoff = s.backoff := by have := upsert_backoff s run; rwa [h] at this
      cases ok
      · simp only
        rw [retry_upsert_backoff run bs]
        exact hb
      · exact hb

theorem forward_backoff (s : St) (run : Nat) (e : Ev) : (s.forward run e).1.backoff = s.backoff := by
  unfold St.forward
  split
  · apply andThen_preserves (fun x => x.backoff = s.backoff)
    · exact (uhs_step s run _).backoff
    · intro x hx; exact hx
  · rfl

theorem writeEvent_backoff (s : St) (run : Nat) (e : Ev) (rp : Bool) : (s.writeEvent run e rp).1.backoff = s.backoff := by
  unfold St.writeEvent
  apply andThen_preserves (fun x => x.backoff = s.backoff)
  · split
    · rfl
    · apply andThen_preserves (fun x => x.backoff = s.backoff)
      · unfold St.statusWrite
        split
        · exact (retry_uhs_step run _ s.backoff s).backoff
        · rfl
      · intro x hx
        unfold St.append
        split <;> exact hx
  · intro x hx; rw [forward_backoff]; exact hx

theorem markFailed_backoff (s : St) (run n : Nat) : (s.markFailed run n).1.backoff = s.backoff :=
  (uhs_step s run _).backoff

theorem write_or_mark_backoff (s : St) (run : Nat) (a : UArgs) (ok : RestartRes) (f : Nat) :
    (if (s.uhs run a).2 = true then ((s.uhs run a).1, ok) else (s.uhs run a).1.markFailed run f).1.backoff = s.backoff := by
  split
  · exact (uhs_step s run a).backoff
  · rw [markFailed_backoff]; exact (uhs_step s run a).backoff

theorem restart_backoff (s : St) (rp : Replay) (a : Bool) (f : Nat) : (s.restart rp a f).1.backoff = s.backoff := by
  unfold St.restart
  split
  · rfl
  · split
    · rfl
    · split
      · exact write_or_mark_backoff s _ _ _ f
      · rfl
      · exact markFailed_backoff s _ _
      · split
        · rfl
        · exact write_or_mark_backoff s _ _ _ f

theorem cancel_backoff (s : St) (p : Bool) : (s.cancel p).1.backoff = s.backoff := by
  unfold St.cancel
  split
  · rfl
  · split
    · rfl
    · simp only
      split <;> rfl

theorem late_backoff (s : St) (o : LateOp) : (s.late o).backoff = s.backoff := by
  cases o with
  | event run e rp => exact writeEvent_backoff s run e rp
  | idleClear run => exact (uhs_step s run _).backoff
  | restart rp a f => exact restart_backoff s rp a f
  | cancel p => exact cancel_backoff s p
  | statusUpdate run st res err => exact (retry_uhs_step run _ s.backoff s).backoff
  | arm u a d => rfl

theorem hist_backoff (s : St) (h : HistOp) : (s.hist h).backoff = s.backoff := by
  cases h with
  | start run => exact retry_upsert_backoff run s.backoff s
  | op o => exact late_backoff s o

theorem hists_backoff : ∀ (hs : List HistOp) (s : St), (hs.foldl St.hist s).backoff = s.backoff
  | [], s => rfl
  | h :: hs, s => by
    simp only [List.foldl_cons]
    rw [hists_backoff hs, hist_backoff]

end HandlerStatus
