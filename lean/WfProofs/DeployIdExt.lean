import WfProofs.DeployId
/-! More helper lemmas for C32 (core Lean only): the retry loop in closed form, the oracle form
of the loop, hyphen structure of the sanitised name, the word-join specification, reserved ids. -/
set_option linter.unusedSimpArgs false

namespace DeployId

theorem loopCount_eq : loopCount = 99 := rfl

/-! ### the retry loop in closed form -/

theorem findLoop_closed (base : List Char) :
    ∀ (n : Nat) (cur : List Char) (answers : List Bool) (ds : List Draw),
      findLoop base n cur answers ds =
        if answers.idxOf true < n ∧ answers.idxOf true < answers.length then
          (cur :: ds.map (appendSuffix base))[answers.idxOf true]?
        else none
  | 0, _, _, _ => by simp [findLoop]
  | n + 1, cur, [], ds => by simp [findLoop]
  | n + 1, cur, true :: a', ds => by simp [findLoop, List.idxOf_cons]
  | n + 1, cur, false :: a', [] => by
    simp only [findLoop, List.idxOf_cons, List.map_nil]
    split <;> simp
  | n + 1, cur, false :: a', d :: ds' => by
    simp only [findLoop, List.idxOf_cons, List.map_cons]
    rw [findLoop_closed base n (appendSuffix base d) a' ds']
    simp

theorem findId_closed (name : List Char) (force : Bool) (answers : List Bool) (ds : List Draw) :
    findId name force answers ds =
      if answers.idxOf true < loopCount ∧ answers.idxOf true < answers.length then
        (cands name force ds)[answers.idxOf true]?
      else none := by
  unfold findId cands
  simp only
  split
  · cases ds with
    | nil => simp
    | cons d ds' => simp only [findLoop_closed, List.map_cons]
  · simp only [findLoop_closed]

/-! ### the loop with the availability oracle -/

theorem findLoopO_spec (base : List Char) (avail : Nat → List Char → Bool) :
    ∀ (n k : Nat) (cur : List Char) (ds : List Draw) (r : List Char) (m : Nat),
      findLoopO base avail n k cur ds = (some r, m) →
      ∃ i, i < n ∧ m = k + i + 1 ∧ (cur :: ds.map (appendSuffix base))[i]? = some r ∧
        avail (k + i) r = true ∧
        ∀ j, j < i → ∀ c, (cur :: ds.map (appendSuffix base))[j]? = some c → avail (k + j) c = false
  | 0, k, cur, ds, r, m, h => by simp [findLoopO] at h
  | n + 1, k, cur, ds, r, m, h => by
    unfold findLoopO at h
    split at h
    · rename_i hav
      simp only [Prod.mk.injEq, Option.some.injEq] at h
      refine ⟨0, by omega, by omega, by simp [h.1], by simpa [← h.1] using hav, ?_⟩
      intro j hj; omega
    · rename_i hav
      match ds, h with
      | [], h => simp at h
      | d :: ds', h =>
        simp only at h
        obtain ⟨i, hi, hm, hget, hav', hall⟩ := findLoopO_spec base avail n (k + 1) _ ds' r m h
        refine ⟨i + 1, by omega, by omega, by simpa using hget, by
          have : k + (i + 1) = k + 1 + i := by omega
          rw [this]; exact hav', ?_⟩
        intro j hj c hc
        cases j with
        | zero =>
          simp only [List.getElem?_cons_zero, Option.some.injEq] at hc
          subst hc
          simpa using hav
        | succ j' =>
          have : k + (j' + 1) = k + 1 + j' := by omega
          rw [this]
          exact hall j' (by omega) c (by simpa using hc)

theorem findLoopO_none (base : List Char) (avail : Nat → List Char → Bool) :
    ∀ (n k : Nat) (cur : List Char) (ds : List Draw) (m : Nat),
      findLoopO base avail n k cur ds = (none, m) →
      ∃ i, m = k + i ∧ (i = n ∨ (i = ds.length + 1 ∧ i ≤ n)) ∧
        ∀ j, j < i → ∀ c, (cur :: ds.map (appendSuffix base))[j]? = some c → avail (k + j) c = false
  | 0, k, cur, ds, m, h => by
    simp only [findLoopO, Prod.mk.injEq, true_and] at h
    exact ⟨0, by omega, Or.inl rfl, by intro j hj; omega⟩
  | n + 1, k, cur, ds, m, h => by
    unfold findLoopO at h
    split at h
    · simp at h
    · rename_i hav
      match ds, h with
      | [], h =>
        simp only [Prod.mk.injEq, true_and] at h
        refine ⟨1, by omega, Or.inr ⟨by simp, by omega⟩, ?_⟩
        intro j hj c hc
        have : j = 0 := by omega
        subst this
        simp only [List.map_nil, List.getElem?_cons_zero, Option.some.injEq] at hc
        subst hc; simpa using hav
      | d :: ds', h =>
        simp only at h
        obtain ⟨i, hm, hi, hall⟩ := findLoopO_none base avail n (k + 1) _ ds' m h
        refine ⟨i + 1, by omega, ?_, ?_⟩
        · rcases hi with hi | hi
          · exact Or.inl (by omega)
          · exact Or.inr ⟨by simp only [List.length_cons]; omega, by omega⟩
        · intro j hj c hc
          cases j with
          | zero =>
            simp only [List.getElem?_cons_zero, Option.some.injEq] at hc
            subst hc
            simpa using hav
          | succ j' =>
            have : k + (j' + 1) = k + 1 + j' := by omega
            rw [this]
            exact hall j' (by omega) c (by simpa using hc)

/-- the oracle form is the list form run on the answers the oracle gives for the candidates -/
theorem findLoopO_eq (base : List Char) (avail : Nat → List Char → Bool) :
    ∀ (n k : Nat) (cur : List Char) (ds : List Draw),
      (findLoopO base avail n k cur ds).1 =
        findLoop base n cur (oracleAnswers avail k (cur :: ds.map (appendSuffix base))) ds
  | 0, k, cur, ds => by simp [findLoopO, findLoop]
  | n + 1, k, cur, ds => by
    unfold findLoopO
    simp only [oracleAnswers]
    cases hav : avail k cur with
    | true => simp [findLoop]
    | false =>
      cases ds with
      | nil => simp [findLoop]
      | cons d ds' =>
        simp only [findLoop, List.map_cons, Bool.false_eq_true, if_false]
        exact findLoopO_eq base avail n (k + 1) _ ds'

/-! ### hyphen structure: no two adjacent hyphens, none at either end -/

theorem eq_nil_or_snoc (l : List Char) : l = [] ∨ ∃ l' a, l = l' ++ [a] := by
  rcases List.eq_nil_or_concat l with h | ⟨l', a, h⟩
  · exact Or.inl h
  · exact Or.inr ⟨l', a, by rw [h, List.concat_eq_append]⟩

theorem NoDouble_tail {c : Char} {cs : List Char} (h : NoDouble (c :: cs)) : NoDouble cs := by
  cases cs with
  | nil => trivial
  | cons d r => exact h.2

theorem NoDouble_prefix : ∀ (l m : List Char), NoDouble (l ++ m) → NoDouble l
  | [], _, _ => trivial
  | [_], _, _ => trivial
  | c :: d :: r, m, h => by
    have h' : NoDouble (c :: d :: (r ++ m)) := h
    exact ⟨h'.1, NoDouble_prefix (d :: r) m h'.2⟩

theorem NoDouble_take (n : Nat) (l : List Char) (h : NoDouble l) : NoDouble (l.take n) := by
  have := List.take_append_drop n l
  exact NoDouble_prefix (l.take n) (l.drop n) (by rw [this]; exact h)

theorem NoDouble_concat_last : ∀ (l : List Char) (a b : Char), NoDouble (l ++ [a]) →
    isHyphen a = true → l.getLast? = some b → isHyphen b = false
  | [], _, _, _, _, hb => by simp at hb
  | [c], a, b, h, ha, hb => by
    simp only [List.getLast?_singleton, Option.some.injEq] at hb
    subst hb
    have h' : NoDouble [c, a] := h
    have := h'.1
    simpa [ha] using this
  | c :: d :: r, a, b, h, ha, hb => by
    have h' : NoDouble (c :: d :: (r ++ [a])) := h
    have hb' : (d :: r).getLast? = some b := by simpa [List.getLast?_cons_cons] using hb
    exact NoDouble_concat_last (d :: r) a b h'.2 ha hb'

theorem stripLead_noDouble (cs : List Char) (h : NoDouble cs) : NoDouble (stripLead cs) := by
  cases cs with
  | nil => trivial
  | cons c r =>
    rw [stripLead_cons]; split
    · exact NoDouble_tail h
    · exact h

/-- the second half of `stripEnds`: drop one trailing hyphen -/
theorem stripTrail_cases (ys : List Char) :
    (stripLead ys.reverse).reverse = ys ∨
      ∃ a, isHyphen a = true ∧ ys = (stripLead ys.reverse).reverse ++ [a] := by
  rcases eq_nil_or_snoc ys with h | ⟨l, a, h⟩
  · subst h; left; rfl
  · subst h
    simp only [List.reverse_append, List.reverse_cons, List.reverse_nil, List.nil_append,
      List.singleton_append, stripLead_cons]
    by_cases ha : isHyphen a = true
    · right; exact ⟨a, ha, by simp [ha]⟩
    · left; simp [ha]

theorem stripEnds_noDouble (cs : List Char) (h : NoDouble cs) : NoDouble (stripEnds cs) := by
  unfold stripEnds
  rcases stripTrail_cases (stripLead cs) with h1 | ⟨a, _, h2⟩
  · rw [h1]; exact stripLead_noDouble cs h
  · have := stripLead_noDouble cs h
    rw [h2] at this
    exact NoDouble_prefix _ _ this

theorem stripEnds_last (cs : List Char) (h : NoDouble cs) :
    ∀ l, (stripEnds cs).getLast? = some l → isHyphen l = false := by
  intro l hl
  unfold stripEnds at hl
  rcases stripTrail_cases (stripLead cs) with h1 | ⟨a, ha, h2⟩
  · -- nothing was stripped: the last character is not a hyphen
    rcases eq_nil_or_snoc (stripLead cs) with hn | ⟨l', a', hc⟩
    · rw [hn] at hl; simp [stripLead] at hl
    · rw [hc] at h1 hl
      simp only [List.reverse_append, List.reverse_cons, List.reverse_nil, List.nil_append,
        List.singleton_append, stripLead_cons] at h1 hl
      by_cases ha' : isHyphen a' = true
      · simp only [ha', if_true, List.reverse_reverse] at h1
        have := congrArg List.length h1
        simp at this
      · simp only [ha', Bool.false_eq_true, if_false, List.reverse_cons, List.reverse_reverse] at hl
        simp only [List.getLast?_concat, Option.some.injEq] at hl
        subst hl; simpa using ha'
  · have hnd := stripLead_noDouble cs h
    rw [h2] at hnd
    exact NoDouble_concat_last _ a l hnd ha hl

theorem addPrefix_noDouble (cs : List Char) (h : NoDouble cs)
    (hhead : ∀ c r, cs = c :: r → isHyphen c = false) : NoDouble (addPrefix cs) := by
  cases cs with
  | nil => trivial
  | cons c r =>
    rw [addPrefix_cons]; split
    · exact h
    · have hc := hhead c r rfl
      refine ⟨by decide, ?_, h⟩
      simp [hc]

theorem addPrefix_last (cs : List Char) (hl : ∀ l, cs.getLast? = some l → isHyphen l = false) :
    ∀ l, (addPrefix cs).getLast? = some l → isHyphen l = false := by
  intro l h
  cases cs with
  | nil => simp [addPrefix] at h
  | cons c r =>
    rw [addPrefix_cons] at h; split at h
    · exact hl l h
    · exact hl l (by simpa [List.getLast?_cons_cons] using h)

/-- the id before truncation -/
def preId (name : List Char) : List Char := addPrefix (stripEnds (collapse (sanitize name)))

theorem baseId_def (name : List Char) :
    baseId name = rstrip ((preId name).take Gen.C32.maxLength) := rfl

theorem preId_noDouble (name : List Char) : NoDouble (preId name) :=
  addPrefix_noDouble _ (stripEnds_noDouble _ (collapse_noDouble _))
    (stripEnds_head _ (collapse_noDouble _))

theorem preId_last (name : List Char) :
    ∀ l, (preId name).getLast? = some l → isHyphen l = false :=
  addPrefix_last _ (stripEnds_last _ (collapse_noDouble _))

theorem rstrip_of_last (cs : List Char) (hl : ∀ l, cs.getLast? = some l → isHyphen l = false) :
    rstrip cs = cs := by
  unfold rstrip
  rcases eq_nil_or_snoc cs with h | ⟨l, a, h⟩
  · subst h; rfl
  · subst h
    have ha := hl a (by simp)
    simp [List.dropWhile_cons, ha]

theorem rstrip_cases (cs : List Char) (h : NoDouble cs) :
    rstrip cs = cs ∨ ∃ a, isHyphen a = true ∧ cs = rstrip cs ++ [a] := by
  rcases eq_nil_or_snoc cs with hn | ⟨l, a, hc⟩
  · left; subst hn; rfl
  · by_cases ha : isHyphen a = true
    · right
      refine ⟨a, ha, ?_⟩
      have hl : rstrip l = l := by
        apply rstrip_of_last
        intro b hb
        exact NoDouble_concat_last l a b (by rw [← hc]; exact h) ha hb
      subst hc
      have : rstrip (l ++ [a]) = rstrip l := by
        unfold rstrip; simp [List.dropWhile_cons, ha]
      rw [this, hl]
    · left
      apply rstrip_of_last
      intro b hb
      subst hc
      simp only [List.getLast?_concat, Option.some.injEq] at hb
      subst hb; simpa using ha

theorem baseId_noDouble (name : List Char) : NoDouble (baseId name) := by
  rw [baseId_def]
  have := NoDouble_take Gen.C32.maxLength _ (preId_noDouble name)
  rcases rstrip_cases _ this with h | ⟨a, _, h⟩
  · rw [h]; exact this
  · rw [h] at this; exact NoDouble_prefix _ _ this

theorem baseId_of_short (name : List Char) (h : (preId name).length ≤ 63) :
    baseId name = preId name := by
  rw [baseId_def, List.take_of_length_le (by exact h)]
  exact rstrip_of_last _ (preId_last name)

theorem baseId_of_long (name : List Char) (h : 63 < (preId name).length) :
    62 ≤ (baseId name).length := by
  rw [baseId_def]
  have hnd := NoDouble_take Gen.C32.maxLength _ (preId_noDouble name)
  have hlen : ((preId name).take Gen.C32.maxLength).length = 63 := by
    rw [List.length_take]; have : Gen.C32.maxLength = 63 := rfl; omega
  rcases rstrip_cases _ hnd with h1 | ⟨a, _, h2⟩
  · rw [h1]; omega
  · have := congrArg List.length h2
    simp only [List.length_append, List.length_singleton] at this
    omega

/-! ### the three `re.sub` passes compute the hyphen-join of the alphanumeric words -/

def startsAlnum : List Char → Bool
  | [] => false
  | d :: _ => isAlnum d

theorem splitRaw_ne_nil : ∀ cs : List Char, splitRaw cs ≠ []
  | [] => by simp [splitRaw]
  | c :: r => by
    unfold splitRaw
    split
    · cases h : splitRaw r <;> simp [consHead]
    · simp

theorem splitRaw_head_isEmpty : ∀ cs : List Char,
    ∃ w ws, splitRaw cs = w :: ws ∧ (w.isEmpty = !startsAlnum cs)
  | [] => ⟨[], [], rfl, rfl⟩
  | c :: r => by
    unfold splitRaw
    by_cases hc : isAlnum c = true
    · obtain ⟨w, ws, hw, _⟩ := splitRaw_head_isEmpty r
      exact ⟨c :: w, ws, by simp [hc, hw, consHead], by simp [startsAlnum, hc]⟩
    · exact ⟨[], splitRaw r, by simp [hc], by simp [startsAlnum, hc]⟩

theorem words_nil : words [] = [] := rfl

theorem words_cons_not_alnum (c : Char) (r : List Char) (hc : isAlnum c = false) :
    words (c :: r) = words r := by
  simp [words, splitRaw, hc]

theorem words_cons_alnum (c : Char) (r : List Char) (hc : isAlnum c = true) :
    words (c :: r) = if startsAlnum r then consHead c (words r) else [c] :: words r := by
  obtain ⟨w, ws, hw, he⟩ := splitRaw_head_isEmpty r
  simp only [words, splitRaw, hc, if_true, hw, consHead]
  cases hs : startsAlnum r with
  | true =>
    rw [hs] at he
    simp only [Bool.not_true] at he
    simp [List.filter_cons, he, consHead]
  | false =>
    rw [hs] at he
    simp only [Bool.not_false, List.isEmpty_iff] at he
    subst he
    simp [List.filter_cons]

theorem words_sanitize : ∀ cs : List Char, splitRaw (sanitize cs) = splitRaw cs
  | [] => rfl
  | c :: r => by
    have ih := words_sanitize r
    simp only [sanitize, List.map_cons] at ih ⊢
    by_cases hc : isAlnum c = true
    · simp [splitRaw, hc, ih]
    · simp [splitRaw, hc, not_alnum_hyphen, ih]

theorem startsAlnum_collapse (cs : List Char) : startsAlnum (collapse cs) = startsAlnum cs := by
  cases cs with
  | nil => rfl
  | cons c r =>
    obtain ⟨r', hr⟩ := collapse_head c r
    rw [hr]; rfl

theorem words_collapse : ∀ cs : List Char, words (collapse cs) = words cs
  | [] => rfl
  | [c] => rfl
  | c :: d :: rest => by
    have ih := words_collapse (d :: rest)
    unfold collapse
    split
    · rename_i h
      simp only [Bool.and_eq_true] at h
      rw [ih, words_cons_not_alnum c _ (hyphen_not_alnum h.1)]
    · by_cases hc : isAlnum c = true
      · rw [words_cons_alnum c _ hc, words_cons_alnum c _ hc, startsAlnum_collapse, ih]
      · simp only [Bool.not_eq_true] at hc
        rw [words_cons_not_alnum c _ hc, words_cons_not_alnum c _ hc, ih]

theorem words_stripLead (cs : List Char) : words (stripLead cs) = words cs := by
  cases cs with
  | nil => rfl
  | cons c r =>
    rw [stripLead_cons]; split
    · rename_i h; rw [words_cons_not_alnum c r (hyphen_not_alnum h)]
    · rfl

theorem startsAlnum_snoc (l : List Char) (a : Char) (ha : isAlnum a = false) :
    startsAlnum (l ++ [a]) = startsAlnum l := by
  cases l with
  | nil => simp [startsAlnum, ha]
  | cons c r => rfl

theorem words_snoc_not_alnum (a : Char) (ha : isAlnum a = false) :
    ∀ l : List Char, words (l ++ [a]) = words l
  | [] => by simp [words_cons_not_alnum a [] ha]
  | c :: r => by
    have ih := words_snoc_not_alnum a ha r
    simp only [List.cons_append]
    by_cases hc : isAlnum c = true
    · rw [words_cons_alnum c _ hc, words_cons_alnum c _ hc, startsAlnum_snoc r a ha, ih]
    · simp only [Bool.not_eq_true] at hc
      rw [words_cons_not_alnum c _ hc, words_cons_not_alnum c _ hc, ih]

theorem words_stripEnds (cs : List Char) : words (stripEnds cs) = words cs := by
  unfold stripEnds
  rcases stripTrail_cases (stripLead cs) with h1 | ⟨a, ha, h2⟩
  · rw [h1, words_stripLead]
  · rw [← words_stripLead cs]
    conv => rhs; rw [h2]
    rw [words_snoc_not_alnum a (hyphen_not_alnum ha)]

theorem hyphenJoin_consHead (c : Char) (w : List Char) (ws : List (List Char)) :
    hyphenJoin (consHead c (w :: ws)) = c :: hyphenJoin (w :: ws) := by
  cases ws <;> simp [consHead, hyphenJoin]

theorem isHyphen_eq {c : Char} (h : isHyphen c = true) : c = '-' := by
  simpa [isHyphen] using h

/-- a string of label characters without adjacent or trailing hyphens is the hyphen-join of its
words, after its leading hyphen if it has one -/
theorem canon_join : ∀ (x : List Char), x.all isLabelChar = true → NoDouble x →
    (∀ l, x.getLast? = some l → isHyphen l = false) → x ≠ [] →
    words x ≠ [] ∧ x = (if startsAlnum x then [] else ['-']) ++ hyphenJoin (words x)
  | [], _, _, _, hne => absurd rfl hne
  | c :: r, hall, hnd, hlast, _ => by
    simp only [List.all_cons, Bool.and_eq_true] at hall
    have hndr : NoDouble r := NoDouble_tail hnd
    have hlastr : ∀ l, r.getLast? = some l → isHyphen l = false := by
      intro l hl
      cases r with
      | nil => simp at hl
      | cons d r' => exact hlast l (by simpa [List.getLast?_cons_cons] using hl)
    by_cases hc : isHyphen c = true
    · -- a leading hyphen: the rest is non-empty and starts with an alphanumeric
      have hcn := hyphen_not_alnum hc
      cases r with
      | nil => have := hlast c (by simp); rw [this] at hc; cases hc
      | cons d r' =>
        have hd : isHyphen d = false := by
          have := hnd.1
          simpa [hc] using this
        have hda : isAlnum d = true := by
          simp only [List.all_cons, Bool.and_eq_true] at hall
          exact label_not_hyphen_alnum hall.2.1 hd
        obtain ⟨hw, hx⟩ := canon_join (d :: r') hall.2 hndr hlastr (by simp)
        rw [words_cons_not_alnum c _ hcn]
        refine ⟨hw, ?_⟩
        have hs1 : startsAlnum (c :: d :: r') = false := hcn
        have hs2 : startsAlnum (d :: r') = true := hda
        rw [hs1]
        rw [hs2] at hx
        simp only [Bool.false_eq_true, if_false, List.singleton_append]
        simp only [if_true, List.nil_append] at hx
        rw [← hx, isHyphen_eq hc]
    · simp only [Bool.not_eq_true] at hc
      have hca : isAlnum c = true := label_not_hyphen_alnum hall.1 hc
      have hsc : startsAlnum (c :: r) = true := hca
      rw [words_cons_alnum c r hca, hsc]
      simp only [if_true, List.nil_append]
      cases r with
      | nil => simp [startsAlnum, words_nil, hyphenJoin]
      | cons d r' =>
        obtain ⟨hw, hx⟩ := canon_join (d :: r') hall.2 hndr hlastr (by simp)
        cases hws : words (d :: r') with
        | nil => exact absurd hws hw
        | cons w ws =>
          rw [hws] at hx
          cases hs : startsAlnum (d :: r') with
          | true =>
            rw [hs] at hx
            simp only [if_true, List.nil_append] at hx
            simp only [if_true]
            refine ⟨by simp [consHead], ?_⟩
            rw [hyphenJoin_consHead, ← hx]
          | false =>
            rw [hs] at hx
            simp only [Bool.false_eq_true, if_false, List.singleton_append] at hx
            simp only [Bool.false_eq_true, if_false]
            refine ⟨by simp, ?_⟩
            simp only [hyphenJoin, List.singleton_append]
            rw [← hx]

theorem sanitized_eq_join (name : List Char) :
    stripEnds (collapse (sanitize name)) = hyphenJoin (words name) := by
  have hw : words (stripEnds (collapse (sanitize name))) = words name := by
    rw [words_stripEnds, words_collapse]
    simp only [words, words_sanitize]
  have hnd := collapse_noDouble (sanitize name)
  cases hx : stripEnds (collapse (sanitize name)) with
  | nil => rw [hx] at hw; rw [← hw]; rfl
  | cons c r =>
    have hall := stripEnds_all _ (collapse_all _ (sanitize_all name))
    have hhead := stripEnds_head _ hnd c r hx
    have := canon_join _ hall (stripEnds_noDouble _ hnd) (stripEnds_last _ hnd) (by rw [hx]; simp)
    rw [hw] at this
    rw [hx] at this hall
    simp only [List.all_cons, Bool.and_eq_true] at hall
    have hca : startsAlnum (c :: r) = true := label_not_hyphen_alnum hall.1 hhead
    rw [hca] at this
    simpa using this.2

/-! ### the base id: empty exactly for names without alphanumerics; a fixed point of the derivation -/

theorem preId_eq_join (name : List Char) : preId name = addPrefix (hyphenJoin (words name)) := by
  unfold preId; rw [sanitized_eq_join]

theorem baseId_eq_nil_iff (name : List Char) : baseId name = [] ↔ alnumCount name = 0 := by
  constructor
  · intro h
    apply Decidable.byContradiction
    intro hne
    exact baseId_ne_nil name (by omega) h
  · intro h
    have hf : name.filter isAlnum = [] := List.eq_nil_of_length_eq_zero h
    have hp := (baseId_prefix name).filter isAlnum
    rw [filter_addPrefix, hf] at hp
    simp only [dPrefix, hf, List.append_nil] at hp
    have hb : (baseId name).filter isAlnum = [] := List.prefix_nil.mp hp
    cases hbase : baseId name with
    | nil => rfl
    | cons c r =>
      have hc := isLower_isAlnum (baseId_head name c r hbase)
      rw [hbase] at hb
      simp [List.filter_cons, hc] at hb

theorem filter_rstrip (cs : List Char) (hl : ∀ l, cs.getLast? = some l → isHyphen l = false) :
    (rstrip cs).filter isAlnum = cs.filter isAlnum := by rw [rstrip_of_last cs hl]

theorem sanitize_id (x : List Char) (h : x.all isLabelChar = true) : sanitize x = x := by
  induction x with
  | nil => rfl
  | cons c r ih =>
    simp only [List.all_cons, Bool.and_eq_true] at h
    simp only [sanitize, List.map_cons] at ih ⊢
    rw [ih h.2]
    by_cases hc : isAlnum c = true
    · simp [hc]
    · have hh : isHyphen c = true := by
        have := h.1
        simp only [isLabelChar, Bool.or_eq_true] at this
        rcases this with h1 | h1
        · exact absurd h1 hc
        · exact h1
      simp [hc, isHyphen_eq hh]

theorem collapse_id : ∀ (x : List Char), NoDouble x → collapse x = x
  | [], _ => rfl
  | [_], _ => rfl
  | c :: d :: r, h => by
    unfold collapse
    have h1 := h.1
    split
    · rename_i hb
      simp only [Bool.and_eq_true] at hb
      exact absurd hb h1
    · rw [collapse_id (d :: r) h.2]

theorem stripLead_id (x : List Char) (h : ∀ c r, x = c :: r → isHyphen c = false) :
    stripLead x = x := by
  cases x with
  | nil => rfl
  | cons c r => rw [stripLead_cons, h c r rfl]; simp

theorem stripEnds_id (x : List Char) (hh : ∀ c r, x = c :: r → isHyphen c = false)
    (hl : ∀ l, x.getLast? = some l → isHyphen l = false) : stripEnds x = x := by
  unfold stripEnds
  rw [stripLead_id x hh]
  rcases eq_nil_or_snoc x with h | ⟨l, a, h⟩
  · subst h; rfl
  · subst h
    have ha := hl a (by simp)
    simp [stripLead_cons, ha]

theorem baseId_last (name : List Char) :
    ∀ l, (baseId name).getLast? = some l → isHyphen l = false := by
  rw [baseId_def]; exact rstrip_last _

/-- ids are fixed points: deriving a base id from a base id changes nothing -/
theorem baseId_idem (name : List Char) : baseId (baseId name) = baseId name := by
  have hall := baseId_all name
  have hnd := baseId_noDouble name
  have hhead := baseId_head name
  have hlast := baseId_last name
  have hlen := baseId_length name
  have hh : ∀ c r, baseId name = c :: r → isHyphen c = false :=
    fun c r h => isLower_not_hyphen (hhead c r h)
  have hpre : preId (baseId name) = baseId name := by
    unfold preId
    rw [sanitize_id _ hall, collapse_id _ hnd, stripEnds_id _ hh hlast]
    cases hb : baseId name with
    | nil => rfl
    | cons c r => rw [addPrefix_cons, hhead c r hb]; simp
  rw [baseId_of_short (baseId name) (by rw [hpre]; exact hlen), hpre]

/-! ### what a suffixed id looks like -/

theorem appendSuffix_cons (c : Char) (r : List Char) (d : Draw) :
    appendSuffix (c :: r) d = (c :: r).take 57 ++ '-' :: d.hex := rfl

theorem appendSuffix_nil (d : Draw) (h : Char) (t : List Char) (hh : d.hex = h :: t) :
    appendSuffix [] d = (if isDigit h then d.alt else h) :: t := by
  simp only [appendSuffix, hh]
  split <;> rfl

theorem wfDraw_length {d : Draw} (h : wfDraw d = true) : d.hex.length = 5 := by
  simp only [wfDraw, Bool.and_eq_true, beq_iff_eq] at h
  exact h.1.1

/-! ### reserved ids -/

/-- the character six places from the end -/
def sixthFromEnd (r : List Char) : Option Char := r.reverse[5]?

theorem reserved_sixth : ∀ m ∈ reserved, ∃ c, sixthFromEnd m = some c ∧ isHyphen c = false := by
  decide

theorem appendSuffix_sixth (base : List Char) (d : Draw) (hd : wfDraw d = true) :
    sixthFromEnd (appendSuffix base d) = some '-' ∨ sixthFromEnd (appendSuffix base d) = none := by
  have hlen := wfDraw_length hd
  cases base with
  | nil =>
    right
    match hh : d.hex, hlen with
    | [h0, h1, h2, h3, h4], _ =>
      rw [appendSuffix_nil d h0 [h1, h2, h3, h4] hh]
      simp [sixthFromEnd]
  | cons c r =>
    left
    rw [appendSuffix_cons]
    have hrev : ((c :: r).take 57 ++ '-' :: d.hex).reverse
        = d.hex.reverse ++ '-' :: ((c :: r).take 57).reverse := by simp
    simp only [sixthFromEnd, hrev]
    rw [List.getElem?_append_right (by simp [hlen])]
    simp [hlen]

theorem appendSuffix_not_reserved (base : List Char) (d : Draw) (hd : wfDraw d = true) :
    appendSuffix base d ∉ reserved := by
  intro hmem
  obtain ⟨c, hc, hnh⟩ := reserved_sixth _ hmem
  rcases appendSuffix_sixth base d hd with h | h
  · rw [h] at hc
    simp only [Option.some.injEq] at hc
    subst hc; revert hnh; decide
  · rw [h] at hc; cases hc

end DeployId
