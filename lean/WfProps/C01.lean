import WfProofs.EngineReduce
import WfProofs.RunnerWorkers
import WfProofs.EngineUnrepaired
import WfProofs.RunnerSlots
import WfProofs.RunnerSend
import WfModel.GenWorkerSlots
/-!
# C01 — a step never runs more invocations at once than its worker limit

The reducer owns the table of in-progress invocations (`in_progress`); a worker
coroutine exists only for an entry of that table (`CommandRunWorker` is emitted
next to the insertion, and on a collect re-run for the same slot).  The theorems
below hold for **every** sequence of ticks — well-formed or not, any results,
any retry-policy decisions, any clock values — so they cover every workflow
graph, worker count and completion order at once.
-/
open Engine

/-- All states reachable from `init` by rewinding and then reducing an arbitrary
list of (tick, now) pairs. -/
def C01.reach (cfg : Cfg) (pol : Policy) (st0 : State) (now0 : Int) (ticks : List (Tick × Int)) : State :=
  ticks.foldl (fun st tn => (reduce cfg pol tn.1 st tn.2).1) (rewind cfg st0 now0).1

/-- **Invariant**: in every reachable state, for every step, the worker ids of the
in-progress invocations are pairwise distinct and lie in `[0, num_workers)`. -/
theorem C01_slots_distinct_in_range (cfg : Cfg) (hwf : cfg.WF) (pol : Policy) (st0 : State)
    (h0 : IdsInv cfg st0) (now0 : Int) (ticks : List (Tick × Int)) :
    IdsInv cfg (C01.reach cfg pol st0 now0 ticks) := by
  unfold C01.reach
  have hr := rewind_idsInv cfg hwf st0 now0 h0
  generalize (rewind cfg st0 now0).1 = st at hr
  induction ticks generalizing st with
  | nil => simpa using hr
  | cons tn rest ih =>
    simp only [List.foldl_cons]
    exact ih _ (reduce_idsInv cfg hwf pol tn.1 st tn.2 hr)

/-- **Worker limit**: hence at most `num_workers` invocations of a step are in
progress in any reachable state (pigeonhole on the slots). -/
theorem C01_workers_bounded (cfg : Cfg) (hwf : cfg.WF) (pol : Policy) (st0 : State)
    (h0 : IdsInv cfg st0) (now0 : Int) (ticks : List (Tick × Int)) :
    ∀ c ∈ cfg.steps,
      ((C01.reach cfg pol st0 now0 ticks).workers c.name).inProg.length ≤ c.numWorkers := by
  intro c hc
  exact (C01_slots_distinct_in_range cfg hwf pol st0 h0 now0 ticks c hc).length_le

/-- A fresh run starts from a state satisfying the invariant (and so does any
deserialised state, whose `in_progress` lists are empty). -/
theorem C01_init (cfg : Cfg) : IdsInv cfg initState := idsInv_init cfg

/-- The slot allocator never fails: with the invariant, `id_candidates[0]` exists
whenever there is capacity, so starting a worker never raises. -/
theorem C01_allocator_total (att : Attempt) (step : Nat) (ss : StepState) (nw : Nat) (now : Int)
    (h : IdsOk ss nw) : Cmd.crash ∉ (addOrEnqueue att step ss nw now).2 :=
  addOrEnqueue_no_crash att step ss nw now h

/-- A started worker always owns the slot it is told to run on: the `runWorker`
command of `addOrEnqueue` names an id that is in the new table and was free before. -/
theorem C01_started_on_free_slot (att : Attempt) (step : Nat) (ss : StepState) (nw : Nat) (now : Int)
    (ev : Ev) (w : Nat) (h : Cmd.runWorker step ev w ∈ (addOrEnqueue att step ss nw now).2) :
    w ∉ usedIds ss ∧ w < nw ∧ w ∈ usedIds (addOrEnqueue att step ss nw now).1 := by
  unfold addOrEnqueue at h ⊢
  by_cases hlt : ss.inProg.length < nw
  · simp only [hlt, ↓reduceIte] at h ⊢
    cases hfree : freeIds ss nw with
    | nil => simp [hfree] at h
    | cons i rest =>
      simp only [hfree, List.mem_cons, Cmd.runWorker.injEq, List.mem_nil_iff, or_false,
        reduceCtorEq] at h
      obtain ⟨_, _, hw⟩ := h
      subst hw
      have hmem : w ∈ freeIds ss nw := by rw [hfree]; simp
      obtain ⟨h1, h2⟩ := mem_freeIds hmem
      refine ⟨h2, h1, ?_⟩
      simp [usedIds]
  · simp [hlt] at h

/-! Non-vacuity: a concrete configuration with two workers, three events, any order. -/
def C01.exCfg : Cfg := { steps := [{ name := 1, accepted := [5], numWorkers := 2, hasRetry := false }] }
def C01.exEv (u : Nat) : Ev := { ty := 5, kind := .plain, uid := u }
example : C01.exCfg.WF := by simp [Cfg.WF, Cfg.names, C01.exCfg]
example :
    let st := C01.reach C01.exCfg (fun _ _ _ _ => .stop) initState 0
      [(.addEvent { ev := C01.exEv 1 } none, 0), (.addEvent { ev := C01.exEv 2 } none, 0),
       (.addEvent { ev := C01.exEv 3 } none, 0)]
    ((st.workers 1).inProg.map (·.wid), (st.workers 1).queue.length) = ([0, 1], 1) := by decide

/-! ## The runner: live worker tasks

What the property literally talks about is the set of started-and-unfinished worker
tasks, `Runner.running`.  Below: `running` is a duplicate-free sub-table of the reducer's
`in_progress` tables in every state the runner LTS reaches — for every schedule
(`acts : List Act`: buffer drains, workers finishing in any order with any results, mailbox
pulls, timers, time, external ticks, stream writes), every policy, every (possibly resumed)
initial state.  It is an inclusion, not an equality: between a `workerDone` and the `drain`
of its `stepResult` tick the task is gone while its in-progress row still exists.

**Repaired finding.**  These theorems were false of the reducer before the repair
"a step result schedules at most one collect_events re-run of its invocation": a collect
re-run re-issues `CommandRunWorker` for the finishing worker's own slot, and one
`stepResult` tick could take the re-run branch *twice* when its results named the same
collect buffer three times (re-run, append, re-run again against the refreshed snapshot).
Two tasks then ran on one slot, a 2-worker step had 3 live tasks, and the second task's
result found no in-progress row (`ValueError: Worker 1 not found in in_progress`).  The
repaired reducer skips the remaining `AddCollectedEvent` results of a tick once the
re-run is scheduled; `WfProofs/EngineUnrepaired.lean` keeps the old `applyRes` as a variant
and `C01_refuted_*_unrepaired` are the concrete witnesses against it.
-/

/-- start of a run, then an arbitrary schedule -/
abbrev C01.runFrom (cfg : Cfg) (pol : Policy) (st0 : State) (now : Int) (start : Option Ev)
    (timeout : Option Nat) (acts : List Act) : Runner :=
  Runner.run cfg pol (Runner.init cfg st0 now start timeout) acts

/-- **Clause 1** (invariant of the runner LTS): in every reachable runner state every live
worker task is backed by an in-progress row of its (configured) step with its worker id, and
the `(step, worker id)` slots of the live tasks are pairwise distinct. -/
theorem C01_running_subset_in_progress (cfg : Cfg) (hwf : cfg.WF) (pol : Policy) (st0 : State)
    (h0 : IdsInv cfg st0) (now : Int) (start : Option Ev) (timeout : Option Nat) (acts : List Act) :
    (∀ w ∈ (C01.runFrom cfg pol st0 now start timeout acts).running,
      w.step ∈ cfg.names ∧
      ∃ ip ∈ ((C01.runFrom cfg pol st0 now start timeout acts).st.workers w.step).inProg,
        ip.wid = w.wid) ∧
    ((C01.runFrom cfg pol st0 now start timeout acts).running.map Worker.slot).Nodup := by
  have h := run_runInv cfg hwf pol False acts _ (guarded_false cfg pol acts _)
    (init_runInv cfg hwf False st0 h0 now start timeout)
  refine ⟨fun w hw => ?_, h.nodup⟩
  obtain ⟨h1, ip, hip, hwid, _⟩ := h.sub w hw
  exact ⟨h1, ip, hip, hwid⟩

/-- **Clause 2**: a step never has more live worker tasks than `num_workers`, and every live
task runs on a slot in `[0, num_workers)` — for retries, collect re-runs, waiter replays and
resumed runs alike, for every schedule. -/
theorem C01_running_bounded (cfg : Cfg) (hwf : cfg.WF) (pol : Policy) (st0 : State)
    (h0 : IdsInv cfg st0) (now : Int) (start : Option Ev) (timeout : Option Nat) (acts : List Act) :
    (∀ c ∈ cfg.steps,
      ((C01.runFrom cfg pol st0 now start timeout acts).running.filter
        (fun w => w.step == c.name)).length ≤ c.numWorkers) ∧
    ∀ w ∈ (C01.runFrom cfg pol st0 now start timeout acts).running, w.wid < cfg.nw w.step :=
  (run_runInv cfg hwf pol False acts _ (guarded_false cfg pol acts _)
    (init_runInv cfg hwf False st0 h0 now start timeout)).bounded hwf

/-- **Clause 1, event part** (true only with a guard): if every collect re-run carries the
finishing worker's own event (`Runner.sameEvent`, checked along the run), the backing row has
the task's event.  Without the guard it fails — see the example below: a re-run runs with the
event named by the `AddCollectedEvent` result, which is whatever the step passed to
`collect_events`. -/
theorem C01_running_same_event_partial (cfg : Cfg) (hwf : cfg.WF) (pol : Policy) (st0 : State)
    (h0 : IdsInv cfg st0) (now : Int) (start : Option Ev) (timeout : Option Nat) (acts : List Act)
    (he : Runner.sameEvent cfg pol (Runner.init cfg st0 now start timeout) acts = true) :
    ∀ w ∈ (C01.runFrom cfg pol st0 now start timeout acts).running,
      ∃ ip ∈ ((C01.runFrom cfg pol st0 now start timeout acts).st.workers w.step).inProg,
        ip.wid = w.wid ∧ ip.ev = w.ev := by
  have h := run_runInv cfg hwf pol True acts _ (guarded_of_sameEvent cfg pol acts _ he)
    (init_runInv cfg hwf True st0 h0 now start timeout)
  intro w hw
  obtain ⟨_, ip, hip, hwid, hev⟩ := h.sub w hw
  exact ⟨ip, hip, hwid, hev trivial⟩

/-- deliver event `u` to the run: external `send_event`, mailbox pull, process the tick -/
def C01.feed (u : Nat) : List Act :=
  [.external (.addEvent { ev := C01.exEv u } none), .pull, .drain]

def C01.exPol : Policy := fun _ _ _ _ => .stop

/-- the event clause needs its guard: the re-run task carries uid 9, its row uid 2 -/
example :
    let r := C01.runFrom C01.exCfg C01.exPol initState 0 none none
      (C01.feed 1 ++ C01.feed 2 ++
        [.workerDone 1 0 [.addCollected 7 (C01.exEv 1), .result none], .drain,
         .workerDone 1 1 [.addCollected 7 (C01.exEv 9)], .drain])
    (r.running.map (fun w => (w.step, w.wid, w.ev.uid)),
      (r.st.workers 1).inProg.map (fun ip => (ip.wid, ip.ev.uid))) = ([(1, 1, 9)], [(1, 2)]) := by
  decide

/-! ### what the repair prevents -/

/-- the two clauses as predicates of the run function, to state them of both reducers -/
def C01.RunningSubset (run : Cfg → Policy → Runner → List Act → Runner) : Prop :=
  ∀ (cfg : Cfg), cfg.WF → ∀ (pol : Policy) (st0 : State), IdsInv cfg st0 →
    ∀ (now : Int) (start : Option Ev) (timeout : Option Nat) (acts : List Act),
      (∀ w ∈ (run cfg pol (Runner.init cfg st0 now start timeout) acts).running,
        ∃ ip ∈ ((run cfg pol (Runner.init cfg st0 now start timeout) acts).st.workers w.step).inProg,
          ip.wid = w.wid) ∧
      ((run cfg pol (Runner.init cfg st0 now start timeout) acts).running.map Worker.slot).Nodup

def C01.RunningBounded (run : Cfg → Policy → Runner → List Act → Runner) : Prop :=
  ∀ (cfg : Cfg), cfg.WF → ∀ (pol : Policy) (st0 : State), IdsInv cfg st0 →
    ∀ (now : Int) (start : Option Ev) (timeout : Option Nat) (acts : List Act),
      ∀ c ∈ cfg.steps,
        ((run cfg pol (Runner.init cfg st0 now start timeout) acts).running.filter
          (fun w => w.step == c.name)).length ≤ c.numWorkers

/-- of the model (the repaired reducer) both hold … -/
example : C01.RunningSubset Runner.run ∧ C01.RunningBounded Runner.run :=
  ⟨fun cfg hwf pol st0 h0 now start timeout acts =>
      ⟨fun w hw => ((C01_running_subset_in_progress cfg hwf pol st0 h0 now start timeout acts).1 w hw).2,
        (C01_running_subset_in_progress cfg hwf pol st0 h0 now start timeout acts).2⟩,
    fun cfg hwf pol st0 h0 now start timeout acts =>
      (C01_running_bounded cfg hwf pol st0 h0 now start timeout acts).1⟩

/-- the witness schedule on the 2-worker step of `C01.exCfg`: events 1 and 2 run on slots 0
and 1; the first finishes adding its event to collect buffer 7; event 3 takes slot 0; the
second finishes naming buffer 7 three times -/
def C01.doubleRerun : List Act :=
  C01.feed 1 ++ C01.feed 2 ++
  [.workerDone 1 0 [.addCollected 7 (C01.exEv 1), .result none], .drain] ++
  C01.feed 3 ++
  [.workerDone 1 1 [.addCollected 7 (C01.exEv 2), .addCollected 7 (C01.exEv 2),
      .addCollected 7 (C01.exEv 2)], .drain]

/-- before the repair: three live tasks on the 2-worker step, two of them on slot 1, nothing
crashed yet -/
example :
    let r := Runner.runUnrepaired C01.exCfg C01.exPol (Runner.init C01.exCfg initState 0 none none)
      C01.doubleRerun
    (r.running.map Worker.slot, r.outcome, (r.st.workers 1).inProg.map (·.wid))
      = ([(1, 0), (1, 1), (1, 1)], none, [1, 0]) := by decide

/-- after the repair, same schedule: one re-run, two live tasks, the buffer untouched by the
skipped results -/
example :
    let r := C01.runFrom C01.exCfg C01.exPol initState 0 none none C01.doubleRerun
    (r.running.map Worker.slot, r.outcome, (r.st.workers 1).inProg.map (·.wid),
      ((r.st.workers 1).collected.get 7).map (·.uid))
      = ([(1, 0), (1, 1)], none, [1, 0], [1]) := by decide

/-- … of the reducer before the repair the worker limit fails … -/
theorem C01_refuted_running_bounded_unrepaired : ¬ C01.RunningBounded Runner.runUnrepaired := by
  intro h
  have := h C01.exCfg (by simp [Cfg.WF, Cfg.names, C01.exCfg]) C01.exPol initState (idsInv_init _)
    0 none none C01.doubleRerun { name := 1, accepted := [5], numWorkers := 2, hasRetry := false }
    (by simp [C01.exCfg])
  revert this
  decide

/-- … and so does slot distinctness … -/
theorem C01_refuted_running_subset_in_progress_unrepaired : ¬ C01.RunningSubset Runner.runUnrepaired := by
  intro h
  have := (h C01.exCfg (by simp [Cfg.WF, Cfg.names, C01.exCfg]) C01.exPol initState (idsInv_init _)
    0 none none C01.doubleRerun).2
  revert this
  decide

/-- … and, one step later, the inclusion itself: the first of the two slot-1 tasks completes,
its row is removed, the second is still live with no row behind it -/
example :
    let r := Runner.runUnrepaired C01.exCfg C01.exPol (Runner.init C01.exCfg initState 0 none none)
      (C01.doubleRerun ++ [.workerDone 1 1 [.result none], .drain])
    (r.running.map Worker.slot, (r.st.workers 1).inProg.map (·.wid)) = ([(1, 0), (1, 1)], [0]) := by
  decide

/-! Non-vacuity: schedules that reach the limit, a re-run, and a resumed run. -/

/-- two workers of the 2-worker step live at once, the third event stays queued -/
example :
    let acts := C01.feed 1 ++ C01.feed 2 ++ C01.feed 3
    let r := C01.runFrom C01.exCfg C01.exPol initState 0 none none acts
    Runner.sameEvent C01.exCfg C01.exPol (Runner.init C01.exCfg initState 0 none none) acts = true ∧
      (r.running.map Worker.slot, (r.st.workers 1).inProg.map (·.wid), (r.st.workers 1).queue.length)
        = ([(1, 0), (1, 1)], [0, 1], 1) := by decide

/-- a genuine collect re-run (slot 1 re-issued once, its later collect result skipped) and a
slot re-used by the queued event (slot 0) -/
example :
    let acts := C01.feed 1 ++ C01.feed 2 ++ C01.feed 3 ++
      [.workerDone 1 0 [.addCollected 7 (C01.exEv 1), .result none], .drain,
       .workerDone 1 1 [.addCollected 7 (C01.exEv 2), .addCollected 8 (C01.exEv 2)], .drain]
    let r := C01.runFrom C01.exCfg C01.exPol initState 0 none none acts
    Runner.sameEvent C01.exCfg C01.exPol (Runner.init C01.exCfg initState 0 none none) acts = true ∧
      (r.running.map (fun w => (w.step, w.wid, w.ev.uid)), (r.st.workers 1).inProg.map (·.wid),
        (r.st.workers 1).collected.has 8)
        = ([(1, 0, 3), (1, 1, 2)], [1, 0], false) := by decide

/-- a resumed run: the serialized state has two in-progress rows and a backlog; the rewind
restarts exactly two workers -/
example :
    let ip (u w : Nat) : InProg :=
      { ev := C01.exEv u, wid := w, snapEvents := [], snapWaiters := [], attempts := 0, firstAt := 0 }
    let st0 : State := { isRunning := true, workers := fun s =>
      if s = 1 then { inProg := [ip 1 1, ip 2 0], queue := [{ ev := C01.exEv 3 }] } else {} }
    let r := Runner.init C01.exCfg st0 5 none none
    (r.running.map (fun w => (w.step, w.wid, w.ev.uid)), (r.st.workers 1).queue.length)
      = ([(1, 0, 2), (1, 1, 1)], 1) := by decide

/-! ## From whatever state the run is started

`rewind_in_progress` empties every `in_progress` list before it starts anything, so nothing has to be
assumed of the state a run (or a replay of a tick log: `rebuild_state_from_ticks`, `replay_ticks_stream`)
is started from: the hypothesis `IdsInv cfg st0` of the theorems above is not needed — a state with
duplicated or out-of-range worker ids, or with more in-progress rows than workers, is repaired by the
rewind.  (`C01_slots_distinct_in_range` remains the statement for reductions that are *not* preceded by a
rewind: one `reduce` keeps the invariant.) -/

/-- the reducer, any start -/
theorem C01_slots_distinct_in_range_any_start (cfg : Cfg) (hwf : cfg.WF) (pol : Policy) (st0 : State)
    (now0 : Int) (ticks : List (Tick × Int)) : IdsInv cfg (C01.reach cfg pol st0 now0 ticks) := by
  unfold C01.reach
  have hr := rewind_idsInv_fresh cfg hwf st0 now0
  generalize (rewind cfg st0 now0).1 = st at hr
  induction ticks generalizing st with
  | nil => simpa using hr
  | cons tn rest ih =>
    simp only [List.foldl_cons]
    exact ih _ (reduce_idsInv cfg hwf pol tn.1 st tn.2 hr)

theorem C01_workers_bounded_any_start (cfg : Cfg) (hwf : cfg.WF) (pol : Policy) (st0 : State)
    (now0 : Int) (ticks : List (Tick × Int)) :
    ∀ c ∈ cfg.steps,
      ((C01.reach cfg pol st0 now0 ticks).workers c.name).inProg.length ≤ c.numWorkers := fun c hc =>
  (C01_slots_distinct_in_range_any_start cfg hwf pol st0 now0 ticks c hc).length_le

/-- the runner, any start: clause 1 -/
theorem C01_running_subset_in_progress_any_start (cfg : Cfg) (hwf : cfg.WF) (pol : Policy) (st0 : State)
    (now : Int) (start : Option Ev) (timeout : Option Nat) (acts : List Act) :
    (∀ w ∈ (C01.runFrom cfg pol st0 now start timeout acts).running,
      w.step ∈ cfg.names ∧
      ∃ ip ∈ ((C01.runFrom cfg pol st0 now start timeout acts).st.workers w.step).inProg,
        ip.wid = w.wid) ∧
    ((C01.runFrom cfg pol st0 now start timeout acts).running.map Worker.slot).Nodup := by
  have h := run_runInv cfg hwf pol False acts _ (guarded_false cfg pol acts _)
    (init_runInv_fresh cfg hwf False st0 now start timeout)
  exact ⟨h.slotInv.sub, h.nodup⟩

/-- the runner, any start: clause 2 -/
theorem C01_running_bounded_any_start (cfg : Cfg) (hwf : cfg.WF) (pol : Policy) (st0 : State)
    (now : Int) (start : Option Ev) (timeout : Option Nat) (acts : List Act) :
    (∀ c ∈ cfg.steps,
      ((C01.runFrom cfg pol st0 now start timeout acts).running.filter
        (fun w => w.step == c.name)).length ≤ c.numWorkers) ∧
    ∀ w ∈ (C01.runFrom cfg pol st0 now start timeout acts).running, w.wid < cfg.nw w.step :=
  (run_runInv cfg hwf pol False acts _ (guarded_false cfg pol acts _)
    (init_runInv_fresh cfg hwf False st0 now start timeout)).bounded hwf

/-- the runner, any start: the event part keeps its (only) guard -/
theorem C01_running_same_event_partial_any_start (cfg : Cfg) (hwf : cfg.WF) (pol : Policy) (st0 : State)
    (now : Int) (start : Option Ev) (timeout : Option Nat) (acts : List Act)
    (he : Runner.sameEvent cfg pol (Runner.init cfg st0 now start timeout) acts = true) :
    ∀ w ∈ (C01.runFrom cfg pol st0 now start timeout acts).running,
      ∃ ip ∈ ((C01.runFrom cfg pol st0 now start timeout acts).st.workers w.step).inProg,
        ip.wid = w.wid ∧ ip.ev = w.ev := by
  have h := run_runInv cfg hwf pol True acts _ (guarded_of_sameEvent cfg pol acts _ he)
    (init_runInv_fresh cfg hwf True st0 now start timeout)
  intro w hw
  obtain ⟨_, ip, hip, hwid, hev⟩ := h.sub w hw
  exact ⟨ip, hip, hwid, hev trivial⟩

/-- schedules in which running invocations call `ctx.send_event` (`Runner.runS`): same bound -/
theorem C01_running_bounded_with_step_sends (cfg : Cfg) (hwf : cfg.WF) (pol : Policy) (st0 : State)
    (now : Int) (start : Option Ev) (timeout : Option Nat) (acts : List CtxAct) :
    let r := Runner.runS cfg pol (Runner.init cfg st0 now start timeout) acts
    ((r.running.map Worker.slot).Nodup ∧
      ∀ c ∈ cfg.steps, (r.running.filter (fun w => w.step == c.name)).length ≤ c.numWorkers) ∧
    ∀ w ∈ r.running, w.wid < cfg.nw w.step := by
  have key : ∀ (acts : List CtxAct) (r : Runner), RunInv cfg False r →
      RunInv cfg False (Runner.runS cfg pol r acts) := by
    intro acts
    induction acts with
    | nil => intro r h; exact h
    | cons a as ih =>
      intro r h
      simp only [Runner.runS, List.foldl_cons]
      apply ih
      cases a with
      | act a => exact step_runInv cfg hwf pol False r a (fun hf => hf.elim) h
      | stepSend s w e tgt =>
        simp only [Runner.stepS]
        split
        · exact step_runInv cfg hwf pol False r _ (fun hf => hf.elim) h
        · exact h
  have h := key acts _ (init_runInv_fresh cfg hwf False st0 now start timeout)
  exact ⟨⟨h.nodup, (h.bounded hwf).1⟩, (h.bounded hwf).2⟩

/-- **The slot choice never raises, whatever the table**: `C01_allocator_total` without its hypothesis.
`id_candidates[0]` fails only if every id below `num_workers` is taken, and then the table has at least
`num_workers` rows — duplicates and out-of-range ids included — so `has_space` is false. -/
theorem C01_allocator_total_any_table (att : Attempt) (step : Nat) (ss : StepState) (nw : Nat) (now : Int) :
    Cmd.crash ∉ (addOrEnqueue att step ss nw now).2 :=
  addOrEnqueue_no_crash_any att step ss nw now

/-- hence the rewind at the start of a run (or of a replay) raises nothing from whatever state -/
theorem C01_rewind_never_raises (cfg : Cfg) (st : State) (now : Int) : Cmd.crash ∉ (rewind cfg st now).2 :=
  rewind_no_crash_any cfg st now

/-- non-vacuity: a table with a duplicated and an out-of-range id and a free slot: slot 0 is picked -/
example :
    let ip (w : Nat) : InProg :=
      { ev := C01.exEv w, wid := w, snapEvents := [], snapWaiters := [], attempts := 0, firstAt := 0 }
    ((addOrEnqueue { ev := C01.exEv 9 } 1 { inProg := [ip 1, ip 1, ip 7] } 4 0).2.head?) =
      some (.runWorker 1 (C01.exEv 9) 0) := by decide

/-- non-vacuity: a state no run leaves behind — three rows on a 2-worker step, two of them on slot 1, one
on slot 7 — is repaired by the rewind: two workers restarted on slots 0 and 1, one event back in the queue -/
def C01.corruptState : State :=
  let ip (u w : Nat) : InProg :=
    { ev := C01.exEv u, wid := w, snapEvents := [], snapWaiters := [], attempts := 0, firstAt := 0 }
  { isRunning := true, workers := fun s => if s = 1 then { inProg := [ip 1 1, ip 2 1, ip 3 7] } else {} }

example : ¬ IdsInv C01.exCfg C01.corruptState := by
  intro h
  have := (h { name := 1, accepted := [5], numWorkers := 2, hasRetry := false } (by simp [C01.exCfg])).1
  revert this
  decide

example :
    let r := C01.runFrom C01.exCfg C01.exPol C01.corruptState 5 none none []
    (r.running.map (fun w => (w.step, w.wid, w.ev.uid)), (r.st.workers 1).inProg.map (·.wid),
      (r.st.workers 1).queue.map (·.ev.uid)) = ([(1, 0, 3), (1, 1, 2)], [0, 1], [1]) := by decide

/-! ## Between two commands

`_process_tick` and the start of `run()` await `process_command` once per command, and `process_command`
awaits the adapter (`write_to_event_stream`, `get_now`): worker tasks run, and the runner is observable, between
any two commands of one tick.  `WfModel/RunnerMicro.lean` lists every state on the way (`Runner.microStates`,
`Runner.initStates`, `Runner.allStates`); `C01.history` is every state a run passes through, in order. -/

/-- every runner state a run passes through, command by command, in order -/
def C01.history (cfg : Cfg) (pol : Policy) (st0 : State) (now : Int) (start : Option Ev)
    (timeout : Option Nat) (acts : List Act) : List Runner :=
  Runner.initStates cfg st0 now start timeout ++
    Runner.allStates cfg pol (Runner.init cfg st0 now start timeout) acts

theorem C01.getLast_glue {α} (x y : α) (l1 l2 : List α) (h : (x :: l1).getLast? = some y) :
    (x :: (l1 ++ l2)).getLast? = (y :: l2).getLast? := by
  have e1 : x :: (l1 ++ l2) = (x :: l1) ++ l2 := rfl
  have e2 : y :: l2 = [y] ++ l2 := rfl
  rw [e1, e2, List.getLast?_append, List.getLast?_append, h]
  rfl

theorem C01.allStates_last (cfg : Cfg) (pol : Policy) : ∀ (acts : List Act) (r : Runner),
    (r :: Runner.allStates cfg pol r acts).getLast? = some (Runner.run cfg pol r acts)
  | [], r => rfl
  | a :: as, r => by
    simp only [Runner.allStates, Runner.run, List.foldl_cons]
    have hm := microStates_last cfg pol r a
    have h1 : (r :: r.microStates cfg pol a).getLast? = some (r.step cfg pol a) := by
      cases hmm : r.microStates cfg pol a with
      | nil => rw [hmm] at hm; simp at hm
      | cons b l => rw [hmm] at hm; rw [List.getLast?_cons_cons]; exact hm
    rw [C01.getLast_glue r _ _ _ h1]
    exact C01.allStates_last cfg pol as _

/-- the fine-grained semantics is the same LTS: the history ends in the state the run ends in -/
theorem C01_history_ends_in_run (cfg : Cfg) (pol : Policy) (st0 : State) (now : Int) (start : Option Ev)
    (timeout : Option Nat) (acts : List Act) :
    (C01.history cfg pol st0 now start timeout acts).getLast? =
      some (C01.runFrom cfg pol st0 now start timeout acts) := by
  unfold C01.history
  have hi := initStates_last cfg st0 now start timeout
  cases hinit : Runner.initStates cfg st0 now start timeout with
  | nil => rw [hinit] at hi; simp at hi
  | cons x tl =>
    rw [hinit] at hi
    rw [List.cons_append, C01.getLast_glue x _ tl _ hi]
    exact C01.allStates_last cfg pol acts _

/-- **The worker limit between any two commands**: in every state of the history — after each single
command of each tick, of the start-up rewind too, for every schedule, from whatever state the run is
started — every live task is backed by an in-progress row of its configured step, the live slots are
pairwise distinct, a step has at most `num_workers` live tasks and each runs on a slot `< num_workers`. -/
theorem C01_bounded_between_commands (cfg : Cfg) (hwf : cfg.WF) (pol : Policy) (st0 : State) (now : Int)
    (start : Option Ev) (timeout : Option Nat) (acts : List Act) :
    ∀ r ∈ C01.history cfg pol st0 now start timeout acts,
      (∀ w ∈ r.running, w.step ∈ cfg.names ∧ ∃ ip ∈ (r.st.workers w.step).inProg, ip.wid = w.wid) ∧
      (r.running.map Worker.slot).Nodup ∧
      (∀ c ∈ cfg.steps, (r.running.filter (fun w => w.step == c.name)).length ≤ c.numWorkers) ∧
      ∀ w ∈ r.running, w.wid < cfg.nw w.step := by
  intro r hr
  have hs : SlotInv cfg r := by
    rcases List.mem_append.mp hr with h | h
    · exact initStates_slotInv cfg hwf st0 now start timeout r h
    · exact allStates_slotInv cfg hwf pol acts _ (init_runInv_fresh cfg hwf False st0 now start timeout) r h
  exact ⟨hs.sub, hs.nodup, (hs.bounded hwf).1, (hs.bounded hwf).2⟩

/-- **Refinement to a slot table**: the history starts with no live task, and every two consecutive
states of it are related by one move of the slot-table specification `SlotMove` — nothing, a start on a
slot that is free at that very moment (of a configured step, below its limit), the end of one slot's
task, or the end of all tasks.  In particular no command ever starts a worker on an occupied slot. -/
theorem C01_slot_table_refinement (cfg : Cfg) (hwf : cfg.WF) (pol : Policy) (st0 : State) (now : Int)
    (start : Option Ev) (timeout : Option Nat) (acts : List Act) :
    Linked (Moves cfg) (C01.history cfg pol st0 now start timeout acts) ∧
      ∃ x tl, C01.history cfg pol st0 now start timeout acts = x :: tl ∧ x.running = [] := by
  obtain ⟨hl, x, tl, hx, hx0⟩ := initStates_linked cfg hwf st0 now start timeout
  have hi := initStates_last cfg st0 now start timeout
  have ha := allStates_linked cfg hwf pol acts _ (init_runInv_fresh cfg hwf False st0 now start timeout)
  unfold C01.history
  rw [hx] at hl hi ⊢
  exact ⟨Linked.glue tl x _ _ hl hi ha, x, _, rfl, hx0⟩

/-- **Safety of the specification**, with no reference to the engine: any history that starts with an
empty table and makes only slot-table moves keeps the slots distinct and in range, hence at most
`num_workers` tasks per step. -/
theorem C01_slot_table_spec_safe (cfg : Cfg) (hwf : cfg.WF) (x : Runner) (l : List Runner)
    (h : Linked (Moves cfg) (x :: l)) (hx : x.running = []) :
    ∀ y ∈ x :: l, SlotSafe cfg y.running ∧
      ∀ c ∈ cfg.steps, (y.running.filter (fun w => w.step == c.name)).length ≤ c.numWorkers :=
  fun y hy => ⟨linked_safe l x h hx y hy, (linked_safe l x h hx y hy).bounded hwf⟩

/-- non-vacuity: the start-up of the resumed run above passes through 0, 1 and 2 live tasks (each
`CommandRunWorker` is followed by its `RUNNING` publish: a stutter) -/
example :
    let ip (u w : Nat) : InProg :=
      { ev := C01.exEv u, wid := w, snapEvents := [], snapWaiters := [], attempts := 0, firstAt := 0 }
    let st0 : State := { isRunning := true, workers := fun s =>
      if s = 1 then { inProg := [ip 1 1, ip 2 0], queue := [{ ev := C01.exEv 3 }] } else {} }
    (Runner.initStates C01.exCfg st0 5 none none).map Runner.slots
      = [[], [(1, 0)], [(1, 0)], [(1, 0), (1, 1)], [(1, 0), (1, 1)]] := by decide

/-- non-vacuity: one tick that frees a slot and refills it: between the `NOT_RUNNING` publish and the
`CommandRunWorker` of the queued event the step has one live task, then two again -/
example :
    let acts := C01.feed 1 ++ C01.feed 2 ++ C01.feed 3 ++ [.workerDone 1 0 [.result none]]
    let r := C01.runFrom C01.exCfg C01.exPol initState 0 none none acts
    ((r.microStates C01.exCfg C01.exPol .drain).map Runner.slots,
      (r.step C01.exCfg C01.exPol .drain).running.map (fun w => (w.wid, w.ev.uid)))
      = ([[(1, 1)], [(1, 1)], [(1, 1), (1, 0)], [(1, 1), (1, 0)]], [(1, 2), (0, 3)]) := by decide

/-- the specification is not vacuous either: it rejects a start on an occupied slot … -/
example : ¬ SlotMove C01.exCfg [{ step := 1, wid := 0, ev := C01.exEv 1 }]
    [{ step := 1, wid := 0, ev := C01.exEv 1 }, { step := 1, wid := 0, ev := C01.exEv 2 }] := by
  intro h
  generalize hR : [({ step := 1, wid := 0, ev := C01.exEv 1 } : Worker)] = R at h
  generalize hR' : [({ step := 1, wid := 0, ev := C01.exEv 1 } : Worker), { step := 1, wid := 0, ev := C01.exEv 2 }] = R' at h
  cases h with
  | stutter => rw [← hR] at hR'; simp at hR'
  | start w hfree hname hlt =>
    rw [← hR] at hR' hfree
    simp only [List.cons_append, List.nil_append, List.cons.injEq, and_true, true_and] at hR'
    rw [← hR'] at hfree
    simp [Worker.slot] at hfree
  | finish s w =>
    rw [← hR] at hR'
    have := congrArg List.length hR'
    have hle := List.length_eraseP_le (p := fun (y : Worker) => y.step == s && y.wid == w)
      (l := [({ step := 1, wid := 0, ev := C01.exEv 1 } : Worker)])
    simp only [List.length_cons, List.length_nil] at this hle
    omega
  | abort => simp at hR'

/-- … and the unrepaired reducer's double re-run ends in a table that is not safe: by
`C01_slot_table_spec_safe` its history cannot have been made of slot-table moves only -/
theorem C01_refuted_slot_safe_unrepaired :
    let r := Runner.runUnrepaired C01.exCfg C01.exPol (Runner.init C01.exCfg initState 0 none none)
      C01.doubleRerun
    ¬ SlotSafe C01.exCfg r.running := by
  intro r h
  have := h.1
  revert this
  decide

/-! ## The anchored source, as found on this run

`harness/gen/worker_slots.py` re-reads the slot bookkeeping of `control_loop.py` from the current sources into
`WfModel/GenWorkerSlots.lean`: the capacity test, the candidate list and the pick of `_add_or_enqueue_event`
are *translated* into Lean functions; the places that change an `in_progress` list, build a
`CommandRunWorker`, accept an event, look a finishing execution up / take it out, re-run a collecting step,
and the runner's registration of worker coroutines and tasks are emitted as text.  The theorems below say
that the model the C01 theorems are about IS that code; an edit of any of these places stops them from
checking. -/

/-- the model's admission IS the source's: capacity test, candidate list, pick — and `none` of the pick
(the `IndexError` of `id_candidates[0]`) is the model's `crash` -/
theorem C01_slot_choice_is_source :
    (∀ used nw, GenWorkerSlots.pick (GenWorkerSlots.idCandidates used nw) = pickSlot used nw) ∧
    (∀ (att : Attempt) (step : Nat) (ss : StepState) (nw : Nat) (now : Int),
      addOrEnqueue att step ss nw now =
        if GenWorkerSlots.hasSpace ss.inProg.length nw then
          match GenWorkerSlots.pick (GenWorkerSlots.idCandidates (usedIds ss) nw) with
          | some id =>
            ({ ss with inProg := ss.inProg ++ [
                { ev := att.ev, wid := id, snapEvents := ss.collected, snapWaiters := ss.waiters,
                  attempts := orNat att.attempts 0, firstAt := orInt att.firstAt now,
                  lastExc := att.lastExc, lastFailedAt := att.lastFailedAt, rc := att.rc }] },
              [.runWorker step att.ev id, .publish (.stepState .running step att.ev.ty .unset (some id))])
          | none => (ss, [.crash])
        else
          ({ ss with queue := ss.queue ++ [att] },
            [.publish (.stepState .preparing step att.ev.ty .unset none)])) := by
  refine ⟨?_, ?_⟩
  · intro used nw
    simp [GenWorkerSlots.pick, GenWorkerSlots.idCandidates, pickSlot, List.head?_eq_getElem?]
  · intro att step ss nw now
    unfold addOrEnqueue GenWorkerSlots.hasSpace GenWorkerSlots.pick GenWorkerSlots.idCandidates
    have hfree : ((List.range nw).filter (fun i => !(usedIds ss).contains i)) = freeIds ss nw := rfl
    rw [hfree]
    by_cases h : ss.inProg.length < nw
    · simp only [h, decide_true, ↓reduceIte]
      cases freeIds ss nw <;> rfl
    · simp only [h, decide_false, ↓reduceIte, Bool.false_eq_true]

/-- the pick is the smallest free id whenever one exists (so it is `< nw` and unused): the translated
source function, not only the model's -/
theorem C01_source_pick_is_free (used : List Nat) (nw id : Nat)
    (h : GenWorkerSlots.pick (GenWorkerSlots.idCandidates used nw) = some id) : id < nw ∧ id ∉ used := by
  have hm : id ∈ GenWorkerSlots.idCandidates used nw := by
    unfold GenWorkerSlots.pick at h
    exact List.mem_of_getElem? h
  simpa [GenWorkerSlots.idCandidates] using hm

/-- the rest of the slot bookkeeping, pinned, with the model clauses that transcribe it -/
theorem C01_source_shape :
    GenWorkerSlots.usedSource = "worker_id of .in_progress" ∧
    GenWorkerSlots.slotUses = ["CommandRunWorker.id", "InProgressState.worker_id",
      "StepStateChanged.worker_id:str(id)"] ∧
    -- the row is appended before the command is issued; a full step queues the event instead
    GenWorkerSlots.admissionEffects =
      ["then:.in_progress.append(InProgressState);<local>.append(CommandRunWorker);<local>.append(CommandPublishEvent)",
       "else:.queue.append(event);<local>.append(CommandPublishEvent)"] ∧
    -- only three statements ever change an `in_progress` list
    GenWorkerSlots.inProgressMutators = [".append@_add_or_enqueue_event", ".remove@_process_step_result_tick",
      "assign[]@rewind_in_progress"] ∧
    (∀ cfg pol step tickEv dc acc r s,
      ((applyRes cfg pol step tickEv dc acc r).st.workers s).inProg = (acc.st.workers s).inProg) ∧
    (∀ c ss now, rewindStep c ss now = drain c.name c.numWorkers now
      ((ss.inProg.map inProgToAttempt).reverse ++ ss.queue).length
      { ss with queue := (ss.inProg.map inProgToAttempt).reverse ++ ss.queue, inProg := [] }) ∧
    -- only two places build a `CommandRunWorker`: the admission, and the collect re-run on the execution's own slot
    GenWorkerSlots.runWorkerSites = ["_add_or_enqueue_event:id=<local>", "_process_step_result_tick:id=.worker_id"] ∧
    GenWorkerSlots.admissionCallers = ["_process_add_event_tick:2", "_process_step_result_tick:1",
      "_process_waiter_timeout_tick:1", "rewind_in_progress:1"] ∧
    -- a result tick finds its execution by worker id, skips further collect results once the re-run is
    -- scheduled, re-runs on the execution's own slot, and removes the row unless it re-runs
    GenWorkerSlots.executionLookup = "first of .in_progress with .worker_id Eq tick.worker_id else None" ∧
    GenWorkerSlots.collectRerun = ["first:if not <flag>: continue", "sets:<flag>=False",
      "rerun:id=<execution>.worker_id", "init:<flag>=True"] ∧
    GenWorkerSlots.executionRemoval = ["if <flag>: .in_progress.remove(<execution>)"] ∧
    (∀ cfg pol step tickEv dc (acc : ResAcc) buf ev, acc.stillInProgress = true →
      applyRes cfg pol step tickEv dc acc (.addCollected buf ev) = acc) ∧
    (∀ cfg pol step tickEv dc (acc : ResAcc) buf ev,
      (applyRes cfg pol step tickEv dc acc (.addCollected buf ev)).cmds = acc.cmds ∨
      (applyRes cfg pol step tickEv dc acc (.addCollected buf ev)).cmds =
        acc.cmds ++ [.runWorker step ev acc.exec.wid]) ∧
    (∀ (acc : ResAcc) step worker tickEv, (settle acc step worker tickEv).1.inProg =
      if acc.stillInProgress then modifyFirst (fun w => w.wid == worker) (fun _ => acc.exec) (acc.st.workers step).inProg
      else (acc.st.workers step).inProg.eraseP (fun w => w.wid == worker)) ∧
    -- the runner: a worker coroutine exists only for a `CommandRunWorker`, is registered under the command's
    -- (step, id), and leaves the books when its task completes or when everything is cleaned up
    GenWorkerSlots.runWorkerCallers = ["process_command:CommandRunWorker"] ∧
    GenWorkerSlots.pendingEntry = "PendingWorker(.step_name, .id, <coroutine>)" ∧
    GenWorkerSlots.pendingMutators = [".append@run_worker", ".clear@cleanup_tasks", ".clear@run"] ∧
    GenWorkerSlots.workerTaskMutators = [".add@run", ".clear@cleanup_tasks", ".discard@run"] ∧
    GenWorkerSlots.taskKeyMutators = [".clear@cleanup_tasks", ".pop@run", "setitem@run"] ∧
    (∀ (r : Runner) s ev w, execCmd r (.runWorker s ev w) =
      { r with running := r.running ++ [{ step := s, wid := w, ev := ev }] }) ∧
    (∀ (r : Runner) o, (r.finish o).running = []) := by
  refine ⟨by decide, by decide, by decide, by decide, ?_, fun _ _ _ => rfl, by decide, by decide, by decide,
    by decide, by decide, ?_, ?_, ?_, by decide, by decide, by decide, by decide, by decide,
    fun _ _ _ _ => rfl, fun _ _ => rfl⟩
  · intro cfg pol step tickEv dc acc r s
    exact (applyRes_inProg cfg pol step tickEv dc acc r).1 s
  · intro cfg pol step tickEv dc acc buf ev h
    simp [applyRes, h]
  · intro cfg pol step tickEv dc acc buf ev
    simp only [applyRes]
    split
    · exact Or.inl rfl
    · split
      · exact Or.inr rfl
      · exact Or.inl rfl
  · intro acc step worker tickEv
    unfold settle
    split <;> rfl

/-- non-vacuity: the translated functions on a concrete table — slots 0 and 2 used out of 4: the pick is 1;
a full table has no candidate -/
example : GenWorkerSlots.idCandidates [0, 2] 4 = [1, 3] ∧ GenWorkerSlots.pick (GenWorkerSlots.idCandidates [0, 2] 4) = some 1 ∧
    GenWorkerSlots.pick (GenWorkerSlots.idCandidates [1, 0] 2) = none ∧ GenWorkerSlots.hasSpace 1 2 = true ∧
    GenWorkerSlots.hasSpace 2 2 = false := by decide
