"""Shape of `_ControlLoopRunner.cleanup_tasks` (how the other step workers are stopped when a run ends)
-> lean/WfModel/GenWorkerCleanup.lean.

Re-read from /repo's current `workflows/runtime/control_loop.py` on every run.  The model (`WfModel/WorkerCleanup.lean`)
is parameterised by HOW the cancelled workers are awaited; the C04 theorems about slow cancellation teardowns are stated
for the extracted configuration, so replacing "wait until they are really done" by "wait a while" breaks a proof.
"""
from __future__ import annotations

import ast

from ..boot import repo_path

LEAN_MODULE = "GenWorkerCleanup"
SRC = "packages/llama-index-workflows/src/workflows/runtime/control_loop.py"


def _attr_chain(n: ast.AST) -> list[str]:
    out: list[str] = []
    while isinstance(n, ast.Attribute):
        out.append(n.attr)
        n = n.value
    if isinstance(n, ast.Name):
        out.append(n.id)
    return list(reversed(out))


def _is_worker_tasks(n: ast.AST) -> bool:
    return _attr_chain(n) == ["self", "worker_tasks"]


def _timeout_kw(call: ast.Call) -> float | None:
    for kw in call.keywords:
        if kw.arg == "timeout" and isinstance(kw.value, ast.Constant) and isinstance(kw.value.value, (int, float)) \
                and not isinstance(kw.value.value, bool):
            return float(kw.value.value)
    return None


def _await_shape(aw: ast.Await) -> tuple[int, float | None]:
    """1 = await asyncio.wait_for(asyncio.gather(*self.worker_tasks, return_exceptions=True), timeout=<c>)
       2 = await asyncio.wait(self.worker_tasks, timeout=<c>)          0 = anything else"""
    c = aw.value
    if not isinstance(c, ast.Call):
        return 0, None
    fn = _attr_chain(c.func)
    if fn == ["asyncio", "wait_for"] and len(c.args) == 1 and isinstance(c.args[0], ast.Call):
        g = c.args[0]
        if (_attr_chain(g.func) == ["asyncio", "gather"] and len(g.args) == 1 and isinstance(g.args[0], ast.Starred)
                and _is_worker_tasks(g.args[0].value)
                and any(kw.arg == "return_exceptions" and isinstance(kw.value, ast.Constant) and kw.value.value is True for kw in g.keywords)):
            return 1, _timeout_kw(c)
        return 0, None
    if fn == ["asyncio", "wait"] and len(c.args) == 1 and _is_worker_tasks(c.args[0]):
        if any(kw.arg == "return_when" for kw in c.keywords):
            return 0, None
        return 2, _timeout_kw(c)
    return 0, None


def extract(notes: list[str]) -> dict:
    res = {"found": False, "cancelsEvery": False, "awaitShape": 0, "awaitCount": 99, "awaitGuarded": False, "graceEighths": 0,
           "cancelBeforeAwait": False, "clearAfterAwait": False}
    try:
        tree = ast.parse(open(repo_path(SRC)).read())
    except (OSError, SyntaxError) as e:
        notes.append(f"gen/worker_cleanup: cannot parse {SRC}: {e!r}")
        return res
    fn = None
    for c in ast.walk(tree):
        if isinstance(c, ast.ClassDef) and c.name == "_ControlLoopRunner":
            for f in c.body:
                if isinstance(f, ast.AsyncFunctionDef) and f.name == "cleanup_tasks":
                    fn = f
    if fn is None:
        notes.append("gen/worker_cleanup: _ControlLoopRunner.cleanup_tasks not found")
        return res
    res["found"] = True
    # `for task in self.worker_tasks: task.cancel()` at the top level of the function
    cancel_line = None
    for s in fn.body:
        if (isinstance(s, ast.For) and _is_worker_tasks(s.iter) and isinstance(s.target, ast.Name) and len(s.body) == 1 and not s.orelse
                and isinstance(s.body[0], ast.Expr) and isinstance(s.body[0].value, ast.Call)
                and _attr_chain(s.body[0].value.func) == [s.target.id, "cancel"] and not s.body[0].value.args):
            cancel_line = s.lineno
    res["cancelsEvery"] = cancel_line is not None
    # the awaits that mention the worker tasks
    hits: list[tuple[ast.Await, bool]] = []

    def visit(node: ast.AST, guarded: bool) -> None:
        for ch in ast.iter_child_nodes(node):
            g = guarded
            if isinstance(node, ast.Try) and ch in node.body:
                g = g or any(h.type is None or (isinstance(h.type, ast.Name) and h.type.id in ("Exception", "BaseException"))
                             for h in node.handlers)
            if isinstance(ch, ast.Await) and any(_is_worker_tasks(x) for x in ast.walk(ch)):
                hits.append((ch, g))
            visit(ch, g)

    visit(fn, False)
    res["awaitCount"] = len(hits)
    if len(hits) == 1:
        aw, guarded = hits[0]
        shape, tmo = _await_shape(aw)
        res["awaitShape"] = shape
        res["awaitGuarded"] = guarded
        if tmo is not None and tmo > 0 and float(tmo * 8).is_integer():
            res["graceEighths"] = int(tmo * 8)
        else:
            notes.append(f"gen/worker_cleanup: the grace period is not a positive multiple of 1/8 s ({tmo!r})")
        res["cancelBeforeAwait"] = cancel_line is not None and cancel_line < aw.lineno
        clears = [s.lineno for s in fn.body if isinstance(s, ast.Expr) and isinstance(s.value, ast.Call)
                  and _attr_chain(s.value.func) == ["self", "worker_tasks", "clear"]]
        res["clearAfterAwait"] = bool(clears) and all(l > aw.lineno for l in clears)
        if shape == 0:
            notes.append("gen/worker_cleanup: the await on the cancelled workers is neither wait_for(gather(*worker_tasks, "
                         "return_exceptions=True), timeout=c) nor asyncio.wait(worker_tasks, timeout=c)")
    else:
        notes.append(f"gen/worker_cleanup: expected exactly one await on self.worker_tasks in cleanup_tasks, found {len(hits)}")
    return res


def generate(notes: list[str]) -> list[str]:
    r = extract(notes)
    b = lambda v: "true" if v else "false"
    return [
        "namespace GenWorkerCleanup",
        "/-- `_ControlLoopRunner.cleanup_tasks` was found -/",
        f"def found : Bool := {b(r['found'])}",
        "/-- `for task in self.worker_tasks: task.cancel()` -/",
        f"def cancelsEvery : Bool := {b(r['cancelsEvery'])}",
        "/-- ... in front of the await -/",
        f"def cancelBeforeAwait : Bool := {b(r['cancelBeforeAwait'])}",
        "/-- number of awaits in the function that mention `self.worker_tasks` -/",
        f"def awaitCount : Nat := {r['awaitCount']}",
        "/-- how the cancelled workers are awaited: 1 = `asyncio.wait_for(asyncio.gather(*self.worker_tasks, return_exceptions=True), timeout=c)`",
        "    (on expiry: cancels them again and returns only when all are done); 2 = `asyncio.wait(self.worker_tasks, timeout=c)` (on expiry:",
        "    just returns); 0 = other -/",
        f"def awaitShape : Nat := {r['awaitShape']}",
        "/-- the await sits in a `try:` whose handler catches Exception (the TimeoutError of shape 1 does not leave the function) -/",
        f"def awaitGuarded : Bool := {b(r['awaitGuarded'])}",
        "/-- the grace period `c`, in eighths of a second (0: not a positive multiple of 1/8 s) -/",
        f"def graceEighths : Nat := {r['graceEighths']}",
        "/-- `self.worker_tasks.clear()` only after the await -/",
        f"def clearAfterAwait : Bool := {b(r['clearAfterAwait'])}",
        "end GenWorkerCleanup",
    ]
