import WfModel.EventSerial
import WfProofs.EventSerialEvent
/-! Helper lemmas for M8: the JSON-serializer wrapper and the client envelope. -/
namespace EventSerial

theorem qual_ne_empty (c : Shape) : c.qual ≠ "" := by
  intro h
  have := congrArg String.length h
  simp [Shape.qual, String.length_append] at this

/-- the class is what `import_module_from_qualified_name` finds under its qualified name -/
def importable (cenv : CEnv) (c : Shape) : Bool := dget cenv c.qual == some c

theorem looksPydantic_wrap (e : Inst) :
    looksPydantic [(Gen.EventSerial.pydFlagKey, .bool true), (Gen.EventSerial.pydValueKey, .obj (dumpModel e)),
        (Gen.EventSerial.pydNameKey, .str e.cls.qual)] = true := by
  simp [looksPydantic, truthyGet, dget, Gen.EventSerial.pydFlagKey, Gen.EventSerial.pydValueKey,
    Gen.EventSerial.pydNameKey, Json.truthy, qual_ne_empty]

theorem unwrap_wrap (cenv : CEnv) (xenv : XEnv) (e : Inst) (hw : e.wf xenv = true)
    (hi : importable cenv e.cls = true) :
    unwrapModel cenv xenv [(Gen.EventSerial.pydFlagKey, .bool true), (Gen.EventSerial.pydValueKey, .obj (dumpModel e)),
        (Gen.EventSerial.pydNameKey, .str e.cls.qual)] = .ok e := by
  have hi' : dget cenv e.cls.qual = some e.cls := by simpa [importable] using hi
  simp [unwrapModel, importName, dget, Gen.EventSerial.pydFlagKey, Gen.EventSerial.pydValueKey,
    Gen.EventSerial.pydNameKey, hi', modelValidate_dump xenv e hw]

theorem deserialize_wrap (cenv : CEnv) (xenv : XEnv) (e : Inst) (hw : e.wf xenv = true)
    (hi : importable cenv e.cls = true) :
    deserializeValue cenv xenv (wrapModel e) = .ok (.model e) := by
  simp only [wrapModel, deserializeValue, looksPydantic_wrap, if_true, unwrap_wrap cenv xenv e hw hi, Except.map]

theorem decodeEvent_wrap (cenv : CEnv) (xenv : XEnv) (e : Inst) (hw : e.wf xenv = true)
    (hi : importable cenv e.cls = true) :
    decodeEvent cenv xenv (wrapModel e) = .ok e := by
  simp [decodeEvent, deserialize_wrap cenv xenv e hw hi]

/-! ### containers: `serialize_value` / `deserialize_value` recurse through lists and dicts -/

mutual
/-- every model instance inside is well formed and importable, and no *plain* dict would be
taken for a wrapper by `deserialize_value` (truthy `__is_pydantic` / `__is_component`
together with a truthy `qualified_name`) -/
def pyOk (cenv : CEnv) (xenv : XEnv) : PyVal → Bool
  | .list xs => pyOkList cenv xenv xs
  | .dict kvs =>
    !looksPydantic (serializeKvs kvs) && !looksComponent (serializeKvs kvs) && pyOkKvs cenv xenv kvs
  | .model e => e.wf xenv && importable cenv e.cls
  | _ => true
def pyOkList (cenv : CEnv) (xenv : XEnv) : List PyVal → Bool
  | [] => true
  | x :: xs => pyOk cenv xenv x && pyOkList cenv xenv xs
def pyOkKvs (cenv : CEnv) (xenv : XEnv) : List (String × PyVal) → Bool
  | [] => true
  | (_, x) :: xs => pyOk cenv xenv x && pyOkKvs cenv xenv xs
end

mutual
theorem deserialize_serialize (cenv : CEnv) (xenv : XEnv) : ∀ (v : PyVal), pyOk cenv xenv v = true →
    deserializeValue cenv xenv (serializeValue v) = .ok v
  | .null, _ => by simp [serializeValue, deserializeValue]
  | .bool _, _ => by simp [serializeValue, deserializeValue]
  | .int _, _ => by simp [serializeValue, deserializeValue]
  | .flt _, _ => by simp [serializeValue, deserializeValue]
  | .str _, _ => by simp [serializeValue, deserializeValue]
  | .list xs, h => by
    simp only [pyOk] at h
    simp [serializeValue, deserializeValue, deserialize_serializeList cenv xenv xs h, Except.map]
  | .dict kvs, h => by
    simp only [pyOk, Bool.and_eq_true, Bool.not_eq_true'] at h
    simp [serializeValue, deserializeValue, h.1.1, h.1.2, deserialize_serializeKvs cenv xenv kvs h.2, Except.map]
  | .model e, h => by
    simp only [pyOk, Bool.and_eq_true] at h
    simp only [serializeValue]
    exact deserialize_wrap cenv xenv e h.1 h.2
theorem deserialize_serializeList (cenv : CEnv) (xenv : XEnv) : ∀ (xs : List PyVal), pyOkList cenv xenv xs = true →
    deserializeList cenv xenv (serializeList xs) = .ok xs
  | [], _ => by simp [serializeList, deserializeList]
  | x :: xs, h => by
    simp only [pyOkList, Bool.and_eq_true] at h
    simp [serializeList, deserializeList, deserialize_serialize cenv xenv x h.1,
      deserialize_serializeList cenv xenv xs h.2, Except.map]
theorem deserialize_serializeKvs (cenv : CEnv) (xenv : XEnv) : ∀ (kvs : List (String × PyVal)), pyOkKvs cenv xenv kvs = true →
    deserializeKvs cenv xenv (serializeKvs kvs) = .ok kvs
  | [], _ => by simp [serializeKvs, deserializeKvs]
  | (k, x) :: xs, h => by
    simp only [pyOkKvs, Bool.and_eq_true] at h
    simp [serializeKvs, deserializeKvs, deserialize_serialize cenv xenv x h.1,
      deserialize_serializeKvs cenv xenv xs h.2, Except.map]
end


/-! ### the client envelope -/

theorem liftValidation_ok (e : Inst) : liftValidation (.ok e) = .ok e := rfl

/-- the registry (or, failing that, the qualified name) leads back to the event's class -/
def resolves (cenv : CEnv) (registry : List (String × Shape)) (c : Shape) (qn : Json) : Bool :=
  dget registry c.name == some c ||
    ((dget registry c.name).isNone && qn == .str c.qual && importable cenv c)

theorem parse_envelope (cenv : CEnv) (xenv : XEnv) (e : Inst) (qn : Json)
    (hqn : qn = .null ∨ qn = .str e.cls.qual) (registry : List (String × Shape))
    (hw : e.wf xenv = true) (hev : e.cls.kind ≠ .plain)
    (hreg : resolves cenv registry e.cls qn = true) :
    parse cenv xenv (.obj [("value", .obj (dumpModel e)), ("type", .str e.cls.name), ("qualified_name", qn)])
      registry none = .ok e := by
  have hname : e.cls.name ≠ "" := by
    have : e.cls.wf = true := by
      simp only [Inst.wf, Bool.and_eq_true] at hw; exact hw.1.1.1
    exact (wf_not_mem e.cls this).2.2.2.2.2
  have hmv := modelValidate_dump xenv e hw
  simp only [resolves, Bool.or_eq_true, Bool.and_eq_true, beq_iff_eq, Option.isNone_iff_eq_none] at hreg
  rcases hqn with hq | hq <;> subst hq
  · rcases hreg with hreg | ⟨⟨_, h2⟩, _⟩
    · simp [parse, dhas, dget, envelopeValidate, optStr, hname, hreg, hmv, liftValidation_ok]
    · cases h2
  · rcases hreg with hreg | ⟨⟨h1, _⟩, h3⟩
    · simp [parse, dhas, dget, envelopeValidate, optStr, hname, hreg, hmv, liftValidation_ok]
    · have hi : dget cenv e.cls.qual = some e.cls := by simpa [importable] using h3
      have hk : (e.cls.kind == Kind.plain) = false := by simpa using hev
      simp [parse, dhas, dget, envelopeValidate, optStr, hname, h1, hmv, liftValidation_ok, hi, hk, qual_ne_empty]

theorem isStrListOrNull_types (c : Shape) : isStrListOrNull (typesJson c) = true := by
  simp only [typesJson]
  split
  · rfl
  · simp [isStrListOrNull]

theorem loadEvent_meta (cenv : CEnv) (xenv : XEnv) (e : Inst) (includeQn : Bool) (registry : List Shape)
    (hw : e.wf xenv = true) (hev : e.cls.kind ≠ .plain)
    (hreg : resolves cenv (registryLookup registry) e.cls (if includeQn then .str e.cls.qual else .null) = true) :
    loadEvent cenv xenv (metaFromEvent e includeQn) registry = .ok e := by
  have hp := parse_envelope cenv xenv e (if includeQn then .str e.cls.qual else .null)
    (by cases includeQn <;> simp) (registryLookup registry) hw hev hreg
  cases includeQn <;>
    simp_all [loadEvent, metaFromEvent, dget, isStrOrNull, isStrListOrNull_types]


/-! ### the bare start-event form (`parse(..., explicit_event=cls)` on a plain `model_dump()`) -/

theorem dhas_eq_contains {α : Type} (a : List (String × α)) (k : String) : dhas a k = (keys a).contains k := by
  induction a with
  | nil => simp [dhas, dget, keys]
  | cons x xs ih =>
    obtain ⟨k', v⟩ := x
    simp only [dhas, dget, keys, List.map_cons, List.contains_cons]
    by_cases h : k' = k
    · subst h; simp
    · have h' : (k == k') = false := by simpa using fun e => h e.symm
      simp only [h, if_false, h', Bool.false_or]
      simpa [dhas, keys] using ih

theorem dget_dset_self {α : Type} (a : List (String × α)) (k : String) (v : α) : dget (dset a k v) k = some v := by
  induction a with
  | nil => simp [dset, dget]
  | cons x xs ih =>
    obtain ⟨k', v'⟩ := x
    simp only [dset]
    split
    · simp [dget]
    · rename_i h; simp [dget, h, ih]

theorem keys_dump_subset (xenv : XEnv) (e : Inst) (hw : e.wf xenv = true) (k : String)
    (hk1 : k ≠ "_data") (hk2 : k ≠ "result") :
    dhas (dumpModel e) k = e.cls.fieldNames.contains k := by
  obtain ⟨c, typed, data, result⟩ := e
  simp only [Inst.wf, Bool.and_eq_true] at hw
  obtain ⟨⟨⟨hc, ht⟩, _⟩, _⟩ := hw
  obtain ⟨n1, _, _, n4, _, _⟩ := wf_not_mem c hc
  have hkeys : keys typed = c.fieldNames := keys_of_typedConforms xenv _ _ ht
  have key : ∀ (X : Dict), (∀ k' ∈ keys X, k' = "_data" ∨ k' = "result") →
      dhas (typed ++ X) k = c.fieldNames.contains k := by
    intro X hX
    rw [dhas_eq_contains, keys_append, List.contains_append, hkeys]
    have : (keys X).contains k = false := by
      apply contains_false_of_not_mem
      intro hm
      rcases hX k hm with h | h
      · exact hk1 h
      · exact hk2 h
    rw [this, Bool.or_false]
  cases hk : c.kind with
  | plain => simp only [dumpModel, hk]; rw [dhas_eq_contains, hkeys]
  | event =>
    rw [dumpModel_event ⟨c, typed, data, result⟩ hk (by simpa [hkeys] using n1)]
    apply key
    intro k' hm
    simp only [dataPart] at hm
    split at hm <;> simp [keys] at hm
    exact Or.inl hm
  | stop =>
    rw [dumpModel_stop ⟨c, typed, data, result⟩ hk (by simpa [hkeys] using n1) (by simpa [hkeys] using n4 hk),
      List.append_assoc]
    apply key
    intro k' hm
    simp only [dataPart, resultPart, keys_append, List.mem_append] at hm
    rcases hm with hm | hm
    · split at hm <;> simp [keys] at hm
      exact Or.inl hm
    · split at hm <;> simp [keys] at hm
      exact Or.inr hm

/-- a bare dump is recognised as such: it has no key `value` and not both `qualified_name` and `type` -/
def bareOk (c : Shape) : Bool :=
  !c.fieldNames.contains "value" && !(c.fieldNames.contains "qualified_name" && c.fieldNames.contains "type")

theorem parse_bare (cenv : CEnv) (xenv : XEnv) (e : Inst) (registry : List (String × Shape))
    (hw : e.wf xenv = true) (hb : bareOk e.cls = true)
    (hreg : dget registry e.cls.name = none ∨ dget registry e.cls.name = some e.cls) :
    parse cenv xenv (.obj (dumpModel e)) registry (some e.cls) = .ok e := by
  have hname : e.cls.name ≠ "" := by
    have : e.cls.wf = true := by
      simp only [Inst.wf, Bool.and_eq_true] at hw; exact hw.1.1.1
    exact (wf_not_mem e.cls this).2.2.2.2.2
  have hmv := modelValidate_dump xenv e hw
  have h1 := keys_dump_subset xenv e hw "value" (by decide) (by decide)
  have h2 := keys_dump_subset xenv e hw "qualified_name" (by decide) (by decide)
  have h3 := keys_dump_subset xenv e hw "type" (by decide) (by decide)
  simp only [bareOk, Bool.and_eq_true, Bool.not_eq_true', Bool.and_eq_false_iff] at hb
  obtain ⟨hb1, hb2⟩ := hb
  have hmq : ((!dhas (dumpModel e) "qualified_name" || !dhas (dumpModel e) "type") && !dhas (dumpModel e) "value") = true := by
    rw [h1, h2, h3, hb1]
    rcases hb2 with h | h <;> rw [h] <;> simp
  rcases hreg with hreg | hreg
  · have hh : dhas registry e.cls.name = false := by simp [dhas, hreg]
    simp only [parse, hmq, if_true, hh]
    simp [envelopeValidate, dhas, dget, optStr, hname, dget_dset_self, hmv, liftValidation_ok]
  · have hh : dhas registry e.cls.name = true := by simp [dhas, hreg]
    simp only [parse, hmq, if_true, hh]
    simp [envelopeValidate, dhas, dget, optStr, hname, hreg, hmv, liftValidation_ok]

end EventSerial
