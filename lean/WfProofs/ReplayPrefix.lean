import WfProofs.ReplayResume
/-!
C13 helpers — the *prefix* structure of a persisted tick log.

* the runner's log grows by at most one entry per action and never shrinks, so **every** prefix of
  the log of a run is the whole log of the same run stopped after some prefix of its schedule
  (`c13_log_prefix_is_stop_point`);
* `replay_ticks_stream` is compositional in the tick list (`c13_replayFrom_append`): replaying
  `a ++ b` is replaying `a` and going on with `b`; so a replayable log has only replayable prefixes;
* "last wins" never forgets: once a prefix of a log has produced an exit command, every extension
  has one, and what is remembered is always one of the three exit commands.
-/
set_option linter.unusedVariables false
set_option linter.unusedSimpArgs false

namespace Engine

/-! ### the log of a run, action by action -/

theorem c13_step_log (cfg : Cfg) (pol : Policy) (r : Runner) (a : Act) :
    (r.step cfg pol a).log = r.log ∨ ∃ x, (r.step cfg pol a).log = r.log ++ [x] := by
  unfold Runner.step
  split
  · exact Or.inl rfl
  · cases a with
    | drain =>
      simp only
      split
      · exact Or.inl rfl
      · split
        · exact Or.inl rfl
        · right
          exact ⟨_, (execCmds_st_log _ _).2⟩
    | workerDone s w res =>
      simp only
      split
      · exact Or.inl rfl
      · split <;> exact Or.inl rfl
    | pull =>
      simp only
      split
      · exact Or.inl rfl
      · split <;> exact Or.inl rfl
    | timer =>
      simp only
      split <;> exact Or.inl rfl
    | advance dt => exact Or.inl rfl
    | external t =>
      simp only
      split <;> exact Or.inl rfl
    | stepWrite p => exact Or.inl rfl

theorem c13_run_log_extends (cfg : Cfg) (pol : Policy) : ∀ (acts : List Act) (r : Runner),
    ∃ ext, (Runner.run cfg pol r acts).log = r.log ++ ext
  | [], r => ⟨[], by simp [Runner.run]⟩
  | a :: as, r => by
    obtain ⟨ext, h⟩ := c13_run_log_extends cfg pol as (r.step cfg pol a)
    have hrun : Runner.run cfg pol r (a :: as) = Runner.run cfg pol (r.step cfg pol a) as := by
      simp [Runner.run]
    rw [hrun, h]
    rcases c13_step_log cfg pol r a with h1 | ⟨x, h1⟩
    · exact ⟨ext, by rw [h1]⟩
    · exact ⟨x :: ext, by rw [h1]; simp⟩

/-- every prefix of the log of a run (beyond what the runner started with) is the log of the run
stopped after a prefix of its schedule -/
theorem c13_log_prefix_is_stop_point (cfg : Cfg) (pol : Policy) : ∀ (acts : List Act) (r : Runner) (k : Nat),
    r.log.length ≤ k → k ≤ (Runner.run cfg pol r acts).log.length →
    ∃ n, n ≤ acts.length ∧ (Runner.run cfg pol r (acts.take n)).log = (Runner.run cfg pol r acts).log.take k
  | [], r, k, h1, h2 => by
    refine ⟨0, Nat.le_refl _, ?_⟩
    have hk : k = r.log.length := by
      have : (Runner.run cfg pol r []).log = r.log := by simp [Runner.run]
      rw [this] at h2
      omega
    simp [Runner.run, hk]
  | a :: as, r, k, h1, h2 => by
    have hrun : Runner.run cfg pol r (a :: as) = Runner.run cfg pol (r.step cfg pol a) as := by
      simp [Runner.run]
    by_cases hk : (r.step cfg pol a).log.length ≤ k
    · rw [hrun] at h2
      obtain ⟨n, hn, h⟩ := c13_log_prefix_is_stop_point cfg pol as (r.step cfg pol a) k hk h2
      refine ⟨n + 1, by simp only [List.length_cons]; omega, ?_⟩
      rw [hrun, ← h]
      simp [Runner.run]
    · refine ⟨0, Nat.zero_le _, ?_⟩
      obtain ⟨ext, he⟩ := c13_run_log_extends cfg pol as (r.step cfg pol a)
      rw [hrun, he]
      rcases c13_step_log cfg pol r a with h3 | ⟨x, h3⟩
      · rw [h3] at hk; omega
      · rw [h3] at hk ⊢
        have hk' : k = r.log.length := by
          simp only [List.length_append, List.length_cons, List.length_nil] at hk
          omega
        have : (Runner.run cfg pol r (List.take 0 (a :: as))).log = r.log := by simp [Runner.run]
        rw [this, hk', List.append_assoc, List.take_left']
        rfl

/-! ### replay is compositional -/

theorem c13_replayFrom_append (cfg : Cfg) (pol : Policy) (clk : Nat → Int) :
    ∀ (a b : List Tick) (i : Nat) (acc : Replayed),
      replayFrom cfg pol clk i acc (a ++ b) =
        (replayFrom cfg pol clk i acc a).bind (fun m => replayFrom cfg pol clk (i + a.length) m b)
  | [], b, i, acc => by simp [replayFrom]
  | x :: xs, b, i, acc => by
    simp only [List.cons_append, replayFrom]
    split
    · rfl
    · rw [c13_replayFrom_append cfg pol clk xs b (i + 1)]
      simp only [List.length_cons]
      have : i + 1 + xs.length = i + (xs.length + 1) := by omega
      rw [this]

/-! ### "last wins" never forgets -/

/-- what `ReplayResult.exit_command` may hold: nothing, or one of the three exit commands -/
def ExitOk (e : Option Cmd) : Prop := ∀ c, e = some c → c.isExit = true

theorem c13_lastExit_ok : ∀ (cmds : List Cmd) (prev : Option Cmd), ExitOk prev → ExitOk (lastExit prev cmds)
  | [], prev, h => by simpa [lastExit] using h
  | c :: cs, prev, h => by
    have : lastExit prev (c :: cs) = lastExit (if c.isExit then some c else prev) cs := by
      simp [lastExit]
    rw [this]
    apply c13_lastExit_ok cs
    intro c' hc'
    split at hc'
    · rename_i hx
      cases hc'
      exact hx
    · exact h c' hc'

theorem c13_lastExit_some : ∀ (cmds : List Cmd) (prev : Option Cmd), prev.isSome = true → (lastExit prev cmds).isSome = true
  | [], prev, h => by simpa [lastExit] using h
  | c :: cs, prev, h => by
    have : lastExit prev (c :: cs) = lastExit (if c.isExit then some c else prev) cs := by
      simp [lastExit]
    rw [this]
    apply c13_lastExit_some cs
    split
    · rfl
    · exact h

theorem c13_replayFrom_exit (cfg : Cfg) (pol : Policy) (clk : Nat → Int) :
    ∀ (ticks : List Tick) (i : Nat) (acc rep : Replayed), replayFrom cfg pol clk i acc ticks = some rep →
      (ExitOk acc.exit → ExitOk rep.exit) ∧ (acc.exit.isSome = true → rep.exit.isSome = true)
  | [], i, acc, rep, h => by
    simp only [replayFrom, Option.some.injEq] at h
    subst h
    exact ⟨id, id⟩
  | t :: ts, i, acc, rep, h => by
    simp only [replayFrom] at h
    split at h
    · cases h
    · have ih := c13_replayFrom_exit cfg pol clk ts (i + 1) _ rep h
      exact ⟨fun h0 => ih.1 (c13_lastExit_ok _ _ h0), fun h0 => ih.2 (c13_lastExit_some _ _ h0)⟩

/-- replaying `a ++ b`: the replay of `a` succeeded too, the result is its continuation over `b`, an
exit command seen in `a` is not forgotten, and whatever is remembered is an exit command -/
theorem c13_replayTicks_append (cfg : Cfg) (pol : Policy) (st0 : State) (now0 : Int) (clk : Nat → Int)
    (a b : List Tick) (rep' : Replayed) (h : replayTicks cfg pol st0 now0 clk (a ++ b) = some rep') :
    ∃ rep, replayTicks cfg pol st0 now0 clk a = some rep ∧
      replayFrom cfg pol clk a.length rep b = some rep' ∧
      (rep.exit.isSome = true → rep'.exit.isSome = true) ∧ ExitOk rep.exit ∧ ExitOk rep'.exit := by
  unfold replayTicks at h ⊢
  simp only at h ⊢
  split at h
  · cases h
  · rename_i hc
    simp only [hc, if_false]
    rw [c13_replayFrom_append] at h
    cases hr : replayFrom cfg pol clk 0 { st := (rewind cfg st0 now0).1 } a with
    | none => rw [hr] at h; cases h
    | some rep =>
      rw [hr] at h
      simp only [Option.bind_some, Nat.zero_add] at h
      have h0 : ExitOk ({ st := (rewind cfg st0 now0).1 } : Replayed).exit := by
        intro c hc'; cases hc'
      have e1 := (c13_replayFrom_exit cfg pol clk a 0 _ rep hr).1 h0
      have e2 := c13_replayFrom_exit cfg pol clk b a.length rep rep' h
      exact ⟨rep, rfl, h, e2.2, e1, e2.1 e1⟩

/-! ### which handlers a starting server touches: nobody is overlooked -/

theorem c13_pick_complete (registered : List Nat) (resumes : Nat → Bool) (r : Nat) :
    ∀ (hs : List HandlerRow) (active : List Nat) (h : HandlerRow), h ∈ hs → startQuery registered h = true →
      h.runId = some r → active.contains r = false →
      ∃ p ∈ pickHandlers registered resumes active hs, p.2 = .restart r
  | [], _, h, hm, _, _, _ => by cases hm
  | h0 :: hs, active, h, hm, hq, hr, ha => by
    unfold pickHandlers
    have tail : h ≠ h0 → ∀ active', active'.contains r = false →
        ∃ p ∈ pickHandlers registered resumes active' hs, p.2 = .restart r := by
      intro hne active' ha'
      have hm' : h ∈ hs := by
        simp only [List.mem_cons] at hm
        rcases hm with hm | hm
        · exact absurd hm hne
        · exact hm
      exact c13_pick_complete registered resumes r hs active' h hm' hq hr ha'
    by_cases hq0 : startQuery registered h0 = true
    · simp only [hq0, Bool.not_true, Bool.false_eq_true, if_false]
      cases hr0 : h0.runId with
      | none =>
        have hne : h ≠ h0 := by intro e; rw [e, hr0] at hr; cases hr
        obtain ⟨p, hp, hpr⟩ := tail hne active ha
        exact ⟨p, by simp [hp], hpr⟩
      | some r0 =>
        simp only
        by_cases ha0 : active.contains r0 = true
        · simp only [ha0, if_true]
          have hne : h ≠ h0 := by
            intro e; rw [e, hr0] at hr
            simp only [Option.some.injEq] at hr
            rw [hr, ha] at ha0; cases ha0
          obtain ⟨p, hp, hpr⟩ := tail hne active ha
          exact ⟨p, by simp [hp], hpr⟩
        · simp only [ha0, Bool.false_eq_true, if_false]
          by_cases hrr : r0 = r
          · exact ⟨(h0.hid, .restart r0), by simp, by rw [hrr]⟩
          · have hne : h ≠ h0 := by
              intro e; rw [e, hr0] at hr
              simp only [Option.some.injEq] at hr
              exact hrr hr
            have ha' : (if resumes r0 then r0 :: active else active).contains r = false := by
              split
              · have : (r == r0) = false := by simpa using (fun e => hrr e.symm)
                rw [List.contains_cons, this, Bool.false_or]; exact ha
              · exact ha
            obtain ⟨p, hp, hpr⟩ := tail hne _ ha'
            exact ⟨p, by simp [hp], hpr⟩
    · have hq0' : startQuery registered h0 = false := by simpa using hq0
      simp only [hq0', Bool.not_false, if_true]
      have hne : h ≠ h0 := by intro e; rw [e, hq0'] at hq; cases hq
      obtain ⟨p, hp, hpr⟩ := tail hne active ha
      exact ⟨p, by simp [hp], hpr⟩

end Engine
