import WfModel.Resource
/-!
Value independence of the resource manager model: the transitions never read
`Res.val`, so a graph and the same graph with every value replaced by an ordinary
object have the same runs (the same factory calls, the same caches, the same
outcomes).  `_get` decides "already created" by membership in its two dicts; the
stored value -- `None`, `0`, `""`, `[]`, `False` included -- plays no part.
-/
namespace Resource

theorem eraseVals_get (g : Graph) (x : Nat) : (eraseVals g)[x]? = g[x]?.map Res.eraseVal := by
  simp [eraseVals]

theorem enterGet_eraseVals (c : Cfg) (g : Graph) (s : St) (t : Nat) (k : Task) (x : Nat) :
    enterGet c (eraseVals g) s t k x = enterGet c g s t k x := by
  unfold enterGet
  rw [eraseVals_get]
  cases g[x]? <;> simp [Res.eraseVal]

theorem complete_eraseVals (c : Cfg) (g : Graph) (s : St) (t : Nat) (k : Task) (f : Frame) (fs : List Frame)
    (obj : Nat) : complete c (eraseVals g) s t k f fs obj = complete c g s t k f fs obj := by
  unfold complete
  rw [eraseVals_get]
  cases g[f.rid]? <;> simp [Res.eraseVal]

theorem callFactory_eraseVals (c : Cfg) (g : Graph) (s : St) (t : Nat) (k : Task) (f : Frame) (fs : List Frame) :
    callFactory c (eraseVals g) s t k f fs = callFactory c g s t k f fs := by
  unfold callFactory
  rw [eraseVals_get]
  cases g[f.rid]? <;> simp [Res.eraseVal, complete_eraseVals]

theorem tickTask_eraseVals (c : Cfg) (g : Graph) (s : St) (t : Nat) (k : Task) :
    tickTask c (eraseVals g) s t k = tickTask c g s t k := by
  unfold tickTask
  simp only [enterGet_eraseVals, callFactory_eraseVals]

theorem step_eraseVals (c : Cfg) (g : Graph) (s : St) (a : Act) :
    step c (eraseVals g) s a = step c g s a := by
  cases a <;> simp only [step, tickTask_eraseVals, complete_eraseVals]

theorem stepD_eraseVals (c : Cfg) (g : Graph) (s : St) (a : Act) :
    stepD c (eraseVals g) s a = stepD c g s a := by
  simp only [stepD, step_eraseVals]

theorem run_eraseVals (c : Cfg) (g : Graph) (acts : List Act) : run c (eraseVals g) acts = run c g acts := by
  unfold run
  congr 1
  funext s a
  exact stepD_eraseVals c g s a

theorem settle_eraseVals (c : Cfg) (g : Graph) (n : Nat) (s : St) : settle c (eraseVals g) n s = settle c g n s := by
  induction n generalizing s with
  | zero => rfl
  | succ n ih =>
    simp only [settle, stepD_eraseVals]
    cases s.cur <;> simp [ih]

end Resource
