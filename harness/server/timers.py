"""C14 — generated retry / wait workflows on the real server stack (harness/server/stack.py) under the
virtual-time loop, with idle release, process stop + restart and sends at scheduler-chosen quiescent
instants.

`run_server(spec, seed, conf)` returns an `STrace`:
  * everything `harness/engine/live.py` records (reducer calls of every incarnation of the control loop, of the
    replay inside `context_from_ticks`, step entries/exits, mailbox puts), because the same observers are used;
  * `marks`: server-level events in order — release attempts (with the live runner's timer heap at the moment of
    `_abort_inner_run`), crash, resume, service sends, and a snapshot of the live runner + handler row at every
    quiescent point.

`model_lines(tr)` turns a trace into the op stream of `wfdriver timers` with the implementation's answers;
`expectations(tr)` / `mon_timers(tr)` are the model-independent monitors.
"""
from __future__ import annotations

import asyncio
import random
import sys
from dataclasses import dataclass, field
from typing import Any

from workflows.runtime import control_loop as CL
from workflows.runtime.types import commands as C
from workflows.runtime.types import results as R
from workflows.runtime.types import ticks as T

from ..engine import corr, enc, live
from ..engine import evtypes as ET
from ..engine.direct import oracle_tokens
from ..runner import Violation
from ..vloop import VLoop, run_virtual
from .stack import Stack

EPS = 1e-6
TERMINAL = ("completed", "failed", "cancelled")


@dataclass
class STrace:
    spec: dict
    conf: dict
    trace: live.Trace
    marks: list = field(default_factory=list)
    writes: list = field(default_factory=list)  # (event, call idx, "runner"|"step") seen at the outermost adapter
    inits: list = field(default_factory=list)  # (call idx, runner) for every _ControlLoopRunner created
    actions: list = field(default_factory=list)
    final: dict = field(default_factory=dict)
    end: str = ""
    error: str | None = None


class SRun(live.Run):
    def __init__(self, spec: dict, rng: random.Random, replay_actions: list[int] | None = None):
        super().__init__(spec, rng, replay_actions)
        self.marks: list = []
        self.writes: list = []
        self.inits: list = []


_installed = False


def _cur() -> "SRun | None":
    r = live._ACTIVE[-1] if live._ACTIVE else None
    return r if isinstance(r, SRun) else None


def heap_info(runner: Any) -> list:
    """[(due, kind, step, id, attempts, encoded)] of a runner's scheduled_wakeups, sorted by (time, seq)"""
    out = []
    if runner is None:
        return out
    for (at, seq, tk) in sorted(runner.scheduled_wakeups, key=lambda x: (x[0], x[1])):
        try:
            e = f"{enc.num(at)} {enc.tick(tk)}"
        except Exception as ex:  # noqa: BLE001
            e = f"<unencodable {type(ex).__name__}: {ex}>"
        if isinstance(tk, T.TickAddEvent):
            out.append((at, "retry", tk.step_name, getattr(tk.event, "uid", None), tk.attempts, e))
        elif isinstance(tk, T.TickWaiterTimeout):
            out.append((at, "wtimeout", tk.step_name, tk.waiter_id, None, e))
        elif isinstance(tk, T.TickTimeout):
            out.append((at, "timeout", None, None, None, e))
        else:
            out.append((at, type(tk).__name__, None, None, None, e))
    return out


def install() -> None:
    """observers on the server decorators (this process only; additive to live.install_observers)"""
    global _installed
    live.install_observers()
    if _installed:
        return
    _installed = True
    from llama_agents.server._runtime.idle_release_runtime import IdleReleaseDecorator
    from llama_agents.server._runtime.server_runtime import _ServerInternalRunAdapter

    orig_abort = IdleReleaseDecorator._abort_inner_run
    orig_release = IdleReleaseDecorator._release_idle_handler
    orig_write = _ServerInternalRunAdapter.write_to_event_stream
    prev_init = CL._ControlLoopRunner.__init__

    def abort(self: Any, run_id: str) -> None:
        run = _cur()
        if run is not None:
            try:
                buf = [enc.tick(t) for t in (run.runner.tick_buffer if run.runner is not None else [])]
            except Exception as ex:  # noqa: BLE001
                buf = [f"<unencodable {type(ex).__name__}>"]
            run.marks.append({"kind": "abort", "t": asyncio.get_event_loop().time(), "idx": len(run.trace.calls),
                              "heap": heap_info(run.runner), "runner": run.runner, "buffer": buf})
        orig_abort(self, run_id)

    async def release(self: Any, run_id: str) -> None:
        run = _cur()
        was = run_id in self._active_run_ids
        await orig_release(self, run_id)
        if run is not None:
            run.marks.append({"kind": "release", "t": asyncio.get_event_loop().time(), "idx": len(run.trace.calls),
                              "released": was and run_id not in self._active_run_ids,
                              "live_after": run_id in self._active_run_ids})

    async def write(self: Any, event: Any) -> None:
        run = _cur()
        if run is not None:
            origin = "runner" if sys._getframe(1).f_code.co_name == "process_command" else "step"
            run.writes.append((event, len(run.trace.calls), origin))
        await orig_write(self, event)

    def init(self: Any, *a: Any, **kw: Any) -> None:
        prev_init(self, *a, **kw)
        run = _cur()
        if run is not None:
            run.inits.append((len(run.trace.calls), self, len(run.writes)))

    IdleReleaseDecorator._abort_inner_run = abort  # type: ignore[method-assign]
    IdleReleaseDecorator._release_idle_handler = release  # type: ignore[method-assign]
    _ServerInternalRunAdapter.write_to_event_stream = write  # type: ignore[method-assign]
    CL._ControlLoopRunner.__init__ = init  # type: ignore[method-assign]


# --------------------------------------------------------------------------


class _Driver:
    def __init__(self) -> None:
        self.parked = False
        self.pass_time = False
        self.quiet_ev: asyncio.Event | None = None

    def hook(self, loop: VLoop) -> bool:
        if not self.parked:
            return False
        if self.pass_time:
            self.pass_time = False
            if any(not h._cancelled for h in loop._scheduled):  # type: ignore[attr-defined]
                return False
        self.parked = False
        assert self.quiet_ev is not None
        self.quiet_ev.set()
        return True

    async def quiet(self, pass_time: bool = False) -> None:
        assert self.quiet_ev is not None
        self.quiet_ev.clear()
        self.pass_time = pass_time
        self.parked = True
        await self.quiet_ev.wait()


def _row(ph: Any) -> dict:
    return {"status": ph.status, "idle": None if ph.idle_since is None else round(ph.idle_since.timestamp() - 1_000_000_000, 6),
            "run_id": ph.run_id}


def run_server(spec: dict, seed: int, conf: dict | None = None, replay_actions: list[int] | None = None) -> STrace:
    """conf: idle_timeout (None = no IdleReleaseDecorator), store ("memory"|"sqlite"), crashes (max process stops),
    crash_pct (chance per quiescent round, %), horizon (virtual seconds), plan (optional explicit list of driver
    steps instead of the random scheduler: ["time"] | ["until", t] | ["crash"] | ["crash", downtime] | ["send", ty, k, step] | ["gate"]),
    downtime (virtual seconds the process stays down after every process stop)"""
    conf = dict(conf or {})
    install()
    rng = random.Random(seed)
    run = SRun(spec, rng, replay_actions)
    st_out = STrace(spec=spec, conf=conf, trace=run.trace, marks=run.marks, writes=run.writes, inits=run.inits)
    drv = _Driver()
    live._ACTIVE.append(run)
    horizon = float(conf.get("horizon", 400.0))
    plan = list(conf["plan"]) if conf.get("plan") is not None else None
    try:
        async def main(loop: VLoop) -> None:
            # watchdog: a control loop that spins without letting virtual time advance never becomes quiescent
            spin = [0, loop.time()]
            inner_once = loop._run_once

            def guarded_once() -> None:
                if loop.time() == spin[1]:
                    spin[0] += 1
                    if spin[0] > 60000:
                        raise live.RunawayRun()
                else:
                    spin[0], spin[1] = 0, loop.time()
                inner_once()

            loop._run_once = guarded_once  # type: ignore[method-assign]
            drv.quiet_ev = asyncio.Event()
            t0 = loop.time()
            stack = Stack.build(conf.get("store", "memory"), idle_timeout=conf.get("idle_timeout"))
            stack.add_workflow("wf", lambda: live.build_workflow(spec, run))
            await stack.start()
            start = ET.T0(uid=1, k=spec.get("start_k"))
            run.trace.start_event = start
            await stack.start_run("wf", "h1", start)
            externals = [e for e in spec.get("externals", []) if e.get("op") == "send"]
            crashes = int(conf.get("crashes", 0))
            rounds = 0
            next_pass = False
            try:
                while True:
                    await drv.quiet(pass_time=next_pass)
                    next_pass = False
                    rounds += 1
                    ph = await stack.handler("h1")
                    row = _row(ph)
                    is_live = stack.active(ph.run_id)
                    snap = None
                    if is_live and run.runner is not None and row["status"] == "running":
                        r = run.runner
                        base = next((nw for (_i, rr, nw) in run.inits if rr is r), 0)
                        try:
                            snap = corr._summary(live._runner_info(run), len(run.writes) - base) + " ;; " + enc.state(r.state)
                        except enc.EncError:
                            snap = None  # fractional times (the F13 witnesses): monitors only, no model comparison
                    wake = None
                    if snap is not None:
                        # what the loop's next `wait_for_next_task` is told: next_wakeup_timeout(now), as an absolute time
                        try:
                            to = run.runner.next_wakeup_timeout(loop.time())
                            wake = "_" if to is None else enc.num(loop.time() + to)
                        except Exception as ex:  # noqa: BLE001
                            wake = f"<{type(ex).__name__}: {ex}>"
                    run.marks.append({"kind": "quiet", "t": loop.time(), "idx": len(run.trace.calls), "row": row, "live": is_live,
                                      "snap": snap, "inits": len(run.inits), "wake": wake})
                    if row["status"] in TERMINAL:
                        st_out.end = "terminal"
                        break
                    if loop.time() - t0 > horizon or rounds > 400:
                        st_out.end = "horizon"
                        break
                    whens = [h._when for h in loop._scheduled if not h._cancelled]  # type: ignore[attr-defined]
                    has_timer = bool(whens)
                    # a handle that fell due at this very instant (asyncio.wait(timeout=0) of a control loop whose next timer is
                    # due now) has already been moved to the ready queue: the run is about to go on, this is no place to decide
                    # that nothing will happen any more
                    busy = bool(loop._ready)  # type: ignore[attr-defined]
                    if plan is None and whens and min(whens) - t0 > horizon:
                        if busy:
                            continue
                        st_out.end = "horizon"  # nothing is due within the observation window: observed up to the horizon
                        st_out.final["observed_until"] = horizon
                        break
                    if plan is not None:
                        if not plan:
                            st_out.end = "plan-done"
                            break
                        act = plan.pop(0)
                        if act[0] == "until":
                            if loop.time() - t0 < act[1] - EPS:
                                if len(act) < 3:
                                    loop.call_at(t0 + act[1], lambda: None)  # so that virtual time can reach the target
                                    act = [act[0], act[1], True]
                                plan.insert(0, act)
                                next_pass = True
                            continue
                        if act[0] == "gate":
                            if not run.waiting:
                                continue
                            kind, arg = "gate", run.waiting[0]
                        elif act[0] == "send":
                            kind, arg = "sendx", {"ty": act[1], "k": act[2], "step": act[3]}
                        else:
                            kind, arg = act[0], (act[1] if len(act) > 1 else None)
                    else:
                        options: list[tuple[str, Any]] = [("gate", k) for k in list(run.waiting)]
                        for i, ext in enumerate(externals):
                            if ext.get("after_quiet", 0) <= rounds:
                                options.append(("send", i))
                        if has_timer:
                            options.append(("time", None))
                        if crashes > 0 and run.choose(100) < int(conf.get("crash_pct", 15)):
                            options = [("crash", None)]
                        if not options:
                            if busy:
                                continue
                            st_out.end = "stuck"
                            break
                        kind, arg = options[run.choose(len(options))]
                    if kind == "time":
                        if not has_timer:
                            st_out.end = "stuck"
                            break
                        next_pass = True
                    elif kind == "gate":
                        if arg in run.waiting:
                            run.waiting.remove(arg)
                        run.gates[arg].set()
                    elif kind in ("send", "sendx"):
                        ext = externals.pop(arg) if kind == "send" else arg
                        ev = ET.mk(ext["ty"], run.fresh(), ext.get("k"))
                        i0 = len(run.trace.calls)
                        err = None
                        try:
                            await stack.send("h1", ev, step=ext.get("step"))
                        except Exception as e:  # noqa: BLE001
                            err = f"{type(e).__name__}: {e}"
                        run.marks.append({"kind": "send", "t": loop.time(), "idx0": i0, "idx": len(run.trace.calls), "err": err,
                                          "tick": enc.tick(T.TickAddEvent(event=ev, step_name=ext.get("step"))),
                                          "was_live": is_live, "uid": ev.uid, "ty": ext["ty"], "step": ext.get("step")})
                    elif kind == "crash":
                        crashes -= 1
                        i0 = len(run.trace.calls)
                        run.marks.append({"kind": "crash", "t": loop.time(), "idx": i0, "heap": heap_info(run.runner) if is_live else [],
                                          "runner": run.runner if is_live else None, "was_live": is_live, "row": row})
                        stack = await stack.crash()
                        # downtime: the process stays down for a while (virtual seconds) before the next boot; nothing of the
                        # run is in memory meanwhile (plan: ["crash", dt]; random scheduler: conf["downtime"])
                        down = float((arg if kind == "crash" and arg else None) or conf.get("downtime") or 0)
                        if down > 0:
                            await asyncio.sleep(down)
                        i1 = len(run.trace.calls)
                        n0 = len(run.inits)
                        t_boot = loop.time()
                        await stack.start()
                        run.marks.append({"kind": "resume", "t": t_boot, "idx0": i1, "idx": len(run.trace.calls),
                                          "reloaded": len(run.inits) > n0, "down": down})
                    else:
                        raise ValueError(kind)
            finally:
                ph = await stack.handler("h1")
                until = st_out.final.get("observed_until")
                st_out.final = _row(ph)
                st_out.final["live"] = stack.active(ph.run_id)
                st_out.final["t"] = max(loop.time() - t0, until or 0.0)
                st_out.final["t0"] = t0
                st_out.final["gates_waiting"] = len(run.waiting)
                st_out.final["observed_until"] = until
                try:
                    st_out.final["persisted"] = [enc.tick(t) for t in await stack.ticks(ph.run_id)]
                except Exception as e:  # noqa: BLE001
                    st_out.final["persisted_error"] = f"{type(e).__name__}: {e}"
                stack.cleanup()

        try:
            run_virtual(main, max_time=1e7, hook_factory=lambda loop: (lambda: drv.hook(loop)))
        except TimeoutError:
            st_out.end = st_out.end or "deadlock"
        except live.RunawayRun:
            st_out.end = "runaway"
    finally:
        live._ACTIVE.pop()
    st_out.actions = list(run.trace.actions)
    return st_out


# --------------------------------------------------------------------------
# (K) the trace as an op stream for `wfdriver timers`


def _replay_oracle(calls: list, start: int, end: int | None = None) -> str:
    """policy decisions taken by the replay (`replay_ticks_stream`) that starts at call index `start`"""
    log: list = []
    i = start
    while i < (len(calls) if end is None else min(end, len(calls))) and calls[i].caller == "replay_ticks_stream":
        log += list(calls[i].oracle)
        i += 1
    return oracle_tokens(log)


_R_SECTION = __import__("re").compile(r" R \d+(?: \d+ \d+)* S ")


def norm_rshow(line: str) -> str:
    """at a quiescent point the control loop sits inside `wait_for_next_task`: workers it has just handed to the
    adapter are in neither `_pending_workers` nor `_task_keys` yet, so the worker list cannot be observed there
    (it is compared at every tick instead)"""
    return _R_SECTION.sub(" R * S ", line, count=1)


def _replay_error(calls: list, start: int, end: int | None = None) -> bool:
    """did the replay that starts at call index `start` raise?"""
    i = start
    while i < (len(calls) if end is None else min(end, len(calls))) and calls[i].caller == "replay_ticks_stream":
        if calls[i].error is not None:
            return True
        i += 1
    return False


def model_lines(tr: STrace) -> tuple[list[str], list[str]]:
    calls = tr.trace.calls
    ops: list[str] = []
    outs: list[str] = []
    first = next((c for c in calls if c.kind == "rewind" and c.caller == "run"), None)
    if first is None:
        return ops, outs
    idle_timeout = tr.conf.get("idle_timeout")
    ops.append("cfg " + enc.cfg(first.before)); outs.append("ok")
    ops.append("sstart %s %s %s %s" % (enc.num(first.now), enc.ev(tr.trace.start_event), enc.num(tr.spec.get("timeout")),
                                       enc.num(idle_timeout if idle_timeout is not None else 10 ** 9)))
    outs.append("status=running idle=_ live=1 loads=1 err=_")
    puts = list(tr.trace.puts)
    # chronological side items, keyed by the index of the reducer call they precede
    items: list[tuple[int, int, str, Any]] = []
    n = 0
    for (e, k, origin) in tr.writes:
        if origin == "step":
            items.append((k, n, "swrite", e)); n += 1
    for (tk, k, origin) in puts:
        if origin == "internal":
            items.append((k, n, "ext", tk)); n += 1
    for m in tr.marks:
        if m["kind"] in ("release", "crash", "quiet"):
            items.append((m["idx"], n, m["kind"], m)); n += 1
        elif m["kind"] in ("send", "resume"):
            items.append((m["idx0"], n, m["kind"], m)); n += 1
    # marks are appended in real order; writes/puts of the same call index come first (they belong to the call before)
    items.sort(key=lambda x: (x[0], 0 if x[2] in ("swrite", "ext") else 1, x[1]))
    last_abort: dict = {}
    for m in tr.marks:
        if m["kind"] == "abort":
            last_abort[m["idx"]] = m

    err_state = ["_"]  # what the last send / resume left in the model's `err` field

    def emit(item: tuple[int, int, str, Any]) -> None:
        _k, _n, kind, m = item
        if kind == "swrite":
            ops.append("swrite " + enc.ev(m)); outs.append("ok")
        elif kind == "ext":
            ops.append("ext " + enc.tick(m)); outs.append("ok")
        elif kind == "release":
            ab = last_abort.get(m["idx"]) if m["released"] else None
            if ab is not None and ab["buffer"]:
                # the loop had just moved its due timers into the tick buffer when the release cancelled it
                ops.append(f"rtimer {enc.num(m['t'])}"); outs.append(enc.lst(ab["buffer"]))
            if ab is not None:
                ops.append("timers"); outs.append(enc.lst([h[5] for h in ab["heap"] if h[1] in ("retry", "wtimeout")]))
            ops.append(f"release {enc.num(m['t'])}"); outs.append("ok")
            ops.append("islive"); outs.append("1" if m["live_after"] else "0")
        elif kind == "crash":
            if m["was_live"]:
                ops.append("timers"); outs.append(enc.lst([h[5] for h in m["heap"] if h[1] in ("retry", "wtimeout")]))
            ops.append(f"restart {enc.num(m['t'])}"); outs.append("ok")
        elif kind == "resume":
            # `await stack.start()` waits for _on_server_start: its replay (if any) lies inside [idx0, idx)
            ops.append(f"resume {enc.num(m['t'])} {_replay_oracle(calls, m['idx0'], m['idx'])}"); outs.append("ok")
            if _replay_error(calls, m["idx0"], m["idx"]):
                err_state[0] = "replay-raised"
        elif kind == "send":
            if m["err"] is None:
                ops.append(f"send {enc.num(m['t'])} {_replay_oracle(calls, m['idx0'])} {m['tick']}"); outs.append("ok")
                # the reload runs in the fire-and-forget task of ctx.send_event: a replay that raises loses the send silently
                err_state[0] = "replay-raised" if (not m["was_live"] and _replay_error(calls, m["idx0"])) else "_"
        elif kind == "quiet":
            row = m["row"]
            ops.append("hstate")
            outs.append("status=%s idle=%s live=%d loads=%d err=%s" % (row["status"], enc.num(row["idle"]), 1 if m["live"] else 0, m["inits"], err_state[0]))
            if m["snap"] is not None:
                ops.append("rshow"); outs.append(norm_rshow(m["snap"]))
                if m.get("wake") is not None:
                    # the instant the control loop sleeps until = the earliest entry of the timer heap (Runner.nextWakeup)
                    ops.append("wake"); outs.append(m["wake"])
            elif not m["live"]:
                ops.append("rshow"); outs.append("not-live")

    it = 0
    for k, c in enumerate(calls):
        while it < len(items) and items[it][0] <= k:
            emit(items[it]); it += 1
        if c.caller != "_process_tick":
            continue
        base = 0
        for (i0, _r, nw) in tr.inits:
            if i0 <= k:
                base = nw
        tk = c.tick
        if isinstance(tk, T.TickStepResult):
            hint = "HW %s %d %s" % (enc.step_id(tk.step_name), tk.worker_id, enc.lst([enc.res(r) for r in tk.result]))
        elif any(tk is p[0] for p in puts):
            hint = "HP"
        elif isinstance(tk, (T.TickTimeout, T.TickWaiterTimeout)) or (isinstance(tk, T.TickAddEvent) and tk.attempts):
            hint = "HT"
        else:
            hint = "H0"
        ops.append(f"rstep {enc.num(c.now)} {oracle_tokens(c.oracle)} {hint}")
        res = "crash" if c.error is not None else enc.result_line(c.after, c.cmds)
        outs.append(enc.tick(tk) + " @@ " + corr._summary(c.runner, c.stream_len - base) + " => " + res)
    while it < len(items):
        emit(items[it]); it += 1
    if "persisted" in tr.final:
        ops.append("persisted"); outs.append(enc.lst(tr.final["persisted"]))
    return ops, outs


# --------------------------------------------------------------------------
# (S) model-independent monitors


@dataclass
class Expect:
    """a timer the run is entitled to: derived from what the step side / retry policy asked for"""
    kind: str  # "retry" | "waiter_timeout"
    step: str
    ident: Any  # event uid (retry) / waiter id (waiter timeout)
    attempts: int | None
    created_idx: int
    created_t: float
    due: float
    delivered_idx: int | None = None
    delivered_t: float | None = None
    moot_idx: int | None = None
    moot: str | None = None
    effect_t: float | None = None


def expectations(tr: STrace) -> tuple[list[Expect], list[dict]]:
    """(expected timers, spurious timer ticks).  A retry is expected when the step's retry policy answered with a
    positive delay; a waiter timeout when a step's wait_for_event(timeout=T) registered a *new* waiter.  Delivery =
    the control loop (of any incarnation) processes the corresponding tick."""
    exps: list[Expect] = []
    spurious: list[dict] = []
    cut_idx = [c["idx"] for c in cuts(tr)]

    def pick(cands: list[Expect], k: int) -> Expect | None:
        # a timer tick processed by a control loop was armed in that very incarnation (a cut drops the whole heap): among
        # the open expectations with the same key prefer the oldest one armed since the last cut, else the oldest
        same = [x for x in cands if not any(x.created_idx < ci <= k for ci in cut_idx)]
        return same[0] if same else (cands[0] if cands else None)

    for k, c in enumerate(tr.trace.calls):
        if c.caller != "_process_tick" or c.error is not None:
            continue
        tk = c.tick
        if isinstance(tk, T.TickStepResult):
            for r in tk.result:
                if isinstance(r, R.StepWorkerFailed):
                    for (stp, _el, att, _err, d) in c.oracle:
                        if stp == tk.step_name and d not in (None, "RAISE") and d >= 0:
                            exps.append(Expect("retry", tk.step_name, getattr(tk.event, "uid", None), att, k, c.now, c.now + d))
                elif isinstance(r, R.AddWaiter) and r.timeout is not None:
                    present = any(w.waiter_id == r.waiter_id for w in c.before.workers[tk.step_name].collected_waiters)
                    if not present:
                        exps.append(Expect("waiter_timeout", tk.step_name, r.waiter_id, None, k, c.now, c.now + r.timeout))
        elif isinstance(tk, T.TickAddEvent) and tk.attempts and tk.step_name is not None:
            e = pick([x for x in exps if x.kind == "retry" and x.delivered_idx is None and x.step == tk.step_name
                      and x.ident == getattr(tk.event, "uid", None) and x.attempts == tk.attempts], k)
            if e is None:
                spurious.append({"kind": "retry", "step": tk.step_name, "uid": getattr(tk.event, "uid", None), "attempts": tk.attempts, "t": c.now})
            else:
                e.delivered_idx, e.delivered_t = k, c.now
        elif isinstance(tk, T.TickWaiterTimeout):
            e = pick([x for x in exps if x.kind == "waiter_timeout" and x.delivered_idx is None and x.step == tk.step_name
                      and x.ident == tk.waiter_id], k)
            if e is None:
                spurious.append({"kind": "waiter_timeout", "step": tk.step_name, "waiter": tk.waiter_id, "t": c.now})
            else:
                e.delivered_idx, e.delivered_t = k, c.now
        # expectations that no longer apply
        ended = (c.after is not None and not c.after.is_running) or any(C.indicates_exit(x) for x in c.cmds)
        for e in exps:
            if e.delivered_idx is not None or e.moot is not None:
                continue
            if ended:
                e.moot, e.moot_idx = "run ended", k
            elif e.kind == "waiter_timeout" and c.after is not None:
                w = next((w for w in c.after.workers[e.step].collected_waiters if w.waiter_id == e.ident), None)
                if w is None:
                    e.moot, e.moot_idx = "waiter gone", k
                elif w.resolved_event is not None:
                    e.moot, e.moot_idx = "waiter resolved", k
    for e in exps:
        if e.delivered_t is None:
            continue
        if e.kind == "retry":
            hit = next((s for s in tr.trace.steps if s[0] == "enter" and s[1] == e.step and s[2] == e.ident and s[3] == e.attempts
                        and s[4] >= e.delivered_t - EPS), None)
        else:
            # (the step side does not know an auto-generated waiter id: its record then carries None / "auto<type>:<requirement>")
            hit = next((s for s in tr.trace.steps if s[0] == "wait_timeout" and s[1] == e.step
                        and (s[5].get("wid") == e.ident or s[5].get("wid") is None or str(s[5].get("wid")).startswith("auto"))
                        and s[4] >= e.delivered_t - EPS), None)
        e.effect_t = None if hit is None else hit[4]
    return exps, spurious


def cuts(tr: STrace) -> list[dict]:
    out = []
    for m in tr.marks:
        if m["kind"] == "abort":
            out.append({"kind": "idle_release", "idx": m["idx"], "t": m["t"], "heap": m["heap"]})
        elif m["kind"] == "crash" and m["was_live"]:
            out.append({"kind": "restart", "idx": m["idx"], "t": m["t"], "heap": m["heap"]})
    return out


def mon_timers(tr: STrace, case: Any) -> list[Violation]:
    """every pending retry / waiter timeout takes effect, on time, whether or not the run left memory in between"""
    vs: list[Violation] = []
    exps, spurious = expectations(tr)
    cs = cuts(tr)
    status = tr.final.get("status")
    t_end = tr.final.get("t0", 0.0) + tr.final.get("t", 0.0)
    until = tr.final.get("observed_until")
    last_idx = len(tr.trace.calls)
    for e in exps:
        upto = e.delivered_idx if e.delivered_idx is not None else (e.moot_idx if e.moot_idx is not None else last_idx)
        while_pending = [c for c in cs if e.created_idx < c["idx"] <= upto]
        where = ("after_" + while_pending[0]["kind"]) if while_pending else "no_release"
        desc = (f"{e.kind} of step {e.step} ({'event uid' if e.kind == 'retry' else 'waiter'} {e.ident}"
                f"{', attempt ' + str(e.attempts) if e.attempts is not None else ''}) scheduled at t={e.created_t:g} for t={e.due:g}")
        ctx = "; ".join(f"{c['kind']} at t={c['t']:g} with heap {[h[:5] for h in c['heap']]}" for c in while_pending)
        if e.delivered_t is None:
            if e.moot is not None:
                continue
            if status in TERMINAL:
                continue
            if t_end < e.due - EPS and tr.end != "stuck":
                continue  # the observation window ended before the timer was due ("stuck" = nothing is scheduled any more)
            if while_pending and while_pending[0]["t"] > e.due + EPS:
                # not the known loss of a timer that was still in the future when the run left memory: this one was already
                # due and the control loop had not delivered it (it slept past it), so the cut found it still in the heap
                c0 = while_pending[0]
                in_heap = any(h[1] == ("retry" if e.kind == "retry" else "wtimeout") and h[2] == e.step and h[3] == e.ident
                              and abs(h[0] - e.due) < EPS and (e.kind != "retry" or h[4] == e.attempts) for h in c0["heap"])
                if in_heap:
                    sig, how = f"C14/{e.kind}_overdue_at_{c0['kind']}", "the control loop slept past it: it was still in the timer heap"
                else:
                    sig, how = f"C14/{e.kind}_dropped_before_{c0['kind']}", "it had vanished from the timer heap without being delivered"
                vs.append(Violation(sig,
                                    f"{desc} was still undelivered when the run left memory ({c0['kind']}) at t={c0['t']:g}, {c0['t'] - e.due:g} s after it was due: "
                                    f"{how} (timer heap at the cut: {[h[:5] for h in c0['heap']]}; idle_timeout={tr.conf.get('idle_timeout')}); "
                                    f"at t={t_end:g} ({tr.end}) the handler is '{status}', in memory: {tr.final.get('live')}", case))
                continue
            vs.append(Violation(f"C14/{e.kind}_lost_{where}",
                                f"{desc} never fired: at t={t_end:g} ({tr.end}) the handler is '{status}', in memory: {tr.final.get('live')}; {ctx or 'the run never left memory'}",
                                case))
            continue
        if e.delivered_t < e.due - EPS:
            vs.append(Violation(f"C14/{e.kind}_early_{where}", f"{desc} fired at t={e.delivered_t:g}; {ctx}", case))
        elif e.delivered_t > e.due + EPS:
            vs.append(Violation(f"C14/{e.kind}_late_{where}", f"{desc} fired at t={e.delivered_t:g}; {ctx}", case))
        # "horizon" through the shortcut (observed_until: no loop timer within the window) with no step parked at a gate: every
        # step body has returned or is suspended for good, so every worker slot the effect could have been queued behind is free
        settled = tr.end in ("stuck", "plan-done") or (tr.end == "horizon" and until is not None and tr.final.get("gates_waiting") == 0
                                                        and e.moot is None)
        if e.effect_t is None and status not in TERMINAL and settled \
                and not any(c["idx"] > e.delivered_idx for c in cs):
            what = "the step was not executed again" if e.kind == "retry" else "the waiting step never got its TimeoutError"
            vs.append(Violation(f"C14/{e.kind}_no_effect_{where}", f"{desc} fired at t={e.delivered_t:g} but {what}; {ctx}", case))
    for sp in spurious:
        vs.append(Violation(f"C14/spurious_{sp['kind']}_tick", f"the control loop processed a timer tick nobody scheduled: {sp}", case))
    return vs


# --------------------------------------------------------------------------
# (S) a retry that was granted before the run left memory is not taken back by the reload


def _failure_decisions(calls: list, lo: int, hi: int, caller: str) -> list[tuple]:
    """what the step's retry policy was asked and answered for every failed execution reduced by `caller` in calls[lo:hi],
    in order: (call idx, step, input uid, failures, elapsed handed to the policy, answer)"""
    out = []
    for k in range(lo, min(hi, len(calls))):
        c = calls[k]
        if c.caller != caller or c.error is not None or not isinstance(c.tick, T.TickStepResult):
            continue
        if not any(isinstance(r, R.StepWorkerFailed) for r in c.tick.result):
            continue
        for (stp, el, att, _err, d) in c.oracle:
            if stp == c.tick.step_name:
                out.append((k, stp, getattr(c.tick.event, "uid", None), att, el, d))
    return out


def reloads(tr: STrace) -> list[tuple[int, int]]:
    """[start, end) call-index ranges of the journal replays (one per reload of the run from its persisted ticks)"""
    calls = tr.trace.calls
    out, k = [], 0
    while k < len(calls):
        if calls[k].caller == "replay_ticks_stream":
            j = k
            while j < len(calls) and calls[j].caller == "replay_ticks_stream":
                j += 1
            out.append((k, j))
            k = j
        else:
            k += 1
    return out


def mon_granted_retries(tr: STrace, case: Any) -> list[Violation]:
    """the property, for retries the policy had already granted when the run left memory: the step IS retried after the
    reload.  Two rules, both true of a server that reloads a run as it was:

    * `granted_retry_revoked_by_reload_after_<cut>_<state>`: the journal the reload replays holds the failures of the
      executions before the cut; the live control loop asked the step's retry policy about each of them and the policy
      granted a retry (answered with a delay).  A reload whose replay asks the policy about the SAME journaled failure and
      is told to give up (because it hands the policy something else than the live loop did: elapsed time measured up to
      the moment of the replay, downtime included) takes the granted retry back: the handler is failed / routed to the
      error handler / started over instead of the step being retried.  <state> = where the retry was when the run left
      memory: pending (delay running), in_flight (the retried execution had started), suspended_in_wait (it waits for an
      event), carried_out (it had finished).
    * `retry_in_flight_not_resumed_after_restart` (end to end, from step executions and the handler row only): the retried
      execution was running when the process stopped and the handler row said running / not idle, so the next boot resumes
      the run: the step must be executed again for that input."""
    vs: list[Violation] = []
    calls = tr.trace.calls
    cs = cuts(tr)
    exps, _sp = expectations(tr)
    steps = tr.trace.steps
    status = tr.final.get("status")
    for (lo, hi) in reloads(tr):
        live = _failure_decisions(calls, 0, lo, "_process_tick")
        rep = _failure_decisions(calls, lo, hi, "replay_ticks_stream")
        cut = next((c for c in reversed(cs) if c["idx"] <= lo), None)
        for (lv, rp) in zip(live, rep):
            if lv[1:4] != rp[1:4]:
                break  # the replay does not walk the same failures (the correspondence reports that): no pairing beyond here
            (k, stp, uid, att, el_live, d_live), (kr, _s, _u, _a, el_rep, d_rep) = lv, rp
            if d_live in (None, "RAISE") or d_rep is not None:
                continue
            cut_idx = cut["idx"] if cut is not None else lo
            cut_t = cut["t"] if cut is not None else calls[lo].now
            # where the LATEST retry granted for that input was when the run left memory (the journal may hold several failures)
            (k_l, _s2, _u2, att_l, _el2, _d2) = [x for x in live if x[1:3] == (stp, uid) and x[0] < cut_idx and x[5] not in (None, "RAISE")][-1]
            e = next((x for x in exps if x.kind == "retry" and x.step == stp and x.ident == uid and x.attempts == att_l and x.created_idx == k_l), None)
            if e is None or e.delivered_idx is None or e.delivered_idx >= cut_idx:
                state = "pending"
            else:
                ent = [s for s in steps if s[0] == "enter" and s[1] == stp and s[2] == uid and s[3] == att_l and e.delivered_t - EPS <= s[4] <= cut_t + EPS]
                fin = [s for s in steps if s[0] == "exit" and s[1] == stp and s[2] == uid and s[3] == att_l and e.delivered_t - EPS <= s[4] <= cut_t + EPS
                       and s[5].get("status") != "cancelled"]
                state = (("suspended_in_wait" if str(fin[-1][5].get("status")).endswith("WaitingForEvent") else "carried_out") if fin
                         else ("in_flight" if ent else "pending"))
            after = [s for s in steps if s[0] == "enter" and s[1] == stp and s[2] == uid and s[4] >= calls[lo].now - EPS]
            again = [s for s in steps if s[0] == "enter" and s[4] >= calls[lo].now - EPS and (s[1], s[2]) != (stp, uid)]
            where = cut["kind"] if cut is not None else "reload"
            vs.append(Violation(
                f"C14/granted_retry_revoked_by_reload_after_{where}_{state}",
                f"step {stp} (input uid {uid}) failed for the {att}. time at t={calls[k].now:g}; its retry policy {_policy_of(tr.spec, stp)} was handed "
                f"elapsed_time={el_live:g} and granted retry {att} (delay {d_live:g} s); the latest retry granted for that input (retry {att_l}) was "
                f"{state.replace('_', ' ')} when the run left memory ({where} at t={cut_t:g}); the reload at t={calls[lo].now:g} replayed that journaled failure, handed the policy elapsed_time={el_rep:g} "
                f"(the time up to the reload, {calls[lo].now - cut_t:g} s out of memory included) and was told to give up: the granted retry was taken back. "
                f"After the reload: step {stp} executed {len(after)}x for that input, other step executions {[(s[1], s[2], s[3]) for s in again][:6]}, "
                f"handler '{status}' at t={tr.final.get('t0', 0.0) + tr.final.get('t', 0.0):g} ({tr.end}); expected: the run goes on as if it had stayed in "
                f"memory (the step is retried / its result stands) and the policy's budget is charged only with the time the live run had measured", case))
            break
    # end to end: an execution of a granted retry that was running when the process stopped is run again by the next boot
    for m_i, m in enumerate(tr.marks):
        if m["kind"] != "crash" or not m.get("was_live"):
            continue
        row = m.get("row") or {}
        if row.get("status") != "running" or row.get("idle") is not None:
            continue  # an idle-flagged handler is not resumed at boot (it waits for an event)
        res = next((x for x in tr.marks[m_i + 1:] if x["kind"] == "resume"), None)
        if res is None:
            continue
        for e in exps:
            if e.kind != "retry" or e.delivered_idx is None or e.delivered_idx >= m["idx"] or e.created_idx >= m["idx"]:
                continue
            if any(c["idx"] > e.created_idx and c["idx"] < m["idx"] for c in cs):
                continue  # an earlier cut lies in between: judged there
            ent = [s for s in steps if s[0] == "enter" and s[1] == e.step and s[2] == e.ident and s[3] == e.attempts and e.delivered_t - EPS <= s[4] <= m["t"] + EPS]
            if not ent:
                continue
            t_in = ent[-1][4]
            done = [s for s in steps if s[0] == "exit" and s[1] == e.step and s[2] == e.ident and s[3] == e.attempts and t_in - EPS <= s[4] <= m["t"] + EPS
                    and not (s[5].get("status") == "cancelled" and abs(s[4] - m["t"]) < EPS)]
            if done:
                continue  # the retried execution had come back before the stop
            later = [s for s in steps if s[0] == "enter" and s[1] == e.step and s[2] == e.ident and s[4] >= res["t"] - EPS]
            if later:
                continue
            vs.append(Violation(
                "C14/retry_in_flight_not_resumed_after_restart",
                f"retry {e.attempts} of step {e.step} (input uid {e.ident}, policy {_policy_of(tr.spec, e.step)}) had waited out its delay and was executing "
                f"(entered at t={t_in:g}) when the process stopped at t={m['t']:g}; the handler row said running / not idle, the next boot at t={res['t']:g} "
                f"({res.get('down', 0):g} s later) reloaded the run from its journal -- and the step was never executed again for that input: "
                f"handler '{status}' at t={tr.final.get('t0', 0.0) + tr.final.get('t', 0.0):g} ({tr.end}); step executions after the boot: "
                f"{[(s[1], s[2], s[3]) for s in steps if s[0] == 'enter' and s[4] >= res['t'] - EPS][:6]}", case))
    return vs


def _policy_of(spec: dict, step: str) -> str:
    p = next((s.get("retry") for s in spec["steps"] if s["name"] == step), None)
    if not p:
        return "none"
    k = p.get("kind")
    if k == "delay":
        return f"stop_after_delay({p['d']}) wait_fixed({p.get('wait', 1)})"
    if k == "before_delay":
        return f"stop_before_delay({p['d']}) wait_fixed({p.get('wait', 1)})"
    return str(p)
