import WfModel.ArchiveService
import WfProofs.ArchiveClean
import WfProofs.ArchiveWrite
/-!
Helper lemmas for C33, part 9: cleaning, then archiving, then reading — the backup service's path.
-/
namespace ArchiveService
open Archive ArchiveClean GenArchive GenArchiveClean

variable {V Y : Type}

/-- cleaning a resource keeps the value the writer names its members after -/
theorem nameOf_cleanCrd (d : Doc V) : nameOf (cleanCrd d) = nameOf d := by
  simp only [nameOf, cleanCrd, metaField_clean]
  have : crdKeep.contains writerNameKey = true := by decide
  rw [if_pos this]

theorem nameOf_cleanSecret (d : Doc V) : nameOf (cleanSecret d) = nameOf d := by
  simp only [nameOf, cleanSecret, metaField_clean]
  have : secretKeep.contains writerNameKey = true := by decide
  rw [if_pos this]

/-- the name the writer derives from the cleaned resource is the name the service keyed the secrets and
generations by (for a resource that has a name) -/
theorem depName_svc (str : V → Name) (inj : Doc V → Y) (r : Doc V) (h : (metaField svcNameKey r).isSome) :
    depName ((nameOf (cleanCrd r)).map str, inj (cleanCrd r)) = svcName str r := by
  have hk : svcNameKey = writerNameKey := by decide
  rw [hk] at h
  show ((nameOf (cleanCrd r)).map str).getD defaultName = _
  rw [nameOf_cleanCrd]
  simp only [svcName, nameOf, hk]
  cases hv : metaField writerNameKey r with
  | none => rw [hv] at h; cases h
  | some v => rfl

theorem svc_read_write {A : Aead} (hA : A.Lawful) {C : Codec Y} (hC : C.Lawful) (pw : Option Bytes)
    {rnd : Nat → Bytes × Bytes} (hr : rndWf rnd) (str : V → Name) (int : V → Int) (inj : Doc V → Y)
    (raws : List (Doc V)) (sec : Name → Option Y) (ns ts : Str)
    (hname : ∀ r ∈ raws, (metaField svcNameKey r).isSome)
    (hdot : ∀ r ∈ raws, '.' ∉ svcName str r) (hnd : (raws.map (svcName str)).Nodup) :
    read A C pw (write A C pw rnd (svcBackup str int inj raws sec ns ts)) =
      .ok ⟨manifestOf pw (svcBackup str int inj raws sec ns ts), svcExpected str int inj raws sec⟩ := by
  have hnames : (svcBackup str int inj raws sec ns ts).deps.map depName = raws.map (svcName str) := by
    simp only [svcBackup, List.map_map]
    apply List.map_congr_left
    intro r hr'
    exact depName_svc str inj r (hname r hr')
  have hwf : (svcBackup str int inj raws sec ns ts).wfDot := by
    constructor
    · intro d hd
      simp only [svcBackup, List.mem_map] at hd
      obtain ⟨r, hr', rfl⟩ := hd
      rw [depName_svc str inj r (hname r hr')]
      exact hdot r hr'
    · rw [hnames]; exact hnd
  rw [read_write hA hC pw pw hr _ hwf (fun _ _ => Or.inr (Or.inr rfl))]
  congr 2
  simp only [expectedEntries, svcExpected, svcBackup, List.map_map]
  apply List.map_congr_left
  intro r hr'
  have hn := depName_svc str inj r (hname r hr')
  simp only [Function.comp, Archive.secretOf, hn, Archive.genOf]
  rw [alookup_filterMap (svcName str) (fun r => sec (svcName str r)) raws hnd r hr',
    alookup_filterMap (svcName str) (fun r => svcGen int r) raws hnd r hr']

end ArchiveService
