import WfProofs.EngineReduce
import WfModel.Runner
/-!
Recovery budgets (C08): no attempt anywhere in the engine ever carries, for any
`@catch_error` handler, a recovery count above that handler's `max_recoveries`.
-/
set_option linter.unusedSimpArgs false
set_option linter.unusedVariables false

namespace Engine

theorem RC.find_map_same (h n : Nat) : ∀ l : List (Nat × Nat), l.any (fun p => p.1 == h) = true →
    (l.map (fun p => if p.1 == h then (h, n) else p)).find? (fun p => p.1 == h) = some (h, n)
  | [], hh => by simp at hh
  | a :: as, hh => by
    simp only [List.map_cons, List.find?_cons]
    by_cases ha : (a.1 == h) = true
    · simp [ha]
    · simp only [Bool.not_eq_true] at ha
      simp only [List.any_cons, ha, Bool.false_or] at hh
      simp only [ha, Bool.false_eq_true, ↓reduceIte]
      exact RC.find_map_same h n as hh

theorem RC.find_map_other (h h' n : Nat) (hne : h' ≠ h) : ∀ l : List (Nat × Nat),
    ((l.map (fun p => if p.1 == h then (h, n) else p)).find? (fun p => p.1 == h')).map (·.2) =
      (l.find? (fun p => p.1 == h')).map (·.2)
  | [] => rfl
  | a :: as => by
    simp only [List.map_cons, List.find?_cons]
    by_cases ha : (a.1 == h) = true
    · have hah : a.1 = h := by simpa using ha
      have h1 : (h == h') = false := by simpa using fun e => hne e.symm
      have h2 : (a.1 == h') = false := by rw [hah]; exact h1
      simp only [ha, ↓reduceIte, h1, h2]
      exact RC.find_map_other h h' n hne as
    · simp only [Bool.not_eq_true] at ha
      simp only [ha, Bool.false_eq_true, ↓reduceIte]
      by_cases hb : (a.1 == h') = true
      · simp [hb]
      · simp only [Bool.not_eq_true] at hb
        simp only [hb]
        exact RC.find_map_other h h' n hne as

theorem RC.get_eq (rc : RC) (h : Nat) : rc.get h = ((rc.find? (fun p => p.1 == h)).map (·.2)).getD 0 := by
  unfold RC.get; cases rc.find? (fun p => p.1 == h) <;> rfl

theorem RC.get_set_same (rc : RC) (h n : Nat) : (rc.set h n).get h = n := by
  rw [RC.get_eq]
  by_cases hany : rc.any (fun p => p.1 == h) = true
  · simp only [RC.set, hany, ↓reduceIte]
    rw [RC.find_map_same h n rc hany]; rfl
  · simp only [RC.set, hany, Bool.false_eq_true, ↓reduceIte]
    have hnone : rc.find? (fun p => p.1 == h) = none := by
      rw [List.find?_eq_none]
      intro p hp
      simp only [Bool.not_eq_true, List.any_eq_false] at hany
      simpa using hany p hp
    simp [List.find?_append, hnone]

theorem RC.get_set_other (rc : RC) (h h' n : Nat) (hne : h' ≠ h) : (rc.set h n).get h' = rc.get h' := by
  rw [RC.get_eq, RC.get_eq]
  by_cases hany : rc.any (fun p => p.1 == h) = true
  · simp only [RC.set, hany, ↓reduceIte]
    rw [RC.find_map_other h h' n hne rc]
  · simp only [RC.set, hany, Bool.false_eq_true, ↓reduceIte]
    have h1 : (h == h') = false := by simpa using fun e => hne e.symm
    simp only [List.find?_append, List.find?_cons, h1, List.find?_nil, Option.or_none]

/-- a recovery-count map respects every handler's budget -/
def RcOk (cfg : Cfg) (rc : RC) : Prop := ∀ h m, lookup cfg.handlers h = some m → rc.get h ≤ m

theorem rcOk_nil (cfg : Cfg) : RcOk cfg [] := by intro h m _; simp [RC.get]

theorem RcOk.set {cfg : Cfg} {rc : RC} (hok : RcOk cfg rc) (h n m : Nat) (hm : lookup cfg.handlers h = some m)
    (hn : n ≤ m) : RcOk cfg (rc.set h n) := by
  intro h' m' hm'
  by_cases he : h' = h
  · subst he
    rw [RC.get_set_same]
    rw [hm] at hm'; injection hm' with hm'; omega
  · rw [RC.get_set_other _ _ _ _ he]; exact hok h' m' hm'

/-- the recovery counts a list of waiters keeps for the invocations suspended in them -/
def WaitersRc (cfg : Cfg) (ws : List Waiter) : Prop := ∀ w ∈ ws, RcOk cfg w.rc

def RcSS (cfg : Cfg) (ss : StepState) : Prop :=
  (∀ a ∈ ss.queue, RcOk cfg a.rc) ∧ (∀ ip ∈ ss.inProg, RcOk cfg ip.rc) ∧ WaitersRc cfg ss.waiters

def RcInv (cfg : Cfg) (st : State) : Prop := ∀ s, RcSS cfg (st.workers s)

theorem rcInv_init (cfg : Cfg) : RcInv cfg initState := by
  intro s; simp [RcSS, WaitersRc, initState]

theorem addOrEnqueue_rcSS (cfg : Cfg) (att : Attempt) (step : Nat) (ss : StepState) (nw : Nat) (now : Int)
    (h : RcSS cfg ss) (ha : RcOk cfg att.rc) : RcSS cfg (addOrEnqueue att step ss nw now).1 := by
  unfold addOrEnqueue
  split
  · split
    · refine ⟨h.1, ?_, h.2.2⟩
      intro ip hip
      simp only [List.mem_append, List.mem_singleton] at hip
      rcases hip with hip | hip
      · exact h.2.1 ip hip
      · subst hip; exact ha
    · exact h
  · refine ⟨?_, h.2⟩
    intro a hmem
    simp only [List.mem_append, List.mem_singleton] at hmem
    rcases hmem with hmem | hmem
    · exact h.1 a hmem
    · subst hmem; exact ha

theorem drain_rcSS (cfg : Cfg) (step nw : Nat) (now : Int) :
    ∀ (fuel : Nat) (ss : StepState), RcSS cfg ss → RcSS cfg (drain step nw now fuel ss).1
  | 0, ss, h => by simpa [drain] using h
  | fuel + 1, ss, h => by
    unfold drain
    split
    · exact h
    · rename_i a q hq
      split
      · apply drain_rcSS cfg step nw now fuel
        apply addOrEnqueue_rcSS
        · exact ⟨fun x hx => h.1 x (by rw [hq]; simp [hx]), h.2⟩
        · exact h.1 a (by rw [hq]; simp)
      · exact h

theorem waitersRc_append {cfg : Cfg} {a b : List Waiter} (ha : WaitersRc cfg a) (hb : WaitersRc cfg b) :
    WaitersRc cfg (a ++ b) := by
  intro w hw
  rcases List.mem_append.mp hw with hw | hw
  · exact ha w hw
  · exact hb w hw

theorem waitersRc_cons {cfg : Cfg} {w : Waiter} {l : List Waiter} (hw : RcOk cfg w.rc) (hl : WaitersRc cfg l) :
    WaitersRc cfg (w :: l) := by
  intro x hx
  rcases List.mem_cons.mp hx with hx | hx
  · subst hx; exact hw
  · exact hl x hx

theorem waitersRc_modifyFirst {cfg : Cfg} (p : Waiter → Bool) (f : Waiter → Waiter)
    (hf : ∀ w, RcOk cfg w.rc → RcOk cfg (f w).rc) :
    ∀ (l : List Waiter), WaitersRc cfg l → WaitersRc cfg (modifyFirst p f l)
  | [], h => by simpa [modifyFirst] using h
  | a :: as, h => by
    simp only [modifyFirst]
    split
    · exact waitersRc_cons (hf a (h a (by simp))) (fun x hx => h x (by simp [hx]))
    · exact waitersRc_cons (h a (by simp))
        (waitersRc_modifyFirst p f hf as (fun x hx => h x (by simp [hx])))

/-- the replay of a waiter whose stored counts are admissible is admissible, and once the
replay is queued or started the step's waiters are the scanned ones -/
theorem resolveLoop_rcSS (cfg : Cfg) (ev : Ev) (step nw : Nat) (now : Int) :
    ∀ (rest done : List Waiter) (ss : StepState) (cmds : List Cmd) (hd : Bool),
      (∀ a ∈ ss.queue, RcOk cfg a.rc) → (∀ ip ∈ ss.inProg, RcOk cfg ip.rc) →
      WaitersRc cfg done → WaitersRc cfg rest →
      RcSS cfg (resolveLoop ev step nw now done rest ss cmds hd).1
  | [], done, ss, cmds, hd, hq, hi, hdn, _ => by simp only [resolveLoop]; exact ⟨hq, hi, hdn⟩
  | w :: rest, done, ss, cmds, hd, hq, hi, hdn, hr => by
    have hw : RcOk cfg w.rc := hr w (by simp)
    have hrest : WaitersRc cfg rest := fun x hx => hr x (by simp [hx])
    unfold resolveLoop
    split
    · have hall : WaitersRc cfg (done ++ { w with resolved := some ev } :: rest) :=
        waitersRc_append hdn (waitersRc_cons hw hrest)
      have h1 := addOrEnqueue_rcSS cfg w.replay step
        { ss with waiters := done ++ { w with resolved := some ev } :: rest } nw now ⟨hq, hi, hall⟩ hw
      exact resolveLoop_rcSS cfg ev step nw now rest _ _ _ _ h1.1 h1.2.1
        (waitersRc_append hdn (waitersRc_cons hw (fun _ h => by simp at h))) hrest
    · exact resolveLoop_rcSS cfg ev step nw now rest _ ss cmds hd hq hi
        (waitersRc_append hdn (waitersRc_cons hw (fun _ h => by simp at h))) hrest

theorem RcInv.set {cfg : Cfg} {st : State} (h : RcInv cfg st) (s : Nat) {ss : StepState} (hs : RcSS cfg ss) :
    RcInv cfg (st.set s ss) := by
  intro t
  simp only [State.set]
  split
  · exact hs
  · exact h t

theorem addEventWaiters_rcInv (cfg : Cfg) (ev : Ev) (target : Option Nat) (now : Int) :
    ∀ (cs : List StepCfg) (acc : AddAcc), RcInv cfg acc.st →
      RcInv cfg (addEventWaiters cfg ev target now cs acc).st
  | [], acc, h => by simp only [addEventWaiters]; exact h
  | c :: cs, acc, h => by
    unfold addEventWaiters
    split
    · exact addEventWaiters_rcInv cfg ev target now cs acc h
    · apply addEventWaiters_rcInv cfg ev target now cs
      split
      · exact RcInv.set h _ (resolveLoop_rcSS cfg _ _ _ _ _ _ _ _ _ (h c.name).1 (h c.name).2.1
          (fun _ hx => by simp at hx) (h c.name).2.2)
      · exact h

theorem addEventRoute_rcInv (cfg : Cfg) (att : Attempt) (target : Option Nat) (now : Int)
    (ha : RcOk cfg att.rc) :
    ∀ (cs : List StepCfg) (acc : AddAcc), RcInv cfg acc.st →
      RcInv cfg (addEventRoute att target now cs acc).st
  | [], acc, h => by simp only [addEventRoute]; exact h
  | c :: cs, acc, h => by
    unfold addEventRoute
    split
    · exact addEventRoute_rcInv cfg att target now ha cs acc h
    · split
      · apply addEventRoute_rcInv cfg att target now ha cs
        exact RcInv.set h _ (addOrEnqueue_rcSS cfg _ _ _ _ _ (h c.name) ha)
      · exact addEventRoute_rcInv cfg att target now ha cs acc h

theorem applyRes_rc (cfg : Cfg) (pol : Policy) (step : Nat) (tickEv : Ev) (dc : Bool) (acc : ResAcc) (r : Res) :
    (∀ s, ((applyRes cfg pol step tickEv dc acc r).st.workers s).queue = (acc.st.workers s).queue ∧
          ((applyRes cfg pol step tickEv dc acc r).st.workers s).inProg = (acc.st.workers s).inProg) ∧
      (applyRes cfg pol step tickEv dc acc r).exec.rc = acc.exec.rc := by
  cases r with
  | result r =>
    cases r with
    | none => simp [applyRes]
    | some ev => simp only [applyRes]; split <;> simp [clearAll]
  | failed exc failedAt =>
    simp only [applyRes]
    split
    · exact ⟨fun s => ⟨rfl, rfl⟩, rfl⟩
    split
    · simp
    all_goals
      split
      · split <;> simp
      · simp
  | addCollected buf ev =>
    simp only [applyRes]
    split
    · exact ⟨fun s => ⟨rfl, rfl⟩, rfl⟩
    split <;> (refine ⟨?_, rfl⟩; intro s; simp only [State.set]; split <;> (try rename_i h; subst h) <;> exact ⟨rfl, rfl⟩)
  | deleteCollected buf =>
    simp only [applyRes]
    split
    · refine ⟨?_, rfl⟩; intro s; simp only [State.set]; split <;> (try rename_i h; subst h) <;> exact ⟨rfl, rfl⟩
    · simp
  | addWaiter wid waiterEv req timeout ty =>
    simp only [applyRes]
    split <;> (refine ⟨?_, rfl⟩; intro s; simp only [State.set]; split <;> (try rename_i h; subst h) <;> exact ⟨rfl, rfl⟩)
  | deleteWaiter wid =>
    simp only [applyRes]
    split
    · refine ⟨?_, rfl⟩; intro s; simp only [State.set]; split <;> (try rename_i h; subst h) <;> exact ⟨rfl, rfl⟩
    · simp

/-- the waiters of every step keep admissible counts across one result: a new waiter stores the
counts of the execution that adds it -/
theorem applyRes_waitersRc (cfg : Cfg) (pol : Policy) (step : Nat) (tickEv : Ev) (dc : Bool) (acc : ResAcc) (r : Res)
    (hex : RcOk cfg acc.exec.rc) (h : ∀ s, WaitersRc cfg (acc.st.workers s).waiters) :
    ∀ s, WaitersRc cfg ((applyRes cfg pol step tickEv dc acc r).st.workers s).waiters := by
  have hset : ∀ (ss : StepState), WaitersRc cfg ss.waiters → ∀ s, WaitersRc cfg ((acc.st.set step ss).workers s).waiters := by
    intro ss hss s
    simp only [State.set]
    split
    · exact hss
    · exact h s
  cases r with
  | result r =>
    cases r with
    | none => simpa [applyRes] using h
    | some ev =>
      simp only [applyRes]
      split
      · intro s w hw; simp [clearAll] at hw
      · exact h
  | failed exc failedAt =>
    simp only [applyRes]
    split
    · exact h
    split
    · exact h
    all_goals
      split
      · split
        · exact h
        · exact h
      · exact h
  | addCollected buf ev =>
    simp only [applyRes]
    split
    · exact h
    split
    · exact hset _ (h step)
    · exact hset _ (h step)
  | deleteCollected buf =>
    simp only [applyRes]
    split
    · exact hset _ (h step)
    · exact h
  | addWaiter wid waiterEv req timeout ty =>
    simp only [applyRes]
    have hnew : RcOk cfg (newWaiter acc.exec wid ty req).rc := hex
    split
    · exact hset _ (waitersRc_modifyFirst _ _ (fun _ _ => hnew) _ (h step))
    · exact hset _ (waitersRc_append (h step) (waitersRc_cons hnew (fun _ hx => by simp at hx)))
  | deleteWaiter wid =>
    simp only [applyRes]
    split
    · exact hset _ (fun w hw => h step w (List.mem_of_mem_eraseP hw))
    · exact h

/-- commands that carry recovery counts carry admissible ones -/
def cmdRcOk (cfg : Cfg) : Cmd → Prop
  | .queueEvent att _ _ => RcOk cfg att.rc
  | _ => True

theorem applyRes_cmds_rc (cfg : Cfg) (pol : Policy) (step : Nat) (tickEv : Ev) (dc : Bool) (acc : ResAcc)
    (r : Res) (hex : RcOk cfg acc.exec.rc) (h : ∀ c ∈ acc.cmds, cmdRcOk cfg c) :
    ∀ c ∈ (applyRes cfg pol step tickEv dc acc r).cmds, cmdRcOk cfg c := by
  have app : ∀ (l : List Cmd), (∀ c ∈ l, cmdRcOk cfg c) → ∀ c ∈ acc.cmds ++ l, cmdRcOk cfg c := by
    intro l hl c hc
    rcases List.mem_append.mp hc with hc | hc
    · exact h c hc
    · exact hl c hc
  cases r with
  | result r =>
    cases r with
    | none => simpa [applyRes] using h
    | some ev =>
      simp only [applyRes]
      split
      · apply app; intro c hc
        simp only [List.mem_cons, List.mem_nil_iff, or_false] at hc
        rcases hc with hc | hc <;> subst hc <;> trivial
      · simp only [List.append_assoc]
        apply app; intro c hc
        simp only [List.mem_append, List.mem_singleton] at hc
        rcases hc with hc | hc
        · split at hc
          · simp only [List.mem_singleton] at hc; subst hc; trivial
          · simp at hc
        · subst hc; exact hex
  | failed exc failedAt =>
    simp only [applyRes]
    split
    · exact h
    split
    · apply app; intro c hc; simp only [List.mem_singleton] at hc; subst hc; exact hex
    all_goals
      split
      · rename_i hd maxRec hhandler
        split
        · rename_i hle
          apply app; intro c hc; simp only [List.mem_singleton] at hc; subst hc
          -- the handler's budget comes from cfg.handlers
          have hm : lookup cfg.handlers hd = some maxRec := by
            unfold handlerOwner at hhandler
            cases h1 : lookup cfg.handlerFor step with
            | none => simp [h1] at hhandler
            | some h' =>
              cases h2 : lookup cfg.handlers h' with
              | none => simp [h1, h2] at hhandler
              | some m' =>
                simp only [h1, h2, Option.some.injEq, Prod.mk.injEq] at hhandler
                obtain ⟨rfl, rfl⟩ := hhandler
                exact h2
          exact RcOk.set hex hd _ maxRec hm hle
        · apply app; intro c hc
          simp only [List.mem_cons, List.mem_nil_iff, or_false] at hc
          rcases hc with hc | hc <;> subst hc <;> trivial
      · apply app; intro c hc
        simp only [List.mem_cons, List.mem_nil_iff, or_false] at hc
        rcases hc with hc | hc <;> subst hc <;> trivial
  | addCollected buf ev =>
    simp only [applyRes]
    split
    · exact h
    split
    · apply app; intro c hc; simp only [List.mem_singleton] at hc; subst hc; trivial
    · exact h
  | deleteCollected buf => simp only [applyRes]; split <;> exact h
  | addWaiter wid waiterEv req timeout ty =>
    simp only [applyRes]
    split
    · exact h
    · simp only [List.append_assoc]
      apply app; intro c hc
      simp only [List.mem_append] at hc
      rcases hc with hc | hc
      · cases waiterEv with
        | none => simp at hc
        | some e => simp only [List.mem_singleton] at hc; subst hc; trivial
      · cases timeout with
        | none => simp at hc
        | some t => simp only [List.mem_singleton] at hc; subst hc; trivial
  | deleteWaiter wid => simp only [applyRes]; split <;> exact h

theorem foldl_applyRes_rc (cfg : Cfg) (pol : Policy) (step : Nat) (tickEv : Ev) (dc : Bool) :
    ∀ (res : List Res) (acc : ResAcc), RcOk cfg acc.exec.rc → (∀ c ∈ acc.cmds, cmdRcOk cfg c) →
      (∀ s, ((res.foldl (applyRes cfg pol step tickEv dc) acc).st.workers s).queue = (acc.st.workers s).queue ∧
            ((res.foldl (applyRes cfg pol step tickEv dc) acc).st.workers s).inProg = (acc.st.workers s).inProg) ∧
      (∀ c ∈ (res.foldl (applyRes cfg pol step tickEv dc) acc).cmds, cmdRcOk cfg c)
  | [], acc, _, h => by simpa using h
  | r :: rs, acc, hex, h => by
    simp only [List.foldl_cons]
    have h1 := applyRes_rc cfg pol step tickEv dc acc r
    have h2 := foldl_applyRes_rc cfg pol step tickEv dc rs (applyRes cfg pol step tickEv dc acc r)
      (by rw [h1.2]; exact hex) (applyRes_cmds_rc cfg pol step tickEv dc acc r hex h)
    exact ⟨fun s => ⟨(h2.1 s).1.trans (h1.1 s).1, (h2.1 s).2.trans (h1.1 s).2⟩, h2.2⟩

theorem foldl_applyRes_waitersRc (cfg : Cfg) (pol : Policy) (step : Nat) (tickEv : Ev) (dc : Bool) :
    ∀ (res : List Res) (acc : ResAcc), RcOk cfg acc.exec.rc → (∀ s, WaitersRc cfg (acc.st.workers s).waiters) →
      ∀ s, WaitersRc cfg ((res.foldl (applyRes cfg pol step tickEv dc) acc).st.workers s).waiters
  | [], acc, _, h => by simpa using h
  | r :: rs, acc, hex, h => by
    simp only [List.foldl_cons]
    exact foldl_applyRes_waitersRc cfg pol step tickEv dc rs (applyRes cfg pol step tickEv dc acc r)
      (by rw [(applyRes_rc cfg pol step tickEv dc acc r).2]; exact hex)
      (applyRes_waitersRc cfg pol step tickEv dc acc r hex h)

end Engine

namespace Engine

theorem addOrEnqueue_cmds_rc (cfg : Cfg) (att : Attempt) (step : Nat) (ss : StepState) (nw : Nat) (now : Int) :
    ∀ c ∈ (addOrEnqueue att step ss nw now).2, cmdRcOk cfg c := by
  unfold addOrEnqueue
  split
  · split
    · intro c hc
      simp only [List.mem_cons, List.mem_nil_iff, or_false] at hc
      rcases hc with hc | hc <;> subst hc <;> trivial
    · intro c hc; simp only [List.mem_singleton] at hc; subst hc; trivial
  · intro c hc; simp only [List.mem_singleton] at hc; subst hc; trivial

theorem drain_cmds_rc (cfg : Cfg) (step nw : Nat) (now : Int) :
    ∀ (fuel : Nat) (ss : StepState), ∀ c ∈ (drain step nw now fuel ss).2, cmdRcOk cfg c
  | 0, ss => by simp [drain]
  | fuel + 1, ss => by
    unfold drain
    split
    · simp
    · split
      · intro c hc
        rcases List.mem_append.mp hc with hc | hc
        · exact addOrEnqueue_cmds_rc cfg _ _ _ _ _ c hc
        · exact drain_cmds_rc cfg step nw now fuel _ c hc
      · simp

theorem resolveLoop_cmds_rc (cfg : Cfg) (ev : Ev) (step nw : Nat) (now : Int) :
    ∀ (rest done : List Waiter) (ss : StepState) (cmds : List Cmd) (hd : Bool),
      (∀ c ∈ cmds, cmdRcOk cfg c) →
      ∀ c ∈ (resolveLoop ev step nw now done rest ss cmds hd).2.1, cmdRcOk cfg c
  | [], done, ss, cmds, hd, h => by simpa [resolveLoop] using h
  | w :: rest, done, ss, cmds, hd, h => by
    unfold resolveLoop
    split
    · apply resolveLoop_cmds_rc
      intro c hc
      rcases List.mem_append.mp hc with hc | hc
      · exact h c hc
      · exact addOrEnqueue_cmds_rc cfg _ _ _ _ _ c hc
    · exact resolveLoop_cmds_rc cfg ev step nw now rest _ ss cmds hd h

theorem addEventWaiters_cmds_rc (cfg : Cfg) (ev : Ev) (target : Option Nat) (now : Int) :
    ∀ (cs : List StepCfg) (acc : AddAcc), (∀ c ∈ acc.cmds, cmdRcOk cfg c) →
      ∀ c ∈ (addEventWaiters cfg ev target now cs acc).cmds, cmdRcOk cfg c
  | [], acc, h => by simpa [addEventWaiters] using h
  | c :: cs, acc, h => by
    unfold addEventWaiters
    split
    · exact addEventWaiters_cmds_rc cfg ev target now cs acc h
    · apply addEventWaiters_cmds_rc cfg ev target now cs
      split
      · intro x hx
        rcases List.mem_append.mp hx with hx | hx
        · exact h x hx
        · exact resolveLoop_cmds_rc cfg ev c.name c.numWorkers now _ [] _ [] false (by simp) x hx
      · exact h

theorem addEventRoute_cmds_rc (cfg : Cfg) (att : Attempt) (target : Option Nat) (now : Int) :
    ∀ (cs : List StepCfg) (acc : AddAcc), (∀ c ∈ acc.cmds, cmdRcOk cfg c) →
      ∀ c ∈ (addEventRoute att target now cs acc).cmds, cmdRcOk cfg c
  | [], acc, h => by simpa [addEventRoute] using h
  | c :: cs, acc, h => by
    unfold addEventRoute
    split
    · exact addEventRoute_cmds_rc cfg att target now cs acc h
    · split
      · apply addEventRoute_cmds_rc cfg att target now cs
        intro x hx
        rcases List.mem_append.mp hx with hx | hx
        · exact h x hx
        · exact addOrEnqueue_cmds_rc cfg _ _ _ _ _ x hx
      · exact addEventRoute_cmds_rc cfg att target now cs acc h

/-- ticks that bring recovery counts into the engine bring admissible ones -/
def tickRcOk (cfg : Cfg) : Tick → Prop
  | .addEvent att _ => RcOk cfg att.rc
  | _ => True

/-- **recovery budgets, one tick**: state and emitted commands stay within every handler's budget -/
theorem reduce_rc (cfg : Cfg) (pol : Policy) (tick : Tick) (st : State) (now : Int)
    (h : RcInv cfg st) (ht : tickRcOk cfg tick) :
    RcInv cfg (reduce cfg pol tick st now).1 ∧ ∀ c ∈ (reduce cfg pol tick st now).2, cmdRcOk cfg c := by
  have wrap : ∀ (r : State × List Cmd), (RcInv cfg r.1 ∧ ∀ c ∈ r.2, cmdRcOk cfg c) →
      RcInv cfg (if checkIdle cfg r.1 then (r.1, r.2 ++ [Cmd.scheduleIdleCheck]) else r).1 ∧
      ∀ c ∈ (if checkIdle cfg r.1 then (r.1, r.2 ++ [Cmd.scheduleIdleCheck]) else r).2, cmdRcOk cfg c := by
    intro r ⟨h1, h2⟩
    split
    · refine ⟨h1, ?_⟩
      intro c hc
      rcases List.mem_append.mp hc with hc | hc
      · exact h2 c hc
      · simp only [List.mem_singleton] at hc; subst hc; trivial
    · exact ⟨h1, h2⟩
  unfold reduce
  cases tick with
  | stepResult step worker ev res =>
    simp only
    apply wrap
    unfold processStepResult
    split
    · exact ⟨h, by intro c hc; simp only [List.mem_singleton] at hc; subst hc; trivial⟩
    · split
      · exact ⟨h, by intro c hc; simp only [List.mem_singleton] at hc; subst hc; trivial⟩
      · rename_i exec hfind
        have hexec : RcOk cfg exec.rc := (h step).2.1 exec (List.mem_of_find?_eq_some hfind)
        have hws := foldl_applyRes_waitersRc cfg pol step ev (res.any isResult) res
          { st := st, exec := exec } hexec (fun s => (h s).2.2)
        obtain ⟨hst, hcmds⟩ := foldl_applyRes_rc cfg pol step ev (res.any isResult) res
          { st := st, exec := exec } hexec (by simp)
        have hexec' := (foldl_applyRes_inProg cfg pol step ev (res.any isResult) res { st := st, exec := exec })
        have hrc' : (res.foldl (applyRes cfg pol step ev (res.any isResult)) { st := st, exec := exec }).exec.rc = exec.rc := by
          have : ∀ (rs : List Res) (a : ResAcc), (rs.foldl (applyRes cfg pol step ev (res.any isResult)) a).exec.rc = a.exec.rc := by
            intro rs
            induction rs with
            | nil => intro a; rfl
            | cons r rs ih => intro a; simp only [List.foldl_cons]; rw [ih, (applyRes_rc cfg pol step ev _ a r).2]
          exact this res _
        simp only
        generalize (res.foldl (applyRes cfg pol step ev (res.any isResult)) { st := st, exec := exec }) = acc at hst hcmds hrc' hws
        have hinv1 : RcInv cfg acc.st := by
          intro s
          refine ⟨?_, ?_, hws s⟩
          · rw [(hst s).1]; exact (h s).1
          · rw [(hst s).2]; exact (h s).2.1
        have hsettle : RcSS cfg (settle acc step worker ev).1 ∧ ∀ c ∈ (settle acc step worker ev).2, cmdRcOk cfg c := by
          unfold settle
          simp only
          split
          · refine ⟨⟨(hinv1 step).1, ?_, (hinv1 step).2.2⟩, hcmds⟩
            intro ip hip
            -- entries are the old ones, or the rewritten execution (same rc)
            have : ∀ (l : List InProg), (∀ x ∈ l, RcOk cfg x.rc) →
                ∀ x ∈ modifyFirst (fun w => w.wid == worker) (fun _ => acc.exec) l, RcOk cfg x.rc := by
              intro l
              induction l with
              | nil => intro _ x hx; simp [modifyFirst] at hx
              | cons a as ih =>
                intro hl x hx
                simp only [modifyFirst] at hx
                split at hx
                · rcases List.mem_cons.mp hx with hx | hx
                  · subst hx; rw [hrc']; exact hexec
                  · exact hl x (by simp [hx])
                · rcases List.mem_cons.mp hx with hx | hx
                  · subst hx; exact hl x (by simp)
                  · exact ih (fun y hy => hl y (by simp [hy])) x hx
            exact this _ (hinv1 step).2.1 ip hip
          · refine ⟨⟨(hinv1 step).1, fun ip hip => (hinv1 step).2.1 ip (List.mem_of_mem_eraseP hip), (hinv1 step).2.2⟩, ?_⟩
            intro c hc
            rcases List.mem_cons.mp hc with hc | hc
            · subst hc; trivial
            · exact hcmds c hc
        split
        · exact ⟨RcInv.set hinv1 _ hsettle.1, hsettle.2⟩
        · refine ⟨RcInv.set hinv1 _ (drain_rcSS cfg _ _ _ _ _ hsettle.1), ?_⟩
          intro c hc
          rcases List.mem_append.mp hc with hc | hc
          · exact hsettle.2 c hc
          · exact drain_cmds_rc cfg _ _ _ _ _ c hc
  | addEvent att target =>
    simp only
    apply wrap
    have h0 : RcInv cfg (addEventStart att st) := by unfold addEventStart; split <;> exact h
    refine ⟨?_, ?_⟩
    · rw [processAddEvent_fst]
      exact addEventRoute_rcInv cfg att target now ht cfg.steps _
        (addEventWaiters_rcInv cfg att.ev target now cfg.steps _ h0)
    · unfold processAddEvent
      intro c hc
      rcases List.mem_append.mp hc with hc | hc
      · exact addEventRoute_cmds_rc cfg att target now cfg.steps _
          (addEventWaiters_cmds_rc cfg att.ev target now cfg.steps { st := addEventStart att st } (by simp)) c hc
      · unfold unhandledCmds at hc
        split at hc
        · simp at hc
        · split at hc
          · simp at hc
          · simp only [List.mem_singleton] at hc; subst hc; trivial
  | cancelRun =>
    simp only
    apply wrap (st, _)
    exact ⟨h, by intro c hc; simp only [List.mem_cons, List.mem_nil_iff, or_false] at hc; rcases hc with hc | hc <;> subst hc <;> trivial⟩
  | idleRelease =>
    exact ⟨h, by intro c hc; simp only [List.mem_singleton] at hc; subst hc; trivial⟩
  | publish ev =>
    simp only
    apply wrap (st, _)
    exact ⟨h, by intro c hc; simp only [List.mem_singleton] at hc; subst hc; trivial⟩
  | timeout t =>
    simp only
    apply wrap ({ st with isRunning := false }, _)
    exact ⟨h, by intro c hc; simp only [List.mem_cons, List.mem_nil_iff, or_false] at hc; rcases hc with hc | hc <;> subst hc <;> trivial⟩
  | waiterTimeout step waiter =>
    simp only
    apply wrap
    unfold processWaiterTimeout
    split
    · exact ⟨h, by simp⟩
    · dsimp only
      split
      · exact ⟨h, by simp⟩
      · rename_i w hfindw
        have hw : RcOk cfg w.rc := (h step).2.2 w (List.mem_of_find?_eq_some hfindw)
        split
        · exact ⟨h, by simp⟩
        · refine ⟨RcInv.set h _ (addOrEnqueue_rcSS cfg _ _ _ _ _ ?_ hw), addOrEnqueue_cmds_rc cfg _ _ _ _ _⟩
          exact ⟨(h step).1, (h step).2.1,
            waitersRc_modifyFirst _ (fun x => { x with timedOut := true }) (fun _ hx => hx) _ (h step).2.2⟩
  | idleCheck =>
    simp only
    split
    · exact ⟨h, by intro c hc; simp only [List.mem_singleton] at hc; subst hc; trivial⟩
    · exact ⟨h, by simp⟩

end Engine
