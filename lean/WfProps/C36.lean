import WfProofs.LifecycleSafe
import WfModel.GenLifecycleShape
import WfProofs.LifecycleCover
import WfProofs.LifecycleRow
import WfProofs.LifecycleReplay
import WfProofs.LifecycleIdle
import WfProofs.DbosTimer
import WfProofs.LifecycleCalm
import WfModel.GenDbosTimer
/-!
# C36 — idle runs are released after the idle timeout and reloaded on demand

Same model as C26 (M7, `WfModel/Lifecycle.lean`).  In-process stack: release after the timeout
(`C36_release_after_timeout`: never before `idle_timeout` has elapsed since the `idle_since` value the
decision was taken on — which, with no announcement inside the query→decide window, is the *last*
announcement — and a release task that will act on the current `idle_since` is always pending, and
running it releases: loop aborted, run out of the active set, handler still marked idle), reload by the
next send (`C36_reload_on_send`: exactly one new loop, started from all persisted ticks, `idle_since`
cleared, the tick delivered to it; `C36_reload_state_is_replay` ties "from all persisted ticks" to the
engine's replay theorem C11), lock discipline (`C36_no_release_while_sending`).

DBOS stack: the release protocol is proved over the lifecycle row *if the row exists*
(`C36_dbos_release_resume_partial`) — but no production code path ever inserts it
(`GenLifecycleShape.createCallSites = []`), so `begin_release` never wins and a DBOS run is never released
(`C36_refuted_dbos_never_released`).
-/
set_option linter.unusedVariables false
set_option linter.unusedSimpArgs false
open Lifecycle

/-- `_release_idle_handler` as the model reads it: one lock section; handler query; return unless
`idle_since` is set; `elapsed < idle_timeout` → return; return unless active; then `discard` + abort.
`_deferred_release` sleeps `idle_timeout` first.  Default timeout 60 s. -/
theorem C36_source_shape :
    GenLifecycleShape.shape_ir_release =
      ["with(self._reload_lock)", "await(self._store.query)", "if(Is,NotEq,Or;idle_since,None)", "return", "endif",
       "call(?.total_seconds)", "call(datetime.now)", "if(Lt;_idle_timeout)", "return", "endif",
       "if(NotIn;_active_run_ids)", "return", "endif", "call(self._abort_inner_run)", "call(self._active_run_ids.discard)",
       "endwith"] ∧
    GenLifecycleShape.shape_ir_deferred = ["await(asyncio.sleep)", "await(self._release_idle_handler)"] ∧
    GenLifecycle.elapsedCmp = "Lt" ∧ (∀ a b, GenLifecycle.elapsedTooShort a b = decide (a < b)) ∧
    GenLifecycleShape.idleDefaultMs = 60000 ∧ GenLifecycleShape.dbosIdleDefaultMs = 60000 ∧
    GenLifecycleShape.shape_dbos_deferred =
      ["await(asyncio.sleep)", "call(self._deferred_release_tasks.pop)", "await(self._release_idle_handler)"] ∧
    GenLifecycleShape.shape_dbos_write =
      ["call(super)", "await(super().write_to_event_stream)", "if(;WorkflowIdleEvent)",
       "call(self._runtime._schedule_deferred_release)", "endif"] ∧
    GenLifecycleShape.shape_dbos_wait_receive =
      ["call(super)", "await(super().wait_receive)", "if(;WaitResultTick)", "call(self._runtime._cancel_deferred_release)",
       "endif", "return"] := by
  refine ⟨by decide, by decide, by decide, fun _ _ => rfl, by decide, by decide, by decide, by decide, by decide⟩

theorem Lifecycle.step_tau (s s' : S) (a : Act) (h : step s a = some s') : s'.tau = s.tau := by
  cases a
  all_goals destruct_step h
  all_goals (first | rfl | simp)

theorem Lifecycle.run_tau (s : S) (acts : List Act) : (run s acts).tau = s.tau := by
  induction acts generalizing s with
  | nil => rfl
  | cons a as ih =>
    show (run (stepD s a) as).tau = s.tau
    rw [ih]
    rcases stepD_eq s a with e | e
    · rw [e]
    · exact step_tau _ _ _ e

theorem Lifecycle.cover_fires (s : S) (hinv : Lifecycle.Inv s) (hcov : CoverInv s) (t : Nat) (l : Loop)
    (hi : s.idleSince = some t) (hc : s.cur = some l) (hm : l.marking = false) (hl : s.lock = none) :
    ∃ j due, s.timers j = .sleeping due ∧ t + s.tau ≤ due ∧
      (let s' := run s [.advance (due - s.now), .tAcq j, .tQuery j, .tDecide j]
       s'.cur = none ∧ s'.active = false ∧ s'.idleSince = some t ∧ s'.aborted = s.aborted + 1 ∧
         s'.releases = s.releases ++ [(s.now + (due - s.now), t)]) := by
  have hact : s.active = true := by have := hinv.act; rw [hc] at this; simpa using this
  rcases hcov.cov t hi (by simp [hc]) with c | ⟨j, due, c1, c2⟩ | ⟨j, c1, _⟩ | ⟨j, c1, _⟩ | ⟨i, c⟩
  · simp [S.marking, hc, hm] at c
  · refine ⟨j, due, c1, c2, ?_⟩
    have hle : due ≤ s.now + (due - s.now) := by omega
    have hnot : ¬ (s.now + (due - s.now) - t < s.tau) := by omega
    simp [run, stepD, step, c1, hl, hle, hi, upd_apply, GenLifecycle.elapsedTooShort, hnot, hact, hc]
  · rw [hl] at c1; cases c1
  · rw [hl] at c1; cases c1
  · rw [hl] at c; cases c

/-- **release after the timeout.**  Along every schedule:
(a) every release was decided on an `idle_since` value that is at least `idle_timeout` old — and `idle_since`
    only ever holds the time of the latest idle announcement (or nothing);
(b) whenever the handler row says "idle since `t`", a loop is registered, the announcement is complete and the
    lock is free, some deferred-release task `j` sleeps until a time `due ≥ t + idle_timeout`; letting time pass
    until `due` and running `j` (with no send in between) releases the run: the loop is aborted and unregistered,
    the run leaves the active set, and the handler keeps `idle_since = t` (marked idle). -/
theorem C36_release_after_timeout (tau : Nat) (acts : List Act) :
    (∀ r ∈ (run (init tau) acts).releases, r.2 + tau ≤ r.1) ∧
    (∀ t, (run (init tau) acts).idleSince = some t → (run (init tau) acts).lastMark = some t ∧ t ≤ (run (init tau) acts).now) ∧
    (∀ t l, (run (init tau) acts).idleSince = some t → (run (init tau) acts).cur = some l → l.marking = false →
        (run (init tau) acts).lock = none →
      ∃ j due, (run (init tau) acts).timers j = .sleeping due ∧ t + tau ≤ due ∧
        (let s' := run (run (init tau) acts) [.advance (due - (run (init tau) acts).now), .tAcq j, .tQuery j, .tDecide j]
         s'.cur = none ∧ s'.active = false ∧ s'.idleSince = some t ∧ s'.aborted = (run (init tau) acts).aborted + 1 ∧
           s'.releases = (run (init tau) acts).releases ++
             [((run (init tau) acts).now + (due - (run (init tau) acts).now), t)])) := by
  have hinv := Inv.run (init tau) acts (Inv.init tau)
  have hcov := CoverInv.run acts (init tau) (CoverInv.init tau) (Inv.init tau)
  have htau : (run (init tau) acts).tau = tau := run_tau (init tau) acts
  generalize run (init tau) acts = s at hinv hcov htau
  refine ⟨?_, ?_, ?_⟩
  · intro r hr; have := (hinv.rel r hr).1; rw [htau] at this; exact this
  · intro t ht; have := hinv.idleLe t ht; exact ⟨this.2, this.1⟩
  · intro t l hi hc hm hl
    have := cover_fires s hinv hcov t l hi hc hm hl
    rw [htau] at this
    exact this

/-- (c) with truthful announcements that stay out of the query→decide window, no release ever happens less than
`idle_timeout` after the **last** idle announcement -/
theorem C36_never_released_early (tau : Nat) (acts : List Act)
    (hIdle : Along idleSoundAt (init tau) acts) (hWin : Along windowFreeAt (init tau) acts) :
    (run (init tau) acts).earlyReleases = 0 :=
  (Safe.run acts (init tau) (Safe.init tau) (Inv.init tau) hIdle hWin).early

/-- non-vacuity of (b), and the re-announcement case: idle at 0, a send at 50 clears `idle_since`, the run works
and announces idleness again at 120; the first release task (due 200) finds `elapsed = 80 < 200` and returns,
the second (due 320) releases at 320 -/
example :
    let s := run (init 200) [.eDone, .eMark, .eSpawn 0, .advance 50, .sCall 1, .sAcq 1, .sClear 1, .sDeliver 1,
      .ePull, .eReduce, .advance 70, .eDone, .eMark, .eSpawn 1, .advance 80, .tAcq 0, .tQuery 0, .tDecide 0,
      .advance 120, .tAcq 1, .tQuery 1, .tDecide 1]
    s.releases = [(320, 120)] ∧ s.earlyReleases = 0 ∧ s.cur = none ∧ s.idleSince = some 120 ∧ s.busyReleases = 0 := by decide

/-- without the window hypothesis the "since the last announcement" clause fails in the model: an announcement
between a release task's query and its decision makes the release early (model witness; needs a store
whose calls suspend and an engine that re-announces without a send, e.g. after a waiter timeout) -/
theorem C36_early_release_window_witness :
    (run (init 200) [.eDone, .eMark, .eSpawn 0, .advance 200, .tAcq 0, .tQuery 0, .eMark, .tDecide 0]).earlyReleases = 1 := by
  decide

/-- **reload on send.**  In every reachable state in which the run is released and the lock is free, a
`send_event` (sender `i`) running through its lock section reloads the run exactly once: one new control loop,
whose state is rebuilt from *all* persisted ticks, is registered; the run is active; `idle_since` is cleared; the
tick is in the new loop's mailbox; nothing is aborted, nothing fails, the lock is free again. -/
theorem C36_reload_on_send (tau : Nat) (acts : List Act) (i : Nat) :
    ∀ s, s = run (init tau) acts →
    s.cur = none → s.lock = none → s.senders i = .absent →
    let s' := run s [.sCall i, .sAcq i, .sQuery i, .sLog i, .sStart i, .sRClear i, .sDeliver i]
    s'.cur = some { inc := s.started, start := s.log, mailbox := [i] } ∧ s'.active = true ∧ s'.idleSince = none ∧
      s'.started = s.started + 1 ∧ s'.aborted = s.aborted ∧ s'.errs = 0 ∧ s'.lock = none ∧
      s'.senders i = .done ∧ s'.log = s.log ∧ s'.work = s.work := by
  intro s hs0 hc hl hs
  have hinv := Inv.run (init tau) acts (Inv.init tau)
  rw [← hs0] at hinv
  have hact : s.active = false := by have := hinv.act; rw [hc] at this; simpa using this
  have herr : s.errs = 0 := hinv.errs
  simp [run, stepD, step, hc, hl, hs, hact, herr, upd_apply]

/-- … and a sender that finds the run active does not reload: it clears `idle_since` and delivers to the
registered loop; the loop counters do not move (with `C26_single_loop`: one reload per release). -/
theorem C36_send_to_active_run (tau : Nat) (acts : List Act) (i : Nat) :
    ∀ s, s = run (init tau) acts →
    ∀ l, s.cur = some l → s.lock = none → s.senders i = .absent →
    let s' := run s [.sCall i, .sAcq i, .sClear i, .sDeliver i]
    s'.cur = some { l with mailbox := l.mailbox ++ [i] } ∧ s'.idleSince = none ∧ s'.started = s.started ∧
      s'.aborted = s.aborted ∧ s'.lock = none ∧ s'.senders i = .done := by
  intro s hs0 l hc hl hs
  have hinv := Inv.run (init tau) acts (Inv.init tau)
  rw [← hs0] at hinv
  have hact : s.active = true := by have := hinv.act; rw [hc] at this; simpa using this
  simp [run, stepD, step, hc, hl, hs, hact, upd_apply]

/-- non-vacuity of both (a released state is reachable; so is an idle active one) -/
example :
    let s := run (init 200) [.eDone, .eMark, .eSpawn 0, .advance 200, .tAcq 0, .tQuery 0, .tDecide 0]
    s.cur = none ∧ s.lock = none ∧ s.senders 7 = .absent ∧ s.idleSince = some 0 := by decide

/-- **"continues from where it stopped"**, tied to the engine model: for every run of the engine's runner LTS,
the state `context_from_ticks` rebuilds from the persisted tick log is the live reducer state (C11), and if that
state is quiescent (`_check_idle_state`) the reloaded loop's `rewind_in_progress` changes nothing and re-initiates
nothing — the reloaded run is in exactly the reducer state it was released in.  What a release drops is what is
*not* reducer state: mailbox, tick buffer, timer heap, running workers — empty when the release was sound
(`C26_released_only_when_quiet`). -/
theorem C36_reload_state_is_replay (cfg : Engine.Cfg) (pol : Engine.Policy) (st0 : Engine.State) (now : Int)
    (start : Option Engine.Ev) (timeout : Option Nat) (acts : List Engine.Act) (now' : Int) :
    ∀ r, r = Engine.Runner.run cfg pol (Engine.Runner.init cfg st0 now start timeout) acts →
    C11.replay cfg pol (Engine.rewind cfg st0 now).1 r.log = r.st ∧
    (Engine.checkIdle cfg r.st = true →
      Engine.rewind cfg (C11.replay cfg pol (Engine.rewind cfg st0 now).1 r.log) now' = (r.st, [])) := by
  intro r hr
  have h : r.st = C11.replay cfg pol (Engine.rewind cfg st0 now).1 r.log := by
    rw [hr]; exact C11_replay_invariant cfg pol st0 now start timeout acts
  refine ⟨h.symm, ?_⟩
  intro hq
  rw [← h]
  exact rewind_of_idle cfg _ now' hq

/-- **no release while sending** (lock discipline).  The reload lock holds the section's position, so at most one
task is inside a lock section (C25_mutex for the real `KeyedLock`; `C26_source_shape` / `C36_source_shape`: both
bodies are single `async with` sections).  Consequently, for every state and action:
a loop is aborted only by the `tDecide` of the release task that holds the lock; a loop is started only by the
`sStart` of the sender that holds the lock; no release task acquires the lock while anyone holds it. -/
theorem C36_no_release_while_sending (s : S) (a : Act) :
    ((stepD s a).aborted ≠ s.aborted → ∃ j seen, a = .tDecide j ∧ s.lock = some (.tDecide j seen)) ∧
    ((stepD s a).started ≠ s.started → ∃ i snap, a = .sStart i ∧ s.lock = some (.sStart i snap)) ∧
    (∀ j, s.lock ≠ none → step s (.tAcq j) = none) ∧
    (∀ i, s.lock ≠ none → step s (.sAcq i) = none) := by
  refine ⟨?_, ?_, ?_, ?_⟩
  · intro h
    rcases stepD_eq s a with e | e
    · rw [e] at h; exact absurd rfl h
    · generalize stepD s a = s' at h e
      cases a
      all_goals destruct_step e
      all_goals (try (exact absurd rfl h))
      all_goals (rename_i x j' hj seen t0 heq _ _; subst hj; exact ⟨_, _, rfl, heq⟩)
  · intro h
    rcases stepD_eq s a with e | e
    · rw [e] at h; exact absurd rfl h
    · generalize stepD s a = s' at h e
      cases a
      all_goals destruct_step e
      all_goals (try (exact absurd rfl h))
      all_goals (try (simp only [release_started] at h; exact absurd rfl h))
      all_goals (rename_i x i' snap heq hi _ _; subst hi; exact ⟨_, _, rfl, heq⟩)
  · intro j hl
    simp only [step]
    split
    · cases hk : s.lock with
      | none => exact absurd hk hl
      | some _ => simp
    · rfl
  · intro i hl
    simp only [step]
    cases hk : s.lock with
    | none => exact absurd hk hl
    | some _ => simp

/-! ## every history (in-process stack) -/

/-- **a released run is marked idle — in every reachable state**, not only right after the release step: whenever
no control loop of the run is in memory, the handler row carries `idle_since`, and it is the time of the last idle
announcement; the run is out of the active set.  (Nobody can clear `idle_since` of a released run without first
reloading it: both clears sit in lock sections that have seen, or made, the run active.) -/
theorem C36_released_run_marked_idle (tau : Nat) (acts : List Act) :
    let s := run (init tau) acts
    s.cur = none → ∃ t, s.idleSince = some t ∧ s.lastMark = some t ∧ t ≤ s.now ∧ s.active = false := by
  intro s hc
  have hinv : Inv s := Inv.run (init tau) acts (Inv.init tau)
  have hid : IdleInv s := IdleInv.run acts (init tau) (IdleInv.init tau) (Inv.init tau)
  have h1 := hid.relIdle hc
  cases hi : s.idleSince with
  | none => rw [hi] at h1; cases h1
  | some t =>
    have h2 := hinv.idleLe t hi
    refine ⟨t, rfl, h2.2, h2.1, ?_⟩
    have := hinv.act; rw [hc] at this; simpa using this

/-- non-vacuity, and the state is really kept while other things happen: released at 200, time passes, a second
(stale) release task runs through its section, a sender has called and waits for the lock — still marked idle -/
example :
    let s := run (init 200) [.eDone, .eMark, .eSpawn 0, .advance 200, .tAcq 0, .tQuery 0, .tDecide 0, .advance 500, .sCall 3]
    s.cur = none ∧ s.idleSince = some 0 ∧ s.lastMark = some 0 ∧ s.active = false := by decide

/-- **releases and reloads, counted over the whole history**: every release aborted exactly one loop, and the number
of loops ever started is the number of releases plus one while the run is in memory, and exactly the number of
releases while it is released — each release is answered by at most one reload, no reload happens without a
release, and a loaded run has been reloaded exactly as often as it has been released. -/
theorem C36_reloads_match_releases (tau : Nat) (acts : List Act) :
    let s := run (init tau) acts
    s.aborted = s.releases.length ∧ s.started = s.releases.length + (if s.cur.isSome then 1 else 0) := by
  intro s
  have hinv : Inv s := Inv.run (init tau) acts (Inv.init tau)
  have hid : IdleInv s := IdleInv.run acts (init tau) (IdleInv.init tau) (Inv.init tau)
  exact ⟨hid.relCount, by rw [← hid.relCount]; exact hinv.count⟩

/-- non-vacuity: two release / reload cycles -/
example :
    let s := run (init 200) [.eDone, .eMark, .eSpawn 0, .advance 200, .tAcq 0, .tQuery 0, .tDecide 0,
      .sCall 1, .sAcq 1, .sQuery 1, .sLog 1, .sStart 1, .sRClear 1, .sDeliver 1, .ePull, .eReduce, .eDone, .eMark, .eSpawn 1,
      .advance 200, .tAcq 1, .tQuery 1, .tDecide 1,
      .sCall 2, .sAcq 2, .sQuery 2, .sLog 2, .sStart 2, .sRClear 2, .sDeliver 2]
    s.releases = [(200, 0), (400, 200)] ∧ s.started = 3 ∧ s.aborted = 2 ∧ s.cur.isSome = true := by decide

/-- **"continues from where it stopped", for every interleaving** (the store calls of the reload may suspend, other
senders and release tasks queue, the engine of the new loop runs as soon as it is started): in every reachable state
and for every action, an action that starts a control loop registers a loop whose state is rebuilt from the *entire*
tick log as it is at that instant (the list the sender read earlier is still the whole log: nothing is persisted
while the run is out of memory), numbered by the loops started before it; the rebuilt-from list of the registered
loop is always a prefix of the log (what the incarnation persists is appended to what it was rebuilt from) and its
number is `started - 1`; and the log itself only ever grows — no release, reload or send drops a persisted tick. -/
theorem C36_reload_from_all_persisted (tau : Nat) (acts : List Act) (a : Act) :
    let s := run (init tau) acts
    ((stepD s a).started ≠ s.started →
        (stepD s a).cur = some { inc := s.started, start := s.log } ∧ (stepD s a).started = s.started + 1 ∧
        (stepD s a).log = s.log ∧ (stepD s a).active = true) ∧
    (∀ l, s.cur = some l → l.start <+: s.log ∧ l.inc + 1 = s.started) ∧
    s.log <+: (stepD s a).log ∧ (∀ acts', s.log <+: (run s acts').log) := by
  intro s
  have hid : IdleInv s := IdleInv.run acts (init tau) (IdleInv.init tau) (Inv.init tau)
  refine ⟨?_, hid.startPre, log_prefix_step s a, fun acts' => log_prefix_run acts' s⟩
  intro h
  rcases stepD_eq s a with e | e
  · rw [e] at h; exact absurd rfl h
  · generalize stepD s a = s' at h e
    cases a
    all_goals destruct_step e
    all_goals (try (exact absurd rfl h))
    all_goals (try (simp only [release_started] at h; exact absurd rfl h))
    all_goals (rename_i x i' snap heq hi _ _; have := hid.snap _ _ heq; subst this; exact ⟨rfl, rfl, rfl, rfl⟩)

/-- non-vacuity: the reloading sender is suspended after it has read the log (`sLog`) while a second sender queues
and time passes; the loop it then starts is incarnation 1, rebuilt from the whole log `[1]` -/
example :
    let s := run (init 200) [.eDone, .eMark, .eSpawn 0, .sCall 1, .sAcq 1, .sClear 1, .sDeliver 1, .ePull, .eReduce, .eDone,
      .eMark, .eSpawn 1, .advance 200, .tAcq 0, .tQuery 0, .tDecide 0, .advance 5, .tAcq 1, .tQuery 1, .tDecide 1,
      .sCall 2, .sAcq 2, .sQuery 2, .sLog 2, .sCall 3, .advance 7]
    s.log = [1] ∧ s.cur = none ∧ (stepD s (.sStart 2)).started ≠ s.started ∧
      (stepD s (.sStart 2)).cur = some { inc := 1, start := [1] } := by decide

/-- **release, as a statement about whole histories** (liveness read as safety): in every reachable state in which
the handler row says "idle since `t`", no lock section is open, the announcement is complete, and every deferred
release task that is still asleep was armed for an earlier announcement (wakes before `t + idle_timeout`) — in
particular when all release tasks have run — the run **is** out of memory.  So an idle run can stay in memory only
as long as a release task that will act on this very `idle_since` is still to run; the asyncio scheduler running
that task (its sleep is `idle_timeout`, `C36_source_shape`) is the only thing left to trust. -/
theorem C36_release_when_timers_quiescent (tau : Nat) (acts : List Act) :
    let s := run (init tau) acts
    ∀ t, s.idleSince = some t → s.lock = none → s.marking = false →
      (∀ j due, s.timers j = .sleeping due → due < t + tau) → s.cur = none ∧ s.active = false := by
  intro s t hi hl hm hq
  have hinv : Inv s := Inv.run (init tau) acts (Inv.init tau)
  have hcov : CoverInv s := CoverInv.run acts (init tau) (CoverInv.init tau) (Inv.init tau)
  have htau : s.tau = tau := run_tau (init tau) acts
  have hnone : s.cur = none := by
    cases hc : s.cur with
    | none => rfl
    | some l =>
      exfalso
      rcases hcov.cov t hi (by simp [hc]) with c | ⟨j, due, c1, c2⟩ | ⟨j, c1, _⟩ | ⟨j, c1, _⟩ | ⟨i, c⟩
      · rw [hm] at c; cases c
      · have := hq j due c1; rw [htau] at c2; omega
      · rw [hl] at c1; cases c1
      · rw [hl] at c1; cases c1
      · rw [hl] at c; cases c
  refine ⟨hnone, ?_⟩
  have := hinv.act; rw [hnone] at this; simpa using this

/-- non-vacuity: two idle periods inside one `idle_timeout`; the first task (armed for the announcement at 0) has
run and returned, the second (armed for the announcement at 120) has run: released; and before the second has run
the hypothesis fails exactly because that task is still asleep until 320 = 120 + 200 -/
example :
    let pre := [Act.eDone, .eMark, .eSpawn 0, .advance 50, .sCall 1, .sAcq 1, .sClear 1, .sDeliver 1,
      .ePull, .eReduce, .advance 70, .eDone, .eMark, .eSpawn 1, .advance 80, .tAcq 0, .tQuery 0, .tDecide 0, .advance 120]
    let s0 := run (init 200) pre
    let s := run (init 200) (pre ++ [.tAcq 1, .tQuery 1, .tDecide 1])
    (s0.idleSince = some 120 ∧ s0.cur.isSome = true ∧ s0.timers 1 = .sleeping 320 ∧ s0.timers 0 = .done) ∧
    (s.idleSince = some 120 ∧ s.lock = none ∧ s.marking = false ∧ s.timers 0 = .done ∧ s.timers 1 = .done ∧ s.cur = none) := by
  decide

/-! ## DBOS stack -/

/-- the statement for the DBOS stack, on the protocol model: a run whose workflow is up and idle (empty inbox)
and whose release timer fires gets released (the workflow exits on TickIdleRelease) -/
def C36_dbos_release_statement : Prop :=
  ∀ (acts : List BAct) (i : Nat), (∀ a ∈ acts, a ≠ .create) →
    let s := brun {} acts
    s.wfUp = true → s.inbox = [] → s.rel i = .absent →
    (brun s [.rSpawn i, .rBegin i, .rSend i, .wfStep]).wfUp = false

/-- The production code never calls `RunLifecycleLock.create` (extracted from all `packages/*/src`), and without
the row `begin_release` matches nothing: along every schedule that does not contain the (missing) create hook
there is never a row, no releaser ever wins, no TickIdleRelease is ever sent, the workflow stays up — a DBOS run
is never released, however long it is idle. -/
theorem C36_refuted_dbos_never_released :
    GenLifecycleShape.createCallSites = [] ∧
    (∀ (acts : List BAct), (∀ a ∈ acts, a ≠ .create) →
      (brun {} acts).db = none ∧ (brun {} acts).wfUp = true ∧ (brun {} acts).wins = [] ∧
      ∀ i, (brun {} acts).rel i = .absent ∨ (brun {} acts).rel i = .start ∨ (brun {} acts).rel i = .lostCas) ∧
    ¬ C36_dbos_release_statement := by
  refine ⟨by decide, ?_, ?_⟩
  · intro acts hc
    have h := NoRow.run acts {} NoRow.init hc
    exact ⟨h.db, h.up, h.wins, h.rel⟩
  · intro h
    have := h [] 0 (by intro a ha; cases ha) (by decide) (by decide) (by decide)
    revert this; decide

/-- **partial** (guard: the row exists and says `active`): from any state with an idle, running workflow the
release protocol releases (`active → releasing`, TickIdleRelease, the workflow exits, `→ released`), and the next
sender resumes exactly once (`released → active`, a new incarnation whose rebuilt state contains the pending tick,
which it then processes). -/
theorem C36_dbos_release_resume_partial (s : Sys) (u i k : Nat)
    (hdb : s.db = some ⟨.active, u⟩) (hup : s.wfUp = true) (hin : s.inbox = [])
    (hi : s.rel i = .absent) (hcr : s.crashed i = false) (hk : s.res k = .absent) :
    let s' := brun s [.rSpawn i, .rBegin i, .rSend i, .wfStep, .rComplete i, .uSpawn k, .uTry k, .uFinish k, .wfStep]
    s'.db = some ⟨.active, s.now⟩ ∧ s'.wfUp = true ∧ s'.wfInc = s.wfInc + 1 ∧ s'.processed = s.processed ++ [k] ∧
      s'.stranded = s.stranded ∧ s'.inbox = [] ∧ s'.rel i = .done ∧ s'.res k = .done ∧
      s'.wins = .resume k false :: .release i :: s.wins := by
  simp [brun, bstepD, bstep, hdb, hup, hin, hi, hcr, hk, upd_apply, dbBeginRelease, dbCompleteRelease, dbTryBeginResume]

/-- non-vacuity of the partial theorem's hypotheses: after the create hook the state is as required -/
example :
    let s := brun {} [.create]
    s.db = some ⟨.active, 0⟩ ∧ s.wfUp = true ∧ s.inbox = [] ∧ s.rel 0 = .absent ∧ s.crashed 0 = false ∧ s.res 1 = .absent := by
  decide

/-- **a release that has begun is not abandoned** (guard: the row exists — see above — and no process crash): along every
schedule without `rCrash`, whenever the row says `releasing` it is held by a live releaser that is either about to send
TickIdleRelease — and that send is enabled and puts the tick into the workflow's inbox — or has sent it and completes
(`→ released`) as soon as the workflow incarnation it was sent to is gone.  No tick consumed by the run, no other sender and
no other timer can take the releaser out of this path: the model has no such action, and that the code has none is what
`C36_source_shape` re-extracts (`_deferred_release` pops its own entry from `_deferred_release_tasks` *before* it starts the
release, so `_cancel_deferred_release` — called on every received tick, on every new idle announcement and by `_do_resume` —
cannot reach it any more).  The row therefore never stays `releasing` behind a dead release. -/
theorem C36_dbos_release_not_abandoned (acts : List BAct) (hc : ∀ a ∈ acts, ∀ i, a ≠ .rCrash i) :
    let s := brun {} acts
    (∀ i, s.crashed i = false) ∧
    ∀ r, s.db = some r → r.st = .releasing →
      ∃ i, s.holder = some i ∧
        ((s.rel i = .won r.upd ∧ (bstepD s (.rSend i)).rel i = .sentRelease r.upd s.wfInc ∧
            (bstepD s (.rSend i)).inbox = s.inbox ++ [.idleRelease] ∧ (bstepD s (.rSend i)).db = s.db) ∨
         (∃ inc, s.rel i = .sentRelease r.upd inc ∧
            ((inc ≠ s.wfInc ∨ s.wfUp = false) →
              (bstepD s (.rComplete i)).db = some ⟨.released, s.now⟩ ∧ (bstepD s (.rComplete i)).rel i = .done))) := by
  intro s
  have hn : NoCrash s := NoCrash.run acts {} NoCrash.init hc
  have hb : BInv s := BInv.run acts {} BInv.init
  refine ⟨hn, ?_⟩
  intro r hdb hst
  have hr := hb.rinv r hdb hst
  cases hho : s.holder with
  | none => rw [hho] at hr; cases hr
  | some i =>
    rw [hho] at hr
    refine ⟨i, rfl, ?_⟩
    have hci : s.crashed i = false := hn i
    unfold relAt at hr
    cases hrel : s.rel i with
    | won t =>
      have ht : t = r.upd := by simpa [hrel] using hr
      subst ht
      left
      refine ⟨rfl, ?_, ?_, ?_⟩ <;> simp [bstepD, bstep, hrel, hci, upd_apply]
    | sentRelease t inc =>
      have ht : t = r.upd := by simpa [hrel] using hr
      subst ht
      right
      refine ⟨inc, rfl, ?_⟩
      intro hgone
      have hcond : (s.crashed i || (inc == s.wfInc && s.wfUp)) = false := by
        rcases hgone with h | h
        · simp [hci, h]
        · simp [hci, h]
      obtain ⟨st, u⟩ := r
      simp only at hst
      subst hst
      simp [bstepD, bstep, hrel, hcond, hdb, dbCompleteRelease, upd_apply]
    | absent => simp [hrel] at hr
    | start => simp [hrel] at hr
    | done => simp [hrel] at hr
    | lostCas => simp [hrel] at hr

/-- non-vacuity: a tick that passed the lifecycle check while the row said `active` is consumed by the run between the
releaser's CAS and its TickIdleRelease; the release still completes and the next sender reloads -/
example :
    let acts := [BAct.create, .uSpawn 0, .uTry 0, .rSpawn 0, .rBegin 0, .uSend 0, .wfStep]
    let s := brun {} acts
    s.db = some ⟨.releasing, 0⟩ ∧ s.holder = some 0 ∧ s.rel 0 = .won 0 ∧ s.processed = [0] ∧
      (brun s [.rSend 0, .wfStep, .rComplete 0]).db = some ⟨.released, 0⟩ ∧ (brun s [.rSend 0, .wfStep, .rComplete 0]).wfUp = false := by
  decide

example : ∀ a ∈ [BAct.create, .uSpawn 0, .uTry 0, .rSpawn 0, .rBegin 0, .uSend 0, .wfStep], ∀ i, a ≠ BAct.rCrash i := by
  intro a ha i h
  subst h
  simp at ha

/-! ## DBOS stack: "the row says `released`" and "the run is out of memory" -/

/-- the clause a resumer relies on (`_do_resume` first awaits the old workflow's result), at full strength on machine (B):
along every crash-free schedule, whenever the lifecycle row says `released` no workflow of the run is executing -/
def C36_dbos_released_means_unloaded_statement : Prop :=
  ∀ (acts : List BAct), (∀ a ∈ acts, ∀ i, a ≠ .rCrash i) →
    ∀ u, (brun {} acts).db = some ⟨.released, u⟩ → (brun {} acts).wfUp = false

/-- (a) a release that begins while a resume is under way (the resumer has set the row to `active`, the new workflow is not
started yet; the releaser's TickIdleRelease goes to the exited workflow, whose result is available at once).  Machine (B)
lets a release begin at any time; on one replica it cannot happen: the timer that would begin it was armed by the workflow
that has exited, and the TickIdleRelease that made it exit was a received tick, which cancels the registered timer
(`C36_dbos_no_timer_outlives_its_workflow`; tried on the real decorator over the stand-in engine: the re-armed timer of a
run that consumed a tick inside its release window is cancelled when TickIdleRelease arrives) -/
def C36.lateReleaseActs : List BAct :=
  [.create, .rSpawn 0, .rBegin 0, .rSend 0, .wfStep, .rComplete 0, .uSpawn 1, .uTry 1,
   .rSpawn 2, .rBegin 2, .rSend 2, .rComplete 2, .uFinish 1]

/-- (b) a live but slow releaser: its release is taken over after the crash timeout, the run is resumed, idles, a second
release begins — and the first releaser's late `complete_release` (guarded by `state = 'releasing'` only, not by who holds
it) closes the *second* release before that one has even sent its TickIdleRelease -/
def C36.supersededCompleteActs : List BAct :=
  [.create, .rSpawn 0, .rBegin 0, .rSend 0, .wfStep, .uSpawn 1, .tick 120001, .uTry 1, .uFinish 1, .wfStep,
   .rSpawn 2, .rBegin 2, .rComplete 0]

/-- **refuted on the protocol model** (model witnesses only — DBOS is not available; at the level of the real
`SqliteRunLifecycleLock` both are ordinary CAS sequences, replayed on it on every run): in both schedules the row
ends up `released` while a workflow of the run is executing; no releaser crashed.  A sender that now finds `released`
owns a resume whose first step waits for a workflow that is alive.  (a) needs a release attempt without a live, idle
workflow behind it (another replica's stale timer); (b) needs a releaser that is alive but slower than the crash timeout
(the negation of `promptAt`, C26_crash_timeout) — `complete_release` is guarded by the row's state, not by its holder. -/
theorem C36_dbos_released_means_unloaded_refuted :
    ¬ C36_dbos_released_means_unloaded_statement ∧
    (let s := brun {} C36.lateReleaseActs
     s.db = some ⟨.released, 0⟩ ∧ s.wfUp = true ∧ s.wfInc = 1 ∧ s.takeovers = [] ∧ s.rel 2 = .done ∧ s.stranded = []) ∧
    (let s := brun {} C36.supersededCompleteActs
     s.db = some ⟨.released, 120001⟩ ∧ s.wfUp = true ∧ s.rel 2 = .won 120001 ∧ s.rel 0 = .done ∧ s.takeovers.length = 1) ∧
    balongB calmAt {} C36.lateReleaseActs = false ∧ balongB calmAt {} C36.supersededCompleteActs = false := by
  refine ⟨?_, by decide, by decide, by decide, by decide⟩
  intro h
  have := h C36.lateReleaseActs (by intro a ha i e; subst e; simp [C36.lateReleaseActs] at ha) 0 (by decide)
  revert this; decide

/-- **partial** (guard `calmAt` along the schedule: a release begins only while the workflow is up, and no resumer takes
a `releasing` row over): for every such schedule — any number of releasers and senders, releaser crashes anywhere —
(1) a `released` row means the workflow is gone, nobody is between a CAS win and its `complete_release`, and nobody owns a
resume; (2) from **every** such reachable state the next event reloads the run at once and exactly once: the sender's
`try_begin_resume` wins (`released → active`), its `_do_resume` does not have to wait, a new incarnation starts with the
event folded in and reduces it.  (`C36_dbos_release_resume_partial` is the same cycle from one given state.) -/
theorem C36_dbos_released_means_unloaded_partial (acts : List BAct) (hg : balongB calmAt {} acts = true) :
    let s := brun {} acts
    (∀ u, s.db = some ⟨.released, u⟩ →
        s.wfUp = false ∧ (∀ i, s.rel i ≠ .won u ∧ ∀ t inc, s.rel i ≠ .sentRelease t inc) ∧ ∀ k, s.res k ≠ .owner) ∧
    (∀ u k, s.db = some ⟨.released, u⟩ → s.res k = .absent →
        let s' := brun s [.uSpawn k, .uTry k, .uFinish k, .wfStep]
        s'.wfUp = true ∧ s'.wfInc = s.wfInc + 1 ∧ s'.processed = s.processed ++ [k] ∧ s'.db = some ⟨.active, s.now⟩ ∧
          s'.res k = .done ∧ s'.inbox = [] ∧ s'.wins = .resume k false :: s.wins) := by
  intro s
  have hc : Calm s := Calm.run acts {} Calm.init hg
  refine ⟨?_, ?_⟩
  · intro u hu
    refine ⟨hc.p u hu, ?_, ?_⟩
    · intro i
      have hn := hc.noFlight s (by intro u' hu'; rw [hu] at hu'; cases hu') i
      refine ⟨?_, ?_⟩
      · intro e; rw [e] at hn; cases hn
      · intro t inc e; rw [e] at hn; cases hn
    · exact hc.noOwner s (by intro u' hu'; rw [hu] at hu'; cases hu')
  · intro u k hu hk
    have hdown := hc.p u hu
    simp [brun, bstepD, bstep, hu, hk, hdown, upd_apply, dbTryBeginResume]

/-- non-vacuity: a calm schedule with a tick consumed during the release window, two releasers, a second cycle; the
final state is `released` -/
example :
    let acts := [BAct.create, .uSpawn 0, .uTry 0, .rSpawn 0, .rSpawn 1, .rBegin 0, .rBegin 1, .uSend 0, .wfStep, .rSend 0, .wfStep,
      .rComplete 0, .uSpawn 1, .uTry 1, .uFinish 1, .wfStep, .rSpawn 2, .rBegin 2, .rSend 2, .wfStep, .tick 5, .rComplete 2]
    balongB calmAt {} acts = true ∧ (brun {} acts).db = some ⟨.released, 5⟩ ∧ (brun {} acts).res 7 = .absent ∧
      (brun {} acts).processed = [0, 1] := by decide

/-! ## DBOS stack: *when* a release is attempted (M7 (C), `WfModel/DbosTimer.lean`)

The DBOS decorator has no `idle_since` / `elapsed` test: that a release is attempted only after `idle_timeout` of
idleness rests entirely on the bookkeeping of one timer task per run. -/

/-- the sources the atomic actions of M7 (C) are cut along, re-read on every run: `_schedule_deferred_release` is
cancel + spawn + register without an await; `_cancel_deferred_release` pops the registration and cancels the task
unless it is done, without an await; it is called by `wait_receive` (a tick reached the run), by `_do_resume` and by
`_schedule_deferred_release`, by nobody else; announcements are the only scheduler; nothing else touches the
registry; `_deferred_release` is sleep, pop, release (`C36_source_shape`).  In-process stack: `_abort_inner_run`
(the `release` of M7 (A)) looks the inner adapter up, returns if there is none, aborts it; `_spawn_task` is shared. -/
theorem C36_dbos_timer_source_shape :
    GenDbosTimer.shape_dbos_schedule =
      ["call(self._cancel_deferred_release)", "call(self._deferred_release)", "call(self._spawn_task)",
       "call(setitem:self._deferred_release_tasks)"] ∧
    GenDbosTimer.shape_dbos_cancel =
      ["call(_.done)", "call(self._deferred_release_tasks.pop)", "if(And,IsNot,Not;done,None,_.done)", "call(_.cancel)", "endif"] ∧
    GenDbosTimer.kind_dbos_schedule = "sync" ∧ GenDbosTimer.kind_dbos_cancel = "sync" ∧
    GenDbosTimer.shape_dbos_spawn =
      ["call(_.add_done_callback)", "call(asyncio.create_task)", "call(self._background_tasks.add)", "return"] ∧
    GenDbosTimer.shape_ir_spawn = GenDbosTimer.shape_dbos_spawn ∧
    GenDbosTimer.cancelCallers =
      ["DBOSIdleReleaseDecorator._do_resume", "DBOSIdleReleaseDecorator._schedule_deferred_release",
       "_DBOSIdleReleaseInternalRunAdapter.wait_receive"] ∧
    GenDbosTimer.scheduleCallers = ["_DBOSIdleReleaseInternalRunAdapter.write_to_event_stream"] ∧
    GenDbosTimer.registryUsers =
      ["DBOSIdleReleaseDecorator.__init__", "DBOSIdleReleaseDecorator._cancel_deferred_release",
       "DBOSIdleReleaseDecorator._deferred_release", "DBOSIdleReleaseDecorator._schedule_deferred_release"] ∧
    GenDbosTimer.shape_ir_abort =
      ["try", "call(self._decorated.get_external_adapter)", "except", "return", "endtry", "if(;V2RuntimeCompatibilityShim)",
       "call(_.abort)", "else", "raise", "endif"] ∧ GenDbosTimer.kind_ir_abort = "sync" := by
  refine ⟨by decide, by decide, by decide, by decide, by decide, by decide, by decide, by decide, by decide, by decide, by decide⟩

/-- **one timer per run, and it is the registered one** — for every sequence of idle announcements, ticks reaching
the run, resumes, timer expiries, finished releases and time steps: a timer task that is still asleep is the task
registered under the run id, it was armed by the *last* idle announcement (at `a`, due exactly `a + idle_timeout`) and
no tick has reached the run and no resume has happened since; hence at most one timer sleeps; conversely whatever is
registered is asleep — never a task that is already inside `_release_idle_handler` — so the `pop` in `_deferred_release`
only ever removes the popping task's own registration (`stray = 0`) and no `_cancel_deferred_release` ever reaches
into a running release (`abandoned = 0`; the timer-side premise of `C36_dbos_release_not_abandoned`). -/
theorem C36_dbos_timer_discipline (tau : Nat) (acts : List DbosTimer.Act) :
    let s := DbosTimer.run (DbosTimer.init tau) acts
    (∀ j a d, s.tasks j = .sleeping a d →
        s.reg = some j ∧ d = a + tau ∧ s.lastIdle = some a ∧ s.ticksSince = 0 ∧ s.pending = true ∧ a ≤ s.now) ∧
    (∀ j j' a d a' d', s.tasks j = .sleeping a d → s.tasks j' = .sleeping a' d' → j = j') ∧
    (∀ j, s.reg = some j → ∃ a d, s.tasks j = .sleeping a d) ∧
    s.stray = 0 ∧ s.abandoned = 0 := by
  intro s
  have hinv : DbosTimer.Inv s := DbosTimer.Inv.run acts _ (DbosTimer.Inv.init tau)
  have htau : s.tau = tau := DbosTimer.run_tau acts _
  refine ⟨?_, ?_, hinv.rg, hinv.stray0, hinv.abandoned0⟩
  · intro j a d hj
    have := hinv.sl j a d hj
    rw [htau] at this
    exact this
  · intro j j' a d a' d' h1 h2
    have e1 := (hinv.sl j a d h1).1
    have e2 := (hinv.sl j' a' d' h2).1
    rw [e1] at e2
    exact Option.some.inj e2

/-- non-vacuity: idle at 0, a tick at 50 cancels timer 0, idle again at 120 arms timer 1, a second announcement at 130
replaces it by timer 2 (due 330): exactly one sleeper, the registered one -/
example :
    let s := DbosTimer.run (DbosTimer.init 200) [.idle, .advance 50, .tick, .advance 70, .idle, .advance 10, .idle]
    s.tasks 0 = .cancelled ∧ s.tasks 1 = .cancelled ∧ s.tasks 2 = .sleeping 130 330 ∧ s.reg = some 2 ∧ s.next = 3 := by decide

/-- **a release is attempted only after `idle_timeout` of undisturbed idleness** (DBOS stack, every history): whenever
a timer task leaves its sleep and enters `_release_idle_handler` (→ `begin_release`), an idle announcement has been
made, at least `idle_timeout` has passed since the **last** one, and no tick has reached the run and no resume has
happened since that announcement.  (Unlike the in-process stack this needs no hypothesis: the bookkeeping is
synchronous, there is no query→decide window.  What can still happen *after* the attempt has begun — a tick let through
while the row said `active` arriving during the CAS — is C26's `tick_arrived_during_release`.) -/
theorem C36_dbos_release_attempt_after_timeout (tau : Nat) (acts : List DbosTimer.Act) :
    ∀ r ∈ (DbosTimer.run (DbosTimer.init tau) acts).attempts,
      ∃ a, r.idle = some a ∧ a + tau ≤ r.at_ ∧ r.ticks = 0 ∧ r.at_ ≤ (DbosTimer.run (DbosTimer.init tau) acts).now := by
  intro r hr
  have hinv := DbosTimer.Inv.run acts _ (DbosTimer.Inv.init tau)
  have htau : (DbosTimer.run (DbosTimer.init tau) acts).tau = tau := DbosTimer.run_tau acts _
  have := hinv.att r hr
  rw [htau] at this
  exact this

/-- non-vacuity: the re-announcement case — the attempt comes at 320 = 120 + 200, not at 200 -/
example :
    (DbosTimer.run (DbosTimer.init 200) [.idle, .advance 50, .tick, .advance 70, .idle, .advance 80, .fire 0, .advance 120, .fire 1]).attempts =
      [{ at_ := 320, idle := some 120, ticks := 0, task := 1 }] := by decide

/-- **an idle, undisturbed DBOS run always has its release attempt ahead of it**: in every reachable state in which the
last thing that happened to the run (among announcements, received ticks, resumes, timer expiries) is an idle
announcement, at `a`, the registered timer task sleeps until exactly `a + idle_timeout`; letting that much time pass and
running it is enabled and is a release attempt at `a + idle_timeout` on that announcement with no tick since, the task
having de-registered itself before it enters the release. -/
theorem C36_dbos_timer_cover (tau : Nat) (acts : List DbosTimer.Act) :
    let s := DbosTimer.run (DbosTimer.init tau) acts
    s.pending = true →
      ∃ j a, s.lastIdle = some a ∧ s.ticksSince = 0 ∧ s.reg = some j ∧ s.tasks j = .sleeping a (a + tau) ∧
        (let s' := DbosTimer.run s [.advance (a + tau - s.now), .fire j]
         s'.attempts = s.attempts ++ [{ at_ := s.now + (a + tau - s.now), idle := some a, ticks := 0, task := j }] ∧
           s'.reg = none ∧ s'.tasks j = .releasing a ∧ s'.pending = false ∧ s'.stray = 0) := by
  intro s hp
  have hinv : DbosTimer.Inv s := DbosTimer.Inv.run acts _ (DbosTimer.Inv.init tau)
  have htau : s.tau = tau := DbosTimer.run_tau acts _
  have h1 := hinv.pend hp
  cases hr : s.reg with
  | none => rw [hr] at h1; cases h1
  | some j =>
    obtain ⟨a, d, hj⟩ := hinv.rg j hr
    obtain ⟨_, hd, hl, ht, _, _⟩ := hinv.sl j a d hj
    rw [htau] at hd
    subst hd
    refine ⟨j, a, hl, ht, rfl, hj, ?_⟩
    have hle : a + tau ≤ s.now + (a + tau - s.now) := by omega
    have hs0 := hinv.stray0
    simp [DbosTimer.run, DbosTimer.stepD, DbosTimer.step, hj, hle, hl, ht, hr, hs0, DbosTimer.upd_apply]

/-- **no timer outlives its workflow** (what machine (B)'s guard "a release begins only while the workflow is up" rests on,
on one replica): in every reachable state, once a tick has reached the run — any tick, in particular the TickIdleRelease on
which the workflow exits — or a resume has started, no timer task sleeps and nothing is registered; a release can then be
attempted again only after a *new* idle announcement, i.e. by a workflow that is up. -/
theorem C36_dbos_no_timer_outlives_its_workflow (tau : Nat) (acts : List DbosTimer.Act) (a : DbosTimer.Act)
    (ha : a = .tick ∨ a = .resume) :
    let s := DbosTimer.stepD (DbosTimer.run (DbosTimer.init tau) acts) a
    (∀ j x d, s.tasks j ≠ .sleeping x d) ∧ s.reg = none ∧ s.pending = false := by
  intro s
  have hinv : DbosTimer.Inv s := by
    have h0 := DbosTimer.Inv.run acts _ (DbosTimer.Inv.init tau)
    exact h0.stepD _ a
  have hp : s.pending = false := by
    rcases ha with rfl | rfl <;> rfl
  have hr : s.reg = none := by
    have h0 := DbosTimer.Inv.run acts _ (DbosTimer.Inv.init tau)
    rcases ha with rfl | rfl <;> exact (DbosTimer.cancelReg_spec _ h0).1
  refine ⟨?_, hr, hp⟩
  intro j x d hj
  have := (hinv.sl j x d hj).1
  rw [hr] at this; cases this

/-- non-vacuity: the run consumes a tick inside its release window (timer 0 is past its pop), idles again (timer 1), then
TickIdleRelease arrives: timer 1 is cancelled -/
example :
    let s := DbosTimer.run (DbosTimer.init 200) [.idle, .advance 200, .fire 0, .advance 55, .tick, .idle, .advance 95, .tick]
    s.tasks 0 = .releasing 0 ∧ s.tasks 1 = .cancelled ∧ s.reg = none ∧ s.attempts.length = 1 := by decide

/-- non-vacuity (`pending` holds right after an announcement, also a repeated one) -/
example : (DbosTimer.run (DbosTimer.init 200) [.idle, .advance 50, .tick, .advance 70, .idle]).pending = true := by decide
