import WfProofs.EngineRoute
import WfProofs.EngineIdle
import WfProofs.EngineQueue
import WfProofs.EngineTelemetry
import WfProofs.RunnerTicks
import WfModel.Runner
import WfProps.EngineShape
/-!
# C02 — every emitted event reaches each accepting step exactly once

`_process_add_event_tick` (every event a step returns, a step sends or a caller sends
arrives as a `TickAddEvent`) is characterised by counting, for every step, how many
attempts it holds (`size` = queued + in progress) before and after the tick:

* a step that is waiting for the event (`wait_for_event`, matching type and
  requirements, addressed) gets one replay of its original event per matching waiter,
  and those waiters carry the event as their result — it is **not** also handed the
  event as a new input;
* otherwise a step receives the event exactly once iff the event's type is *exactly*
  one of its accepted types and it is the addressed step (or no target was given);
* every other step receives nothing;
* `UnhandledEvent` is published iff nobody received it and it is not an
  `InputRequiredEvent`, and then exactly once.
-/
set_option linter.unusedVariables false
open Engine

/-- how many attempts step `c` receives from an add-event tick -/
def C02.recipients (att : Attempt) (target : Option Nat) (st : State) (c : StepCfg) : Nat :=
  if 0 < wokenCount att.ev target st c then wokenCount att.ev target st c
  else if c.accepted.contains att.ev.ty && (target.isNone || target == some c.name) then 1 else 0

theorem C02.start_workers (att : Attempt) (st : State) : (addEventStart att st).workers = st.workers := by
  unfold addEventStart; split <;> rfl

theorem C02.wokenCount_start (att : Attempt) (target : Option Nat) (st : State) (c : StepCfg) :
    wokenCount att.ev target (addEventStart att st) c = wokenCount att.ev target st c := by
  simp [wokenCount, C02.start_workers]

theorem C02.size_start (att : Attempt) (st : State) (s : Nat) :
    size ((addEventStart att st).workers s) = size (st.workers s) := by
  rw [C02.start_workers]

theorem C02.any_or {α} (l : List α) (f g : α → Bool) :
    (l.any f || l.any g) = l.any (fun x => f x || g x) := by
  induction l with
  | nil => rfl
  | cons a as ih =>
    simp only [List.any_cons, ← ih]
    cases f a <;> cases g a <;> cases as.any f <;> cases as.any g <;> rfl

theorem C02.any_congr {α} (l : List α) (f g : α → Bool) (h : ∀ x ∈ l, f x = g x) : l.any f = l.any g := by
  induction l with
  | nil => rfl
  | cons a as ih =>
    simp only [List.any_cons, h a (by simp), ih (fun x hx => h x (by simp [hx]))]

theorem C02.any_not {α} (l : List α) (f : α → Bool) : l.any (fun x => !f x) = !l.all f := by
  induction l with
  | nil => rfl
  | cons a as ih => simp only [List.any_cons, List.all_cons, ih]; cases f a <;> cases as.all f <;> rfl

/-- **exactly-once routing**, counted per step -/
theorem C02_route_count (cfg : Cfg) (hwf : cfg.WF) (att : Attempt) (target : Option Nat) (st : State)
    (now : Int) (hinv : IdsInv cfg st) :
    ∀ c ∈ cfg.steps,
      size ((processAddEvent cfg att target st now).1.workers c.name) =
        size (st.workers c.name) + C02.recipients att target st c := by
  intro c hc
  rw [processAddEvent_fst]
  have hinv0 : IdsInv cfg (addEventStart att st) := by unfold addEventStart; split <;> exact hinv
  obtain ⟨w1, w2, w3, w4, w5⟩ := addEventWaiters_spec cfg hwf att.ev target now cfg.steps
    { st := addEventStart att st } (fun _ h => h) hwf hinv0
  have hinv1 := addEventWaiters_idsInv cfg hwf att.ev target now cfg.steps
    { st := addEventStart att st } (fun _ h => h) hinv0
  obtain ⟨r1, r2, r3⟩ := addEventRoute_spec cfg hwf att target now cfg.steps _ (fun _ h => h) hwf hinv1
  rw [r1 c hc, w1 c hc, C02.size_start, C02.wokenCount_start]
  have hwoken := w3 c hc
  simp only [List.not_mem_nil, false_or, C02.wokenCount_start] at hwoken
  unfold C02.recipients
  by_cases hpos : 0 < wokenCount att.ev target st c
  · have hcon : (addEventWaiters cfg att.ev target now cfg.steps { st := addEventStart att st }).woken.contains c.name = true := by
      simpa using hwoken.mpr hpos
    have hr : routed att target (addEventWaiters cfg att.ev target now cfg.steps { st := addEventStart att st }).woken c = false := by
      unfold routed; rw [hcon]; rfl
    simp only [hr, Bool.false_eq_true, ↓reduceIte, hpos, Nat.add_zero]
  · have hcon : (addEventWaiters cfg att.ev target now cfg.steps { st := addEventStart att st }).woken.contains c.name = false := by
      cases hcon : (addEventWaiters cfg att.ev target now cfg.steps { st := addEventStart att st }).woken.contains c.name with
      | false => rfl
      | true => exact absurd (hwoken.mp (by simpa using hcon)) hpos
    have hz : wokenCount att.ev target st c = 0 := by omega
    have hr : routed att target (addEventWaiters cfg att.ev target now cfg.steps { st := addEventStart att st }).woken c =
        (c.accepted.contains att.ev.ty && (target.isNone || target == some c.name)) := by
      unfold routed; rw [hcon]; rfl
    simp only [hr, hpos, ↓reduceIte]
    show size (st.workers c.name) + wokenCount att.ev target st c + _ = _
    rw [hz]; rfl

/-- an event is never delivered to a step that neither accepts its exact type nor waits for it -/
theorem C02_never_unaccepted (cfg : Cfg) (hwf : cfg.WF) (att : Attempt) (target : Option Nat) (st : State)
    (now : Int) (hinv : IdsInv cfg st) (c : StepCfg) (hc : c ∈ cfg.steps)
    (hacc : c.accepted.contains att.ev.ty = false)
    (hwait : matching att.ev (st.workers c.name).waiters = []) :
    size ((processAddEvent cfg att target st now).1.workers c.name) = size (st.workers c.name) := by
  rw [C02_route_count cfg hwf att target st now hinv c hc]
  have hz : wokenCount att.ev target st c = 0 := by simp [wokenCount, hwait]
  unfold C02.recipients
  rw [hz, hacc]; rfl

/-- a targeted event reaches only the addressed step -/
theorem C02_target_only (cfg : Cfg) (hwf : cfg.WF) (att : Attempt) (tgt : Nat) (st : State)
    (now : Int) (hinv : IdsInv cfg st) (c : StepCfg) (hc : c ∈ cfg.steps) (hne : c.name ≠ tgt) :
    size ((processAddEvent cfg att (some tgt) st now).1.workers c.name) = size (st.workers c.name) := by
  rw [C02_route_count cfg hwf att (some tgt) st now hinv c hc]
  have h1 : addressed (some tgt) c = false := by
    simp [addressed]; exact fun h => hne h.symm
  have h2 : (some tgt == some c.name) = false := by simpa using fun h => hne h.symm
  simp [C02.recipients, wokenCount, h1, h2]

/-- a step that is waiting for the event receives it as its wait result: exactly the
matching, still unresolved waiters of an addressed step get `resolved_event := ev` -/
theorem C02_waiter_gets_result (ev : Ev) (step nw : Nat) (now : Int) (ss : StepState) (h : IdsOk ss nw) :
    (resolveLoop ev step nw now [] ss.waiters ss [] false).1.waiters =
      ss.waiters.map (fun w => if waiterMatches w ev then { w with resolved := some ev } else w) := by
  have := (resolveLoop_spec ev step nw now ss.waiters [] ss [] false h).2.1
  simpa using this

/-- `UnhandledEvent` is reported iff nobody received the event (and it is not an
`InputRequiredEvent`), and then exactly once -/
theorem C02_unhandled_iff (cfg : Cfg) (hwf : cfg.WF) (att : Attempt) (target : Option Nat) (st : State)
    (now : Int) (hinv : IdsInv cfg st) :
    ((processAddEvent cfg att target st now).2.filter
        (fun c => match c with | .publish (.unhandled _ _ _) => true | _ => false)).length =
      (if (cfg.steps.all (fun c => C02.recipients att target st c == 0)) && att.ev.kind != .inputRequired
       then 1 else 0) := by
  have hinv0 : IdsInv cfg (addEventStart att st) := by unfold addEventStart; split <;> exact hinv
  obtain ⟨w1, w2, w3, w4, w5⟩ := addEventWaiters_spec cfg hwf att.ev target now cfg.steps
    { st := addEventStart att st } (fun _ h => h) hwf hinv0
  have hinv1 := addEventWaiters_idsInv cfg hwf att.ev target now cfg.steps
    { st := addEventStart att st } (fun _ h => h) hinv0
  obtain ⟨r1, r2, r3⟩ := addEventRoute_spec cfg hwf att target now cfg.steps _ (fun _ h => h) hwf hinv1
  have hshape := addEventRoute_shape att target now cfg.steps _
    (addEventWaiters_shape cfg att.ev target now cfg.steps { st := addEventStart att st } (by simp))
  -- per step: "received something" in the two loops' terms and in terms of `recipients`
  have hper : ∀ c ∈ cfg.steps,
      (decide (0 < wokenCount att.ev target (addEventStart att st) c) ||
        routed att target (addEventWaiters cfg att.ev target now cfg.steps { st := addEventStart att st }).woken c) =
      !(C02.recipients att target st c == 0) := by
    intro c hc
    have hwoken := w3 c hc
    simp only [List.not_mem_nil, false_or, C02.wokenCount_start] at hwoken
    rw [C02.wokenCount_start]
    unfold C02.recipients
    by_cases hpos : 0 < wokenCount att.ev target st c
    · have hne : wokenCount att.ev target st c ≠ 0 := by omega
      simp [hpos, hne]
    · have hcon : (addEventWaiters cfg att.ev target now cfg.steps { st := addEventStart att st }).woken.contains c.name = false := by
        cases hcon : (addEventWaiters cfg att.ev target now cfg.steps { st := addEventStart att st }).woken.contains c.name with
        | false => rfl
        | true => exact absurd (hwoken.mp (by simpa using hcon)) hpos
      have hr : routed att target (addEventWaiters cfg att.ev target now cfg.steps { st := addEventStart att st }).woken c =
          (c.accepted.contains att.ev.ty && (target.isNone || target == some c.name)) := by
        unfold routed; rw [hcon]; rfl
      rw [hr]
      simp only [hpos, decide_false, Bool.false_or, ↓reduceIte]
      cases (c.accepted.contains att.ev.ty && (target.isNone || target == some c.name)) <;> simp
  have hhandled : (addEventRoute att target now cfg.steps
      (addEventWaiters cfg att.ev target now cfg.steps { st := addEventStart att st })).handled =
      !(cfg.steps.all (fun c => C02.recipients att target st c == 0)) := by
    rw [r3, w5]
    simp only [Bool.false_or]
    rw [C02.any_or, C02.any_congr _ _ _ hper, C02.any_not]
  unfold processAddEvent
  dsimp only
  generalize (addEventRoute att target now cfg.steps
    (addEventWaiters cfg att.ev target now cfg.steps { st := addEventStart att st })) = a2 at hshape hhandled
  have hnone : (a2.cmds.filter
      (fun c => match c with | .publish (.unhandled _ _ _) => true | _ => false)) = [] := by
    rw [List.filter_eq_nil_iff]
    intro c hc
    rcases hshape c hc with ⟨_, _, _, h⟩ | ⟨_, _, _, _, _, h⟩ | h <;> subst h <;> simp
  rw [List.filter_append, hnone, List.nil_append]
  unfold unhandledCmds
  rw [hhandled]
  cases hall : cfg.steps.all (fun c => C02.recipients att target st c == 0) with
  | false => simp
  | true =>
    by_cases hk : att.ev.kind = .inputRequired
    · simp [hk]
    · simp [hk]

/-- a step's output event is re-queued exactly once, carrying the lineage's recovery counts -/
theorem C02_outputs_requeued (cfg : Cfg) (pol : Policy) (step : Nat) (tickEv : Ev) (dc : Bool)
    (acc : ResAcc) (ev : Ev) (hk : ev.kind ≠ .stop) :
    ∃ pre, (applyRes cfg pol step tickEv dc acc (.result (some ev))).cmds =
      acc.cmds ++ pre ++ [.queueEvent { ev := ev, rc := acc.exec.rc } none none] ∧
      ∀ c ∈ pre, c = .publish (.event ev) := by
  simp only [applyRes, hk, ↓reduceIte]
  by_cases hi : ev.kind = .inputRequired
  · exact ⟨[.publish (.event ev)], by simp [hi], by simp⟩
  · exact ⟨[], by simp [hi], by simp⟩

/-- the runner turns an undelayed `queueEvent` into exactly one buffered `TickAddEvent` -/
theorem C02_queue_command_buffers_once (r : Runner) (att : Attempt) (step : Option Nat) :
    (execCmd r (.queueEvent att step none)).buf = r.buf ++ [.addEvent att step] := rfl

/-! Non-vacuity: fan-out to two accepting steps, a waiter, a target. -/
def C02.exCfg : Cfg :=
  { steps := [{ name := 1, accepted := [5], numWorkers := 1, hasRetry := false },
              { name := 2, accepted := [5, 6], numWorkers := 2, hasRetry := false },
              { name := 3, accepted := [7], numWorkers := 1, hasRetry := false }] }
def C02.e5 : Ev := { ty := 5, kind := .plain, uid := 1 }
example : C02.exCfg.WF := by simp [Cfg.WF, Cfg.names, C02.exCfg]
example : (C02.exCfg.steps.map (C02.recipients { ev := C02.e5 } none initState)) = [1, 1, 0] := by decide
example : (C02.exCfg.steps.map (C02.recipients { ev := C02.e5 } (some 2) initState)) = [0, 1, 0] := by decide

/-! ## Whole runs: the runner neither loses nor duplicates a tick on its way to the reducer

`Runner.reduced` = ticks handed to the reducer (the `on_tick` log), `Runner.pending` = ticks in the
buffer, on the timer heap, in the mailbox.  `createdAtInit`/`createdBy`/`createdAlong`
(`WfProofs/RunnerTicks.lean`) say which ticks come into being: the start tick, the rehydration
pings and the run timeout of `Runner.init`; per action the accepted `external` tick, the
`stepResult` tick of a `workerDone`, and for a `drain` the ticks of the *executed* commands
(`queueEvent` → `addEvent`, immediately or via the heap; `scheduleWaiterTimeout`; an idle check
unless one is pending).  Commands behind the first run-ending command are never executed and
create nothing — "unless the run ends first".  `lostAlong` is the one tick that is consumed
without being logged: the tick whose reduction raised (`crash`), which ends the run. -/

/-- **conservation, any state, any time** (also after the run ended): reduced + pending (+ the
tick a crashing reduction swallowed) is a permutation of what was there plus what was created.
At most one tick is ever lost, and only when the run ended `crashed`. -/
theorem C02_ticks_conserved_from (cfg : Cfg) (pol : Policy) (r0 : Runner) (acts : List Act) :
    let r := Runner.run cfg pol r0 acts
    (r.reduced ++ r.pending ++ lostAlong cfg pol r0 acts).Perm
        (r0.reduced ++ r0.pending ++ createdAlong cfg pol r0 acts) ∧
      (lostAlong cfg pol r0 acts).length ≤ 1 ∧
      (lostAlong cfg pol r0 acts ≠ [] → r.outcome = some .crashed) := by
  refine ⟨?_, lostAlong_spec cfg pol acts r0⟩
  rw [List.perm_iff_count]
  intro t
  have := run_cnt cfg pol t acts r0
  rw [Runner.cnt_eq, Runner.cnt_eq] at this
  rw [List.count_append, List.count_append (l₂ := createdAlong cfg pol r0 acts)]
  exact this

/-- **conservation over whole runs from `Runner.init`**: while the run has not ended, every
created tick is either reduced or still pending, with multiplicity — nothing lost, nothing duplicated -/
theorem C02_ticks_conserved (cfg : Cfg) (pol : Policy) (st0 : State) (now : Int) (start : Option Ev)
    (timeout : Option Nat) (acts : List Act) :
    let r0 := Runner.init cfg st0 now start timeout
    let r := Runner.run cfg pol r0 acts
    r.outcome = none →
      (r.reduced ++ r.pending).Perm
        (createdAtInit cfg st0 now start timeout ++ createdAlong cfg pol r0 acts) := by
  intro r0 r ho
  obtain ⟨hp, _, hl⟩ := C02_ticks_conserved_from cfg pol r0 acts
  have hnil : lostAlong cfg pol r0 acts = [] := by
    apply Decidable.byContradiction
    intro hne
    have := hl hne
    rw [show Runner.run cfg pol r0 acts = r from rfl, ho] at this
    cases this
  rw [hnil, List.append_nil] at hp
  refine hp.trans (List.Perm.append_right _ ?_)
  rw [List.perm_iff_count]
  intro t
  rw [← Runner.cnt_eq]
  exact init_cnt cfg st0 now start timeout t

theorem C02.applyRes_cmds (cfg : Cfg) (pol : Policy) (step : Nat) (tickEv : Ev) (dc : Bool) (acc : ResAcc)
    (x : Res) : ∃ suf, (applyRes cfg pol step tickEv dc acc x).cmds = acc.cmds ++ suf := by
  cases x with
  | result o =>
    cases o with
    | none => exact ⟨[], by simp [applyRes]⟩
    | some ev =>
      simp only [applyRes]
      split
      · exact ⟨_, rfl⟩
      · exact ⟨_, List.append_assoc _ _ _⟩
  | failed exc failedAt =>
    simp only [applyRes]
    split
    · exact ⟨[], by simp⟩
    split
    · exact ⟨_, rfl⟩
    all_goals
      split
      · split
        · exact ⟨_, rfl⟩
        · exact ⟨_, rfl⟩
      · exact ⟨_, rfl⟩
  | addCollected buf ev =>
    simp only [applyRes]
    split
    · exact ⟨[], by simp⟩
    split
    · exact ⟨_, rfl⟩
    · exact ⟨[], by simp⟩
  | deleteCollected buf =>
    simp only [applyRes]
    split <;> exact ⟨[], by simp⟩
  | addWaiter wid waiterEv req timeout ty =>
    simp only [applyRes]
    split
    · exact ⟨[], by simp⟩
    · exact ⟨_, List.append_assoc _ _ _⟩
  | deleteWaiter wid =>
    simp only [applyRes]
    split <;> exact ⟨[], by simp⟩

theorem C02.applyRes_rc (cfg : Cfg) (pol : Policy) (step : Nat) (tickEv : Ev) (dc : Bool) (acc : ResAcc)
    (x : Res) : (applyRes cfg pol step tickEv dc acc x).exec.rc = acc.exec.rc := by
  cases x with
  | result o =>
    cases o with
    | none => rfl
    | some ev => simp only [applyRes]; split <;> rfl
  | failed exc failedAt =>
    simp only [applyRes]
    split
    · rfl
    split
    · rfl
    all_goals
      split
      · split <;> rfl
      · rfl
  | addCollected buf ev => simp only [applyRes]; split <;> (try split) <;> rfl
  | deleteCollected buf => simp only [applyRes]; split <;> rfl
  | addWaiter wid waiterEv req timeout ty => simp only [applyRes]; split <;> rfl
  | deleteWaiter wid => simp only [applyRes]; split <;> rfl

theorem C02.foldl_applyRes_mono (cfg : Cfg) (pol : Policy) (step : Nat) (tickEv : Ev) (dc : Bool) :
    ∀ (res : List Res) (acc : ResAcc) (c : Cmd), c ∈ acc.cmds →
      c ∈ (res.foldl (applyRes cfg pol step tickEv dc) acc).cmds
  | [], _, _, h => h
  | x :: xs, acc, c, h => by
    simp only [List.foldl_cons]
    apply C02.foldl_applyRes_mono cfg pol step tickEv dc xs
    obtain ⟨suf, hs⟩ := C02.applyRes_cmds cfg pol step tickEv dc acc x
    rw [hs]; exact List.mem_append_left _ h

/-- every non-stop event among a step's results is re-queued (uses `C02_outputs_requeued` for
the single result) with the recovery counts of the execution -/
theorem C02.foldl_applyRes_output (cfg : Cfg) (pol : Policy) (step : Nat) (tickEv : Ev) (dc : Bool)
    (e : Ev) (hk : e.kind ≠ .stop) :
    ∀ (res : List Res) (acc : ResAcc), Res.result (some e) ∈ res →
      Cmd.queueEvent { ev := e, rc := acc.exec.rc } none none ∈
        (res.foldl (applyRes cfg pol step tickEv dc) acc).cmds
  | [], _, h => by simp at h
  | x :: xs, acc, h => by
    simp only [List.foldl_cons]
    rcases List.mem_cons.mp h with h | h
    · subst h
      apply C02.foldl_applyRes_mono
      obtain ⟨pre, hp, _⟩ := C02_outputs_requeued cfg pol step tickEv dc acc e hk
      rw [hp]; simp
    · have := C02.foldl_applyRes_output cfg pol step tickEv dc e hk xs (applyRes cfg pol step tickEv dc acc x) h
      rwa [C02.applyRes_rc] at this

theorem C02.foldl_applyRes_stop (cfg : Cfg) (pol : Policy) (step : Nat) (tickEv : Ev) (dc : Bool) :
    ∀ (res : List Res) (acc : ResAcc), hasStopResult res = true →
      ∃ c ∈ (res.foldl (applyRes cfg pol step tickEv dc) acc).cmds, cmdEnds c = true
  | [], _, h => by simp [hasStopResult] at h
  | x :: xs, acc, h => by
    simp only [List.foldl_cons]
    simp only [hasStopResult, List.any_cons, Bool.or_eq_true] at h
    rcases h with h | h
    · cases x with
      | result o =>
        cases o with
        | none => simp at h
        | some ev =>
          have hk : ev.kind = .stop := by simpa using h
          refine ⟨.completeRun (.event ev), ?_, rfl⟩
          apply C02.foldl_applyRes_mono
          simp [applyRes, hk]
      | _ => simp at h
    · exact C02.foldl_applyRes_stop cfg pol step tickEv dc xs _ h

/-- membership in the accumulated commands survives `settle`, the queue drain and the idle check -/
theorem C02.reduce_stepResult_mem (cfg : Cfg) (pol : Policy) (s w : Nat) (ev : Ev) (res : List Res)
    (st : State) (now : Int) (hnc : Cmd.crash ∉ (reduce cfg pol (.stepResult s w ev res) st now).2) :
    ∃ exec, (st.workers s).inProg.find? (fun x => x.wid == w) = some exec ∧
      ∀ c ∈ (res.foldl (applyRes cfg pol s ev (res.any isResult)) { st := st, exec := exec }).cmds,
        c ∈ (reduce cfg pol (.stepResult s w ev res) st now).2 := by
  have hwi : ∀ (p : State × List Cmd) (c : Cmd), c ∈ p.2 →
      c ∈ (if checkIdle cfg p.1 then (p.1, p.2 ++ [Cmd.scheduleIdleCheck]) else p).2 := by
    intro p c hc; split
    · exact List.mem_append_left _ hc
    · exact hc
  simp only [reduce] at hnc ⊢
  by_cases hs : (!cfg.hasStep s) = true
  · exfalso; apply hnc; apply hwi; simp [processStepResult, hs]
  · cases hf : (st.workers s).inProg.find? (fun x => x.wid == w) with
    | none => exfalso; apply hnc; apply hwi; simp [processStepResult, hs, hf]
    | some exec =>
      refine ⟨exec, rfl, ?_⟩
      intro c hc
      apply hwi
      simp only [processStepResult, hs, Bool.false_eq_true, ↓reduceIte, hf]
      have hset : c ∈ (settle (res.foldl (applyRes cfg pol s ev (res.any isResult)) { st := st, exec := exec }) s w ev).2 := by
        unfold settle
        simp only
        split
        · exact hc
        · exact List.mem_cons_of_mem _ hc
      split
      · exact hset
      · exact List.mem_append_left _ hset

/-- a tick is never reduced more often than it was created (at any time, also after the end);
while the run is open the counts add up exactly -/
theorem C02_event_reduced_at_most_once_per_creation (cfg : Cfg) (pol : Policy) (st0 : State) (now : Int)
    (start : Option Ev) (timeout : Option Nat) (acts : List Act) (t : Tick) :
    let r0 := Runner.init cfg st0 now start timeout
    let r := Runner.run cfg pol r0 acts
    List.count t r.reduced ≤
        List.count t (createdAtInit cfg st0 now start timeout) + List.count t (createdAlong cfg pol r0 acts) ∧
      (r.outcome = none →
        List.count t r.reduced + List.count t r.pending =
          List.count t (createdAtInit cfg st0 now start timeout) + List.count t (createdAlong cfg pol r0 acts)) := by
  dsimp only
  have h := run_cnt cfg pol t acts (Runner.init cfg st0 now start timeout)
  rw [init_cnt, Runner.cnt_eq, List.count_append] at h
  refine ⟨by omega, ?_⟩
  intro ho
  have hp := (C02_ticks_conserved cfg pol st0 now start timeout acts ho).count_eq t
  simpa only [List.count_append] using hp

/-- a created tick that has not been reduced as often as it was created is still pending
(buffer, timer heap or mailbox) — unless the run has ended -/
theorem C02_unreduced_tick_still_pending (cfg : Cfg) (pol : Policy) (st0 : State) (now : Int)
    (start : Option Ev) (timeout : Option Nat) (acts : List Act) (t : Tick) :
    let r0 := Runner.init cfg st0 now start timeout
    let r := Runner.run cfg pol r0 acts
    r.outcome = none →
    List.count t r.reduced <
      List.count t (createdAtInit cfg st0 now start timeout) + List.count t (createdAlong cfg pol r0 acts) →
    t ∈ r.pending := by
  dsimp only
  intro ho hlt
  have h := (C02_event_reduced_at_most_once_per_creation cfg pol st0 now start timeout acts t).2 ho
  apply List.count_pos_iff.mp
  omega

/-- once a run has ended nothing is reduced any more: the pending ticks stay where they are -/
theorem C02_ended_run_is_frozen (cfg : Cfg) (pol : Policy) (r : Runner) (more : List Act)
    (h : r.outcome.isSome = true) : Runner.run cfg pol r more = r :=
  run_ended' cfg pol more r h

/-- a step's non-stop output event reaches the reducer's input buffer: reducing the worker's
`stepResult` tick (logged exactly there) leaves an `addEvent` tick carrying that event and the
execution's recovery counts in the buffer — or the run ended with this very reduction -/
theorem C02_step_output_reaches_reducer (cfg : Cfg) (pol : Policy) (r : Runner) (s w : Nat) (ev : Ev)
    (res : List Res) (rest : List Tick) (e : Ev)
    (ho : r.outcome = none) (hb : r.buf = .stepResult s w ev res :: rest)
    (hm : Res.result (some e) ∈ res) (hk : e.kind ≠ .stop) :
    (r.step cfg pol .drain).outcome.isSome = true ∨
      ∃ exec, (r.st.workers s).inProg.find? (fun x => x.wid == w) = some exec ∧
        (r.step cfg pol .drain).reduced = r.reduced ++ [.stepResult s w ev res] ∧
        Tick.addEvent { ev := e, rc := exec.rc } none ∈ (r.step cfg pol .drain).buf := by
  cases hout : (r.step cfg pol .drain).outcome with
  | some o => left; rfl
  | none =>
    right
    rw [step_drain cfg pol r _ _ ho hb] at hout ⊢
    by_cases hc : (reduce cfg pol (.stepResult s w ev res) r.st r.now).2.contains .crash = true
    · rw [if_pos hc] at hout; simp [Runner.finish] at hout
    · rw [if_neg hc] at hout ⊢
      have hnc : Cmd.crash ∉ (reduce cfg pol (.stepResult s w ev res) r.st r.now).2 := by
        simpa using hc
      obtain ⟨exec, hf, hmem⟩ := C02.reduce_stepResult_mem cfg pol s w ev res r.st r.now hnc
      refine ⟨exec, hf, ?_, ?_⟩
      · simp [Runner.reduced, Runner.logged, execCmds_log]
      · apply execCmds_queue_buffered _ _ (by exact ho) hout
        apply hmem
        exact C02.foldl_applyRes_output cfg pol s ev _ e hk res _ hm

/-- a finished worker whose results contain a `StopEvent` cancels the other workers (the runner
clears `running`, so their results never become ticks) — and the very next reduction ends the run -/
theorem C02_stop_result_ends_run (cfg : Cfg) (pol : Policy) (r : Runner) (s w : Nat) (ev : Ev)
    (res : List Res) (rest : List Tick)
    (ho : r.outcome = none) (hb : r.buf = .stepResult s w ev res :: rest)
    (hstop : hasStopResult res = true) :
    (r.step cfg pol .drain).outcome.isSome = true := by
  rw [step_drain cfg pol r _ _ ho hb]
  by_cases hc : (reduce cfg pol (.stepResult s w ev res) r.st r.now).2.contains .crash = true
  · rw [if_pos hc]; rfl
  · rw [if_neg hc]
    have hnc : Cmd.crash ∉ (reduce cfg pol (.stepResult s w ev res) r.st r.now).2 := by
      simpa using hc
    obtain ⟨exec, hf, hmem⟩ := C02.reduce_stepResult_mem cfg pol s w ev res r.st r.now hnc
    obtain ⟨c, hcm, hce⟩ := C02.foldl_applyRes_stop cfg pol s ev (res.any isResult) res
      { st := r.st, exec := exec } hstop
    exact execCmds_ends _ (r.logged _ rest _) ho ⟨c, hmem c hcm, hce⟩

/-- the buffer is a FIFO in front of the reducer: a tick at position `n` of the buffer has been
reduced after `n + 1` drains, unless the run ended first -/
theorem C02_buffered_tick_reaches_reducer (cfg : Cfg) (pol : Policy) (t : Tick) :
    ∀ (pre : List Tick) (r : Runner) (post : List Tick), r.outcome = none → r.buf = pre ++ t :: post →
      let r' := Runner.run cfg pol r (List.replicate (pre.length + 1) .drain)
      r'.outcome.isSome = true ∨ t ∈ r'.reduced
  | [], r, post, ho, hb => by
    simp only [List.length_nil, Nat.zero_add, List.replicate_one, Runner.run, List.foldl_cons, List.foldl_nil]
    simp only [List.nil_append] at hb
    rw [step_drain cfg pol r _ _ ho hb]
    split
    · left; rfl
    · right; simp [Runner.reduced, Runner.logged, execCmds_log]
  | x :: pre, r, post, ho, hb => by
    simp only [List.length_cons, List.replicate_succ, Runner.run, List.foldl_cons]
    cases hout : (r.step cfg pol .drain).outcome with
    | some o =>
      left
      have := run_ended' cfg pol (List.replicate (pre.length + 1) .drain) (r.step cfg pol .drain) (by simp [hout])
      simp only [Runner.run, List.replicate_succ, List.foldl_cons] at this
      rw [this]; simp [hout]
    | none =>
      have hbuf : ∃ extra, (r.step cfg pol .drain).buf = pre ++ t :: (post ++ extra) := by
        rw [step_drain cfg pol r x (pre ++ t :: post) ho hb] at hout ⊢
        split
        · rename_i hc; rw [if_pos hc] at hout; simp [Runner.finish] at hout
        · obtain ⟨extra, he⟩ := execCmds_buf_prefix (reduce cfg pol x r.st r.now).2
            (r.logged x (pre ++ t :: post) (reduce cfg pol x r.st r.now).1)
          exact ⟨extra, by rw [he]; simp [Runner.logged]⟩
      obtain ⟨extra, he⟩ := hbuf
      have := C02_buffered_tick_reaches_reducer cfg pol t pre (r.step cfg pol .drain) (post ++ extra) hout he
      simpa only [Runner.run, List.replicate_succ, List.foldl_cons] using this

/-! Non-vacuity on a concrete run: a start step whose output fans out to two accepting steps,
a failed attempt whose retry sits on the timer heap, an external send waiting in the mailbox. -/
def C02.runCfg : Cfg :=
  { steps := [{ name := 0, accepted := [1], numWorkers := 1, hasRetry := false },
              { name := 1, accepted := [5], numWorkers := 1, hasRetry := true },
              { name := 2, accepted := [5, 6], numWorkers := 2, hasRetry := false }] }
def C02.startEv : Ev := { ty := 1, kind := .start, uid := 0 }
def C02.e6 : Ev := { ty := 6, kind := .plain, uid := 2 }
def C02.retryPol : Policy := fun _ _ _ _ => .retry 5
def C02.r0 : Runner := Runner.init C02.runCfg initState 0 (some C02.startEv) (some 100)
/-- start → step 0 returns `e5` (the reducer also schedules an idle check: for one tick nothing is
queued or running) → `e5` is routed to steps 1 and 2 → the idle check finds work → step 1 fails
(retry in 5 s, on the heap) → a caller sends `e6` (mailbox) -/
def C02.sched : List Act :=
  [.drain, .workerDone 0 0 [.result (some C02.e5)], .drain, .drain, .drain,
   .workerDone 1 0 [.failed 9 3], .drain, .external (.addEvent { ev := C02.e6 } none)]
def C02.retryTick : Tick :=
  .addEvent { ev := C02.e5, attempts := some 1, firstAt := some 0, lastExc := some 9, lastFailedAt := some 3 } (some 1)

example : C02.runCfg.WF := by simp [Cfg.WF, Cfg.names, C02.runCfg]
example :
    let r := Runner.run C02.runCfg C02.retryPol C02.r0 C02.sched
    r.outcome = none ∧
    r.reduced = [.addEvent { ev := C02.startEv } none, .stepResult 0 0 C02.startEv [.result (some C02.e5)],
                 .addEvent { ev := C02.e5 } none, .idleCheck, .stepResult 1 0 C02.e5 [.failed 9 3]] ∧
    r.pending = [.timeout 100, C02.retryTick, .addEvent { ev := C02.e6 } none] ∧
    r.running = [{ step := 2, wid := 0, ev := C02.e5 }] := by decide
/-- the event was handed to both accepting steps (one worker started in each) -/
example :
    let r := Runner.run C02.runCfg C02.retryPol C02.r0 (C02.sched.take 4)
    r.running = [{ step := 1, wid := 0, ev := C02.e5 }, { step := 2, wid := 0, ev := C02.e5 }] := by decide
example : createdAtInit C02.runCfg initState 0 (some C02.startEv) (some 100) =
    [.addEvent { ev := C02.startEv } none, .timeout 100] := by decide
example : createdAlong C02.runCfg C02.retryPol C02.r0 C02.sched =
    [.stepResult 0 0 C02.startEv [.result (some C02.e5)], .addEvent { ev := C02.e5 } none, .idleCheck,
     .stepResult 1 0 C02.e5 [.failed 9 3], C02.retryTick, .addEvent { ev := C02.e6 } none] := by decide
/-- later: the mailbox is pulled, time passes, the timer fires, the retry is delivered — every
created tick has now been reduced exactly once, only the run timeout is still pending -/
example :
    let r := Runner.run C02.runCfg C02.retryPol C02.r0
      (C02.sched ++ [.pull, .drain, .advance 5, .timer, .drain])
    r.outcome = none ∧ r.pending = [.timeout 100] ∧
    r.reduced.count C02.retryTick = 1 ∧ r.reduced.count (.addEvent { ev := C02.e6 } none) = 1 ∧
    r.reduced.length = 7 := by decide
/-- `C02_step_output_reaches_reducer` applies: after the second action the buffer holds step 0's result -/
example :
    let r := Runner.run C02.runCfg C02.retryPol C02.r0 (C02.sched.take 2)
    r.outcome = none ∧ r.buf = [.stepResult 0 0 C02.startEv [.result (some C02.e5)]] ∧
    (r.step C02.runCfg C02.retryPol .drain).buf = [.addEvent { ev := C02.e5 } none, .idleCheck] := by decide
/-- a run that ends drops what is pending: the retry and the external event are never reduced -/
example :
    let r := Runner.run C02.runCfg C02.retryPol C02.r0
      (C02.sched ++ [.workerDone 2 0 [.result (some { ty := 9, kind := .stop, uid := 3 })], .drain, .pull, .drain, .timer, .drain])
    r.outcome.isSome = true ∧ r.pending = [.timeout 100, C02.retryTick, .addEvent { ev := C02.e6 } none] ∧
    r.reduced.length = 6 := by decide
example :
    let r := Runner.run C02.runCfg C02.retryPol C02.r0 C02.sched
    (r.reduced ++ r.pending).Perm
      (createdAtInit C02.runCfg initState 0 (some C02.startEv) (some 100) ++
        createdAlong C02.runCfg C02.retryPol C02.r0 C02.sched) :=
  C02_ticks_conserved C02.runCfg C02.retryPol initState 0 (some C02.startEv) (some 100) C02.sched (by decide)
/-- the `lost` slot is real for an **arbitrary** runner state (the theorem above starts anywhere): a
`stepResult` tick for a worker that is not in progress makes the reduction raise (`Worker N not found in
in_progress`), and the runner has already taken the tick off the buffer without logging it.  From
`Runner.init` no reduction raises any more (`C04_crash_unreachable`): a retry policy that raises is caught by
the reducer since the repair of C04/engine_side_failure_no_terminal_event, so there `lostAlong = []`. -/
example :
    let r0 : Runner := { st := initState, buf := [.stepResult 1 0 C02.e5 [.failed 9 3]] }
    (Runner.run C02.runCfg C02.retryPol r0 [.drain]).outcome = some .crashed ∧
    lostAlong C02.runCfg C02.retryPol r0 [.drain] = [.stepResult 1 0 C02.e5 [.failed 9 3]] := by decide
/-- … and the raising policy of the former witness now loses nothing: the run fails with the step's error -/
example :
    let acts : List Act := [.drain, .workerDone 0 0 [.result (some C02.e5)], .drain, .drain, .drain,
      .workerDone 1 0 [.failed 9 3], .drain]
    (Runner.run C02.runCfg (fun _ _ _ _ => .raise) C02.r0 acts).outcome = some (.failed 1 9) ∧
    lostAlong C02.runCfg (fun _ _ _ _ => .raise) C02.r0 acts = [] := by decide

/-! ## The delivery is made: an accepted event waits in a step's queue only for a worker

Routing (`C02_route_count`) puts the event into the step's attempts — on a worker, or into the queue
when all `num_workers` slots are taken.  "Handed to the step" means the invocation is started; these
theorems say the queue is only ever a waiting room for a *busy* step: after every reduction that does
not end the run, and so in every state of every run of the runner that has not ended, a step holding a
queued event has all its workers taken.  In particular a worker that is given back — by a completed
invocation, but just as well by one that suspends in `wait_for_event`, fails into a delayed retry or
fails for good into a `@catch_error` handler — goes to the head of the queue in that very reduction. -/

theorem C02.execCmd_st (r : Runner) (c : Cmd) : (execCmd r c).st = r.st := by
  cases c <;> simp only [execCmd, Runner.finish, Runner.push]
  · rename_i att step delay
    cases delay with
    | none => rfl
    | some d => simp only; split <;> rfl
  · split <;> rfl

theorem C02.execCmds_st : ∀ (cmds : List Cmd) (r : Runner), (execCmds r cmds).st = r.st
  | [], r => rfl
  | c :: cs, r => by
    simp only [execCmds]
    split
    · exact C02.execCmd_st r c
    · rw [C02.execCmds_st cs _, C02.execCmd_st]

/-- **one reduction**: if queued events wait only at fully occupied steps before the tick, then —
unless the tick ends the run — so they do after it, for every kind of tick and every result list -/
theorem C02_queued_event_waits_only_for_a_worker (cfg : Cfg) (hwf : cfg.WF) (pol : Policy) (tick : Tick)
    (st : State) (now : Int)
    (h : ∀ c ∈ cfg.steps, (st.workers c.name).queue ≠ [] → c.numWorkers ≤ (st.workers c.name).inProg.length)
    (hne : (reduce cfg pol tick st now).2.any Cmd.isExit = false) :
    ∀ c ∈ cfg.steps, ((reduce cfg pol tick st now).1.workers c.name).queue ≠ [] →
      c.numWorkers ≤ ((reduce cfg pol tick st now).1.workers c.name).inProg.length :=
  reduce_qInv cfg hwf pol tick st now h hne

def C02.Handed (cfg : Cfg) (r : Runner) : Prop := r.outcome = none → QInv cfg r.st

theorem C02.step_st_of_not_drain (cfg : Cfg) (pol : Policy) (r : Runner) (a : Act) (ha : a ≠ .drain) :
    (r.step cfg pol a).st = r.st := by
  unfold Runner.step
  split
  · rfl
  · cases a with
    | drain => exact absurd rfl ha
    | workerDone s w res =>
      simp only
      split
      · rfl
      · split <;> rfl
    | pull =>
      simp only
      split
      · rfl
      · split <;> rfl
    | timer => simp only; split <;> rfl
    | advance dt => rfl
    | external t => simp only; split <;> rfl
    | stepWrite p => rfl

theorem C02.step_handed (cfg : Cfg) (hwf : cfg.WF) (pol : Policy) (r : Runner) (a : Act)
    (h : C02.Handed cfg r) : C02.Handed cfg (r.step cfg pol a) := by
  intro ho
  cases hr : r.outcome with
  | some o =>
    have : r.step cfg pol a = r := step_ended' cfg pol r a (by simp [hr])
    rw [this] at ho; rw [hr] at ho; cases ho
  | none =>
    have hq := h hr
    cases a with
    | drain =>
      cases hb : r.buf with
      | nil =>
        have : r.step cfg pol .drain = r := by
          unfold Runner.step
          simp [hr, hb]
        rw [this]; exact hq
      | cons t rest =>
        rw [step_drain cfg pol r t rest hr hb] at ho ⊢
        by_cases hc : (reduce cfg pol t r.st r.now).2.contains .crash = true
        · rw [if_pos hc] at ho; simp [Runner.finish] at ho
        · rw [if_neg hc] at ho ⊢
          rw [C02.execCmds_st]
          show QInv cfg (reduce cfg pol t r.st r.now).1
          apply reduce_qInv cfg hwf pol t r.st r.now hq
          have hopen := execCmds_open (reduce cfg pol t r.st r.now).2
            (r.logged t rest (reduce cfg pol t r.st r.now).1) (by exact hr) ho
          rw [List.any_eq_false]
          intro c hcm
          have hce := hopen c hcm
          cases c <;> simp_all [cmdEnds, Cmd.isExit]
    | workerDone s w res => rw [C02.step_st_of_not_drain cfg pol r _ (by simp)]; exact hq
    | pull => rw [C02.step_st_of_not_drain cfg pol r _ (by simp)]; exact hq
    | timer => rw [C02.step_st_of_not_drain cfg pol r _ (by simp)]; exact hq
    | advance dt => rw [C02.step_st_of_not_drain cfg pol r _ (by simp)]; exact hq
    | external t => rw [C02.step_st_of_not_drain cfg pol r _ (by simp)]; exact hq
    | stepWrite p => rw [C02.step_st_of_not_drain cfg pol r _ (by simp)]; exact hq

theorem C02.run_handed (cfg : Cfg) (hwf : cfg.WF) (pol : Policy) :
    ∀ (acts : List Act) (r : Runner), C02.Handed cfg r → C02.Handed cfg (Runner.run cfg pol r acts)
  | [], r, h => h
  | a :: as, r, h => by
    simp only [Runner.run, List.foldl_cons]
    exact C02.run_handed cfg hwf pol as _ (C02.step_handed cfg hwf pol r a h)

theorem C02.init_st (cfg : Cfg) (st0 : State) (now : Int) (start : Option Ev) (timeout : Option Nat) :
    (Runner.init cfg st0 now start timeout).st = (rewind cfg st0 now).1 := by
  unfold Runner.init
  simp only
  rw [C02.execCmds_st]

/-- **whole runs**: in every state of every run of the runner (any start state — a resumed run
first rewinds —, any schedule of drains, finishing workers with arbitrary result lists, timers,
external sends) that has not ended, a step that still holds an accepted-but-not-started event has
all its `num_workers` workers taken: an event is never left waiting beside a free worker -/
theorem C02_accepted_event_started_as_soon_as_a_worker_is_free (cfg : Cfg) (hwf : cfg.WF) (pol : Policy)
    (st0 : State) (now : Int) (start : Option Ev) (timeout : Option Nat) (acts : List Act) :
    let r := Runner.run cfg pol (Runner.init cfg st0 now start timeout) acts
    r.outcome = none →
      ∀ c ∈ cfg.steps, (r.st.workers c.name).queue ≠ [] → c.numWorkers ≤ (r.st.workers c.name).inProg.length := by
  intro r ho
  have h0 : C02.Handed cfg (Runner.init cfg st0 now start timeout) := by
    intro _
    rw [C02.init_st]
    intro c hc
    unfold rewind
    exact rewindLoop_qOk now (sortedSteps cfg) st0 []
      ((sortedSteps_names_perm cfg).nodup_iff.mpr hwf) c (mem_sortedSteps_iff.mpr hc)
  exact C02.run_handed cfg hwf pol acts _ h0 ho

/-- the event a command hands to a step (starts an invocation on) -/
def C02.started : Cmd → Option Ev
  | .runWorker _ e _ => some e
  | _ => none

theorem C02.addOrEnqueue_started (att : Attempt) (step : Nat) (ss : StepState) (nw : Nat) (now : Int)
    (h : IdsOk ss nw) (hlt : ss.inProg.length < nw) :
    (addOrEnqueue att step ss nw now).2.filterMap C02.started = [att.ev] := by
  unfold addOrEnqueue
  simp only [hlt, ↓reduceIte]
  cases hf : freeIds ss nw with
  | nil => exact absurd hf (freeIds_ne_nil h hlt)
  | cons id rest => simp [C02.started]

/-- the drain loop hands the queue over from its head, in order, without dropping or repeating an
event: what it started followed by what it left queued is the queue it found -/
theorem C02.drain_hands_over_in_order (step nw : Nat) (now : Int) :
    ∀ (fuel : Nat) (ss : StepState), IdsOk ss nw →
      (drain step nw now fuel ss).2.filterMap C02.started ++ (drain step nw now fuel ss).1.queue.map (·.ev)
        = ss.queue.map (·.ev)
  | 0, ss, _ => by simp [drain]
  | fuel + 1, ss, h => by
    unfold drain
    split
    · rename_i hq; simp [hq]
    · rename_i a q hq
      split
      · rename_i hlt
        have h1 : IdsOk { ss with queue := q } nw := h
        have ih := C02.drain_hands_over_in_order step nw now fuel _ (addOrEnqueue_idsOk a step _ nw now h1)
        simp only [List.filterMap_append, List.append_assoc]
        rw [ih, C02.addOrEnqueue_started a step _ nw now h1 hlt,
          addOrEnqueue_queue_of_space a step { ss with queue := q } nw now hlt, hq]
        simp
      · simp [hq]

/-- **the freed worker goes to the queue, head first**: the commands of a step-result reduction end
with the starts of a prefix of the step's queue, in queue order, and exactly the rest stays queued —
whatever the result list says (completed, suspended in a wait, failed into a retry or a handler) -/
theorem C02_step_result_hands_queue_over_in_order (cfg : Cfg) (hwf : cfg.WF) (pol : Policy) (step worker : Nat)
    (tickEv : Ev) (res : List Res) (st : State) (now : Int) (h : IdsInv cfg st) :
    ∃ pre post, (processStepResult cfg pol step worker tickEv res st now).2 = pre ++ post ∧
      post.filterMap C02.started ++
          (((processStepResult cfg pol step worker tickEv res st now).1.workers step).queue.map (·.ev))
        = (st.workers step).queue.map (·.ev) := by
  unfold processStepResult
  split
  · exact ⟨[.crash], [], rfl, by simp⟩
  · rename_i hhas
    split
    · exact ⟨[.crash], [], rfl, by simp⟩
    · rename_i exec hfind
      obtain ⟨c, hc⟩ := hasStep_find hhas
      obtain ⟨hcmem, hcname⟩ := Cfg.mem_of_find hc
      subst hcname
      have hnw : cfg.nw c.name = c.numWorkers := Cfg.nw_of_mem hwf hcmem
      have hfold := foldl_applyRes_inProg cfg pol c.name tickEv (res.any isResult) res
        { st := st, exec := exec }
      have hq := foldl_applyRes_queue cfg pol c.name tickEv (res.any isResult) res
        { st := st, exec := exec } c.name
      have hinv : IdsInv cfg (res.foldl (applyRes cfg pol c.name tickEv (res.any isResult))
          { st := st, exec := exec }).st := IdsInv.of_inProg_eq h hfold.1
      have hwid : (res.foldl (applyRes cfg pol c.name tickEv (res.any isResult))
          { st := st, exec := exec }).exec.wid = worker := by
        rw [hfold.2]; exact find?_wid hfind
      simp only
      generalize (res.foldl (applyRes cfg pol c.name tickEv (res.any isResult))
          { st := st, exec := exec }) = acc at hinv hwid hq
      have hss1 := settle_idsOk acc c.name worker tickEv c.numWorkers hwid (hinv c hcmem)
      have hsq := settle_queue acc c.name worker tickEv
      split
      · refine ⟨_, [], (List.append_nil _).symm, ?_⟩
        simp only [State.set, ↓reduceIte, List.filterMap_nil, List.nil_append]
        rw [hsq, hq]
      · refine ⟨_, _, rfl, ?_⟩
        simp only [State.set, ↓reduceIte]
        rw [hnw, C02.drain_hands_over_in_order c.name c.numWorkers now _ _ hss1, hsq, hq]

/-! Non-vacuity: step 1 has one worker; `a` runs, `b` is queued behind it.  The invocation on `a`
then gives its worker back without a step result — it suspends in `wait_for_event`, fails into a
retry that is 5 s away, or fails for good into its `@catch_error` handler (step 2) — and in each
case the same reduction starts `b` on the freed worker and empties the queue. -/
def C02.hoCfg : Cfg :=
  { steps := [{ name := 0, accepted := [1], numWorkers := 1, hasRetry := false },
              { name := 1, accepted := [5], numWorkers := 1, hasRetry := true },
              { name := 2, accepted := [4], numWorkers := 1, hasRetry := false }],
    handlerFor := [(1, 2)], handlers := [(2, 1)] }
def C02.hoA : Ev := { ty := 5, kind := .plain, uid := 1 }
def C02.hoB : Ev := { ty := 5, kind := .plain, uid := 2 }
def C02.hoSt (pol : Policy) : State :=
  (reduce C02.hoCfg pol (.addEvent { ev := C02.hoB } none)
    (reduce C02.hoCfg pol (.addEvent { ev := C02.hoA } none) { initState with isRunning := true } 0).1 0).1
example : C02.hoCfg.WF := by simp [Cfg.WF, Cfg.names, C02.hoCfg]
example : (((C02.hoSt (fun _ _ _ _ => .stop)).workers 1).queue.map (·.ev)) = [C02.hoB] ∧
    (((C02.hoSt (fun _ _ _ _ => .stop)).workers 1).inProg.map (·.ev)) = [C02.hoA] := by decide
example :
    let r := reduce C02.hoCfg (fun _ _ _ _ => .stop)
      (.stepResult 1 0 C02.hoA [.addWaiter 7 none none none 3]) (C02.hoSt (fun _ _ _ _ => .stop)) 1
    r.2.any Cmd.isExit = false ∧ r.2.contains (.runWorker 1 C02.hoB 0) = true ∧ (r.1.workers 1).queue = [] ∧
      ((r.1.workers 1).waiters.map (·.wid)) = [7] := by decide
example :
    let r := reduce C02.hoCfg (fun _ _ _ _ => .retry 5)
      (.stepResult 1 0 C02.hoA [.failed 3 1]) (C02.hoSt (fun _ _ _ _ => .retry 5)) 1
    r.2.any Cmd.isExit = false ∧ r.2.contains (.runWorker 1 C02.hoB 0) = true ∧ (r.1.workers 1).queue = [] := by decide
example :
    let r := reduce C02.hoCfg (fun _ _ _ _ => .stop)
      (.stepResult 1 0 C02.hoA [.failed 3 1]) (C02.hoSt (fun _ _ _ _ => .stop)) 1
    r.2.any Cmd.isExit = false ∧ r.2.contains (.runWorker 1 C02.hoB 0) = true ∧ (r.1.workers 1).queue = [] ∧
      r.2.any (fun c => match c with | .queueEvent att (some 2) none => att.ev.ty == tyStepFailed | _ => false) = true := by
  decide
