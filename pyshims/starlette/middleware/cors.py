class CORSMiddleware:
    def __init__(self, *args, **kwargs):
        self.args = args
        self.kwargs = kwargs
