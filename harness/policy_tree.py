"""Correspondence for the NESTED part of model M2 (`WfModel/PolicyTree.lean`, driver `policytree`) and for
`Context.retry_info()` (C05).

* `tree_correspondence`: stop conditions / retry conditions of nesting depth 1..4, built as real `workflows.retry_policy`
  objects -- named combinators and the operators `|` `&` mixed at every level, operands of the other kind inlined
  (`a | (b & c)`) -- and as prefix-form lines for the driver; `__call__` of the tree, of the condition tree, and the
  composed policy's `next` over them are compared as exact values.
* `bounds_stream`: the attempt bounds the THEOREMS speak about (`STree.cap` / `STree.lo`, answered by the driver) against
  the real retry loop: a step that always fails under `retry_policy(stop=<tree>)` is executed `r` times on a random
  non-decreasing clock; `max(lo,1) <= r <= max(cap,1)` must hold (`C05_attempt_cap_tree`, `C05_attempt_floor_tree`).
* `retry_info_correspondence`: the real `InternalContext.retry_info()` on arbitrary `RetryAttempt` records and clock
  readings against `Policy.retryInfo`.
"""
from __future__ import annotations

import datetime
import random
from typing import Any

import workflows.retry_policy as RP

from . import policy as PL
from .runner import Divergence, Driver, Env, Outcome, Violation, diff_streams

q = PL.q


# --------------------------------------------------------------------------
# generators


def gen_stree(rng: random.Random, depth: int, leaf_gen: Any = None) -> tuple[Any, str, int]:
    """(real object, prefix-form line, depth reached)"""
    leaf_gen = leaf_gen or PL.gen_sleaf
    if depth == 0 or rng.random() < 0.25:
        o, s = leaf_gen(rng)
        return o, "L " + s, 0
    n = rng.choice([0, 1, 2, 2, 2, 3]) if depth == 1 else rng.choice([1, 2, 2, 3])
    kids = [gen_stree(rng, depth - 1 if i == 0 else rng.randrange(depth), leaf_gen) for i in range(n)]
    is_any = rng.random() < 0.5
    objs = [k[0] for k in kids]
    if n >= 2 and rng.random() < 0.5:
        acc = objs[0]
        for o in objs[1:]:
            acc = (acc | o) if is_any else (acc & o)  # left-nested operator chain: same Boolean value as the n-ary combinator
        obj = acc
    else:
        obj = RP.stop_any(*objs) if is_any else RP.stop_all(*objs)
    return obj, f"{'A' if is_any else 'B'} {n} " + " ".join(k[1] for k in kids), 1 + max([k[2] for k in kids], default=0)


def gen_ctree(rng: random.Random, depth: int) -> tuple[Any, str, int]:
    if depth == 0 or rng.random() < 0.25:
        o, s = PL.gen_cleaf(rng)
        return o, "L " + s, 0
    n = rng.choice([0, 1, 2, 2, 3])
    kids = [gen_ctree(rng, depth - 1 if i == 0 else rng.randrange(depth)) for i in range(n)]
    is_any = rng.random() < 0.5
    objs = [k[0] for k in kids]
    if n >= 2 and rng.random() < 0.5:
        acc = objs[0]
        for o in objs[1:]:
            acc = (acc | o) if is_any else (acc & o)
        obj = acc
    else:
        obj = RP.retry_any(*objs) if is_any else RP.retry_all(*objs)
    return obj, f"{'A' if is_any else 'B'} {n} " + " ".join(k[1] for k in kids), 1 + max([k[2] for k in kids], default=0)


def tree_correspondence(env: Env, out: Outcome, n: int) -> None:
    rng = random.Random(env.rng.randrange(1 << 30))
    real_random = RP.random
    RP.random = PL._StubRandomModule  # type: ignore[assignment]
    ops: list[str] = []
    exp: list[str] = []
    try:
        for _ in range(n):
            kind = rng.random()
            attempts = rng.choice([0, 1, 2, 3, 4, 5, 7, 12])
            el = rng.choice([0, 0.5, 1, 2.5, 5, 10, 100, 4000, 100000])
            if kind < 0.45:
                s, ss, d = gen_stree(rng, rng.randint(1, 4))
                up = rng.choice([0, 0.5, 2, 5])
                ops.append(f"nstop {ss} {attempts} {q(el)} {q(up)}")
                exp.append("1" if s(attempts, el, upcoming_sleep=up) else "0")
                out.count(f"tree:stop:depth{d}")
            elif kind < 0.6:
                if rng.random() < 0.1:
                    c, cs, d = None, "CN", 0
                else:
                    c, cs, d = gen_ctree(rng, rng.randint(1, 3))
                e = rng.randrange(10)
                ops.append(f"ncond {cs} {e}")
                exp.append("none" if c is None else ("1" if c(PL.mk_exc(e)) else "0"))
                out.count(f"tree:cond:depth{d}")
            else:
                if rng.random() < 0.3:
                    c, cs = None, "CN"
                else:
                    c, cs, _d = gen_ctree(rng, rng.randint(1, 3))
                w, ws = PL.gen_wait(rng)
                s, ss, d = gen_stree(rng, rng.randint(1, 4))
                seed = rng.randrange(257)
                e = rng.randrange(10)
                pol = RP.retry_policy(retry=c, wait=w, stop=s)
                ops.append(f"nnext {cs} {ws} {ss} {q(el)} {attempts} {e} {q(seed / 256.0)}")
                exp.append(PL.fmt(pol.next(el, attempts, PL.mk_exc(e), seed=seed)))
                out.count(f"tree:next:depth{d}:" + ("none" if exp[-1] == "none" else "delay"))
            out.evaluations += 1
            out.nontrivial(ops[-1])
    finally:
        RP.random = real_random  # type: ignore[assignment]
    # malformed lines: the driver refuses them, nothing is evaluated on the implementation
    bad = ["nstop A 2 L att 3/1", "nstop X 1 2 3", "nnext CN WL fixed 1/1 A 1 0/1 1 1 0/1", "bounds", "rinfo 1 2", "ncond L in 1 3"]
    for s in ops[:3]:
        out.sample({"op": s})
    try:
        mo = Driver("policytree").run(ops + bad)
    except Exception as ex:
        out.divergences.append(Divergence("policytree", 0, "<driver>", repr(ex), ""))
        return
    out.traces_validated += len(ops)
    out.disagreements_checked += len(ops)
    d = diff_streams("policytree", ops + bad, mo, exp + ["bad-op"] * len(bad))
    if d is not None:
        out.divergences.append(d)


# --------------------------------------------------------------------------
# the theorems' attempt bounds against the real retry loop


def _budget_leaf(rng: random.Random) -> tuple[Any, str]:
    """leaves for budget trees: attempt limits (ints and, rarely, a float), delay limits, stop_before_delay, stop_never"""
    r = rng.random()
    if r < 0.55:
        a = rng.choice([0, 1, 2, 3, 4, 5, 7, 2.5, -1])
        return RP.stop_after_attempt(a), f"att {q(a)}"
    if r < 0.75:
        d = rng.choice([0, 1, 2, 5, 10, 3600])
        return RP.stop_after_delay(PL._td(rng, d)), f"del {q(d)}"
    if r < 0.85:
        d = rng.choice([1, 2, 5, 10, 3600])
        return RP.stop_before_delay(PL._td(rng, d)), f"bef {q(d)}"
    return RP.stop_never(), "never"


WINDOW = 40


def bounds_stream(env: Env, out: Outcome, n: int) -> None:
    rng = random.Random(env.rng.randrange(1 << 30))
    cases: list[dict] = []
    ops: list[str] = []
    for _ in range(n):
        obj, line, depth = gen_stree(rng, rng.randint(1, 4), _budget_leaf)
        w = rng.choice([0, 0.5, 1, 2, 30])
        pol = RP.retry_policy(stop=obj, wait=RP.wait_fixed(w))
        # a non-decreasing clock: the elapsed time handed to next() at the k-th failure
        step = rng.choice([0, 0.25, 1, 3, 1000])
        el = 0.0
        runs = None
        els = []
        for k in range(1, WINDOW + 1):
            el += step * rng.choice([0, 1, 1, 2])
            els.append(el)
            if pol.next(el, k, PL.mk_exc(0), seed=0) is None:
                runs = k
                break
        cases.append({"tree": line, "wait": w, "elapsed": els, "runs": runs, "depth": depth})
        ops.append("bounds " + line)
        out.evaluations += 1
        out.nontrivial(("bounds", line, w, step))
    try:
        mo = Driver("policytree").run(ops)
    except Exception as ex:
        out.divergences.append(Divergence("policytree", 0, "<driver>", repr(ex), ""))
        return
    out.traces_validated += len(ops)
    for case, ans in zip(cases, mo):
        try:
            cap_s, lo_s = ans.split()
        except ValueError:
            out.divergences.append(Divergence("policytree", 0, "bounds " + case["tree"], ans, "<cap> <lo>"))
            return
        cap = None if cap_s == "inf" else int(cap_s)
        lo = None if lo_s == "inf" else int(lo_s)
        runs = case["runs"]
        out.count("bounds:" + ("exact" if cap is not None and cap == lo else "capped" if cap is not None else "never" if lo is None else "clock-decided"))
        bad = None
        if cap is not None and max(cap, 1) <= WINDOW and (runs is None or runs > max(cap, 1)):
            bad = f"executed {runs if runs is not None else f'more than {WINDOW}'} times, the attempt limits of the tree cap it at {max(cap, 1)}"
        elif lo is None and runs is not None:
            bad = f"gave up after {runs} executions, but no path of the tree can ever stop"
        elif lo is not None and runs is not None and runs < min(max(lo, 1), WINDOW):
            bad = f"gave up after {runs} executions, no clock can make the tree true before failure {max(lo, 1)}"
        if bad is not None:
            out.violations.append(Violation("C05/executions_outside_tree_bounds",
                                            f"stop tree {case['tree']} with wait_fixed({case['wait']}), elapsed times {case['elapsed'][:8]}…: {bad}",
                                            {"tree": case["tree"], "wait": case["wait"], "elapsed": case["elapsed"]}))
    if cases:
        out.sample({"bounds": cases[0]["tree"], "runs": cases[0]["runs"]})


# --------------------------------------------------------------------------
# Context.retry_info()


class _Clock:
    def __init__(self) -> None:
        self.now = 0.0

    def time(self) -> float:
        return self.now


def retry_info_correspondence(env: Env, out: Outcome, n: int) -> None:
    import workflows.context.internal_context as IC
    from workflows.runtime.types import results as R

    rng = random.Random(env.rng.randrange(1 << 30))
    clock = _Clock()
    saved = IC.time
    IC.time = clock  # type: ignore[assignment]
    ctx = object.__new__(IC.InternalContext)
    ops: list[str] = []
    exp: list[str] = []
    try:
        # hand-picked first: first attempt, retry, falsy first_attempt_at, clock behind the first attempt
        corpus = [(0, 10.0, None, None, 15.0), (2, 10.0, 7, 12.0, 15.0), (1, 0.0, 3, 1.0, 9.0), (1, 10.0, 3, 10.0, 7.5),
                  (-1, 10.0, None, None, 20.0), (3, 1000.25, 9, 1000.25, 1000.25)]
        for i in range(n):
            if i < len(corpus):
                num, first, exc, failed, now = corpus[i]
            else:
                num = rng.choice([-1, 0, 0, 1, 1, 2, 3, 5, 12])
                first = rng.choice([0.0, 0.5, 10.0, 1000.25, 86400.0, 1.5e6])
                exc = rng.choice([None, rng.randrange(10)]) if num <= 0 or rng.random() < 0.2 else rng.randrange(10)
                failed = None if exc is None and rng.random() < 0.8 else first + rng.choice([0, 0.5, 3, 60])
                now = first + rng.choice([-3, 0, 0.5, 7, 3600, 86400.5])
            ra = R.RetryAttempt(retry_number=num, first_attempt_at=first, last_exception=None if exc is None else PL.mk_exc(exc),
                                last_failed_at=failed)
            sctx = R.StepWorkerContext(state=R.StepWorkerState(step_name="s", collected_events={}, collected_waiters=[]),
                                       returns=R.Returns(return_values=[]), retry=ra)
            tok = R.StepWorkerStateContextVar.set(sctx)
            clock.now = now
            try:
                ri = ctx.retry_info()
            finally:
                R.StepWorkerStateContextVar.reset(tok)
            got_exc = "_" if ri.last_exception is None else str(ri.last_exception.args[0])[1:]
            got_failed = "_" if ri.last_failed_at is None else q(ri.last_failed_at.timestamp())
            if ri.last_failed_at is not None and ri.last_failed_at.tzinfo != datetime.timezone.utc:
                out.violations.append(Violation("C05/retry_info_failed_at_not_utc", f"retry_info().last_failed_at = {ri.last_failed_at!r}", {"case": [num, first, exc, failed, now]}))
            # (S) what RetryInfo documents, stated on the implementation alone: the record's number, exception and failure time;
            # elapsed_seconds is 0.0 on the first attempt and the seconds since the first attempt began on a retry
            case = {"retry_number": num, "first_attempt_at": first, "last_exception": exc, "last_failed_at": failed, "now": now}
            if ri.retry_number != num or got_exc != ("_" if exc is None else str(exc)) or got_failed != ("_" if failed is None else q(failed)):
                out.violations.append(Violation("C05/retry_info_record", f"retry_info() of the record {case} reports retry_number={ri.retry_number}, "
                                                f"last_exception={ri.last_exception!r}, last_failed_at={ri.last_failed_at!r}", {"case": case}))
            if num == 0 and ri.elapsed_seconds != 0.0:
                out.violations.append(Violation("C05/retry_info_elapsed:first_attempt", f"retry_info() on the first attempt ({case}) reports elapsed_seconds={ri.elapsed_seconds}", {"case": case}))
            if num >= 1 and first > 0 and now >= first and ri.elapsed_seconds != now - first:
                out.violations.append(Violation("C05/retry_info_elapsed:retry", f"retry_info() on retry {num} ({case}) reports elapsed_seconds={ri.elapsed_seconds}, "
                                                f"{now - first} seconds have passed since the first attempt began", {"case": case}))
            ops.append(f"rinfo {num} {q(first)} {'_' if exc is None else exc} {'_' if failed is None else q(failed)} {q(now)}")
            exp.append(f"{ri.retry_number} {q(ri.elapsed_seconds)} {got_exc} {got_failed}")
            out.evaluations += 1
            out.count("retry_info:" + ("first" if num <= 0 else "retry") + (":falsy_first_at" if not first else "") + (":clock_behind" if now < first else ""))
            out.nontrivial(ops[-1])
    finally:
        IC.time = saved  # type: ignore[assignment]
    out.sample({"op": ops[1], "impl": exp[1]})
    try:
        mo = Driver("policytree").run(ops)
    except Exception as ex:
        out.divergences.append(Divergence("policytree", 0, "<driver>", repr(ex), ""))
        return
    out.traces_validated += len(ops)
    out.disagreements_checked += len(ops)
    d = diff_streams("policytree", ops, mo, exp)
    if d is not None:
        out.divergences.append(d)
