import WfProofs.EngineIdle
import WfProofs.EngineTelemetry
import WfModel.Runner
/-!
# C03 — queued work never stalls; idleness is reported only when truly idle

First sentence (work conservation): **proved** for every tick history.
Second sentence (idle soundness): the part the reducer can see is **proved**
(`C03_idle_reducer_sound`); the full statement — which also speaks of scheduled
retries and of events already delivered to the run — is **refuted** on the
faithful runner model by two machine-checked witnesses that replay on the real
code (known findings C03/idle_with_pending_retry_timer and
C03/idle_with_undelivered_event).
-/
open Engine

def C03.reach (cfg : Cfg) (pol : Policy) (st0 : State) (now0 : Int) (ticks : List (Tick × Int)) :
    State × Bool :=
  ticks.foldl (fun acc tn =>
      let r := reduce cfg pol tn.1 acc.1 tn.2
      (r.1, acc.2 || r.2.any Cmd.isExit))
    ((rewind cfg st0 now0).1, false)

/-- **Work conservation**: along any tick history, as long as no tick has ended the run,
every step with a non-empty queue has all `num_workers` slots busy. -/
theorem C03_work_conserving (cfg : Cfg) (hwf : cfg.WF) (pol : Policy) (st0 : State) (now0 : Int)
    (ticks : List (Tick × Int)) (hlive : (C03.reach cfg pol st0 now0 ticks).2 = false) :
    ∀ c ∈ cfg.steps,
      ((C03.reach cfg pol st0 now0 ticks).1.workers c.name).queue ≠ [] →
        ((C03.reach cfg pol st0 now0 ticks).1.workers c.name).inProg.length = c.numWorkers := by
  unfold C03.reach at hlive ⊢
  have hq0 : QInv cfg (rewind cfg st0 now0).1 := by
    intro c hc
    unfold rewind
    exact rewindLoop_qOk now0 (sortedSteps cfg) st0 []
      ((sortedSteps_names_perm cfg).nodup_iff.mpr hwf) c (mem_sortedSteps_iff.mpr hc)
  have hi0 : IdsInv cfg (rewind cfg st0 now0).1 := rewind_idsInv_fresh cfg hwf st0 now0
  suffices h : ∀ (st : State) (b : Bool), QInv cfg st → IdsInv cfg st →
      (ticks.foldl (fun acc tn => let r := reduce cfg pol tn.1 acc.1 tn.2
        (r.1, acc.2 || r.2.any Cmd.isExit)) (st, b)).2 = false →
      QInv cfg (ticks.foldl (fun acc tn => let r := reduce cfg pol tn.1 acc.1 tn.2
        (r.1, acc.2 || r.2.any Cmd.isExit)) (st, b)).1 ∧
      IdsInv cfg (ticks.foldl (fun acc tn => let r := reduce cfg pol tn.1 acc.1 tn.2
        (r.1, acc.2 || r.2.any Cmd.isExit)) (st, b)).1 by
    obtain ⟨hq, hi⟩ := h _ false hq0 hi0 hlive
    intro c hc hne
    exact Nat.le_antisymm (hi c hc).length_le (hq c hc hne)
  clear hlive
  induction ticks with
  | nil => intro st b hq hi _; exact ⟨hq, hi⟩
  | cons tn rest ih =>
    intro st b hq hi hl
    simp only [List.foldl_cons] at hl ⊢
    have hb : (b || (reduce cfg pol tn.1 st tn.2).2.any Cmd.isExit) = false := by
      -- the flag is monotone: if it were true here it would stay true
      cases hflag : (b || (reduce cfg pol tn.1 st tn.2).2.any Cmd.isExit) with
      | false => rfl
      | true =>
        rw [hflag] at hl
        have hmono : ∀ (l : List (Tick × Int)) (s : State),
            (l.foldl (fun acc tn => let r := reduce cfg pol tn.1 acc.1 tn.2
              (r.1, acc.2 || r.2.any Cmd.isExit)) (s, true)).2 = true := by
          intro l
          induction l with
          | nil => intro s; rfl
          | cons x xs ihx => intro s; simp only [List.foldl_cons, Bool.true_or]; exact ihx _
        rw [hmono] at hl; cases hl
    simp only [Bool.or_eq_false_iff] at hb
    exact ih _ _ (reduce_qInv cfg hwf pol tn.1 st tn.2 hq hb.2)
      (reduce_idsInv cfg hwf pol tn.1 st tn.2 hi) hl

/-- **Idle announcements are sound as far as the reducer can see**: whenever a tick emits
`WorkflowIdleEvent` or `UnhandledEvent(idle=True)`, the run is marked running and every
step's queue and in-progress table is empty. -/
theorem C03_idle_reducer_sound (cfg : Cfg) (pol : Policy) (tick : Tick) (st : State) (now : Int)
    (h : (reduce cfg pol tick st now).2.any isIdlePub = true) :
    (reduce cfg pol tick st now).1.isRunning = true ∧
      ∀ c ∈ cfg.steps, ((reduce cfg pol tick st now).1.workers c.name).queue = [] ∧
        ((reduce cfg pol tick st now).1.workers c.name).inProg = [] :=
  checkIdle_quiet (reduce_idle_quiet cfg pol tick st now h)

/-! ## The full idle-soundness statement and its refutation -/

def C03.isAddEvent : Tick → Bool | .addEvent _ _ => true | _ => false

/-- nothing can happen without new external input: no delayed retry in the timer heap,
no delivered-but-unprocessed event in the mailbox or the buffer -/
def C03.TrulyIdle (r : Runner) : Bool :=
  !(r.heap.any (fun t => C03.isAddEvent t.tick)) && !(r.mailbox.any C03.isAddEvent) &&
    !(r.buf.any C03.isAddEvent)

/-- the property's second sentence on the runner model: whenever an action appends an idle
announcement to the stream, the run is truly idle -/
def C03_idle_sound_statement : Prop :=
  ∀ (cfg : Cfg) (pol : Policy) (start : Ev) (acts : List Act) (a : Act),
    let r := Runner.run cfg pol (Runner.init cfg initState 0 (some start) none) acts
    let r' := r.step cfg pol a
    r'.stream = r.stream ++ [.idle] → C03.TrulyIdle r' = true

def C03.w1Cfg : Cfg := { steps := [{ name := 0, accepted := [0], numWorkers := 1, hasRetry := true }] }
def C03.startEv : Ev := { ty := 0, kind := .start, uid := 1 }
def C03.w1Acts : List Act := [.drain, .workerDone 0 0 [.failed 7 0], .drain]
def C03.w2Cfg : Cfg :=
  { steps := [{ name := 0, accepted := [0], numWorkers := 1, hasRetry := false },
              { name := 1, accepted := [5], numWorkers := 1, hasRetry := false }] }
def C03.xEv : Ev := { ty := 5, kind := .plain, uid := 2 }
def C03.w2Acts : List Act :=
  [.drain, .external (.addEvent { ev := C03.xEv } none), .workerDone 0 0 [.result none], .drain]

/-- W1 (F05): a step fails, its retry is scheduled 3 s ahead, and the idle check that was
queued by the same tick announces idleness while the retry sits in the timer heap. -/
theorem C03_refuted_timer :
    let r := Runner.run C03.w1Cfg (fun _ _ _ _ => .retry 3) (Runner.init C03.w1Cfg initState 0 (some C03.startEv) none) C03.w1Acts
    let r' := r.step C03.w1Cfg (fun _ _ _ _ => .retry 3) .drain
    r'.stream = r.stream ++ [.idle] ∧ C03.TrulyIdle r' = false := by decide

/-- W2 (F06): a step did `ctx.send_event(X)`; the tick is in the mailbox when the step's
result is reduced, but the idle check is processed before the next mailbox pull. -/
theorem C03_refuted_mailbox :
    let r := Runner.run C03.w2Cfg (fun _ _ _ _ => .stop) (Runner.init C03.w2Cfg initState 0 (some C03.startEv) none) C03.w2Acts
    let r' := r.step C03.w2Cfg (fun _ _ _ _ => .stop) .drain
    r'.stream = r.stream ++ [.idle] ∧ C03.TrulyIdle r' = false := by decide

theorem C03_refuted : ¬ C03_idle_sound_statement := by
  intro h
  have h1 := h C03.w1Cfg (fun _ _ _ _ => .retry 3) C03.startEv C03.w1Acts .drain
  have h2 := C03_refuted_timer
  simp only at h1 h2
  rw [h1 h2.1] at h2
  exact absurd h2.2 (by decide)

/-! Non-vacuity of the positive theorems -/
example : C03.w2Cfg.WF := by simp [Cfg.WF, Cfg.names, C03.w2Cfg]
example :
    let r := C03.reach C03.w2Cfg (fun _ _ _ _ => .stop) initState 0
      [(.addEvent { ev := C03.xEv } none, 0), (.addEvent { ev := { C03.xEv with uid := 3 } } none, 0)]
    (r.2, ((r.1.workers 1).queue.length, (r.1.workers 1).inProg.length)) = (false, (1, 1)) := by decide
