import WfModel.GenKeyedLock
/-!
# M6 — `KeyedLock` (llama_agents/server/_keyed_lock.py) over `asyncio.Lock` (CPython 3.12)

Labelled transition system whose actions are exactly the await-free sections of
the code, per acquisition ("agent" = one `async with locks(key)` by one task):

* `enter a`  — `async with main: create-if-absent; refs += 1`, then (no await in
  between) `Lock.acquire()` on the per-key lock: fast path (lock free and every
  queued future cancelled) → control is inside the critical section; otherwise a
  fresh future is appended to the FIFO `_waiters` and the task suspends.
* `cancel a` — `Task.cancel()`: a pending future is cancelled (the task is
  scheduled but has not run), a future that already has its result keeps it and
  the task is flagged `_must_cancel`; anything else does not touch lock state.
* `resume a` — the scheduled task step of a waiter whose future is done: either
  `_waiters.remove(fut); _locked = True` (woken), or the `CancelledError` path
  `_waiters.remove(fut); if not _locked: _wake_up_first()` followed, without an
  await, by KeyedLock's `finally` (main section: `refs -= 1`, delete at zero).
* `exit a`   — control leaves the critical section for any reason (return,
  exception, cancellation in the body): `Lock.release()` (`_locked = False;
  _wake_up_first()`), then the `finally` main section.

The state is a function from key to per-key state, plus the main lock bit.
Error branches of the code are explicit (`Err`).
-/
namespace KeyedLock

/-- State of a waiter's future together with the owning task's cancel flag. -/
inductive Fut where
  | pending          -- not done
  | woken            -- `set_result(True)` by `_wake_up_first`, task not resumed yet
  | cancelled        -- `fut.cancel()` succeeded (Task.cancel while pending), task not resumed yet
  | wokenCancelled   -- has its result, then Task.cancel() set `_must_cancel`
  deriving DecidableEq, Repr

def Fut.isWoken : Fut → Bool
  | .woken => true | .wokenCancelled => true | _ => false

/-- `fut.done()` -/
def Fut.done : Fut → Bool
  | .pending => false | _ => true

/-- `fut.cancelled()` -/
def Fut.futCancelled : Fut → Bool
  | .cancelled => true | _ => false

/-- `asyncio.Lock`: `_locked`, `_waiters` (FIFO; agent id, future). -/
structure Lock where
  locked : Bool
  waiters : List (Nat × Fut)
  deriving DecidableEq, Repr

/-- Everything the KeyedLock knows about one key, plus the control state
`inside` (agents between the `yield` and the `finally`). -/
structure KeySt where
  lock : Option Lock := none      -- `_locks.get(key)`
  refs : Option Int := none       -- `_refs.get(key)`
  inside : List Nat := []
  deriving DecidableEq, Repr

inductive Err where
  | disabled          -- the action is not enabled (scheduler cannot do this)
  | keyError          -- dict lookup / del on a missing key
  | releaseUnlocked   -- RuntimeError('Lock is not acquired.')
  | mainWouldBlock    -- the main lock was taken: the section would not be atomic
  | lostLock          -- the per-key lock object is no longer in `_locks`
  deriving DecidableEq, Repr

inductive KAct where
  | enter (a : Nat) | resume (a : Nat) | cancel (a : Nat) | exit (a : Nat)
  deriving DecidableEq, Repr

def findW (a : Nat) : List (Nat × Fut) → Option Fut
  | [] => none
  | w :: r => if w.1 = a then some w.2 else findW a r

/-- `deque.remove(fut)` -/
def removeW (a : Nat) : List (Nat × Fut) → List (Nat × Fut)
  | [] => []
  | w :: r => if w.1 = a then r else w :: removeW a r

def setW (a : Nat) (f : Fut) : List (Nat × Fut) → List (Nat × Fut)
  | [] => []
  | w :: r => if w.1 = a then (a, f) :: r else w :: setW a f r

/-- `Lock._wake_up_first` -/
def wakeFirst : List (Nat × Fut) → List (Nat × Fut)
  | (a, .pending) :: r => (a, .woken) :: r
  | ws => ws

/-- fast-path test of `Lock.acquire` -/
def Lock.fastPath (l : Lock) : Bool :=
  !l.locked && l.waiters.all (fun w => w.2.futCancelled)

def present (a : Nat) (st : KeySt) : Bool :=
  st.inside.contains a ||
    (match st.lock with | none => false | some l => (findW a l.waiters).isSome)

/-- `async with self._get_main_lock(): body` where `body` has no await. -/
def mainSection (main : Bool) (body : Except Err KeySt) : Except Err KeySt :=
  if main then .error .mainWouldBlock else body

/-- `if key not in _locks: _locks[key] = Lock(); _refs[key] = 0` ; `_refs[key] += 1` -/
def register (st : KeySt) : Except Err KeySt :=
  let st1 : KeySt := match st.lock with
    | none => { st with lock := some ⟨false, []⟩, refs := some GenKeyedLock.refInit }
    | some _ => st
  match st1.refs with
  | none => .error .keyError
  | some n => .ok { st1 with refs := some (n + GenKeyedLock.refInc) }

/-- `_refs[key] -= 1; if _refs[key] == 0: del _locks[key]; del _refs[key]` -/
def deregister (st : KeySt) : Except Err KeySt :=
  match st.refs with
  | none => .error .keyError
  | some n =>
    let n' := n - GenKeyedLock.refDec
    if n' = GenKeyedLock.delAt then
      match st.lock with
      | none => .error .keyError
      | some _ => .ok { st with lock := none, refs := none }
    else .ok { st with refs := some n' }

/-- `async with self._locks[key]:` up to the first suspension -/
def acquire (a : Nat) (st : KeySt) : Except Err KeySt :=
  match st.lock with
  | none => .error .keyError
  | some l =>
    if l.fastPath then
      .ok { st with lock := some { l with locked := true }, inside := st.inside ++ [a] }
    else
      .ok { st with lock := some { l with waiters := l.waiters ++ [(a, .pending)] } }

def kstep (main : Bool) (st : KeySt) : KAct → Except Err KeySt
  | .enter a =>
    if present a st then .error .disabled else
    match mainSection main (register st) with
    | .error e => .error e
    | .ok st1 => acquire a st1
  | .cancel a =>
    match st.lock with
    | none => .ok st
    | some l =>
      match findW a l.waiters with
      | some .pending => .ok { st with lock := some { l with waiters := setW a .cancelled l.waiters } }
      | some .woken => .ok { st with lock := some { l with waiters := setW a .wokenCancelled l.waiters } }
      | _ => .ok st
  | .resume a =>
    match st.lock with
    | none => .error .disabled
    | some l =>
      match findW a l.waiters with
      | none => .error .disabled
      | some .pending => .error .disabled
      | some .woken =>
        .ok { st with lock := some ⟨true, removeW a l.waiters⟩, inside := st.inside ++ [a] }
      | some _ =>
        let ws := removeW a l.waiters
        let ws' := if l.locked then ws else wakeFirst ws
        mainSection main (deregister { st with lock := some ⟨l.locked, ws'⟩ })
  | .exit a =>
    if !st.inside.contains a then .error .disabled else
    match st.lock with
    | none => .error .lostLock
    | some l =>
      if !l.locked then .error .releaseUnlocked else
      mainSection main
        (deregister { st with lock := some ⟨false, wakeFirst l.waiters⟩, inside := st.inside.erase a })

/-- Whole KeyedLock: main lock bit and the per-key slots (`_locks`, `_refs`). -/
structure KL where
  main : Bool := false
  slot : Nat → KeySt := fun _ => {}

structure Act where
  key : Nat
  act : KAct
  deriving DecidableEq, Repr

def KL.set (s : KL) (k : Nat) (st : KeySt) : KL :=
  { s with slot := fun x => if x = k then st else s.slot x }

def step (s : KL) (x : Act) : Except Err KL :=
  match kstep s.main (s.slot x.key) x.act with
  | .ok st => .ok (s.set x.key st)
  | .error e => .error e

/-- disabled / failing actions leave the state unchanged -/
def stepD (s : KL) (x : Act) : KL :=
  match step s x with
  | .ok s' => s'
  | .error _ => s

def init : KL := {}

def run (acts : List Act) (s : KL := init) : KL := acts.foldl stepD s

/-- per-key run (used by the proofs; `main = false`) -/
def kstepD (st : KeySt) (x : KAct) : KeySt :=
  match kstep false st x with
  | .ok st' => st'
  | .error _ => st

/-! ### progress vocabulary -/

/-- number of queue entries ahead of `a` -/
def idxW (a : Nat) : List (Nat × Fut) → Nat
  | [] => 0
  | w :: r => if w.1 = a then 0 else idxW a r + 1

/-- `a` is queued and neither it nor its future has been cancelled -/
def live (st : KeySt) (a : Nat) : Bool :=
  match st.lock with
  | none => false
  | some l => findW a l.waiters == some .pending || findW a l.waiters == some .woken

/-- well-founded measure: twice the FIFO position, plus one while the lock is held -/
def measure (st : KeySt) (a : Nat) : Nat :=
  match st.lock with
  | none => 0
  | some l => 2 * idxW a l.waiters + (if l.locked then 1 else 0)

/-- the two kinds of step fairness is about: the holder leaves, or the
(scheduled) task at the head of the queue runs -/
def isProgress (st : KeySt) : KAct → Bool
  | .exit b => st.inside.contains b
  | .resume b =>
    match st.lock with
    | some l => (match l.waiters with | (c, f) :: _ => c == b && f.done | [] => false)
    | none => false
  | _ => false

def empty (st : KeySt) : Bool := st.lock.isNone && st.refs.isNone && st.inside.isEmpty

end KeyedLock
