"""Constants and control shape of KeyedLock.__call__ -> lean/WfModel/GenKeyedLock.lean.

Re-read from /repo's current `_keyed_lock.py` on every run.  The model
(`WfModel/KeyedLock.lean`) computes with these constants and `C25_source_shape`
pins the control shape the model's atomic actions are cut along.
"""
from __future__ import annotations

import ast

from ..boot import repo_path

LEAN_MODULE = "GenKeyedLock"
SRC = "packages/llama-agents-server/src/llama_agents/server/_keyed_lock.py"
MISSING = -999


def _is_refs_subscript(n: ast.AST) -> bool:
    return (isinstance(n, ast.Subscript) and isinstance(n.value, ast.Attribute) and n.value.attr == "_refs")


def _const_int(n: ast.AST):
    if isinstance(n, ast.Constant) and isinstance(n.value, int) and not isinstance(n.value, bool):
        return n.value
    if isinstance(n, ast.UnaryOp) and isinstance(n.op, ast.USub) and isinstance(n.operand, ast.Constant):
        return -n.operand.value
    return None


def _contains(node: ast.AST, pred) -> bool:
    return any(pred(x) for x in ast.walk(node))


def extract(notes: list[str]) -> dict:
    res = {"refInit": MISSING, "refInc": MISSING, "refDec": MISSING, "delAt": MISSING, "awaitCount": 999,
           "asyncWithCount": 999, "yieldInsideKeyLockWith": False, "registerBeforeTry": False,
           "deregisterInFinally": False}
    try:
        tree = ast.parse(open(repo_path(SRC)).read())
    except (OSError, SyntaxError) as e:
        notes.append(f"gen/keyed_lock: cannot parse {SRC}: {e!r}")
        return res
    fn = None
    for c in ast.walk(tree):
        if isinstance(c, ast.ClassDef) and c.name == "KeyedLock":
            for f in c.body:
                if isinstance(f, (ast.AsyncFunctionDef, ast.FunctionDef)) and f.name == "__call__":
                    fn = f
    if fn is None:
        notes.append("gen/keyed_lock: KeyedLock.__call__ not found")
        return res
    inits, incs, decs, dels = [], [], [], []
    for n in ast.walk(fn):
        if isinstance(n, ast.Assign) and len(n.targets) == 1 and _is_refs_subscript(n.targets[0]):
            inits.append(_const_int(n.value))
        if isinstance(n, ast.AugAssign) and _is_refs_subscript(n.target):
            if isinstance(n.op, ast.Add):
                incs.append(_const_int(n.value))
            elif isinstance(n.op, ast.Sub):
                decs.append(_const_int(n.value))
            else:
                notes.append("gen/keyed_lock: unexpected augmented assignment on _refs")
                incs.append(None)
        if isinstance(n, ast.If) and isinstance(n.test, ast.Compare) and len(n.test.ops) == 1 \
                and isinstance(n.test.ops[0], ast.Eq) and _is_refs_subscript(n.test.left) \
                and _contains(n, lambda x: isinstance(x, ast.Delete)):
            dels.append(_const_int(n.test.comparators[0]))
    for name, vals in (("refInit", inits), ("refInc", incs), ("refDec", decs), ("delAt", dels)):
        if len(vals) == 1 and vals[0] is not None:
            res[name] = vals[0]
        else:
            notes.append(f"gen/keyed_lock: expected exactly one constant for {name}, found {vals}")
    res["awaitCount"] = sum(isinstance(n, ast.Await) for n in ast.walk(fn))
    res["asyncWithCount"] = sum(isinstance(n, ast.AsyncWith) for n in ast.walk(fn))
    is_yield = lambda x: isinstance(x, (ast.Yield, ast.YieldFrom))
    # the yield sits inside an `async with <lock object>` (not the `async with self._get_main_lock()` call)
    for n in ast.walk(fn):
        if isinstance(n, ast.AsyncWith) and any(_contains(b, is_yield) for b in n.body):
            ctx = n.items[0].context_expr
            if len(n.items) == 1 and not isinstance(ctx, ast.Call):
                res["yieldInsideKeyLockWith"] = True
    # top-level statement order: register (+=) before the try holding the yield; deregister (-=) in its finally
    is_inc = lambda x: isinstance(x, ast.AugAssign) and _is_refs_subscript(x.target) and isinstance(x.op, ast.Add)
    is_dec = lambda x: isinstance(x, ast.AugAssign) and _is_refs_subscript(x.target) and isinstance(x.op, ast.Sub)
    seen_inc = False
    for stmt in fn.body:
        if isinstance(stmt, ast.Try) and any(_contains(b, is_yield) for b in stmt.body):
            res["registerBeforeTry"] = seen_inc and not _contains(stmt, is_inc)
            res["deregisterInFinally"] = (any(_contains(b, is_dec) for b in stmt.finalbody)
                                          and not any(_contains(b, is_dec) for b in stmt.body))
        elif _contains(stmt, is_inc):
            seen_inc = True
    return res


# ---------------------------------------------------------------------------------------------
# extension (C25 x): the rest of KeyedLock (constructor, lazy main lock, create/delete guards) and the
# shape of the `asyncio.Lock` of the running interpreter, which `WfModel/KeyedLock.lean` models
# (`Lock.fastPath`, FIFO append, `removeW` in the `finally`, `wakeFirst` on the cancellation path only
# when unlocked, `release`, `_wake_up_first` waking only a not-done head).


def _same(node: ast.AST | None, expected_src: str, mode: str = "exec") -> bool:
    """structural equality of an AST node with the parse of `expected_src`"""
    if node is None:
        return False
    exp = ast.parse(expected_src, mode=mode)
    exp_node = exp.body if mode == "eval" else exp.body[0]
    return ast.dump(node) == ast.dump(exp_node)


def _strip_doc(body: list[ast.stmt]) -> list[ast.stmt]:
    if body and isinstance(body[0], ast.Expr) and isinstance(getattr(body[0], "value", None), ast.Constant) \
            and isinstance(body[0].value.value, str):
        return body[1:]
    return body


def extract_ext(notes: list[str]) -> dict:
    res = {"initEmptyState": False, "mainLockLazyOnce": False, "keyLockIsAsyncioLock": False, "createGuardedByAbsent": False,
           "delBothAtZero": False, "lockFastPathShape": False, "lockAppendsFifo": False, "lockRemoveInFinally": False,
           "lockCancelWakesIfUnlocked": False, "lockReleaseShape": False, "lockWakeFirstShape": False,
           "lockAcquireAwaits": 999}
    try:
        tree = ast.parse(open(repo_path(SRC)).read())
        cls = next(c for c in ast.walk(tree) if isinstance(c, ast.ClassDef) and c.name == "KeyedLock")
        fns = {f.name: f for f in cls.body if isinstance(f, (ast.FunctionDef, ast.AsyncFunctionDef))}
    except (OSError, SyntaxError, StopIteration) as e:
        notes.append(f"gen/keyed_lock(ext): cannot find KeyedLock in {SRC}: {e!r}")
        return res
    init = fns.get("__init__")
    if init is not None:
        assigned = {}
        for st in _strip_doc(init.body):
            tgt = st.target if isinstance(st, ast.AnnAssign) else (st.targets[0] if isinstance(st, ast.Assign) and len(st.targets) == 1 else None)
            val = getattr(st, "value", None)
            if isinstance(tgt, ast.Attribute) and isinstance(tgt.value, ast.Name) and tgt.value.id == "self":
                assigned[tgt.attr] = val
        res["initEmptyState"] = (set(assigned) == {"_main_lock", "_locks", "_refs"}
                                 and _same(assigned["_main_lock"], "None", "eval")
                                 and _same(assigned["_locks"], "{}", "eval") and _same(assigned["_refs"], "{}", "eval"))
    gml = fns.get("_get_main_lock")
    if gml is not None:
        body = _strip_doc(gml.body)
        res["mainLockLazyOnce"] = (len(body) == 2
                                   and _same(body[0], "if self._main_lock is None:\n    self._main_lock = asyncio.Lock()")
                                   and _same(body[1], "return self._main_lock"))
    call = fns.get("__call__")
    if call is not None:
        creates = [n for n in ast.walk(call) if isinstance(n, ast.If) and _same(n.test, "key not in self._locks", "eval")]
        if len(creates) == 1 and not creates[0].orelse:
            res["createGuardedByAbsent"] = True
            res["keyLockIsAsyncioLock"] = any(_same(x, "self._locks[key] = asyncio.Lock()") for x in creates[0].body)
        zeros = [n for n in ast.walk(call) if isinstance(n, ast.If) and isinstance(n.test, ast.Compare)
                 and _is_refs_subscript(n.test.left)]
        if len(zeros) == 1 and not zeros[0].orelse:
            dumped = sorted(ast.dump(x) for x in zeros[0].body)
            want = sorted(ast.dump(ast.parse(t).body[0]) for t in ("del self._locks[key]", "del self._refs[key]"))
            res["delBothAtZero"] = dumped == want
    # asyncio.Lock of the interpreter that runs the check (and the correspondence)
    try:
        import asyncio.locks as al
        import inspect
        ltree = ast.parse(inspect.getsource(al))
        lcls = next(c for c in ltree.body if isinstance(c, ast.ClassDef) and c.name == "Lock")
        lf = {f.name: f for f in lcls.body if isinstance(f, (ast.FunctionDef, ast.AsyncFunctionDef))}
        acq, rel, wake = lf["acquire"], lf["release"], lf["_wake_up_first"]
    except Exception as e:  # noqa: BLE001 - any failure = unknown shape
        notes.append(f"gen/keyed_lock(ext): cannot read asyncio.locks.Lock: {e!r}")
        return res
    abody = _strip_doc(acq.body)
    res["lockAcquireAwaits"] = sum(isinstance(n, ast.Await) for n in ast.walk(acq))
    if abody and isinstance(abody[0], ast.If):
        res["lockFastPathShape"] = (
            _same(abody[0].test, "not self._locked and (self._waiters is None or all(w.cancelled() for w in self._waiters))", "eval")
            and len(abody[0].body) == 2 and _same(abody[0].body[0], "self._locked = True") and _same(abody[0].body[1], "return True")
            and not abody[0].orelse)
    appends = [n for n in ast.walk(acq) if isinstance(n, ast.Call) and isinstance(n.func, ast.Attribute)
               and isinstance(n.func.value, ast.Attribute) and n.func.value.attr == "_waiters"]
    res["lockAppendsFifo"] = (sorted(n.func.attr for n in appends) == ["append", "remove"]
                              and any(_same(n, "self._waiters.append(fut)", "eval") for n in appends))
    outer = [n for n in abody if isinstance(n, ast.Try)]
    if len(outer) == 1 and len(outer[0].body) == 1 and isinstance(outer[0].body[0], ast.Try):
        inner = outer[0].body[0]
        res["lockRemoveInFinally"] = (len(inner.body) == 1 and _same(inner.body[0], "await fut") and not inner.handlers
                                      and len(inner.finalbody) == 1 and _same(inner.finalbody[0], "self._waiters.remove(fut)"))
        hs = outer[0].handlers
        if len(hs) == 1 and not outer[0].finalbody and isinstance(hs[0].type, ast.Attribute) and hs[0].type.attr == "CancelledError":
            res["lockCancelWakesIfUnlocked"] = (len(hs[0].body) == 2
                                                and _same(hs[0].body[0], "if not self._locked:\n    self._wake_up_first()")
                                                and _same(hs[0].body[1], "raise"))
        tail = abody[abody.index(outer[0]) + 1:]
        if not (len(tail) == 2 and _same(tail[0], "self._locked = True") and _same(tail[1], "return True")):
            res["lockRemoveInFinally"] = False
    rbody = _strip_doc(rel.body)
    res["lockReleaseShape"] = (len(rbody) == 1 and isinstance(rbody[0], ast.If) and _same(rbody[0].test, "self._locked", "eval")
                               and len(rbody[0].body) == 2 and _same(rbody[0].body[0], "self._locked = False")
                               and _same(rbody[0].body[1], "self._wake_up_first()")
                               and len(rbody[0].orelse) == 1 and isinstance(rbody[0].orelse[0], ast.Raise))
    wbody = _strip_doc(wake.body)
    res["lockWakeFirstShape"] = (
        len(wbody) == 3 and _same(wbody[0], "if not self._waiters:\n    return")
        and isinstance(wbody[1], ast.Try) and len(wbody[1].body) == 1 and _same(wbody[1].body[0], "fut = next(iter(self._waiters))")
        and _same(wbody[2], "if not fut.done():\n    fut.set_result(True)"))
    for k, v in res.items():
        if v is False:
            notes.append(f"gen/keyed_lock(ext): shape `{k}` not recognised")
    return res


def generate(notes: list[str]) -> list[str]:
    r = extract(notes)
    x = extract_ext(notes)
    b = lambda v: "true" if v else "false"
    ext = [f"def {k} : Bool := {b(v)}" for k, v in x.items() if isinstance(v, bool)]
    ext.append(f"def lockAcquireAwaits : Nat := {x['lockAcquireAwaits']}")
    return _base(r, b)[:-1] + ext + ["end GenKeyedLock"]


def _base(r: dict, b) -> list[str]:
    return [
        "namespace GenKeyedLock",
        f"def refInit : Int := {r['refInit']}",
        f"def refInc : Int := {r['refInc']}",
        f"def refDec : Int := {r['refDec']}",
        f"def delAt : Int := {r['delAt']}",
        f"def awaitCount : Nat := {r['awaitCount']}",
        f"def asyncWithCount : Nat := {r['asyncWithCount']}",
        f"def yieldInsideKeyLockWith : Bool := {b(r['yieldInsideKeyLockWith'])}",
        f"def registerBeforeTry : Bool := {b(r['registerBeforeTry'])}",
        f"def deregisterInFinally : Bool := {b(r['deregisterInFinally'])}",
        "end GenKeyedLock",
    ]
