#!/bin/bash
# usage: tools/confirm_seeded.sh <seeded-id>: demo passes on /repo, fails on the patched tree; pinned suite passes on the patched tree
ROOT=${VERIF_ROOT:-$(cd "$(dirname "$0")/.." && pwd)}   # the checkout this script lives in (a worktree of /verif works too)
id=$1
d=$ROOT/seeded/$id
wt=/tmp/cw_$$
git -C /repo worktree add -q --detach $wt HEAD || exit 9
git -C $wt apply $d/patch.diff || { echo "$id: patch does not apply"; git -C /repo worktree remove --force $wt; exit 3; }
(cd /tmp && timeout 300 /venv/bin/python $d/demo.py /repo >/tmp/cs_clean_$$.txt 2>&1); rc_clean=$?
(cd /tmp && timeout 300 /venv/bin/python $d/demo.py $wt >/tmp/cs_mut_$$.txt 2>&1); rc_mut=$?
(cd $wt && /venv/bin/python -m pytest -q -p no:cacheprovider --timeout=900 tests/dev_cli 2>&1 | tail -1 > /tmp/cs_tests_$$.txt)
tests=$(cat /tmp/cs_tests_$$.txt)
echo "$id: demo on /repo exit=$rc_clean ($(tail -1 /tmp/cs_clean_$$.txt | cut -c1-80)); demo on patched exit=$rc_mut ($(tail -1 /tmp/cs_mut_$$.txt | cut -c1-120)); pinned: $tests"
python3 - "$d/meta.json" "$rc_clean" "$rc_mut" "$tests" <<'PY'
import json,sys
p,rc,rm,t=sys.argv[1:5]
m=json.load(open(p))
m["confirmed"]={"demo_on_unchanged_tree_exit":int(rc),"demo_on_patched_tree_exit":int(rm),"pinned_suite_on_patched_tree":t,
 "ran":"tools/confirm_seeded.sh: git worktree of /repo HEAD + git apply patch.diff; /venv/bin/python demo.py /repo; /venv/bin/python demo.py <patched>; pytest tests/dev_cli in the patched tree"}
json.dump(m,open(p,"w"),indent=1)
PY
git -C /repo worktree remove --force $wt
rm -f /tmp/cs_*_$$.txt
