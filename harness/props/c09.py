"""C09 — collect_events returns each full set once without losing events."""
from __future__ import annotations

import random
from typing import Any

from ..engine import monitors, suite
from ..runner import Divergence, Driver, Env, Outcome, Violation, diff_streams

THEOREMS = ["C09_empty_expected", "C09_complete_iff", "C09_complete_ordered", "C09_complete_perm", "C09_pending_add",
            "C09_dropped_iff_surplus", "C09_reducer_fresh_add", "C09_reducer_stale_rerun", "C09_reducer_stale_rerun_all_buffers", "C09_stale_rerun_tick", "C09_reducer_rerun_skips", "C09_reducer_delete",
            "C09_drain_keeps_buffers", "C09_single_flight_partition", "C09_single_flight_once", "C09_refuted_double_count",
            "C09_complete_only_received", "C09_conc_single_flight_refines", "C09_conc_lists_ordered_received", "C09_conc_trigger_in_one_list",
            "C09_conc_no_double_buffering", "C09_refuted_conc_buffer_invariant", "C09_refuted_conc_none_lost",
            "C09_conc_finish_refines_reducer", "C09_conc_start_refines_admission", "C09_collect_source_shape"]
EXPLANATION = (
    "Lean: collectEvents (model of InternalContext.collect_events) returns a list iff buffer+event has exactly the expected "
    "multiset of types (under the buffer invariant, which pending adds preserve), ordered as `expected`, a permutation of "
    "buffer+event; only surplus events of a satisfied type are not kept; the reducer appends on a fresh snapshot, re-runs the "
    "invocation on the same slot on a stale (shorter) snapshot with a snapshot EQUAL to the live buffers, buffer by buffer, whatever "
    "the old snapshot held (also the remains of a round that completed meanwhile; C09_stale_rerun_tick: through the whole result "
    "tick), clears exactly the completed buffer; for every arrival order and "
    "any number of repeated collections with one invocation in flight, returned lists + buffer + surplus partition the arrived "
    "events (each event in at most one list, none lost). Refuted for two invocations in flight (C09_refuted_double_count): "
    "known findings two_completions_same_snapshot / dropped_against_stale_snapshot, replayed on the real engine. Tie: CE ops "
    "(real collect_events on generated snapshots, incl. ill-formed buffers), CR ops (real _reduce_tick + real collect_events "
    "driven single-flight over whole arrival sequences), reducer/runner correspondence (direct pairs incl. in-progress snapshots "
    "that are no prefix of the live buffer). Search: the re-run rule recomputed from (state, tick) on every direct pair and every "
    "live result tick (C09/rerun_snapshot_not_fresh), the snapshot each invocation works on vs. the live buffer it was started / "
    "re-run against, per-call, per-result-tick and whole-run monitors on live fan-in workflows with 1..4 workers under "
    "scheduler-controlled interleavings, incl. three-type rounds where one invocation outlives a completed round (span family). "
    "Every schedule with any number of invocations in flight (WfModel/CollectConc.lean, invariant by induction over admissions and "
    "finishes): lists ordered as expected and made of admitted events, the completing event of a list is in no other list and was never "
    "buffered, nothing is buffered twice, an event in flight is counted nowhere (C09_conc_*); the histories are the reducer's "
    "(C09_conc_finish_refines_reducer / _start_refines_admission) and, single-flight, the collectRound histories; the only-when clause "
    "for any snapshot (C09_complete_only_received); BufOK of the live buffer and no-loss refuted at history level with a two-worker "
    "witness replayed on the real reducer + collect_events (stream engine-collect-concurrent, op C09CH, 1..4 workers); 32 decision "
    "expressions of collect_events / the collect branches / the admission pinned from the sources (C09_collect_source_shape)."
)
ASSUMPTIONS = suite.ENGINE_ASSUMPTIONS + [
    "event classes are compared by exact type, as the code does (Counter over type(e)); subclasses are distinct class ids",
    "a step body that raises after collect_events returned None is outside the generated scripts (its AddCollectedEvent is applied and the retry adds the event again)",
]

PLAIN = [5, 6, 7, 8]


def _ce_corr(env: Env, out: Outcome, n: int) -> None:
    from workflows.context.internal_context import InternalContext
    from workflows.runtime.types import results as R

    from ..engine import enc
    from ..engine import evtypes as ET

    rng = random.Random(env.rng.randrange(1 << 30))
    _IC = object.__new__(InternalContext)
    ops, exp = [], []
    uid = [0]

    def mkev(t: int) -> Any:
        uid[0] += 1
        return ET.mk(t, uid[0], rng.choice([None, 1, 2]))

    for _ in range(n):
        k = rng.choice([0, 1, 2, 2, 3, 3, 4])
        expected = [rng.choice(PLAIN[: rng.choice([1, 2, 3, 4])]) for _ in range(k)]
        mode = rng.random()
        if mode < 0.7 and expected:
            # a sub-multiset of expected, in random order (the buffer invariant holds)
            pool = expected[:]
            rng.shuffle(pool)
            coll_t = pool[: rng.randint(0, len(pool))]
            if rng.random() < 0.5 and len(coll_t) == len(pool) and coll_t:
                coll_t = coll_t[:-1]
        else:
            coll_t = [rng.choice(PLAIN + [12]) for _ in range(rng.randint(0, 4))]
        coll = [mkev(t) for t in coll_t]
        ev = mkev(rng.choice(expected) if expected and rng.random() < 0.8 else rng.choice(PLAIN + [12]))
        bufname = rng.choice([None, "default", "b01", "b02"])
        others = {"b07": [mkev(5)]} if rng.random() < 0.2 else {}
        snap = dict(others)
        key = bufname or "default"
        if coll or rng.random() < 0.5:
            snap[key] = list(coll)
        returns = R.Returns(return_values=[])
        tok = R.StepWorkerStateContextVar.set(R.StepWorkerContext(
            state=R.StepWorkerState(step_name="s01", collected_events=snap, collected_waiters=[]), returns=returns))
        try:
            try:
                got = InternalContext.collect_events(_IC, ev, [ET.TYPES[t] for t in expected], buffer_id=bufname)  # type: ignore[arg-type]
                err = None
            except Exception as e:  # noqa: BLE001
                got, err = None, type(e).__name__
        finally:
            R.StepWorkerStateContextVar.reset(tok)
        rv = returns.return_values
        if err is not None:
            res = "raise " + err
        elif got is not None and not expected:
            res = "empty" if (got == [] and not rv) else f"?? {got!r} {rv!r}"
        elif got is None:
            res = "pending " + ("_" if not rv else " ".join(enc.res(r) for r in rv))
        else:
            dl = [r for r in rv if isinstance(r, R.DeleteCollectedEvent)]
            res = "complete " + enc.lst([enc.ev(e) for e in got])
            if len(rv) != 1 or len(dl) != 1 or dl[0].event_id != key:
                res += f" ?? {rv!r}"
        ops.append("CE %s %s %s %s" % (enc.lst([str(t) for t in expected]), enc.buf_id(key), enc.lst([enc.ev(e) for e in coll]), enc.ev(ev)))
        exp.append(res)
        out.evaluations += 1
        out.count("ce:" + res.split(" ")[0] + (":surplus" if res == "pending _" else ""))
        if expected and got is not None:
            out.nontrivial(ops[-1])
        # direct statement of the property on the implementation's answer
        if expected:
            from collections import Counter
            inv = all(Counter(coll_t)[t] <= Counter(expected)[t] for t in coll_t)
            full = Counter(coll_t + [ET.TY_ID[type(ev)]]) == Counter(expected)
            case = {"direct": {"expected": expected, "collected": coll_t, "ev": ET.TY_ID[type(ev)], "buf": bufname}}
            if inv and (got is not None) != full:
                out.violations.append(Violation("C09/returned_iff_full_set", f"expected {expected}, buffer {coll_t}, event {ET.TY_ID[type(ev)]}: returned {got!r}", case))
            if got is not None and [ET.TY_ID[type(e)] for e in got] != expected:
                out.violations.append(Violation("C09/not_ordered_as_expected", f"expected {expected}: returned types {[ET.TY_ID[type(e)] for e in got]}", case))
            if got is not None and inv and sorted(e.uid for e in got) != sorted([e.uid for e in coll] + [ev.uid]):
                out.violations.append(Violation("C09/list_is_not_buffer_plus_event", f"returned {[e.uid for e in got]}", case))
    _drive(out, "engine-collect", ops, exp)


def _cr_corr(env: Env, out: Outcome, n: int) -> None:
    """whole arrival sequences through the REAL reducer and the REAL collect_events, one invocation in flight"""
    from workflows.context.internal_context import InternalContext
    from workflows.decorators import StepConfig
    from workflows.runtime import control_loop as CL
    from workflows.runtime.types import commands as C
    from workflows.runtime.types import results as R
    from workflows.runtime.types import ticks as T
    from workflows.runtime.types.internal_state import BrokerConfig, BrokerState, InternalStepConfig, InternalStepWorkerState

    from ..engine import enc
    from ..engine import evtypes as ET

    rng = random.Random(env.rng.randrange(1 << 30))
    _IC = object.__new__(InternalContext)
    ops, exp = [], []
    for _ in range(n):
        k = rng.choice([1, 2, 2, 3, 3, 4])
        expected = [rng.choice(PLAIN[: rng.choice([1, 2, 3])]) for _ in range(k)]
        acc = sorted(set(expected + ([rng.choice(PLAIN)] if rng.random() < 0.3 else [])))
        m = rng.randint(1, 12)
        arrivals = [ET.mk(rng.choice(acc), 100 + i, None) for i in range(m)]
        icfg = InternalStepConfig(accepted_events=[ET.TYPES[t] for t in acc], retry_policy=None, num_workers=1)
        sc = StepConfig(accepted_events=[ET.TYPES[t] for t in acc], event_name="ev", return_types=[], context_parameter=None,
                        num_workers=1, retry_policy=None, resources=[])
        st = BrokerState(is_running=True, config=BrokerConfig(steps={"s01": icfg}, timeout=None, catch_error_handlers={}, handler_for_step={}),
                         workers={"s01": InternalStepWorkerState(queue=[], config=sc, in_progress=[], collected_events={}, collected_waiters=[])})
        returned: list[list] = []
        dropped: list = []
        ok = True
        for ev in arrivals:
            st, cmds = CL._reduce_tick(T.TickAddEvent(event=ev), st, 1000.0, run_id="r")
            runs = [c for c in cmds if isinstance(c, C.CommandRunWorker)]
            if len(runs) != 1:
                ok = False
                break
            ip = st.workers["s01"].in_progress[0]
            returns = R.Returns(return_values=[])
            tok = R.StepWorkerStateContextVar.set(R.StepWorkerContext(state=ip.shared_state, returns=returns))
            try:
                got = InternalContext.collect_events(_IC, ev, [ET.TYPES[t] for t in expected])  # type: ignore[arg-type]
            except Exception:  # noqa: BLE001 - the step wrapper turns this into a step failure
                ok = False
                break
            finally:
                R.StepWorkerStateContextVar.reset(tok)
            returns.return_values.append(R.StepWorkerResult(result=None))
            if got is not None:
                returned.append(got)
            elif not any(isinstance(r, R.AddCollectedEvent) for r in returns.return_values):
                dropped.append(ev)
            st, cmds = CL._reduce_tick(T.TickStepResult(step_name="s01", worker_id=ip.worker_id, event=ev, result=returns.return_values), st, 1000.0, run_id="r")
            if st.workers["s01"].in_progress:
                ok = False
                break
        live = st.workers["s01"].collected_events.get("default", [])
        from collections import Counter as _C
        have, need = _C(ET.TY_ID[type(e)] for e in live), _C(expected)
        if ok and all(have[t] >= need[t] for t in need):
            # a complete set sits in the buffer and was never handed to the step: those events are as good as lost
            out.violations.append(Violation("C09/full_set_stuck_in_buffer",
                                            f"expected {expected}, arrivals {[ET.TY_ID[type(e)] for e in arrivals]}: the buffer ends as {[ET.TY_ID[type(e)] for e in live]}, which holds a full set that was never returned",
                                            {"direct_cr": {"expected": expected, "arrivals": [ET.TY_ID[type(e)] for e in arrivals]}}))
        res = "B %s R %s D %s" % (enc.lst([enc.ev(e) for e in live]), enc.lst([enc.lst([enc.ev(e) for e in l]) for l in returned]),
                                  enc.lst([enc.ev(e) for e in dropped])) if ok else "collect-raised-or-not-single-flight"
        ops.append("CR %s %s" % (enc.lst([str(t) for t in expected]), enc.lst([enc.ev(e) for e in arrivals])))
        exp.append(res)
        out.evaluations += 1
        out.count(f"cr:lists:{min(len(returned), 4)}")
        if returned:
            out.nontrivial(ops[-1])
        # the property, directly: partition of the arrivals
        uids = sorted(e.uid for l in returned for e in l) + sorted(e.uid for e in live) + sorted(e.uid for e in dropped)
        if ok and sorted(uids) != sorted(e.uid for e in arrivals):
            out.violations.append(Violation("C09/single_flight_not_a_partition",
                                            f"expected {expected}, arrivals {[ (e.uid, ET.TY_ID[type(e)]) for e in arrivals]}: lists {[[e.uid for e in l] for l in returned]}, buffer {[e.uid for e in live]}, surplus {[e.uid for e in dropped]}",
                                            {"direct_cr": {"expected": expected, "arrivals": [ET.TY_ID[type(e)] for e in arrivals]}}))
    _drive(out, "engine-collect-rounds", ops, exp)


def _drive(out: Outcome, name: str, ops: list[str], exp: list[str]) -> None:
    try:
        mo = Driver("engine").run(ops)
    except Exception as ex:  # noqa: BLE001
        out.divergences.append(Divergence(name, 0, "<driver>", repr(ex), ""))
        return
    out.traces_validated += len(ops)
    out.disagreements_checked += len(ops)
    d = diff_streams(name, ops, mo, exp)
    if d is not None:
        out.divergences.append(d)


def run(env: Env) -> Outcome:
    out = Outcome()
    out.rule = ("CE: (expected, snapshot, event) triples, 70% with the buffer invariant; CR: arrival sequences of 1..12 events through the real "
                "reducer + collect_events; C09CH: schedules of arrivals / finishes for 1..4 workers (1..14 arrivals, bias 0.3..0.7, 30% stop mid-flight) through the real reducer + collect_events; direct (state, tick) pairs with prefix and earlier-round snapshots; live: fan-in workflows (collecting "
                "step with 1..3 workers, gates), span fan-in (3 types, 2..3 rounds, a held straggler) and general specs under random "
                "schedules; non-trivial = a list was returned / more than 2 ticks; distinct by op line / (spec, schedule)")
    case = (env.replay or {}).get("payload", {}).get("case") if env.replay is not None else None
    if isinstance(case, dict) and "direct_pair" in case:
        # a (state, tick) pair of the direct stream: regenerated from its generator seed, monitored alone
        dp = case["direct_pair"]
        suite.direct_corr(env, out, dp["index"] + 1, gen_kwargs=dp.get("gen_kwargs") or {}, pair_monitor=monitors.c09_rerun_check,
                          gen_seed=dp["gen_seed"], only_index=dp["index"])
    # the corpus (hand-picked sequences, the witnesses of the open findings) and a replayed live case run first
    suite.live_runs(env, out, 0, [monitors.mon_c09], extra_specs=suite.load_corpus("C09"))
    _ce_corr(env, out, env.budget(4000, 80000))
    # any number of invocations in flight: generated schedules through the real reducer + collect_events vs. the concurrent
    # histories of WfModel/CollectConc.lean (op C09CH); the Lean witness C09.concWitness runs first
    from ..engine import c09x
    c09x.conc_corr(env, out, env.budget(1200, 24000), replay_case=case["conc"] if isinstance(case, dict) and "conc" in case else None)
    _cr_corr(env, out, env.budget(1500, 30000))
    suite.direct_corr(env, out, env.budget(1500, 30000), gen_kwargs={"span_snapshots": True}, pair_monitor=monitors.c09_rerun_check)
    suite.live_runs(env, out, env.budget(60, 1200), [monitors.mon_c09])
    suite.live_runs(env, out, env.budget(300, 6000), [monitors.mon_c09], gen_kwargs={"family": "fanin"})
    suite.live_runs(env, out, env.budget(60, 1200), [monitors.mon_c09], gen_kwargs={"family": "span"})
    return out
