import WfModel.Lifecycle
/-!
M7 (B): the lifecycle row and the release / resume protocol around it — invariants for every schedule.
-/
set_option linter.unusedVariables false
set_option linter.unusedSimpArgs false
namespace Lifecycle

/-! the CAS constants, as extracted from the SQL of `journal/lifecycle.py` -/
@[simp] theorem createTo_eq : createTo = .active := by decide
@[simp] theorem beginFrom_eq : beginFrom = .active := by decide
@[simp] theorem beginTo_eq : beginTo = .releasing := by decide
@[simp] theorem completeFrom_eq : completeFrom = .releasing := by decide
@[simp] theorem completeTo_eq : completeTo = .released := by decide
@[simp] theorem resumeTo_eq : resumeTo = .active := by decide
@[simp] theorem returnsWin_eq : LState.ofName GenLifecycle.sqlite_resume_returnsWin = .released := by decide
@[simp] theorem returnsBusy_eq : LState.ofName GenLifecycle.sqlite_resume_returnsBusy = .releasing := by decide
theorem crashExpired_eq (a b : Nat) : GenLifecycle.crashExpired a b = decide (a > b) := rfl

/-- the two-statement form of `try_begin_resume` (SELECT, decision, UPDATE without state predicate) equals the
single atomic action — provided nothing else touches the row in between (keyed lock / row lock) -/
theorem tryBeginResume_twoStatements (db : DB) (now : Nat) (ct : Option Nat) :
    dbTryBeginResumeTwoStatements db now ct = dbTryBeginResume db now ct := by
  unfold dbTryBeginResumeTwoStatements dbTryBeginResume dbSelect dbUpdateNoPredicate
  cases db <;> simp

/-- is the newest CAS win a release win -/
def headRel (l : List Win) : Option Bool := l.head?.map Win.isRelease

theorem altWins_cons (w : Win) (l : List Win) :
    altWins (w :: l) = ((match headRel l with | none => true | some b => w.isRelease != b) && altWins l) := by
  cases l <;> simp [altWins, headRel]

/-- releaser `i` is inside a release it began at time `t` -/
def relAt (rel : Nat → RPc) (i t : Nat) : Bool :=
  match rel i with
  | .won t' => t' == t
  | .sentRelease t' _ => t' == t
  | _ => false

structure BInv (s : Sys) : Prop where
  alt : altWins s.wins = true
  hd : headRel s.wins = (match s.db with | none => none | some r => some (decide (r.st ≠ .active)))
  rinv : ∀ r, s.db = some r → r.st = .releasing →
    (match s.holder with | some i => relAt s.rel i r.upd | none => false) = true
  updLe : ∀ r, s.db = some r → r.upd ≤ s.now
  tk : ∀ k ∈ s.takeovers, GenLifecycle.crashExpired (k.at_ - k.began) crashTimeout = true

theorem BInv.init : BInv {} := by
  constructor <;> simp [altWins, headRel]

macro "bdestruct" h:ident : tactic =>
  `(tactic| (simp only [Lifecycle.bstep] at $h:ident
             repeat' (split at $h:ident)
             all_goals (first | (cases $h:ident; done) | (simp only [Option.some.injEq] at $h:ident; subst $h:ident))))

/-- actions that leave the row, the win history, the holder and the takeover records alone -/
theorem BInv.frame (s s' : Sys) (h : BInv s) (hdb : s'.db = s.db) (hw : s'.wins = s.wins) (hh : s'.holder = s.holder)
    (htk : s'.takeovers = s.takeovers) (hn : s.now ≤ s'.now)
    (hrel : ∀ i t, relAt s.rel i t = true → relAt s'.rel i t = true) : BInv s' := by
  refine ⟨by rw [hw]; exact h.alt, by rw [hw, hdb]; exact h.hd, ?_, ?_, by rw [htk]; exact h.tk⟩
  · intro r h1 h2
    rw [hdb] at h1
    have := h.rinv r h1 h2
    rw [hh]
    cases hho : s.holder with
    | none => rw [hho] at this; exact this
    | some i => rw [hho] at this; exact hrel i _ this
  · intro r h1; rw [hdb] at h1; have := h.updLe r h1; omega

theorem relAt_upd_other (rel : Nat → RPc) (i j t : Nat) (v : RPc) (h : relAt rel j t = true) (hi : relAt rel i t = false) :
    relAt (upd rel i v) j t = true := by
  have : j ≠ i := by intro e; subst e; rw [h] at hi; cases hi
  simp [relAt, upd_apply, this] at h ⊢; exact h

theorem BInv.step (s s' : Sys) (a : BAct) (h : bstep s a = some s') (hi : BInv s) : BInv s' := by
  cases a with
  | tick dt => bdestruct h; exact hi.frame _ _ rfl rfl rfl rfl (by simp) (fun _ _ h => h)
  | create =>
    bdestruct h
    rename_i hnone
    have hdb : s.db = none := by simpa using hnone
    have hw : s.wins = [] := by
      have := hi.hd; rw [hdb] at this
      simp only [headRel, Option.map_eq_none_iff, List.head?_eq_none_iff] at this; exact this
    refine ⟨by simp [hw, altWins], by simp [headRel, dbCreate, Win.isRelease], ?_, ?_, hi.tk⟩
    · intro r h1 h2; simp [dbCreate] at h1; subst h1; simp at h2
    · intro r h1; simp [dbCreate] at h1; subst h1; simp
  | rSpawn i =>
    bdestruct h
    rename_i hc; simp only [beq_iff_eq] at hc
    exact hi.frame _ _ rfl rfl rfl rfl (Nat.le_refl _) (fun j t hj => relAt_upd_other _ _ _ _ _ hj (by simp [relAt, hc]))
  | rCrash i => bdestruct h <;> exact hi.frame _ _ rfl rfl rfl rfl (Nat.le_refl _) (fun _ _ h => h)
  | uSpawn k => bdestruct h; exact hi.frame _ _ rfl rfl rfl rfl (Nat.le_refl _) (fun _ _ h => h)
  | uSend k => bdestruct h <;> exact hi.frame _ _ rfl rfl rfl rfl (Nat.le_refl _) (fun _ _ h => h)
  | uFinish k => bdestruct h; exact hi.frame _ _ rfl rfl rfl rfl (Nat.le_refl _) (fun _ _ h => h)
  | wfStep => bdestruct h <;> exact hi.frame _ _ rfl rfl rfl rfl (Nat.le_refl _) (fun _ _ h => h)
  | rSend i =>
    bdestruct h
    rename_i x t hrel hcr
    refine hi.frame _ _ rfl rfl rfl rfl (Nat.le_refl _) ?_
    intro j t' hj
    by_cases e : j = i
    · subst e; simp [relAt, hrel] at hj; simp [relAt, upd_apply, hj]
    · simp [relAt, upd_apply, e] at hj ⊢; exact hj
  | rBegin i =>
    rcases hdb : s.db with _ | ⟨st, u⟩
    · -- no row: the CAS matches nothing
      simp [bstep, hdb, dbBeginRelease] at h
      obtain ⟨hc, rfl⟩ := h
      exact hi.frame _ _ (by simp [hdb]) rfl rfl rfl (Nat.le_refl _)
        (fun j t hj => relAt_upd_other _ _ _ _ _ hj (by simp [relAt, hc.1]))
    · cases st
      · -- active: the CAS wins
        simp [bstep, hdb, dbBeginRelease] at h
        obtain ⟨hc, rfl⟩ := h
        have hhd := hi.hd; rw [hdb] at hhd; simp at hhd
        refine ⟨?_, ?_, ?_, ?_, hi.tk⟩
        · simp [altWins_cons, hhd, Win.isRelease, hi.alt]
        · simp [headRel, Win.isRelease]
        · intro r h1 _; simp at h1; subst h1; simp [relAt, upd_apply]
        · intro r h1; simp at h1; subst h1; simp
      all_goals (
        simp [bstep, hdb, dbBeginRelease] at h
        obtain ⟨hc, rfl⟩ := h
        exact hi.frame _ _ (by simp [hdb]) rfl rfl rfl (Nat.le_refl _)
          (fun j t hj => relAt_upd_other _ _ _ _ _ hj (by simp [relAt, hc.1])))
  | rComplete i =>
    bdestruct h
    all_goals (
      rename_i x t inc hrel hc hh
      have hhd := hi.hd
      refine ⟨hi.alt, ?_, ?_, ?_, hi.tk⟩
      · rcases hdb : s.db with _ | ⟨st, u⟩ <;> (try cases st) <;> simp_all [dbCompleteRelease]
      · intro r h1 h2
        rcases hdb : s.db with _ | ⟨st, u⟩ <;> (try cases st) <;> simp_all [dbCompleteRelease] <;>
          (subst h1; simp at h2)
      · intro r h1
        have := hi.updLe
        rcases hdb : s.db with _ | ⟨st, u⟩ <;> (try cases st) <;> simp_all [dbCompleteRelease] <;>
          (try (subst h1; simp)))
  | uTry k =>
    rcases hdb : s.db with _ | ⟨st, u⟩
    · simp [bstep, hdb, dbTryBeginResume] at h
      obtain ⟨hc, rfl⟩ := h
      exact hi.frame _ _ (by simp [hdb]) rfl rfl rfl (Nat.le_refl _) (fun _ _ h => h)
    · have hhd := hi.hd; rw [hdb] at hhd
      cases st
      · simp [bstep, hdb, dbTryBeginResume] at h
        obtain ⟨hc, rfl⟩ := h
        exact hi.frame _ _ (by simp [hdb]) rfl rfl rfl (Nat.le_refl _) (fun _ _ h => h)
      · -- releasing: a takeover if the crash timeout has expired, otherwise wait
        by_cases hx : GenLifecycle.crashExpired (s.now - u) crashTimeout = true
        · simp [bstep, hdb, dbTryBeginResume, hx] at h
          obtain ⟨hc, rfl⟩ := h
          simp at hhd
          refine ⟨?_, ?_, ?_, ?_, ?_⟩
          · simp [altWins_cons, hhd, Win.isRelease, hi.alt]
          · simp [headRel, Win.isRelease]
          · intro r h1 h2; simp at h1; subst h1; simp at h2
          · intro r h1; simp at h1; subst h1; simp
          · intro tk htk
            cases hho : s.holder with
            | none => simp [hho] at htk; exact hi.tk tk htk
            | some j =>
              simp [hho] at htk
              rcases htk with rfl | htk
              · exact hx
              · exact hi.tk tk htk
        · simp [bstep, hdb, dbTryBeginResume, hx] at h
          obtain ⟨hc, rfl⟩ := h
          exact hi.frame _ _ (by simp [hdb]) rfl rfl rfl (Nat.le_refl _) (fun _ _ h => h)
      · -- released: the resume wins
        simp [bstep, hdb, dbTryBeginResume] at h
        obtain ⟨hc, rfl⟩ := h
        simp at hhd
        refine ⟨?_, ?_, ?_, ?_, hi.tk⟩
        · simp [altWins_cons, hhd, Win.isRelease, hi.alt]
        · simp [headRel, Win.isRelease]
        · intro r h1 h2; simp at h1; subst h1; simp at h2
        · intro r h1; simp at h1; subst h1; simp

theorem bstepD_eq (s : Sys) (a : BAct) : bstepD s a = s ∨ bstep s a = some (bstepD s a) := by
  unfold bstepD
  cases h : bstep s a <;> simp

theorem BInv.stepD (s : Sys) (a : BAct) (hi : BInv s) : BInv (bstepD s a) := by
  rcases bstepD_eq s a with h | h
  · rw [h]; exact hi
  · exact hi.step _ _ _ h

theorem BInv.run (acts : List BAct) (s : Sys) (hi : BInv s) : BInv (brun s acts) := by
  induction acts generalizing s with
  | nil => exact hi
  | cons a as ih => exact ih _ (hi.stepD s a)

/-! ### only crashed releasers are taken over, if live ones are prompt -/

def TkCrashed (s : Sys) : Prop := ∀ k ∈ s.takeovers, k.wasCrashed = true

theorem TkCrashed.step (s s' : Sys) (a : BAct) (h : bstep s a = some s') (ht : TkCrashed s) (hi : BInv s)
    (hp : promptAt s a = true) : TkCrashed s' := by
  cases a with
  | uTry k =>
    rcases hdb : s.db with _ | ⟨st, u⟩
    · simp [bstep, hdb, dbTryBeginResume] at h; obtain ⟨_, rfl⟩ := h; exact ht
    · cases st
      · simp [bstep, hdb, dbTryBeginResume] at h; obtain ⟨_, rfl⟩ := h; exact ht
      · by_cases hx : GenLifecycle.crashExpired (s.now - u) crashTimeout = true
        · simp [bstep, hdb, dbTryBeginResume, hx] at h
          obtain ⟨_, rfl⟩ := h
          intro tk htk
          cases hho : s.holder with
          | none => simp [hho] at htk; exact ht tk htk
          | some j =>
            simp [hho] at htk
            rcases htk with rfl | htk
            · simp [promptAt, hho, hdb, hx] at hp; simpa using hp
            · exact ht tk htk
        · simp [bstep, hdb, dbTryBeginResume, hx] at h; obtain ⟨_, rfl⟩ := h; exact ht
      · simp [bstep, hdb, dbTryBeginResume] at h; obtain ⟨_, rfl⟩ := h; exact ht
  | tick dt => bdestruct h; exact ht
  | create => bdestruct h; exact ht
  | rSpawn i => bdestruct h; exact ht
  | rBegin i => bdestruct h <;> exact ht
  | rSend i => bdestruct h; exact ht
  | rComplete i => bdestruct h <;> exact ht
  | rCrash i => bdestruct h <;> exact ht
  | uSpawn k => bdestruct h; exact ht
  | uSend k => bdestruct h <;> exact ht
  | uFinish k => bdestruct h; exact ht
  | wfStep => bdestruct h <;> exact ht

theorem TkCrashed.run (acts : List BAct) (s : Sys) (ht : TkCrashed s) (hi : BInv s)
    (hp : balongB promptAt s acts = true) : TkCrashed (brun s acts) := by
  induction acts generalizing s with
  | nil => exact ht
  | cons a as ih =>
    simp only [balongB, Bool.and_eq_true] at hp
    have ht' : TkCrashed (bstepD s a) := by
      rcases bstepD_eq s a with e | e
      · rw [e]; exact ht
      · exact ht.step _ _ _ e hi hp.1
    exact ih _ ht' (hi.stepD s a) hp.2

/-! ### without the row nothing is ever released -/

/-- no releaser has ever won, no row exists, the workflow is up and no TickIdleRelease is in flight -/
structure NoRow (s : Sys) : Prop where
  db : s.db = none
  wins : s.wins = []
  up : s.wfUp = true
  inbox : ∀ m ∈ s.inbox, m ≠ .idleRelease
  rel : ∀ i, s.rel i = .absent ∨ s.rel i = .start ∨ s.rel i = .lostCas
  res : ∀ k, s.res k ≠ .owner

theorem NoRow.init : NoRow {} := by constructor <;> simp

theorem NoRow.step (s s' : Sys) (a : BAct) (h : bstep s a = some s') (hn : NoRow s) (hc : a ≠ .create) : NoRow s' := by
  obtain ⟨hdb, hw, hup, hin, hrel, hres⟩ := hn
  cases a with
  | create => exact absurd rfl hc
  | tick dt => bdestruct h; exact ⟨hdb, hw, hup, hin, hrel, hres⟩
  | rSpawn i =>
    bdestruct h
    refine ⟨hdb, hw, hup, hin, ?_, hres⟩
    intro j; by_cases e : j = i
    · subst e; simp [upd_apply]
    · simp [upd_apply, e]; exact hrel j
  | rBegin i =>
    simp [bstep, hdb, dbBeginRelease] at h
    obtain ⟨_, rfl⟩ := h
    refine ⟨rfl, hw, hup, hin, ?_, hres⟩
    intro j; by_cases e : j = i
    · subst e; simp [upd_apply]
    · simp [upd_apply, e]; exact hrel j
  | rSend i =>
    bdestruct h
    rename_i x t hr _
    rcases hrel i with e | e | e <;> rw [e] at hr <;> cases hr
  | rComplete i =>
    bdestruct h
    all_goals (rename_i x t inc hr _ _; rcases hrel i with e | e | e <;> rw [e] at hr <;> cases hr)
  | rCrash i => bdestruct h <;> exact ⟨hdb, hw, hup, hin, hrel, hres⟩
  | uSpawn k =>
    bdestruct h
    refine ⟨hdb, hw, hup, hin, hrel, ?_⟩
    intro j; by_cases e : j = k
    · subst e; simp [upd_apply]
    · simp [upd_apply, e]; exact hres j
  | uTry k =>
    simp [bstep, hdb, dbTryBeginResume] at h
    obtain ⟨_, rfl⟩ := h
    refine ⟨rfl, hw, hup, hin, hrel, ?_⟩
    intro j; by_cases e : j = k
    · subst e; simp [upd_apply]
    · simp [upd_apply, e]; exact hres j
  | uSend k =>
    bdestruct h
    all_goals (try (rename_i _ hu; rw [hup] at hu; exact absurd rfl hu))
    · refine ⟨hdb, hw, hup, ?_, hrel, ?_⟩
      · intro m hm; simp at hm; rcases hm with hm | hm
        · exact hin m hm
        · subst hm; simp
      · intro j; by_cases e : j = k
        · subst e; simp [upd_apply]
        · simp [upd_apply, e]; exact hres j
  | uFinish k =>
    bdestruct h
    rename_i hcnd
    simp only [Bool.and_eq_true, beq_iff_eq] at hcnd
    exact absurd hcnd.1 (hres k)
  | wfStep =>
    bdestruct h
    · rename_i _ t m hi
      refine ⟨hdb, hw, hup, ?_, hrel, hres⟩
      intro x hx; exact hin x (by rw [hi]; simp [hx])
    all_goals (
      rename_i _ _ m hi _
      exact absurd rfl (hin .idleRelease (by rw [hi]; simp)))

theorem NoRow.run (acts : List BAct) (s : Sys) (hn : NoRow s) (hc : ∀ a ∈ acts, a ≠ .create) : NoRow (brun s acts) := by
  induction acts generalizing s with
  | nil => exact hn
  | cons a as ih =>
    have hn' : NoRow (bstepD s a) := by
      rcases bstepD_eq s a with e | e
      · rw [e]; exact hn
      · exact hn.step _ _ _ e (hc a (by simp))
    exact ih _ hn' (fun b hb => hc b (by simp [hb]))

/-! ### a release that has begun is carried through: nothing but a crash ends a releaser between its CAS and its
`complete_release` (the model has no action that cancels a releaser: that `_deferred_release` de-registers its task before
it starts the release — so that no tick and no `_do_resume` can cancel it — is re-extracted as `shape_dbos_deferred`) -/

def NoCrash (s : Sys) : Prop := ∀ i, s.crashed i = false

theorem NoCrash.init : NoCrash {} := by intro i; rfl

theorem NoCrash.step (s s' : Sys) (a : BAct) (h : bstep s a = some s') (hn : NoCrash s) (hc : ∀ i, a ≠ .rCrash i) :
    NoCrash s' := by
  cases a with
  | rCrash i => exact absurd rfl (hc i)
  | uTry k =>
    simp only [bstep] at h
    repeat' (split at h)
    all_goals (first | (cases h; done) | (simp only [Option.some.injEq] at h; subst h; exact hn))
  | tick dt => bdestruct h; exact hn
  | create => bdestruct h; exact hn
  | rSpawn i => bdestruct h; exact hn
  | rBegin i => bdestruct h <;> exact hn
  | rSend i => bdestruct h; exact hn
  | rComplete i => bdestruct h <;> exact hn
  | uSpawn k => bdestruct h; exact hn
  | uSend k => bdestruct h <;> exact hn
  | uFinish k => bdestruct h; exact hn
  | wfStep => bdestruct h <;> exact hn

theorem NoCrash.run (acts : List BAct) (s : Sys) (hn : NoCrash s) (hc : ∀ a ∈ acts, ∀ i, a ≠ .rCrash i) :
    NoCrash (brun s acts) := by
  induction acts generalizing s with
  | nil => exact hn
  | cons a as ih =>
    have hn' : NoCrash (bstepD s a) := by
      rcases bstepD_eq s a with e | e
      · rw [e]; exact hn
      · exact hn.step _ _ _ e (hc a (by simp))
    exact ih _ hn' (fun b hb => hc b (by simp [hb]))

end Lifecycle
