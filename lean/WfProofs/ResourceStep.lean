import WfProofs.ResourceLog
/-!
Every action of M9 preserves the solo invariant.
-/
namespace Resource

/-! ### small facts -/

theorem unwind_all : ∀ (stack : List Frame), (stack.map Frame.rid).Nodup →
    unwind (stack.map Frame.rid).reverse stack = []
  | [], _ => rfl
  | f :: fs, hnd => by
    have hnd' : (fs.map Frame.rid).Nodup := (List.nodup_cons.mp hnd).2
    have hnot : f.rid ∉ (fs.map Frame.rid) := (List.nodup_cons.mp hnd).1
    have : ((fs.map Frame.rid).reverse ++ [f.rid]).erase f.rid = (fs.map Frame.rid).reverse := by
      rw [List.erase_append]
      simp [hnot]
    simp only [unwind, List.map_cons, List.reverse_cons, List.foldl_cons, this]
    exact unwind_all fs hnd'

theorem FrameOk.mono {g : Graph} {s s' : St} {t : Nat} {f : Frame} (h : FrameOk g s t f)
    (hlog : ∀ e, e ∈ s.log → e ∈ s'.log)
    (hsc : f.rid ∉ keys s.scache → f.rid ∉ keys s'.scache)
    (hres : f.rid ∉ keys s.resources → f.rid ∉ keys s'.resources) : FrameOk g s' t f := by
  obtain ⟨r, pre, hr, hd, hp, h1, h2, h3⟩ := h
  exact ⟨r, pre, hr, hd, hp.delivered_mono hlog, hsc h1, fun hc => hres (h2 hc),
    fun obj ho => ⟨(h3 obj ho).1, hlog _ (h3 obj ho).2⟩⟩

theorem Frames.mono {g : Graph} {s s' : St} {t : Nat} {todo : List Nat} : ∀ {fs : List Frame},
    Frames g s t todo fs → (∀ e, e ∈ s.log → e ∈ s'.log) →
    (∀ x, x ∈ fs.map Frame.rid → x ∉ keys s.scache → x ∉ keys s'.scache) →
    (∀ x, x ∈ fs.map Frame.rid → x ∉ keys s.resources → x ∉ keys s'.resources) → Frames g s' t todo fs
  | [], _, _, _, _ => trivial
  | f :: fs, h, hlog, hsc, hres =>
    ⟨h.1.mono hlog (hsc f.rid (by simp)) (hres f.rid (by simp)), h.2.1,
      Frames.mono h.2.2 hlog (fun x hx => hsc x (by simp [hx])) (fun x hx => hres x (by simp [hx]))⟩

theorem OutcomeOk.mono {g : Graph} {s s' : St} {t : Nat} {reqs : List Nat} {o : Outcome}
    (hlog : ∀ e, e ∈ s.log → e ∈ s'.log) (h : OutcomeOk g s t reqs o) : OutcomeOk g s' t reqs o := by
  cases o <;> simp [OutcomeOk] at h ⊢
  · exact h.delivered_mono hlog
  · exact h
  · exact h
  · exact h

theorem getElem?_set_tasks {l : List Task} {t j : Nat} {k k' : Task} (hk : l[t]? = some k) :
    (l.set t k')[j]? = if j = t then some k' else l[j]? := by
  have hlt : t < l.length := (List.getElem?_eq_some_iff.mp hk).1
  by_cases hj : j = t
  · subst hj; simp [hlt]
  · simp [hj, List.getElem?_set_ne (Ne.symm hj)]

/-- Only the task inside the scope changed (and stays inside): the invariant follows
from the trace part and the task's own part. -/
theorem Inv.update_active {c : Cfg} {g : Graph} {s s' : St} {t : Nat} {k k' : Task} (h : Inv c g s)
    (hk : s.tasks[t]? = some k) (ha : k.phase = .active)
    (htasks : s'.tasks = s.tasks.set t k') (hph : k'.phase = .active) (hlock : s'.lock = s.lock)
    (hlog : ∀ e, e ∈ s.log → e ∈ s'.log)
    (hL : LogInv g s')
    (hby : ∀ t' x, t' ≠ t → countMadeBy s'.log t' x = countMadeBy s.log t' x)
    (hact : ActInv g s' t k') : Inv c g s' := by
  have hget : ∀ j, s'.tasks[j]? = if j = t then some k' else s.tasks[j]? := by
    intro j; rw [htasks]; exact getElem?_set_tasks hk
  refine { toLogInv := hL, lockOf := ?_, serial := ?_, idle := ?_, inactive := ?_, unstarted := ?_, act := ?_,
           madeN0 := ?_, finOk := ?_ }
  · intro he j kj hj haj
    rw [hget] at hj; rw [hlock]
    by_cases hjt : j = t
    · subst hjt; exact h.lockOf he j k hk ha
    · simp [hjt] at hj; exact h.lockOf he j kj hj haj
  · intro he j j' kj kj' hj hj' hd hd'
    rw [hget] at hj hj'
    have hkd : ¬ k.isDone := by rintro ⟨o, ho⟩; simp [ho] at ha
    by_cases hjt : j = t <;> by_cases hjt' : j' = t
    · rw [hjt, hjt']
    · simp [hjt'] at hj'; rw [hjt]; exact h.serial he t j' k kj' hk hj' hkd hd'
    · simp [hjt] at hj; rw [hjt']; exact h.serial he j t kj k hj hk hd hkd
    · simp [hjt] at hj; simp [hjt'] at hj'; exact h.serial he j j' kj kj' hj hj' hd hd'
  · intro hno
    exact absurd hph (hno t k' (by rw [hget]; simp))
  · intro j kj hj hna
    rw [hget] at hj
    by_cases hjt : j = t
    · simp [hjt] at hj; subst hj; exact absurd hph hna
    · simp [hjt] at hj; exact h.inactive j kj hj hna
  · intro j kj hj hu
    rw [hget] at hj
    by_cases hjt : j = t
    · simp [hjt] at hj; subst hj; rcases hu with hu | hu <;> simp [hph] at hu
    · simp [hjt] at hj; exact h.unstarted j kj hj hu
  · intro j kj hj haj
    rw [hget] at hj
    by_cases hjt : j = t
    · simp [hjt] at hj; subst hj; subst hjt; exact hact
    · simp [hjt] at hj; exact absurd (h.solo hj hk haj ha) hjt
  · intro j hu x
    by_cases hjt : j = t
    · subst hjt
      have := hu k' (by rw [hget]; simp)
      rcases this with hu | hu <;> simp [hph] at hu
    · rw [hby j x hjt]
      apply h.madeN0 j _ x
      intro kj hj; exact hu kj (by rw [hget]; simp [hjt, hj])
  · intro j kj o hj hd
    rw [hget] at hj
    by_cases hjt : j = t
    · simp [hjt] at hj; subst hj; simp [hph] at hd
    · simp [hjt] at hj; exact (h.finOk j kj o hj hd).mono hlog

theorem countMadeBy_cons_other {e : Ev} {l : List Ev} (he : ∀ t x v, e ≠ .made t x v) (t x : Nat) :
    countMadeBy (e :: l) t x = countMadeBy l t x := by
  cases e <;> simp_all [countMadeBy, List.countP_cons, isMadeBy]

theorem head?_eq_some_cons {l : List Nat} {x : Nat} (h : l.head? = some x) : l = x :: l.tail := by
  cases l with
  | nil => simp at h
  | cons a l => simp at h; simp [h]

/-! ### `_get` returns a value taken from a cache -/

theorem inv_deliver {c : Cfg} {g : Graph} {s : St} {t : Nat} {k : Task} {x v : Nat} (h : Inv c g s)
    (hk : s.tasks[t]? = some k) (ha : k.phase = .active)
    (hcaller : CallerOk k.todo k.stack x)
    (hv : if isCached g x then (∃ t0, Ev.made t0 x v ∈ s.log) else Ev.made t x v ∈ s.log) :
    Inv c g (deliver s t k x v) := by
  have A := h.act t k hk ha
  have hlogmono : ∀ e, e ∈ s.log → e ∈ Ev.deliver t x v :: s.log := fun e he => List.mem_cons_of_mem _ he
  have hnew : Ev.deliver t x v ∈ Ev.deliver t x v :: s.log := by simp
  unfold deliver
  cases hst : k.stack with
  | nil =>
    simp only
    rw [hst] at hcaller
    have htodo := head?_eq_some_cons hcaller
    refine h.update_active hk ha (htasks := rfl) (hph := ha) (hlock := rfl) hlogmono ?_ ?_ ?_
    · exact h.toLogInv.add_deliver hv rfl rfl rfl
    · intro t' x' _; exact countMadeBy_cons_other (by intros; simp) t' x'
    · obtain ⟨pre, hpre, hpair⟩ := A.prog
      refine { owns := A.owns, depth := A.depth, resolving := ?_, nodup := ?_, prog := ?_, frames := ?_,
               scOk := ?_, madeNA := ?_ }
      · simpa [setTask, hst] using A.resolving
      · simp [hst]
      · refine ⟨pre ++ [x], ?_, ?_⟩
        · simp only; rw [hpre]; conv => lhs; rw [htodo]
          simp
        · exact (hpair.delivered_mono (s' := setTask { s with log := .deliver t x v :: s.log } t _) hlogmono).snoc hnew
      · simp [hst, Frames]
      · intro x' v' hx'
        have := A.scOk x' v' hx'
        split at this
        · rename_i hc; simp only [hc, ↓reduceIte]; obtain ⟨t0, h0⟩ := this; exact ⟨t0, hlogmono _ h0⟩
        · rename_i hc; simp only [hc]; exact hlogmono _ this
      · intro x' hx'
        have := A.madeNA x' hx'
        simpa [setTask, countMadeBy_cons_other] using this
  | cons f fs =>
    simp only
    rw [hst] at hcaller
    obtain ⟨hhead, hwait⟩ := hcaller
    have hrem := head?_eq_some_cons hhead
    refine h.update_active hk ha (htasks := rfl) (hph := ha) (hlock := rfl) hlogmono ?_ ?_ ?_
    · exact h.toLogInv.add_deliver hv rfl rfl rfl
    · intro t' x' _; exact countMadeBy_cons_other (by intros; simp) t' x'
    · have hfr := A.frames
      rw [hst] at hfr
      obtain ⟨hf, hcal, hrest⟩ := hfr
      refine { owns := A.owns, depth := A.depth, resolving := ?_, nodup := ?_, prog := ?_, frames := ?_,
               scOk := ?_, madeNA := ?_ }
      · simpa [setTask, hst] using A.resolving
      · simpa [hst] using A.nodup
      · obtain ⟨pre, hpre, hpair⟩ := A.prog
        exact ⟨pre, hpre, hpair.delivered_mono (s' := setTask { s with log := .deliver t x v :: s.log } t _) hlogmono⟩
      · refine ⟨?_, hcal, ?_⟩
        · obtain ⟨r, pre, hr, hd, hp, h1, h2, h3⟩ := hf
          refine ⟨r, pre ++ [x], hr, ?_, ?_, h1, h2, ?_⟩
          · simp only; rw [hd]; conv => lhs; rw [hrem]
            simp
          · exact (hp.delivered_mono (s' := setTask { s with log := .deliver t x v :: s.log } t _) hlogmono).snoc hnew
          · intro obj ho; simp [hwait] at ho
        · exact hrest.mono (s' := setTask { s with log := .deliver t x v :: s.log } t _) hlogmono
            (fun _ _ hh => hh) (fun _ _ hh => hh)
      · intro x' v' hx'
        have := A.scOk x' v' hx'
        split at this
        · rename_i hc; simp only [hc, ↓reduceIte]; obtain ⟨t0, h0⟩ := this; exact ⟨t0, hlogmono _ h0⟩
        · rename_i hc; simp only [hc]; exact hlogmono _ this
      · intro x' hx'
        have := A.madeNA x' hx'
        simpa [setTask, countMadeBy_cons_other] using this

/-! ### `_get` goes past the caches: a new activation -/

theorem inv_push {c : Cfg} {g : Graph} {s : St} {t : Nat} {k : Task} {x : Nat} {r : Res} (h : Inv c g s)
    (hk : s.tasks[t]? = some k) (ha : k.phase = .active)
    (hcaller : CallerOk k.todo k.stack x) (hr : g[x]? = some r)
    (hnr : x ∉ s.resolving) (hsc : x ∉ keys s.scache) (hres : r.cached = true → x ∉ keys s.resources) :
    Inv c g (setTask { s with resolving := s.resolving ++ [x] } t
      { k with stack := { rid := x, rem := r.deps, args := [], waiting := none } :: k.stack }) := by
  have A := h.act t k hk ha
  refine h.update_active hk ha (htasks := rfl) (hph := ha) (hlock := rfl) (fun _ he => he) ?_ ?_ ?_
  · exact { resOk := h.resOk, delivC := h.delivC, delivN := h.delivN, madeA := h.madeA, madeC := h.madeC,
            madeN := h.madeN, madeCall := h.madeCall, callLt := h.callLt, callInj := h.callInj,
            callArgs := h.callArgs }
  · intro _ _ _; rfl
  · refine { owns := A.owns, depth := A.depth, resolving := ?_, nodup := ?_, prog := A.prog, frames := ?_,
             scOk := A.scOk, madeNA := A.madeNA }
    · simp [setTask, A.resolving]
    · simp only [List.map_cons, List.nodup_cons]
      refine ⟨?_, A.nodup⟩
      rw [A.resolving] at hnr; simpa using hnr
    · refine ⟨⟨r, [], hr, by simp, Paired.nil, hsc, hres, by simp⟩, hcaller, ?_⟩
      exact A.frames.mono (fun _ he => he) (fun _ _ hh => hh) (fun _ _ hh => hh)

/-! ### a factory is called -/

theorem set_self {l : List Task} {t : Nat} {k : Task} (hk : l[t]? = some k) : l = l.set t k := by
  obtain ⟨hlt, hget⟩ := List.getElem?_eq_some_iff.mp hk
  rw [← hget]; exact (List.set_getElem_self hlt).symm

theorem inv_call {c : Cfg} {g : Graph} {s : St} {t : Nat} {k : Task} {f : Frame} {fs : List Frame} (h : Inv c g s)
    (hk : s.tasks[t]? = some k) (ha : k.phase = .active) (hst : k.stack = f :: fs) (hrem : f.rem = []) :
    Inv c g { s with nextObj := s.nextObj + 1, log := .call t f.rid s.nextObj f.args :: s.log } := by
  have A := h.act t k hk ha
  have hfr := A.frames
  rw [hst] at hfr
  obtain ⟨⟨r, pre, hr, hd, hp, h1, h2, h3⟩, hcal, hrest⟩ := hfr
  rw [hrem, List.append_nil] at hd
  have hlogmono : ∀ e, e ∈ s.log → e ∈ Ev.call t f.rid s.nextObj f.args :: s.log :=
    fun e he => List.mem_cons_of_mem _ he
  refine h.update_active hk ha (k' := k) (htasks := set_self hk) (hph := ha) (hlock := rfl) hlogmono ?_ ?_ ?_
  · exact h.toLogInv.add_call hr (hd ▸ hp) rfl rfl rfl
  · intro t' x' _; exact countMadeBy_cons_other (by intros; simp) t' x'
  · refine { owns := A.owns, depth := A.depth, resolving := A.resolving, nodup := A.nodup, prog := ?_, frames := ?_,
             scOk := ?_, madeNA := ?_ }
    · obtain ⟨pre', hpre, hpair⟩ := A.prog
      exact ⟨pre', hpre, hpair.delivered_mono hlogmono⟩
    · exact A.frames.mono hlogmono (fun _ _ hh => hh) (fun _ _ hh => hh)
    · intro x' v' hx'
      have := A.scOk x' v' hx'
      split at this
      · rename_i hc; simp only [hc, ↓reduceIte]; obtain ⟨t0, h0⟩ := this; exact ⟨t0, hlogmono _ h0⟩
      · rename_i hc; simp only [hc]; exact hlogmono _ this
    · intro x' hx'
      have := A.madeNA x' hx'
      simpa [countMadeBy_cons_other] using this

/-- the called factory is async: the task suspends at its await -/
theorem inv_suspend {c : Cfg} {g : Graph} {s : St} {t : Nat} {k : Task} {f : Frame} {fs : List Frame} {obj : Nat}
    (h : Inv c g s) (hk : s.tasks[t]? = some k) (ha : k.phase = .active) (hst : k.stack = f :: fs)
    (hrem : f.rem = []) (hcall : Ev.call t f.rid obj f.args ∈ s.log) :
    Inv c g (setTask s t { k with stack := { f with waiting := some obj } :: fs }) := by
  have A := h.act t k hk ha
  have hfr := A.frames
  rw [hst] at hfr
  obtain ⟨⟨r, pre, hr, hd, hp, h1, h2, h3⟩, hcal, hrest⟩ := hfr
  refine h.update_active hk ha (htasks := rfl) (hph := ha) (hlock := rfl) (fun _ he => he) ?_ ?_ ?_
  · exact { resOk := h.resOk, delivC := h.delivC, delivN := h.delivN, madeA := h.madeA, madeC := h.madeC,
            madeN := h.madeN, madeCall := h.madeCall, callLt := h.callLt, callInj := h.callInj,
            callArgs := h.callArgs }
  · intro _ _ _; rfl
  · refine { owns := A.owns, depth := A.depth, resolving := ?_, nodup := ?_, prog := A.prog, frames := ?_,
             scOk := A.scOk, madeNA := A.madeNA }
    · simpa [setTask, hst] using A.resolving
    · simpa [hst] using A.nodup
    · refine ⟨⟨r, pre, hr, hd, hp, h1, h2, ?_⟩, hcal, ?_⟩
      · intro o ho; simp at ho; subst ho; exact ⟨hrem, hcall⟩
      · exact hrest.mono (fun _ he => he) (fun _ _ hh => hh) (fun _ _ hh => hh)

theorem Inv.set_cur {c : Cfg} {g : Graph} {s : St} (h : Inv c g s) (x : Option Nat) : Inv c g { s with cur := x } :=
  { resOk := h.resOk, delivC := h.delivC, delivN := h.delivN, madeA := h.madeA, madeC := h.madeC,
    madeN := h.madeN, madeCall := h.madeCall, callLt := h.callLt, callInj := h.callInj, callArgs := h.callArgs,
    lockOf := h.lockOf, serial := h.serial, idle := h.idle, inactive := h.inactive, unstarted := h.unstarted,
    act := fun t k hk ha =>
      let A := h.act t k hk ha
      { owns := A.owns, depth := A.depth, resolving := A.resolving, nodup := A.nodup, prog := A.prog,
        frames := A.frames.mono (fun _ he => he) (fun _ _ hh => hh) (fun _ _ hh => hh), scOk := A.scOk,
        madeNA := A.madeNA },
    madeN0 := h.madeN0,
    finOk := fun t k o hk hd => (h.finOk t k o hk hd).mono (fun _ he => he) }

/-! ### a factory returns -/

theorem erase_last_rid {rid : Nat} {l : List Nat} (hn : rid ∉ l) : (l.reverse ++ [rid]).erase rid = l.reverse := by
  rw [List.erase_append]; simp [hn]

theorem inv_complete_ok {c : Cfg} {g : Graph} {s : St} {t : Nat} {k : Task} {f0 : Frame} {fs : List Frame}
    {obj : Nat} {r : Res} (h : Inv c g s)
    (hk : s.tasks[t]? = some k) (ha : k.phase = .active) (hst : k.stack = f0 :: fs) (hrem : f0.rem = [])
    (hcall : Ev.call t f0.rid obj f0.args ∈ s.log) (hr : g[f0.rid]? = some r) :
    Inv c g (deliver { s with
        resources := if r.cached then (f0.rid, obj) :: s.resources else s.resources,
        scache := (f0.rid, obj) :: s.scache,
        resolving := s.resolving.erase f0.rid,
        log := .made t f0.rid obj :: s.log } t { k with stack := fs } f0.rid obj) := by
  have A := h.act t k hk ha
  have hfr := A.frames
  rw [hst] at hfr
  obtain ⟨⟨r', pre, hr', hd, hp, h1, h2, h3⟩, hcal, hrest⟩ := hfr
  rw [hr] at hr'; cases hr'
  rw [hrem, List.append_nil] at hd
  have hnd := A.nodup
  rw [hst] at hnd
  simp only [List.map_cons, List.nodup_cons] at hnd
  obtain ⟨hnotin, hnd'⟩ := hnd
  have hcx : isCached g f0.rid = r.cached := by simp [isCached, hr]
  -- the resource is well-founded: all its dependencies were delivered
  have hacyc : Acyc g f0.rid := by
    refine Acyc.mk _ r hr ?_
    intro d hdm
    rw [hd] at hdm
    obtain ⟨v, hv⟩ := hp.left_mem hdm
    exact h.delivA hv
  -- trace part
  let s1 : St := { s with
        resources := if r.cached then (f0.rid, obj) :: s.resources else s.resources,
        scache := (f0.rid, obj) :: s.scache,
        resolving := s.resolving.erase f0.rid,
        log := .made t f0.rid obj :: s.log }
  have hL1 : LogInv g s1 :=
    h.toLogInv.add_made (s' := s1) hr hcall hacyc h2 (A.madeNA _ h1) rfl rfl rfl
  have hmade : Ev.made t f0.rid obj ∈ s1.log := by simp [s1]
  have hv : if isCached g f0.rid then (∃ t0, Ev.made t0 f0.rid obj ∈ s1.log) else Ev.made t f0.rid obj ∈ s1.log := by
    split
    · exact ⟨t, hmade⟩
    · exact hmade
  have hlogmono : ∀ e, e ∈ s.log → e ∈ Ev.deliver t f0.rid obj :: Ev.made t f0.rid obj :: s.log :=
    fun e he => List.mem_cons_of_mem _ (List.mem_cons_of_mem _ he)
  have hnew : Ev.deliver t f0.rid obj ∈ Ev.deliver t f0.rid obj :: Ev.made t f0.rid obj :: s.log := by simp
  have hmade' : Ev.made t f0.rid obj ∈ Ev.deliver t f0.rid obj :: Ev.made t f0.rid obj :: s.log := by simp
  have hby : ∀ t' x, t' ≠ t → countMadeBy (Ev.deliver t f0.rid obj :: Ev.made t f0.rid obj :: s.log) t' x
      = countMadeBy s.log t' x := by
    intro t' x hne
    rw [countMadeBy_cons_other (by intros; simp), countMadeBy_made, if_neg (fun hh => hne hh.1.symm)]; rfl
  have hscOk : ∀ x v, (x, v) ∈ (f0.rid, obj) :: s.scache →
      if isCached g x then (∃ t0, Ev.made t0 x v ∈ Ev.deliver t f0.rid obj :: Ev.made t f0.rid obj :: s.log)
      else Ev.made t x v ∈ Ev.deliver t f0.rid obj :: Ev.made t f0.rid obj :: s.log := by
    intro x v hx
    rcases List.mem_cons.mp hx with hx | hx
    · cases hx
      split
      · exact ⟨t, hmade'⟩
      · exact hmade'
    · have := A.scOk x v hx
      split at this
      · rename_i hc; simp only [hc, ↓reduceIte]; obtain ⟨t0, h0⟩ := this; exact ⟨t0, hlogmono _ h0⟩
      · rename_i hc; simp only [hc]; exact hlogmono _ this
  have hmadeNA : ∀ x, x ∉ keys ((f0.rid, obj) :: s.scache) →
      countMadeBy (Ev.deliver t f0.rid obj :: Ev.made t f0.rid obj :: s.log) t x = 0 := by
    intro x hx
    simp only [keys, List.map_cons, List.mem_cons, not_or] at hx
    rw [countMadeBy_cons_other (by intros; simp), countMadeBy_made, if_neg (fun hh => hx.1 hh.2.symm)]
    exact A.madeNA x hx.2
  have hres_ne : ∀ x, x ∈ fs.map Frame.rid → x ∉ keys s.resources →
      x ∉ keys (if r.cached then (f0.rid, obj) :: s.resources else s.resources) := by
    intro x hx hnot
    split
    · simp only [keys, List.map_cons, List.mem_cons, not_or]
      exact ⟨fun hh => hnotin (hh ▸ hx), hnot⟩
    · exact hnot
  have hsc_ne : ∀ x, x ∈ fs.map Frame.rid → x ∉ keys s.scache → x ∉ keys ((f0.rid, obj) :: s.scache) := by
    intro x hx hnot
    simp only [keys, List.map_cons, List.mem_cons, not_or]
    exact ⟨fun hh => hnotin (hh ▸ hx), hnot⟩
  have hresolving : s.resolving.erase f0.rid = (fs.map Frame.rid).reverse := by
    rw [A.resolving, hst]; simp only [List.map_cons, List.reverse_cons]; exact erase_last_rid hnotin
  unfold deliver
  cases hfs : fs with
  | nil =>
    subst hfs
    simp only
    simp only [CallerOk] at hcal
    have htodo := head?_eq_some_cons hcal
    refine h.update_active hk ha (htasks := rfl) (hph := ha) (hlock := rfl) hlogmono ?_ ?_ ?_
    · exact hL1.add_deliver hv rfl rfl rfl
    · exact hby
    · obtain ⟨pre', hpre, hpair⟩ := A.prog
      refine { owns := A.owns, depth := A.depth, resolving := ?_, nodup := ?_, prog := ?_, frames := ?_,
               scOk := hscOk, madeNA := hmadeNA }
      · simpa [setTask] using hresolving
      · simp
      · refine ⟨pre' ++ [f0.rid], ?_, ?_⟩
        · simp only; rw [hpre]; conv => lhs; rw [htodo]
          simp
        · exact (hpair.delivered_mono hlogmono).snoc hnew
      · simp [Frames]
  | cons p ps =>
    subst hfs
    simp only
    simp only [CallerOk] at hcal
    obtain ⟨hhead, hwait⟩ := hcal
    have hremp := head?_eq_some_cons hhead
    obtain ⟨hfp, hcalp, hrestp⟩ := hrest
    refine h.update_active hk ha (htasks := rfl) (hph := ha) (hlock := rfl) hlogmono ?_ ?_ ?_
    · exact hL1.add_deliver hv rfl rfl rfl
    · exact hby
    · refine { owns := A.owns, depth := A.depth, resolving := ?_, nodup := ?_, prog := ?_, frames := ?_,
               scOk := hscOk, madeNA := hmadeNA }
      · simpa [setTask] using hresolving
      · simpa using hnd'
      · obtain ⟨pre', hpre, hpair⟩ := A.prog
        exact ⟨pre', hpre, hpair.delivered_mono hlogmono⟩
      · refine ⟨?_, hcalp, ?_⟩
        · obtain ⟨rp, prep, hrp, hdp, hpp, hp1, hp2, hp3⟩ := hfp
          refine ⟨rp, prep ++ [f0.rid], hrp, ?_, ?_, hsc_ne _ (by simp) hp1, fun hc => hres_ne _ (by simp) (hp2 hc), ?_⟩
          · simp only; rw [hdp]; conv => lhs; rw [hremp]
            simp
          · exact (hpp.delivered_mono hlogmono).snoc hnew
          · intro o ho; simp [hwait] at ho
        · exact hrestp.mono hlogmono (fun x hx => hsc_ne x (by simp [hx])) (fun x hx => hres_ne x (by simp [hx]))

/-! ### changes outside the scope -/

theorem ActInv.mono {g : Graph} {s s' : St} {t : Nat} {k : Task} (A : ActInv g s t k)
    (hlog : ∀ e, e ∈ s.log → e ∈ s'.log) (hby : ∀ x, countMadeBy s'.log t x = countMadeBy s.log t x)
    (hdepth : s'.depth = s.depth) (hres : s'.resolving = s.resolving) (hsc : s'.scache = s.scache)
    (hrs : s'.resources = s.resources) : ActInv g s' t k := by
  refine { owns := A.owns, depth := hdepth ▸ A.depth, resolving := hres ▸ A.resolving, nodup := A.nodup,
           prog := ?_, frames := ?_, scOk := ?_, madeNA := ?_ }
  · obtain ⟨pre, hpre, hpair⟩ := A.prog
    exact ⟨pre, hpre, hpair.delivered_mono hlog⟩
  · exact A.frames.mono hlog (fun _ _ hh => hsc ▸ hh) (fun _ _ hh => hrs ▸ hh)
  · intro x v hx
    rw [hsc] at hx
    have := A.scOk x v hx
    split at this
    · rename_i hc; simp only [hc, ↓reduceIte]; obtain ⟨t0, h0⟩ := this; exact ⟨t0, hlog _ h0⟩
    · rename_i hc; simp only [hc]; exact hlog _ this
  · intro x hx
    rw [hsc] at hx; rw [hby]; exact A.madeNA x hx

theorem Inv.update_inactive {c : Cfg} {g : Graph} {s s' : St} {t : Nat} {k k' : Task} (h : Inv c g s)
    (hk : s.tasks[t]? = some k) (hna : k.phase ≠ .active) (hnd : ¬ k.isDone)
    (htasks : s'.tasks = s.tasks.set t k') (hna' : k'.phase ≠ .active)
    (hlock : s'.lock = s.lock) (hres : s'.resolving = s.resolving) (hdepth : s'.depth = s.depth)
    (hsc : s'.scache = s.scache) (hrs : s'.resources = s.resources)
    (hlog : ∀ e, e ∈ s.log → e ∈ s'.log) (hL : LogInv g s')
    (hby : ∀ t' x, countMadeBy s'.log t' x = countMadeBy s.log t' x)
    (hstack : k'.stack = [])
    (hun : k'.unstarted → k.unstarted ∧ k'.todo = k'.reqs ∧ k'.got = [])
    (hfin : ∀ o, k'.phase = .done o → OutcomeOk g s' t k'.reqs o) : Inv c g s' := by
  have hget : ∀ j, s'.tasks[j]? = if j = t then some k' else s.tasks[j]? := by
    intro j; rw [htasks]; exact getElem?_set_tasks hk
  refine { toLogInv := hL, lockOf := ?_, serial := ?_, idle := ?_, inactive := ?_, unstarted := ?_, act := ?_,
           madeN0 := ?_, finOk := ?_ }
  · intro he j kj hj haj
    rw [hget] at hj; rw [hlock]
    by_cases hjt : j = t
    · simp [hjt] at hj; subst hj; exact absurd haj hna'
    · simp [hjt] at hj; exact h.lockOf he j kj hj haj
  · intro he j j' kj kj' hj hj' hd hd'
    rw [hget] at hj hj'
    by_cases hjt : j = t <;> by_cases hjt' : j' = t
    · rw [hjt, hjt']
    · simp [hjt'] at hj'; rw [hjt]; exact h.serial he t j' k kj' hk hj' hnd hd'
    · simp [hjt] at hj; rw [hjt']; exact h.serial he j t kj k hj hk hd hnd
    · simp [hjt] at hj; simp [hjt'] at hj'; exact h.serial he j j' kj kj' hj hj' hd hd'
  · intro hno
    rw [hres, hdepth, hsc]
    apply h.idle
    intro j kj hj
    by_cases hjt : j = t
    · subst hjt; rw [hk] at hj; cases hj; exact hna
    · exact hno j kj (by rw [hget]; simp [hjt, hj])
  · intro j kj hj hnaj
    rw [hget] at hj
    by_cases hjt : j = t
    · simp [hjt] at hj; subst hj; exact hstack
    · simp [hjt] at hj; exact h.inactive j kj hj hnaj
  · intro j kj hj hu
    rw [hget] at hj
    by_cases hjt : j = t
    · simp [hjt] at hj; subst hj; exact (hun hu).2
    · simp [hjt] at hj; exact h.unstarted j kj hj hu
  · intro j kj hj haj
    rw [hget] at hj
    by_cases hjt : j = t
    · simp [hjt] at hj; subst hj; exact absurd haj hna'
    · simp [hjt] at hj
      exact (h.act j kj hj haj).mono hlog (hby j) hdepth hres hsc hrs
  · intro j hu x
    rw [hby]
    apply h.madeN0 j _ x
    intro kj hj
    by_cases hjt : j = t
    · subst hjt; rw [hk] at hj; cases hj
      exact (hun (hu k' (by rw [hget]; simp))).1
    · exact hu kj (by rw [hget]; simp [hjt, hj])
  · intro j kj o hj hd
    rw [hget] at hj
    by_cases hjt : j = t
    · simp [hjt] at hj; subst hj; subst hjt; exact hfin o hd
    · simp [hjt] at hj; exact (h.finOk j kj o hj hd).mono hlog

/-- no task is inside a scope: the lock bookkeeping is unconstrained -/
theorem Inv.set_lock_idle {c : Cfg} {g : Graph} {s : St} (h : Inv c g s)
    (hno : ∀ (j : Nat) (kj : Task), s.tasks[j]? = some kj → kj.phase ≠ .active)
    (l : Option Nat) (w : List Nat) (x : Option Nat) : Inv c g { s with lock := l, waiters := w, cur := x } :=
  { resOk := h.resOk, delivC := h.delivC, delivN := h.delivN, madeA := h.madeA, madeC := h.madeC,
    madeN := h.madeN, madeCall := h.madeCall, callLt := h.callLt, callInj := h.callInj, callArgs := h.callArgs,
    lockOf := fun _ t k hk ha => absurd ha (hno t k hk), serial := h.serial, idle := h.idle,
    inactive := h.inactive, unstarted := h.unstarted,
    act := fun t k hk ha => absurd ha (hno t k hk),
    madeN0 := h.madeN0,
    finOk := fun t k o hk hd => (h.finOk t k o hk hd).mono (fun _ he => he) }

/-! ### a task leaves its scope -/

theorem inv_finish_core {c : Cfg} {g : Graph} {s : St} {t : Nat} {k : Task} {o : Outcome} (h : Inv c g s)
    (hk : s.tasks[t]? = some k) (ha : k.phase = .active) (ho : OutcomeOk g s t k.reqs o) :
    Inv c g { s with resolving := [], depth := 0, scache := [],
                     tasks := s.tasks.set t { k with phase := .done o, stack := [], todo := [] },
                     log := .fin t o :: s.log } ∧
    ∀ (j : Nat) (kj : Task), (s.tasks.set t { k with phase := .done o, stack := [], todo := [] })[j]? = some kj →
      kj.phase ≠ .active := by
  have hget : ∀ j, (s.tasks.set t { k with phase := .done o, stack := [], todo := [] })[j]? =
      if j = t then some { k with phase := .done o, stack := [], todo := [] } else s.tasks[j]? :=
    fun j => getElem?_set_tasks hk
  have hlogmono : ∀ e, e ∈ s.log → e ∈ Ev.fin t o :: s.log := fun e he => List.mem_cons_of_mem _ he
  have hnoact : ∀ (j : Nat) (kj : Task), (s.tasks.set t { k with phase := .done o, stack := [], todo := [] })[j]? = some kj →
      kj.phase ≠ .active := by
    intro j kj hj haj
    rw [hget] at hj
    by_cases hjt : j = t
    · simp [hjt] at hj; subst hj; simp at haj
    · simp [hjt] at hj; exact hjt (h.solo hj hk haj ha)
  refine ⟨?_, hnoact⟩
  have hkd : ¬ k.isDone := by rintro ⟨o', ho'⟩; simp [ho'] at ha
  refine { toLogInv := ?_, lockOf := ?_, serial := ?_, idle := ?_, inactive := ?_, unstarted := ?_, act := ?_,
           madeN0 := ?_, finOk := ?_ }
  · exact h.toLogInv.add_inert (e := .fin t o) trivial rfl rfl rfl
  · intro _ j kj hj haj; exact absurd haj (hnoact j kj hj)
  · intro he j j' kj kj' hj hj' hd hd'
    simp only at hj hj'
    rw [hget] at hj hj'
    by_cases hjt : j = t <;> by_cases hjt' : j' = t
    · rw [hjt, hjt']
    · simp [hjt] at hj; subst hj; exact absurd ⟨o, rfl⟩ hd
    · simp [hjt'] at hj'; subst hj'; exact absurd ⟨o, rfl⟩ hd'
    · simp [hjt] at hj; simp [hjt'] at hj'; exact h.serial he j j' kj kj' hj hj' hd hd'
  · intro _; exact ⟨rfl, rfl, rfl⟩
  · intro j kj hj hnaj
    simp only at hj; rw [hget] at hj
    by_cases hjt : j = t
    · simp [hjt] at hj; subst hj; rfl
    · simp [hjt] at hj; exact h.inactive j kj hj hnaj
  · intro j kj hj hu
    simp only at hj; rw [hget] at hj
    by_cases hjt : j = t
    · simp [hjt] at hj; subst hj; rcases hu with hu | hu <;> simp at hu
    · simp [hjt] at hj; exact h.unstarted j kj hj hu
  · intro j kj hj haj; exact absurd haj (hnoact j kj hj)
  · intro j hu x
    simp only at hu ⊢
    rw [countMadeBy_cons_other (by intros; simp)]
    by_cases hjt : j = t
    · subst hjt
      have := hu { k with phase := .done o, stack := [], todo := [] } (by rw [hget]; simp)
      rcases this with hu | hu <;> simp at hu
    · apply h.madeN0 j _ x
      intro kj hj; exact hu kj (by rw [hget]; simp [hjt, hj])
  · intro j kj o' hj hd
    simp only at hj; rw [hget] at hj
    by_cases hjt : j = t
    · simp [hjt] at hj; subst hj; subst hjt; simp at hd; subst hd
      exact ho.mono hlogmono
    · simp [hjt] at hj; exact (h.finOk j kj o' hj hd).mono hlogmono

theorem inv_finish {c : Cfg} {g : Graph} {s : St} {t : Nat} {k : Task} {o : Outcome} (h : Inv c g s)
    (hk : s.tasks[t]? = some k) (ha : k.phase = .active) (ho : OutcomeOk g s t k.reqs o) :
    Inv c g (finish c { s with resolving := unwind s.resolving k.stack } t k o) := by
  have A := h.act t k hk ha
  obtain ⟨hcore, hno⟩ := inv_finish_core (c := c) h hk ha ho
  have hunw : unwind s.resolving k.stack = [] := by rw [A.resolving]; exact unwind_all _ A.nodup
  have hown := A.owns
  have hdepth := A.depth
  obtain ⟨reqs, bare, phase, owns, todo, got, stack⟩ := k
  simp only at hown hunw hcore hno
  subst hown
  simp only [finish, exitScope, hunw, hdepth, Bool.and_true, ↓reduceIte, Nat.sub_self]
  cases hx : c.excl with
  | false => exact hcore.set_lock_idle hno s.lock s.waiters none
  | true =>
    simp only [↓reduceIte]
    cases hw : s.waiters with
    | nil => exact hcore.set_lock_idle hno none [] none
    | cons w ws => exact hcore.set_lock_idle hno (some w) ws none

/-! ### a task enters its scope -/

theorem inv_start {c : Cfg} {g : Graph} {s : St} {t : Nat} {k : Task} (h : Inv c g s)
    (hno : ∀ (j : Nat) (kj : Task), s.tasks[j]? = some kj → kj.phase ≠ .active)
    (hk : s.tasks[t]? = some k) (hu : k.unstarted) (hl : c.excl = true → s.lock = some t) :
    Inv c g (start c s t k) := by
  obtain ⟨hres0, hdepth0, hsc0⟩ := h.idle hno
  have hna : k.phase ≠ .active := hno t k hk
  have hst0 := h.inactive t k hk hna
  obtain ⟨htodo, hgot⟩ := h.unstarted t k hk hu
  have hget : ∀ j, (s.tasks.set t { k with phase := .active, owns := true })[j]? =
      if j = t then some { k with phase := .active, owns := true } else s.tasks[j]? :=
    fun j => getElem?_set_tasks hk
  have hkd : ¬ k.isDone := by rintro ⟨o, ho⟩; rcases hu with hu | hu <;> simp [ho] at hu
  have hstart : start c s t k = setTask { s with depth := s.depth + 1 } t { k with phase := .active, owns := true } := by
    simp [start, hdepth0]
  rw [hstart]
  refine { toLogInv := ?_, lockOf := ?_, serial := ?_, idle := ?_, inactive := ?_, unstarted := ?_, act := ?_,
           madeN0 := ?_, finOk := ?_ }
  · exact { resOk := h.resOk, delivC := h.delivC, delivN := h.delivN, madeA := h.madeA, madeC := h.madeC,
            madeN := h.madeN, madeCall := h.madeCall, callLt := h.callLt, callInj := h.callInj,
            callArgs := h.callArgs }
  · intro he j kj hj haj
    simp only [setTask] at hj ⊢; rw [hget] at hj
    by_cases hjt : j = t
    · subst hjt; exact hl he
    · simp [hjt] at hj; exact absurd haj (hno j kj hj)
  · intro he j j' kj kj' hj hj' hd hd'
    simp only [setTask] at hj hj'; rw [hget] at hj hj'
    by_cases hjt : j = t <;> by_cases hjt' : j' = t
    · rw [hjt, hjt']
    · simp [hjt'] at hj'; rw [hjt]; exact h.serial he t j' k kj' hk hj' hkd hd'
    · simp [hjt] at hj; rw [hjt']; exact h.serial he j t kj k hj hk hd hkd
    · simp [hjt] at hj; simp [hjt'] at hj'; exact h.serial he j j' kj kj' hj hj' hd hd'
  · intro hno'
    exact absurd rfl (hno' t { k with phase := .active, owns := true } (by simp only [setTask]; rw [hget]; simp))
  · intro j kj hj hnaj
    simp only [setTask] at hj; rw [hget] at hj
    by_cases hjt : j = t
    · simp [hjt] at hj; subst hj; simp at hnaj
    · simp [hjt] at hj; exact h.inactive j kj hj hnaj
  · intro j kj hj huj
    simp only [setTask] at hj; rw [hget] at hj
    by_cases hjt : j = t
    · simp [hjt] at hj; subst hj; rcases huj with huj | huj <;> simp at huj
    · simp [hjt] at hj; exact h.unstarted j kj hj huj
  · intro j kj hj haj
    simp only [setTask] at hj; rw [hget] at hj
    by_cases hjt : j = t
    · simp [hjt] at hj; subst hj; subst hjt
      refine { owns := rfl, depth := by simp [setTask, hdepth0], resolving := by simp [setTask, hres0, hst0],
               nodup := by simp [hst0], prog := ⟨[], by simp [htodo], by simpa [hgot] using Paired.nil⟩,
               frames := by simp [hst0, Frames], scOk := by simp [setTask, hsc0], madeNA := ?_ }
      intro x _
      exact h.madeN0 j (fun k' hk' => by rw [hk] at hk'; cases hk'; exact hu) x
    · simp [hjt] at hj; exact absurd haj (hno j kj hj)
  · intro j huj x
    by_cases hjt : j = t
    · subst hjt
      have := huj { k with phase := .active, owns := true } (by simp only [setTask]; rw [hget]; simp)
      rcases this with hu' | hu' <;> simp at hu'
    · apply h.madeN0 j _ x
      intro kj hj; exact huj kj (by simp only [setTask]; rw [hget]; simp [hjt, hj])
  · intro j kj o hj hd
    simp only [setTask] at hj; rw [hget] at hj
    by_cases hjt : j = t
    · simp [hjt] at hj; subst hj; simp at hd
    · simp [hjt] at hj; exact (h.finOk j kj o hj hd).mono (fun _ he => he)

/-! ### a new invocation -/

theorem inv_spawn {c : Cfg} {g : Graph} {s : St} (h : Inv c g s) (reqs : List Nat) (bare : Bool)
    (hguard : c.excl = false → ∀ (j : Nat) (kj : Task), s.tasks[j]? = some kj → kj.isDone) (x : Option Nat) :
    Inv c g { s with tasks := s.tasks ++ [newTask reqs bare], cur := x } := by
  have hget : ∀ j, (s.tasks ++ [newTask reqs bare])[j]? =
      if j < s.tasks.length then s.tasks[j]? else if j = s.tasks.length then some (newTask reqs bare) else none := by
    intro j
    by_cases hj : j < s.tasks.length
    · simp [hj, List.getElem?_append_left hj]
    · by_cases hj' : j = s.tasks.length
      · subst hj'; simp
      · simp [hj, hj']; omega
  have hold : ∀ (j : Nat) (kj : Task), (s.tasks ++ [newTask reqs bare])[j]? = some kj → kj.phase ≠ .fresh → s.tasks[j]? = some kj := by
    intro j kj hj hnf
    rw [hget] at hj
    by_cases hlt : j < s.tasks.length
    · rw [if_pos hlt] at hj; exact hj
    · by_cases hj' : j = s.tasks.length
      · simp [hlt, hj'] at hj; subst hj; simp [newTask] at hnf
      · simp [hlt, hj'] at hj
  have hold' : ∀ (j : Nat) (kj : Task), s.tasks[j]? = some kj → (s.tasks ++ [newTask reqs bare])[j]? = some kj := by
    intro j kj hj
    have hlt : j < s.tasks.length := (List.getElem?_eq_some_iff.mp hj).1
    rw [hget, if_pos hlt]; exact hj
  refine { toLogInv := ?_, lockOf := ?_, serial := ?_, idle := ?_, inactive := ?_, unstarted := ?_, act := ?_,
           madeN0 := ?_, finOk := ?_ }
  · exact { resOk := h.resOk, delivC := h.delivC, delivN := h.delivN, madeA := h.madeA, madeC := h.madeC,
            madeN := h.madeN, madeCall := h.madeCall, callLt := h.callLt, callInj := h.callInj,
            callArgs := h.callArgs }
  · intro he j kj hj haj
    exact h.lockOf he j kj (hold j kj hj (by simp [haj])) haj
  · intro he j j' kj kj' hj hj' hd hd'
    simp only at hj hj'
    rw [hget] at hj hj'
    have key : ∀ (i : Nat) (ki : Task), (if i < s.tasks.length then s.tasks[i]? else if i = s.tasks.length then some (newTask reqs bare) else none) = some ki →
        ¬ ki.isDone → i = s.tasks.length := by
      intro i ki hi hdi
      by_cases hlt : i < s.tasks.length
      · rw [if_pos hlt] at hi; exact absurd (hguard he i ki hi) hdi
      · by_cases hi' : i = s.tasks.length
        · exact hi'
        · simp [hlt, hi'] at hi
    rw [key j kj hj hd, key j' kj' hj' hd']
  · intro hno
    apply h.idle
    intro j kj hj; exact hno j kj (hold' j kj hj)
  · intro j kj hj hnaj
    simp only at hj; rw [hget] at hj
    by_cases hlt : j < s.tasks.length
    · rw [if_pos hlt] at hj; exact h.inactive j kj hj hnaj
    · by_cases hj' : j = s.tasks.length
      · simp [hlt, hj'] at hj; subst hj; rfl
      · simp [hlt, hj'] at hj
  · intro j kj hj hu
    simp only at hj; rw [hget] at hj
    by_cases hlt : j < s.tasks.length
    · rw [if_pos hlt] at hj; exact h.unstarted j kj hj hu
    · by_cases hj' : j = s.tasks.length
      · simp [hlt, hj'] at hj; subst hj; exact ⟨rfl, rfl⟩
      · simp [hlt, hj'] at hj
  · intro j kj hj haj
    have A := h.act j kj (hold j kj hj (by simp [haj])) haj
    exact A.mono (fun _ he => he) (fun _ => rfl) rfl rfl rfl rfl
  · intro j hu x
    apply h.madeN0 j _ x
    intro kj hj; exact hu kj (hold' j kj hj)
  · intro j kj o hj hd
    exact (h.finOk j kj o (hold j kj hj (by simp [hd])) hd).mono (fun _ he => he)

/-! ### cycle errors are genuine -/

theorem frames_chain {g : Graph} {s : St} {t : Nat} {todo : List Nat} : ∀ {fs : List Frame},
    Frames g s t todo fs → DepChain g (fs.map Frame.rid).reverse
  | [], _ => trivial
  | [f], _ => by simp [DepChain]
  | f :: p :: ps, h => by
    obtain ⟨_, hcal, hrest⟩ := h
    have ih := frames_chain hrest
    obtain ⟨hhead, _⟩ := hcal
    obtain ⟨⟨r, pre, hr, hd, _⟩, _, _⟩ := hrest
    have hdep : Dep g p.rid f.rid := by
      refine ⟨r, hr, ?_⟩
      rw [hd, head?_eq_some_cons hhead]; simp
    simp only [List.map_cons, List.reverse_cons] at ih ⊢
    exact DepChain.snoc ih hdep

theorem frames_bottom {g : Graph} {s : St} {t : Nat} {todo : List Nat} : ∀ {fs : List Frame},
    Frames g s t todo fs → fs ≠ [] → ∃ b, (fs.map Frame.rid).reverse.head? = some b ∧ todo.head? = some b
  | [], _, hne => absurd rfl hne
  | [f], h, _ => ⟨f.rid, by simp, h.2.1⟩
  | f :: p :: ps, h, _ => by
    obtain ⟨b, hb, htodo⟩ := frames_bottom h.2.2 (by simp)
    refine ⟨b, ?_, htodo⟩
    simp only [List.map_cons, List.reverse_cons] at hb ⊢
    rw [List.head?_append, hb]; rfl

theorem cycle_outcome {g : Graph} {s : St} {t : Nat} {k : Task} {x : Nat} (A : ActInv g s t k)
    (hcaller : CallerOk k.todo k.stack x) (hx : x ∈ s.resolving) :
    OutcomeOk g s t k.reqs (.cycle (s.resolving ++ [x])) := by
  cases hst : k.stack with
  | nil => rw [A.resolving, hst] at hx; simp at hx
  | cons f fs =>
    have hfr := A.frames
    rw [hst] at hfr hcaller
    have hchain := frames_chain hfr
    obtain ⟨b, hb, htodo⟩ := frames_bottom hfr (by simp)
    obtain ⟨⟨r, pre, hr, hd, _⟩, _, _⟩ := hfr
    obtain ⟨hhead, _⟩ := hcaller
    have hdep : Dep g f.rid x := by
      refine ⟨r, hr, ?_⟩
      rw [hd, head?_eq_some_cons hhead]; simp
    have hres : s.resolving = ((f :: fs).map Frame.rid).reverse := by rw [A.resolving, hst]
    rw [← hres] at hchain hb
    obtain ⟨l, hl⟩ : ∃ l, s.resolving = b :: l := by
      cases hs : s.resolving with
      | nil => rw [hs] at hb; simp at hb
      | cons a l => rw [hs] at hb; simp at hb; exact ⟨l, by rw [hb]⟩
    have hlast : (b :: l).getLast? = some f.rid := by
      rw [← hl, hres]; simp
    refine ⟨⟨b, ?_, ?_⟩, s.resolving, x, rfl, hx, ?_⟩
    · obtain ⟨pre', hpre, _⟩ := A.prog
      rw [hpre, head?_eq_some_cons htodo]; simp
    · exact not_acyc_of_cycle (hl ▸ hchain) hlast (hl ▸ hx) hdep
    · obtain ⟨l', hl'⟩ : ∃ l', s.resolving = l' ++ [f.rid] := by
        rw [hres]; exact ⟨(fs.map Frame.rid).reverse, by simp⟩
      rw [hl']; exact DepChain.snoc (hl' ▸ hchain) hdep

end Resource
