class Route:
    def __init__(self, path, endpoint=None, methods=None, name=None, **kwargs):
        self.path = path
        self.endpoint = endpoint
        self.methods = methods
        self.name = name
