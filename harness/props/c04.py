"""C04 — every run ends once, and its stream ends with the matching terminal event."""
from __future__ import annotations

import random

from ..engine import monitors, overlap, reuse, suite
from ..runner import Env, Outcome

THEOREMS = ["C04_init_live", "C04_terminal_last", "C04_crash_unreachable", "C04_terminal_last_unconditional",
            "C04_outcome_once", "C04_consumer_terminates_of_endedWell", "C04_consumer_terminates", "C04_statement_holds",
            "C04_refuted_witness_unrepaired", "C04_refuted_unrepaired", "C04_unrepaired_differs_only_on_raise"]
LEAN_TARGETS = ["WfProps.C04"]
EXPLANATION = (
    "Runner LTS: for every configuration, retry-policy oracle (also one that raises), initial state satisfying the "
    "worker-slot invariant, start event, timeout and schedule/worker results/external ticks (whose user content publishes "
    "no StopEvent behind the engine's back) a run is live with no terminal event, or ended with the terminal event of the "
    "outcome's kind as the last and only terminal element of the stream (C04_terminal_last_unconditional); there is no "
    "third case: an exception escaping the reducer is unreachable from the start of a run (C04_crash_unreachable: the "
    "three remaining sources - no free worker id, step result for an unknown step, step result for a worker not in "
    "progress - are excluded by the worker-slot invariant and by running <= in-progress); after the end nothing changes; "
    "a consumer that stops at the first terminal element stops exactly when the run has ended (C04_consumer_terminates). "
    "Of the reducer BEFORE the repair of C04/engine_side_failure_no_terminal_event (a retry policy raising inside the "
    "reducer => no terminal event) the statement is refuted (C04_refuted_unrepaired, reducer variant kept in Lean); the "
    "raising-policy witness and raising policies in the generated stream run on the real engine on every run as "
    "regression tests. Tie: runner correspondence tick by tick (commands in order, stream length, outcome). Search: "
    "outcome vs terminal event, uniqueness, nothing after it, consumer termination."
)
ASSUMPTIONS = suite.ENGINE_ASSUMPTIONS + [
    "steps returning non-events are turned into step failures by the step wrapper (exercised by the monitors, 'ret bad' scripts)",
    "TickIdleRelease (server-internal release) is outside the four outcomes of the property",
    "ctx.write_event_to_stream(StopEvent) by user code is outside the property",
    "the retry policy is an oracle answering a delay, None or an exception; a policy object that breaks the protocol in another way "
    "(no introspectable `next`: inspect.signature raising; a non-numeric delay) and exceptions raised by the runtime adapter inside the "
    "control loop (get_now, write_to_event_stream, wait_for_next_task - store faults are C15's subject) are outside the model: those "
    "still end a run without a terminal event",
]


def _raising(spec: dict, rng) -> dict:
    """a tenth of the specs: retry policies whose next() raises (regression test of the repaired finding
    C04/engine_side_failure_no_terminal_event: the run must still end with one matching terminal event)"""
    if rng.random() < 0.10:
        for s in spec["steps"]:
            if s.get("retry") and rng.random() < 0.6:
                s["retry"] = {"kind": "raises"}
    return spec


def _cancel_reporting(spec: dict, rng) -> dict:
    """user cancellation while a gated step is in flight that reports on the stream from its cancellation path
    (`except CancelledError: ctx.write_event_to_stream(..); raise`): nothing may follow the WorkflowCancelledEvent"""
    gated = [s for s in spec["steps"] if any(a[0] in ("gate", "sleep") for a in s["script"]) and s.get("role") != "handler"]
    if not gated:
        return spec
    for s in rng.sample(gated, min(len(gated), rng.randint(1, 2))):
        if not any(a[0] == "on_cancel_stream" for a in s["script"]):
            s["script"].insert(0, ["on_cancel_stream", rng.choice([5, 6, 7, 8, 9])])
    spec["externals"] = [e for e in spec.get("externals", []) if e.get("op") != "cancel"] + [{"op": "cancel", "after_quiet": rng.randint(0, 4)}]
    spec.pop("timeout", None)
    return spec


def _reuse_runs(env: Env, out: Outcome, n: int) -> None:
    """histories of 2..3 runs on one runtime that reuse an explicit run_id (earlier handlers kept or dropped, their streams
    unread / partly read): the last run is refused or is a run of its own (own events only, one matching terminal event, last)"""
    rng = random.Random(env.rng.randrange(1 << 30))
    jobs = []
    if env.replay is not None and isinstance(env.replay.get("payload", {}).get("case"), dict) and "reuse" in env.replay["payload"]["case"]:
        jobs.append(env.replay["payload"]["case"]["reuse"])
    jobs += [reuse.gen_scenario(rng) for _ in range(n)]
    for sc in jobs:
        vs, info = reuse.run_scenario(sc)
        out.evaluations += 1
        for k, v in info.items():
            out.count(f"reuse:{k}", v)
        out.count("reuse:last_kind:" + sc["runs"][-1]["kind"])
        if info.get("accepted", 0) >= 2:
            out.nontrivial(("reuse", repr(sc)))
        for v in vs:
            v.replay = {"reuse": sc}
            out.violations.append(v)


def _overlap_runs(env: Env, out: Outcome, n: int) -> None:
    """2..3 consumers of ONE run's stream alive at the same time (owner reads through the terminal event, the others arrive
    before / while / right after it is taken), every outcome kind: once the run has ended and the virtual loop is quiescent
    every consumer has terminated (terminal event, left on its own, or refused); nothing delivered twice or lost"""
    rng = random.Random(env.rng.randrange(1 << 30))
    jobs = []
    if env.replay is not None and isinstance(env.replay.get("payload", {}).get("case"), dict) and "overlap" in env.replay["payload"]["case"]:
        jobs.append(env.replay["payload"]["case"]["overlap"])
    jobs += [sc for item in suite.load_corpus("C04/overlap") for sc in item["scenarios"]]
    jobs += [overlap.gen_scenario(rng) for _ in range(n)]
    for sc in jobs:
        vs, info = overlap.run_scenario(sc)
        out.evaluations += 1
        for k, v in info.items():
            out.count(f"overlap:{k}", v)
        out.count("overlap:kind:" + sc["kind"])
        out.count("overlap:consumers", len(sc["consumers"]))
        if len(sc["consumers"]) >= 2 and info.get("terminal_delivered"):
            out.nontrivial(("overlap", repr(sc)))
        out.violations += vs


def run(env: Env) -> Outcome:
    out = Outcome()
    out.rule = ("direct (state,tick) pairs + live scripted workflows (steps that raise, return non-events, race with StopEvent, "
                "cancel/timeout externals, raising retry policies in a tenth of the specs); run histories reusing one run_id on one runtime; several consumers of one run's stream alive at once (all four outcome kinds); non-trivial = more than 2 ticks; distinct by (spec, schedule)")
    suite.direct_corr(env, out, env.budget(3000, 60000))
    suite.live_runs(env, out, env.budget(400, 8000), [monitors.mon_c04], extra_specs=[c for c in suite.load_corpus("C04") if "spec" in c],
                    mutate_spec=_raising)
    suite.live_runs(env, out, env.budget(120, 2400), [monitors.mon_c04], mutate_spec=_cancel_reporting)
    _reuse_runs(env, out, env.budget(150, 3000))
    _overlap_runs(env, out, env.budget(250, 5000))
    return out
