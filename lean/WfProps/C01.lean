import WfProofs.EngineReduce
import WfProofs.RunnerWorkers
import WfProofs.EngineUnrepaired
/-!
# C01 — a step never runs more invocations at once than its worker limit

The reducer owns the table of in-progress invocations (`in_progress`); a worker
coroutine exists only for an entry of that table (`CommandRunWorker` is emitted
next to the insertion, and on a collect re-run for the same slot).  The theorems
below hold for **every** sequence of ticks — well-formed or not, any results,
any retry-policy decisions, any clock values — so they cover every workflow
graph, worker count and completion order at once.
-/
open Engine

/-- All states reachable from `init` by rewinding and then reducing an arbitrary
list of (tick, now) pairs. -/
def C01.reach (cfg : Cfg) (pol : Policy) (st0 : State) (now0 : Int) (ticks : List (Tick × Int)) : State :=
  ticks.foldl (fun st tn => (reduce cfg pol tn.1 st tn.2).1) (rewind cfg st0 now0).1

/-- **Invariant**: in every reachable state, for every step, the worker ids of the
in-progress invocations are pairwise distinct and lie in `[0, num_workers)`. -/
theorem C01_slots_distinct_in_range (cfg : Cfg) (hwf : cfg.WF) (pol : Policy) (st0 : State)
    (h0 : IdsInv cfg st0) (now0 : Int) (ticks : List (Tick × Int)) :
    IdsInv cfg (C01.reach cfg pol st0 now0 ticks) := by
  unfold C01.reach
  have hr := rewind_idsInv cfg hwf st0 now0 h0
  generalize (rewind cfg st0 now0).1 = st at hr
  induction ticks generalizing st with
  | nil => simpa using hr
  | cons tn rest ih =>
    simp only [List.foldl_cons]
    exact ih _ (reduce_idsInv cfg hwf pol tn.1 st tn.2 hr)

/-- **Worker limit**: hence at most `num_workers` invocations of a step are in
progress in any reachable state (pigeonhole on the slots). -/
theorem C01_workers_bounded (cfg : Cfg) (hwf : cfg.WF) (pol : Policy) (st0 : State)
    (h0 : IdsInv cfg st0) (now0 : Int) (ticks : List (Tick × Int)) :
    ∀ c ∈ cfg.steps,
      ((C01.reach cfg pol st0 now0 ticks).workers c.name).inProg.length ≤ c.numWorkers := by
  intro c hc
  exact (C01_slots_distinct_in_range cfg hwf pol st0 h0 now0 ticks c hc).length_le

/-- A fresh run starts from a state satisfying the invariant (and so does any
deserialised state, whose `in_progress` lists are empty). -/
theorem C01_init (cfg : Cfg) : IdsInv cfg initState := idsInv_init cfg

/-- The slot allocator never fails: with the invariant, `id_candidates[0]` exists
whenever there is capacity, so starting a worker never raises. -/
theorem C01_allocator_total (att : Attempt) (step : Nat) (ss : StepState) (nw : Nat) (now : Int)
    (h : IdsOk ss nw) : Cmd.crash ∉ (addOrEnqueue att step ss nw now).2 :=
  addOrEnqueue_no_crash att step ss nw now h

/-- A started worker always owns the slot it is told to run on: the `runWorker`
command of `addOrEnqueue` names an id that is in the new table and was free before. -/
theorem C01_started_on_free_slot (att : Attempt) (step : Nat) (ss : StepState) (nw : Nat) (now : Int)
    (ev : Ev) (w : Nat) (h : Cmd.runWorker step ev w ∈ (addOrEnqueue att step ss nw now).2) :
    w ∉ usedIds ss ∧ w < nw ∧ w ∈ usedIds (addOrEnqueue att step ss nw now).1 := by
  unfold addOrEnqueue at h ⊢
  by_cases hlt : ss.inProg.length < nw
  · simp only [hlt, ↓reduceIte] at h ⊢
    cases hfree : freeIds ss nw with
    | nil => simp [hfree] at h
    | cons i rest =>
      simp only [hfree, List.mem_cons, Cmd.runWorker.injEq, List.mem_nil_iff, or_false,
        reduceCtorEq] at h
      obtain ⟨_, _, hw⟩ := h
      subst hw
      have hmem : w ∈ freeIds ss nw := by rw [hfree]; simp
      obtain ⟨h1, h2⟩ := mem_freeIds hmem
      refine ⟨h2, h1, ?_⟩
      simp [usedIds]
  · simp [hlt] at h

/-! Non-vacuity: a concrete configuration with two workers, three events, any order. -/
def C01.exCfg : Cfg := { steps := [{ name := 1, accepted := [5], numWorkers := 2, hasRetry := false }] }
def C01.exEv (u : Nat) : Ev := { ty := 5, kind := .plain, uid := u }
example : C01.exCfg.WF := by simp [Cfg.WF, Cfg.names, C01.exCfg]
example :
    let st := C01.reach C01.exCfg (fun _ _ _ _ => .stop) initState 0
      [(.addEvent { ev := C01.exEv 1 } none, 0), (.addEvent { ev := C01.exEv 2 } none, 0),
       (.addEvent { ev := C01.exEv 3 } none, 0)]
    ((st.workers 1).inProg.map (·.wid), (st.workers 1).queue.length) = ([0, 1], 1) := by decide

/-! ## The runner: live worker tasks

What the property literally talks about is the set of started-and-unfinished worker
tasks, `Runner.running`.  Below: `running` is a duplicate-free sub-table of the reducer's
`in_progress` tables in every state the runner LTS reaches — for every schedule
(`acts : List Act`: buffer drains, workers finishing in any order with any results, mailbox
pulls, timers, time, external ticks, stream writes), every policy, every (possibly resumed)
initial state.  It is an inclusion, not an equality: between a `workerDone` and the `drain`
of its `stepResult` tick the task is gone while its in-progress row still exists.

**Repaired finding.**  These theorems were false of the reducer before the repair
"a step result schedules at most one collect_events re-run of its invocation": a collect
re-run re-issues `CommandRunWorker` for the finishing worker's own slot, and one
`stepResult` tick could take the re-run branch *twice* when its results named the same
collect buffer three times (re-run, append, re-run again against the refreshed snapshot).
Two tasks then ran on one slot, a 2-worker step had 3 live tasks, and the second task's
result found no in-progress row (`ValueError: Worker 1 not found in in_progress`).  The
repaired reducer skips the remaining `AddCollectedEvent` results of a tick once the
re-run is scheduled; `WfProofs/EngineUnrepaired.lean` keeps the old `applyRes` as a variant
and `C01_refuted_*_unrepaired` are the concrete witnesses against it.
-/

/-- start of a run, then an arbitrary schedule -/
abbrev C01.runFrom (cfg : Cfg) (pol : Policy) (st0 : State) (now : Int) (start : Option Ev)
    (timeout : Option Nat) (acts : List Act) : Runner :=
  Runner.run cfg pol (Runner.init cfg st0 now start timeout) acts

/-- **Clause 1** (invariant of the runner LTS): in every reachable runner state every live
worker task is backed by an in-progress row of its (configured) step with its worker id, and
the `(step, worker id)` slots of the live tasks are pairwise distinct. -/
theorem C01_running_subset_in_progress (cfg : Cfg) (hwf : cfg.WF) (pol : Policy) (st0 : State)
    (h0 : IdsInv cfg st0) (now : Int) (start : Option Ev) (timeout : Option Nat) (acts : List Act) :
    (∀ w ∈ (C01.runFrom cfg pol st0 now start timeout acts).running,
      w.step ∈ cfg.names ∧
      ∃ ip ∈ ((C01.runFrom cfg pol st0 now start timeout acts).st.workers w.step).inProg,
        ip.wid = w.wid) ∧
    ((C01.runFrom cfg pol st0 now start timeout acts).running.map Worker.slot).Nodup := by
  have h := run_runInv cfg hwf pol False acts _ (guarded_false cfg pol acts _)
    (init_runInv cfg hwf False st0 h0 now start timeout)
  refine ⟨fun w hw => ?_, h.nodup⟩
  obtain ⟨h1, ip, hip, hwid, _⟩ := h.sub w hw
  exact ⟨h1, ip, hip, hwid⟩

/-- **Clause 2**: a step never has more live worker tasks than `num_workers`, and every live
task runs on a slot in `[0, num_workers)` — for retries, collect re-runs, waiter replays and
resumed runs alike, for every schedule. -/
theorem C01_running_bounded (cfg : Cfg) (hwf : cfg.WF) (pol : Policy) (st0 : State)
    (h0 : IdsInv cfg st0) (now : Int) (start : Option Ev) (timeout : Option Nat) (acts : List Act) :
    (∀ c ∈ cfg.steps,
      ((C01.runFrom cfg pol st0 now start timeout acts).running.filter
        (fun w => w.step == c.name)).length ≤ c.numWorkers) ∧
    ∀ w ∈ (C01.runFrom cfg pol st0 now start timeout acts).running, w.wid < cfg.nw w.step :=
  (run_runInv cfg hwf pol False acts _ (guarded_false cfg pol acts _)
    (init_runInv cfg hwf False st0 h0 now start timeout)).bounded hwf

/-- **Clause 1, event part** (true only with a guard): if every collect re-run carries the
finishing worker's own event (`Runner.sameEvent`, checked along the run), the backing row has
the task's event.  Without the guard it fails — see the example below: a re-run runs with the
event named by the `AddCollectedEvent` result, which is whatever the step passed to
`collect_events`. -/
theorem C01_running_same_event_partial (cfg : Cfg) (hwf : cfg.WF) (pol : Policy) (st0 : State)
    (h0 : IdsInv cfg st0) (now : Int) (start : Option Ev) (timeout : Option Nat) (acts : List Act)
    (he : Runner.sameEvent cfg pol (Runner.init cfg st0 now start timeout) acts = true) :
    ∀ w ∈ (C01.runFrom cfg pol st0 now start timeout acts).running,
      ∃ ip ∈ ((C01.runFrom cfg pol st0 now start timeout acts).st.workers w.step).inProg,
        ip.wid = w.wid ∧ ip.ev = w.ev := by
  have h := run_runInv cfg hwf pol True acts _ (guarded_of_sameEvent cfg pol acts _ he)
    (init_runInv cfg hwf True st0 h0 now start timeout)
  intro w hw
  obtain ⟨_, ip, hip, hwid, hev⟩ := h.sub w hw
  exact ⟨ip, hip, hwid, hev trivial⟩

/-- deliver event `u` to the run: external `send_event`, mailbox pull, process the tick -/
def C01.feed (u : Nat) : List Act :=
  [.external (.addEvent { ev := C01.exEv u } none), .pull, .drain]

def C01.exPol : Policy := fun _ _ _ _ => .stop

/-- the event clause needs its guard: the re-run task carries uid 9, its row uid 2 -/
example :
    let r := C01.runFrom C01.exCfg C01.exPol initState 0 none none
      (C01.feed 1 ++ C01.feed 2 ++
        [.workerDone 1 0 [.addCollected 7 (C01.exEv 1), .result none], .drain,
         .workerDone 1 1 [.addCollected 7 (C01.exEv 9)], .drain])
    (r.running.map (fun w => (w.step, w.wid, w.ev.uid)),
      (r.st.workers 1).inProg.map (fun ip => (ip.wid, ip.ev.uid))) = ([(1, 1, 9)], [(1, 2)]) := by
  decide

/-! ### what the repair prevents -/

/-- the two clauses as predicates of the run function, to state them of both reducers -/
def C01.RunningSubset (run : Cfg → Policy → Runner → List Act → Runner) : Prop :=
  ∀ (cfg : Cfg), cfg.WF → ∀ (pol : Policy) (st0 : State), IdsInv cfg st0 →
    ∀ (now : Int) (start : Option Ev) (timeout : Option Nat) (acts : List Act),
      (∀ w ∈ (run cfg pol (Runner.init cfg st0 now start timeout) acts).running,
        ∃ ip ∈ ((run cfg pol (Runner.init cfg st0 now start timeout) acts).st.workers w.step).inProg,
          ip.wid = w.wid) ∧
      ((run cfg pol (Runner.init cfg st0 now start timeout) acts).running.map Worker.slot).Nodup

def C01.RunningBounded (run : Cfg → Policy → Runner → List Act → Runner) : Prop :=
  ∀ (cfg : Cfg), cfg.WF → ∀ (pol : Policy) (st0 : State), IdsInv cfg st0 →
    ∀ (now : Int) (start : Option Ev) (timeout : Option Nat) (acts : List Act),
      ∀ c ∈ cfg.steps,
        ((run cfg pol (Runner.init cfg st0 now start timeout) acts).running.filter
          (fun w => w.step == c.name)).length ≤ c.numWorkers

/-- of the model (the repaired reducer) both hold … -/
example : C01.RunningSubset Runner.run ∧ C01.RunningBounded Runner.run :=
  ⟨fun cfg hwf pol st0 h0 now start timeout acts =>
      ⟨fun w hw => ((C01_running_subset_in_progress cfg hwf pol st0 h0 now start timeout acts).1 w hw).2,
        (C01_running_subset_in_progress cfg hwf pol st0 h0 now start timeout acts).2⟩,
    fun cfg hwf pol st0 h0 now start timeout acts =>
      (C01_running_bounded cfg hwf pol st0 h0 now start timeout acts).1⟩

/-- the witness schedule on the 2-worker step of `C01.exCfg`: events 1 and 2 run on slots 0
and 1; the first finishes adding its event to collect buffer 7; event 3 takes slot 0; the
second finishes naming buffer 7 three times -/
def C01.doubleRerun : List Act :=
  C01.feed 1 ++ C01.feed 2 ++
  [.workerDone 1 0 [.addCollected 7 (C01.exEv 1), .result none], .drain] ++
  C01.feed 3 ++
  [.workerDone 1 1 [.addCollected 7 (C01.exEv 2), .addCollected 7 (C01.exEv 2),
      .addCollected 7 (C01.exEv 2)], .drain]

/-- before the repair: three live tasks on the 2-worker step, two of them on slot 1, nothing
crashed yet -/
example :
    let r := Runner.runUnrepaired C01.exCfg C01.exPol (Runner.init C01.exCfg initState 0 none none)
      C01.doubleRerun
    (r.running.map Worker.slot, r.outcome, (r.st.workers 1).inProg.map (·.wid))
      = ([(1, 0), (1, 1), (1, 1)], none, [1, 0]) := by decide

/-- after the repair, same schedule: one re-run, two live tasks, the buffer untouched by the
skipped results -/
example :
    let r := C01.runFrom C01.exCfg C01.exPol initState 0 none none C01.doubleRerun
    (r.running.map Worker.slot, r.outcome, (r.st.workers 1).inProg.map (·.wid),
      ((r.st.workers 1).collected.get 7).map (·.uid))
      = ([(1, 0), (1, 1)], none, [1, 0], [1]) := by decide

/-- … of the reducer before the repair the worker limit fails … -/
theorem C01_refuted_running_bounded_unrepaired : ¬ C01.RunningBounded Runner.runUnrepaired := by
  intro h
  have := h C01.exCfg (by simp [Cfg.WF, Cfg.names, C01.exCfg]) C01.exPol initState (idsInv_init _)
    0 none none C01.doubleRerun { name := 1, accepted := [5], numWorkers := 2, hasRetry := false }
    (by simp [C01.exCfg])
  revert this
  decide

/-- … and so does slot distinctness … -/
theorem C01_refuted_running_subset_in_progress_unrepaired : ¬ C01.RunningSubset Runner.runUnrepaired := by
  intro h
  have := (h C01.exCfg (by simp [Cfg.WF, Cfg.names, C01.exCfg]) C01.exPol initState (idsInv_init _)
    0 none none C01.doubleRerun).2
  revert this
  decide

/-- … and, one step later, the inclusion itself: the first of the two slot-1 tasks completes,
its row is removed, the second is still live with no row behind it -/
example :
    let r := Runner.runUnrepaired C01.exCfg C01.exPol (Runner.init C01.exCfg initState 0 none none)
      (C01.doubleRerun ++ [.workerDone 1 1 [.result none], .drain])
    (r.running.map Worker.slot, (r.st.workers 1).inProg.map (·.wid)) = ([(1, 0), (1, 1)], [0]) := by
  decide

/-! Non-vacuity: schedules that reach the limit, a re-run, and a resumed run. -/

/-- two workers of the 2-worker step live at once, the third event stays queued -/
example :
    let acts := C01.feed 1 ++ C01.feed 2 ++ C01.feed 3
    let r := C01.runFrom C01.exCfg C01.exPol initState 0 none none acts
    Runner.sameEvent C01.exCfg C01.exPol (Runner.init C01.exCfg initState 0 none none) acts = true ∧
      (r.running.map Worker.slot, (r.st.workers 1).inProg.map (·.wid), (r.st.workers 1).queue.length)
        = ([(1, 0), (1, 1)], [0, 1], 1) := by decide

/-- a genuine collect re-run (slot 1 re-issued once, its later collect result skipped) and a
slot re-used by the queued event (slot 0) -/
example :
    let acts := C01.feed 1 ++ C01.feed 2 ++ C01.feed 3 ++
      [.workerDone 1 0 [.addCollected 7 (C01.exEv 1), .result none], .drain,
       .workerDone 1 1 [.addCollected 7 (C01.exEv 2), .addCollected 8 (C01.exEv 2)], .drain]
    let r := C01.runFrom C01.exCfg C01.exPol initState 0 none none acts
    Runner.sameEvent C01.exCfg C01.exPol (Runner.init C01.exCfg initState 0 none none) acts = true ∧
      (r.running.map (fun w => (w.step, w.wid, w.ev.uid)), (r.st.workers 1).inProg.map (·.wid),
        (r.st.workers 1).collected.has 8)
        = ([(1, 0, 3), (1, 1, 2)], [1, 0], false) := by decide

/-- a resumed run: the serialized state has two in-progress rows and a backlog; the rewind
restarts exactly two workers -/
example :
    let ip (u w : Nat) : InProg :=
      { ev := C01.exEv u, wid := w, snapEvents := [], snapWaiters := [], attempts := 0, firstAt := 0 }
    let st0 : State := { isRunning := true, workers := fun s =>
      if s = 1 then { inProg := [ip 1 1, ip 2 0], queue := [{ ev := C01.exEv 3 }] } else {} }
    let r := Runner.init C01.exCfg st0 5 none none
    (r.running.map (fun w => (w.step, w.wid, w.ev.uid)), (r.st.workers 1).queue.length)
      = ([(1, 0, 2), (1, 1, 1)], 1) := by decide
