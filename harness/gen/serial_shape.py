"""What `ctx.to_dict()` writes and `Context.from_dict` reads back -> lean/WfModel/GenSerialShape.lean (C12).

Re-read from /repo's current sources on every run:

* `runtime/types/internal_state.py`: the keyword arguments (name=expression) of every record `to_serialized` writes (queue
  entry, in-progress entry, waiter, per-step record, context) and of every object `from_serialized` builds (queue entry, the
  entry made of an in-progress event and the list method that places it, waiter), the guard that skips unknown steps, the
  `is_running` hand-over; the dataclass fields of `EventAttempt` and `InProgressState`;
* `runtime/types/results.py`: the dataclass fields of `StepWorkerWaiter`;
* `context/context_types.py`: fields and defaults of the four `Serialized*` models, the version test of `from_dict_auto`,
  the legacy `requirements` validator, and the facts of `from_v0` (what a V0 step record is made of, in which order, under
  which buffer id, which names are skipped);
* `context/pre_context.py`: the statements of the `try:` block of `PreContext.__init__` and its `except` clauses;
* `context/context.py`: where `_workflow_run` computes the initial state from and what `from_dict` builds.

`C12_source_shape` (WfProps/C12.lean) pins all of them next to the model equations they justify; an edit of any of these
places (a field added to `EventAttempt` but not written, the version bumped on one side only, in-progress entries written
with retry info, ...) stops the theorem from checking.  Untranslatable shapes produce `"<missing>"` and a note.
"""
from __future__ import annotations

import ast
import copy

from ..boot import repo_path

LEAN_MODULE = "GenSerialShape"
BASE = "packages/llama-index-workflows/src/workflows/"
IS = BASE + "runtime/types/internal_state.py"
RS = BASE + "runtime/types/results.py"
CT = BASE + "context/context_types.py"
PC = BASE + "context/pre_context.py"
CX = BASE + "context/context.py"
MISSING = "<missing>"


def _lean_str(s: str) -> str:
    return '"' + s.replace("\\", "\\\\").replace('"', '\\"').replace("\n", " ") + '"'


def _lst(xs: list[str]) -> str:
    return "[" + ", ".join(_lean_str(x) for x in xs) + "]"


def _parse(rel: str) -> ast.Module | None:
    try:
        return ast.parse(open(repo_path(rel)).read())
    except (OSError, SyntaxError):
        return None


def _find(tree: ast.AST | None, name: str, kinds: tuple = (ast.FunctionDef, ast.AsyncFunctionDef, ast.ClassDef)) -> ast.AST | None:
    if tree is None:
        return None
    for n in ast.walk(tree):
        if isinstance(n, kinds) and getattr(n, "name", None) == name:
            return n
    return None


def _calls(node: ast.AST | None, callee: str) -> list[ast.Call]:
    """calls of `callee(...)` (a bare name or the last attribute) inside `node`, in source order"""
    if node is None:
        return []
    out = []
    for n in ast.walk(node):
        if isinstance(n, ast.Call):
            f = n.func
            nm = f.id if isinstance(f, ast.Name) else f.attr if isinstance(f, ast.Attribute) else None
            if nm == callee:
                out.append(n)
    out.sort(key=lambda c: (c.lineno, c.col_offset))
    return out


def _kwargs(c: ast.Call | None) -> list[str]:
    if c is None:
        return [MISSING]
    out = [ast.unparse(a) for a in c.args]
    out += [f"{k.arg}={ast.unparse(k.value)}" if k.arg else "**" + ast.unparse(k.value) for k in c.keywords]
    return out


def _fields(cls: ast.AST | None) -> list[str]:
    """annotated class-level fields `name` / `name=default`, in order"""
    if not isinstance(cls, ast.ClassDef):
        return [MISSING]
    out = []
    for st in cls.body:
        if isinstance(st, ast.AnnAssign) and isinstance(st.target, ast.Name):
            out.append(st.target.id if st.value is None else f"{st.target.id}={ast.unparse(st.value)}")
    return out


def _names(fields: list[str]) -> list[str]:
    return [f.split("=", 1)[0] for f in fields]


def _skeleton(body: list[ast.stmt]) -> list[str]:
    out: list[str] = []
    for st in body:
        if isinstance(st, ast.Expr) and isinstance(st.value, ast.Constant) and isinstance(st.value.value, str):
            continue
        if isinstance(st, ast.If):
            out.append("if " + ast.unparse(st.test))
            out += _skeleton(st.body)
            if st.orelse:
                out.append("else")
                out += _skeleton(st.orelse)
            out.append("endif")
        elif isinstance(st, (ast.For, ast.AsyncFor)):
            out.append("for " + ast.unparse(st.target) + " in " + ast.unparse(st.iter))
            out += _skeleton(st.body)
            out.append("endfor")
        elif isinstance(st, ast.Try):
            out.append("try")
            out += _skeleton(st.body)
            for h in st.handlers:
                out.append("except " + (ast.unparse(h.type) if h.type is not None else ""))
                out += _skeleton(h.body)
            out.append("endtry")
        else:
            out.append(ast.unparse(st))
    return out


class Scope:
    """alpha-renaming of a function's locals (parameters, assigned names, loop / comprehension / handler variables; not
    `self` / `cls`): within one emitted item they are called v0, v1, ... in order of first occurrence in the source, so
    that renaming a local or reordering independent statements does not change what is emitted"""

    def __init__(self, fn: ast.AST | None):
        self.fn = fn
        self.local: set[str] = set()
        if fn is not None:
            a = getattr(fn, "args", None)
            if a is not None:
                for x in list(a.posonlyargs) + list(a.args) + list(a.kwonlyargs) + ([a.vararg] if a.vararg else []) + ([a.kwarg] if a.kwarg else []):
                    self.local.add(x.arg)
            for n in ast.walk(fn):
                if isinstance(n, ast.Name) and isinstance(n.ctx, ast.Store):
                    self.local.add(n.id)
                if isinstance(n, ast.ExceptHandler) and n.name:
                    self.local.add(n.name)
        self.local -= {"self", "cls"}

    def ren(self, nodes: list[ast.AST]) -> list[ast.AST]:
        occ = [n for nd in nodes for n in ast.walk(nd) if isinstance(n, ast.Name) and n.id in self.local]
        occ.sort(key=lambda n: (n.lineno, n.col_offset))
        mp: dict[str, str] = {}
        for n in occ:
            mp.setdefault(n.id, f"v{len(mp)}")
        out = []
        for nd in nodes:
            c = copy.deepcopy(nd)
            for n in ast.walk(c):
                if isinstance(n, ast.Name) and n.id in mp:
                    n.id = mp[n.id]
            out.append(c)
        return out

    def exprs(self, nodes: list[ast.AST]) -> list[str]:
        return [ast.unparse(n) for n in self.ren(nodes)]

    def kwargs(self, c: ast.Call | None) -> list[str]:
        if c is None:
            return [MISSING]
        vals = self.exprs(list(c.args) + [k.value for k in c.keywords])
        na = len(c.args)
        return vals[:na] + [(f"{k.arg}=" if k.arg else "**") + v for k, v in zip(c.keywords, vals[na:])]

    def skeleton(self, stmts: list[ast.stmt] | None) -> list[str]:
        if stmts is None:
            return [MISSING]
        return _skeleton(self.ren(list(stmts)))  # type: ignore[arg-type]


def _int_const(n: ast.AST | None) -> int | None:
    if isinstance(n, ast.Constant) and isinstance(n.value, int) and not isinstance(n.value, bool):
        return n.value
    return None


def _kw(c: ast.Call | None, name: str) -> ast.AST | None:
    if c is None:
        return None
    for k in c.keywords:
        if k.arg == name:
            return k.value
    return None


def generate(notes: list[str]) -> list[str]:
    def note(what: str) -> None:
        notes.append("translate: gen/serial_shape: " + what)

    L: list[str] = ["namespace GenSerialShape", ""]

    def emit_list(name: str, doc: str, xs: list[str]) -> None:
        if MISSING in xs or not xs or any(MISSING in x for x in xs):
            note(f"{name}: expected shape not found")
        L.append(f"/-- {doc} -/")
        L.append(f"def {name} : List String := {_lst(xs)}")

    def emit_str(name: str, doc: str, s: str | None) -> None:
        if s is None:
            note(f"{name}: expected shape not found")
            s = MISSING
        L.append(f"/-- {doc} -/")
        L.append(f"def {name} : String := {_lean_str(s)}")

    def emit_int(name: str, doc: str, v: int | None) -> None:
        L.append(f"/-- {doc} -/")
        if v is None:
            note(f"{name}: expected an integer literal")
            L.append(f"def {name} : String := {_lean_str(MISSING)}")
        else:
            L.append(f"def {name} : Int := {v}")

    def one(cs: list[ast.Call], n: int = 1, i: int = 0) -> ast.Call | None:
        return cs[i] if len(cs) == n else None

    def assigned(fn: ast.AST | None, name: str | None) -> ast.AST | None:
        """the value of the single plain assignment `name = ...` in `fn`"""
        if fn is None or name is None:
            return None
        vs = [n.value for n in ast.walk(fn) if isinstance(n, ast.Assign) and len(n.targets) == 1 and isinstance(n.targets[0], ast.Name)
              and n.targets[0].id == name]
        return vs[0] if len(vs) == 1 else None

    ist = _parse(IS)
    bs = _find(ist, "BrokerState", (ast.ClassDef,))
    to_ser = _find(bs, "to_serialized")
    from_ser = _find(bs, "from_serialized")
    TS, FS = Scope(to_ser), Scope(from_ser)

    # ---- to_serialized
    emit_list("queueWritten", "`to_serialized`: the record written for a queue entry (locals v0, v1, ... in order of occurrence)",
              TS.kwargs(one(_calls(to_ser, "SerializedEventAttempt"))))
    stepc = one(_calls(to_ser, "SerializedStepWorkerState"))
    ipv = _kw(stepc, "in_progress")
    ipl = assigned(to_ser, ipv.id if isinstance(ipv, ast.Name) else None)
    ip_expr = ip_over = None
    used: set[str] = set()
    if isinstance(ipl, ast.ListComp) and len(ipl.generators) == 1 and not ipl.generators[0].ifs and isinstance(ipl.generators[0].target, ast.Name):
        g = ipl.generators[0]
        elt = copy.deepcopy(ipl.elt)
        for m in ast.walk(elt):
            if isinstance(m, ast.Name) and m.id == g.target.id:
                m.id = "x"
            elif isinstance(m, ast.Name) and m.id in TS.local:
                m.id = "v0"
        for m in ast.walk(elt):
            if isinstance(m, ast.Attribute) and isinstance(m.value, ast.Name) and m.value.id == "x":
                used.add(m.attr)
        ip_expr = ast.unparse(elt)
        ip_over = TS.exprs([g.iter])[0]
    emit_str("inProgressWritten", "`to_serialized`: what is written for an in-progress invocation `x` (`v0`: the serializer)", ip_expr)
    emit_str("inProgressWrittenOver", "`to_serialized`: the list the in-progress entries are taken from", ip_over)
    emit_list("waiterWritten", "`to_serialized`: the record written for a waiter", TS.kwargs(one(_calls(to_ser, "SerializedWaiter"))))
    emit_list("stepWrittenNames", "`to_serialized`: the fields of the per-step record", [k.arg or "**" for k in stepc.keywords] if stepc else [MISSING])
    ctxc = one(_calls(to_ser, "SerializedContext"))
    emit_list("contextWritten", "`to_serialized`: the context record", TS.kwargs(ctxc))
    emit_int("writtenVersion", "`to_serialized`: the version marker written", _int_const(_kw(ctxc, "version")))
    over = None
    if to_ser is not None:
        fors = [n for n in to_ser.body if isinstance(n, ast.For)]  # type: ignore[attr-defined]
        if len(fors) == 1:
            over = TS.exprs([fors[0].iter])[0]
    emit_str("stepsWrittenOver", "`to_serialized`: the steps written", over)

    # ---- from_serialized
    c = _calls(from_ser, "EventAttempt")
    emit_list("queueRead", "`from_serialized`: the queue entry rebuilt from a written one", FS.kwargs(one(c, 2, 0)))
    emit_list("requeued", "`from_serialized`: the queue entry made of an in-progress event", FS.kwargs(one(c, 2, 1)))
    via = over = None
    if from_ser is not None and len(c) == 2:
        loops = [n for n in ast.walk(from_ser) if isinstance(n, ast.For) and any(c[1] is m for m in ast.walk(n))]
        loops.sort(key=lambda n: -n.lineno)  # innermost first
        if loops:
            n = loops[0]
            for m in ast.walk(n):
                if isinstance(m, ast.Call) and c[1] in m.args and isinstance(m.func, ast.Attribute):
                    via, over = FS.exprs([m.func, n.iter])
    emit_str("requeuedVia", "`from_serialized`: how that entry is placed (`v1`: the step's state; after the restored queue)", via)
    emit_str("requeuedOver", "`from_serialized`: the events it is made for (`v0`: the step's written record)", over)
    emit_list("waiterRead", "`from_serialized`: the waiter rebuilt from a written one", FS.kwargs(one(_calls(from_ser, "StepWorkerWaiter"))))
    guard = running = None
    assigns: list[str] = []
    if from_ser is not None:
        top = [n for n in from_ser.body if isinstance(n, ast.For)]  # type: ignore[attr-defined]
        for n in ast.walk(from_ser):
            if isinstance(n, ast.If) and len(n.body) == 1 and isinstance(n.body[0], ast.Continue):
                guard = FS.exprs([n.test])[0]
            if isinstance(n, ast.Assign) and len(n.targets) == 1 and isinstance(n.targets[0], ast.Attribute) and n.targets[0].attr == "is_running":
                t, v = FS.exprs([n.targets[0], n.value])
                running = t + " = " + v
        if len(top) == 1:
            for n in top[0].body:
                if isinstance(n, ast.Assign) and len(n.targets) == 1 and isinstance(n.targets[0], ast.Attribute) \
                        and isinstance(n.targets[0].value, ast.Name) and n.targets[0].value.id in FS.local:
                    assigns.append(FS.exprs([n.targets[0]])[0])
    emit_str("unknownStepSkipped", "`from_serialized`: the test under which a written step is ignored", guard)
    emit_str("runningRestored", "`from_serialized`: the running flag", running)
    emit_list("workerAssigned", "`from_serialized`: the attributes of a step's state (`v0`) that are assigned (sorted)", sorted(assigns) or [MISSING])

    # ---- dataclasses
    emit_list("eventAttemptFields", "fields of `EventAttempt`", _names(_fields(_find(ist, "EventAttempt", (ast.ClassDef,)))))
    ipf = _names(_fields(_find(ist, "InProgressState", (ast.ClassDef,))))
    emit_list("inProgressFields", "fields of `InProgressState`", ipf)
    wf = _names(_fields(_find(_parse(RS), "StepWorkerWaiter", (ast.ClassDef,))))
    emit_list("waiterFields", "fields of `StepWorkerWaiter`", wf)

    # ---- which fields survive
    def kwnames(c: ast.Call | None) -> list[str]:
        return [MISSING] if c is None else [k.arg or "**" for k in c.keywords]

    emit_list("queueWrittenNames", "`to_serialized`: the fields written for a queue entry", kwnames(one(_calls(to_ser, "SerializedEventAttempt"))))
    emit_list("queueReadNames", "`from_serialized`: the fields given to a rebuilt queue entry", kwnames(one(_calls(from_ser, "EventAttempt"), 2, 0)))
    emit_list("inProgressDropped", "fields of `InProgressState` that `to_serialized` does not write",
              [MISSING] if ip_expr is None or MISSING in ipf else ([f for f in ipf if f not in used] or ["<none>"]))
    wwn = kwnames(one(_calls(to_ser, "SerializedWaiter")))
    emit_list("waiterNotWritten", "fields of `StepWorkerWaiter` for which `to_serialized` writes no field of that name",
              [MISSING] if MISSING in wf or MISSING in wwn else ([f for f in wf if f not in wwn] or ["<none>"]))
    emit_list("waiterReadNames", "`from_serialized`: the fields given to a rebuilt waiter", kwnames(one(_calls(from_ser, "StepWorkerWaiter"))))

    # ---- context_types
    ct = _parse(CT)
    for cls, nm in (("SerializedEventAttempt", "serializedAttemptFields"), ("SerializedWaiter", "serializedWaiterFields"),
                    ("SerializedStepWorkerState", "serializedStepFields"), ("SerializedContext", "serializedContextFields")):
        fs = [f for f in _fields(_find(ct, cls, (ast.ClassDef,))) if not f.startswith("model_config")]
        emit_list(nm, f"fields and defaults of `{cls}`", fs)
    sc = _find(ct, "SerializedContext", (ast.ClassDef,))
    fda = _find(sc, "from_dict_auto")
    DS = Scope(fda)
    test = None
    dv = None
    if fda is not None:
        ifs = [n for n in fda.body if isinstance(n, ast.If)]  # type: ignore[attr-defined]
        if len(ifs) == 1:
            test = DS.exprs([ifs[0].test])[0]
            for n in ast.walk(ifs[0].test):
                if isinstance(n, ast.Compare) and len(n.ops) == 1 and isinstance(n.ops[0], ast.Eq):
                    dv = _int_const(n.comparators[0])
    emit_str("dispatchTest", "`from_dict_auto`: the test under which a dict (`v0`) is read in the current format", test)
    emit_int("dispatchVersion", "`from_dict_auto`: the version that test accepts", dv)
    emit_list("dispatchSkeleton", "`from_dict_auto`: the statements", DS.skeleton(fda.body if fda is not None else None))  # type: ignore[attr-defined]
    dfl = None
    for f in _fields(sc):
        if f.startswith("version="):
            try:
                call = ast.parse(f.split("=", 1)[1], mode="eval").body
                dfl = _int_const(_kw(call, "default")) if isinstance(call, ast.Call) else _int_const(call)
            except SyntaxError:
                dfl = None
    emit_int("defaultVersion", "`SerializedContext.version`: the default", dfl)
    dr = _find(_find(ct, "SerializedWaiter", (ast.ClassDef,)), "deserialize_requirements")
    emit_list("legacyRequirements", "`SerializedWaiter.deserialize_requirements`: the statements",
              Scope(dr).skeleton(dr.body if dr is not None else None))  # type: ignore[attr-defined]

    # ---- from_v0 (every fact numbers the locals it mentions on its own)
    fv0 = _find(sc, "from_v0")
    VS = Scope(fv0)
    facts: list[str] = []
    if fv0 is not None:
        loop = next((n for n in fv0.body if isinstance(n, ast.For)), None)  # type: ignore[attr-defined]
        names = assigned(fv0, loop.iter.id) if loop is not None and isinstance(loop.iter, ast.Name) else (loop.iter if loop is not None else None)
        facts.append("names:" + (VS.exprs([names])[0] if names is not None else MISSING))
        if loop is not None:
            for st in loop.body:
                if isinstance(st, ast.If) and len(st.body) == 1 and isinstance(st.body[0], ast.Continue):
                    facts.append("skip:" + VS.exprs([st.test])[0])
                elif isinstance(st, ast.If):
                    made = _calls(st, "SerializedEventAttempt")
                    tgt = [m.func for m in ast.walk(st) if isinstance(m, ast.Call) and isinstance(m.func, ast.Attribute)
                           and m.func.attr in ("append", "extend", "insert") and m.args and not isinstance(m.args[0], ast.Name)]
                    if made:
                        # test (v0: the name, v1: the V0 context), the entry made (v2: the event string), where it goes (v3)
                        r = VS.exprs([st.test] + [k.value for k in made[0].keywords] + [t.value for t in tgt[:1]])
                        nk = len(made[0].keywords)
                        facts.append("queue-from:" + r[0] + " -> " + ",".join(f"{k.arg}={v}" for k, v in zip(made[0].keywords, r[1: 1 + nk]))
                                     + " via " + ",".join(x + "." + t.attr for x, t in zip(r[1 + nk:], tgt[:1])))
                    else:
                        keys = [m.slice for m in ast.walk(st) if isinstance(m, ast.Subscript) and isinstance(m.ctx, ast.Store)]
                        inner = [m.iter for m in ast.walk(st) if isinstance(m, ast.For)]
                        tests = [m.test for m in ast.walk(st) if isinstance(m, ast.If) and m is not st]
                        r = VS.exprs([st.test] + inner + tests + keys)
                        facts.append("buffers-from:" + r[0] + " over " + ",".join(r[1: 1 + len(inner)]) + " if "
                                     + ",".join(r[1 + len(inner): 1 + len(inner) + len(tests)]) + " key " + ",".join(r[1 + len(inner) + len(tests):]))
                elif isinstance(st, ast.Assign) and _calls(st, "SerializedStepWorkerState"):
                    cc = _calls(st, "SerializedStepWorkerState")[0]
                    # what the record is made of: the list the `queue-from` entries went to, constants, the buffer dict
                    facts.append("step:" + ",".join(f"{k.arg}=" + (ast.unparse(k.value) if not isinstance(k.value, ast.Name) else "<local>") for k in cc.keywords))
        ret = _calls(fv0, "SerializedContext")
        facts.append("context:" + ",".join(VS.kwargs(ret[0]) if ret else [MISSING]))
        # independent parts in a fixed order (the two `queue-from` facts keep their source order: it is the queue order)
        order = ["names:", "skip:", "queue-from:", "buffers-from:", "step:", "context:"]
        facts = [f for pre in order for f in facts if f.startswith(pre)]
    emit_list("fromV0Facts", "`from_v0`: names converted, names skipped, what the queue and the buffer of a step are made of (in order), the record", facts or [MISSING])

    # ---- pre_context / context
    pc = _find(_find(_parse(PC), "PreContext", (ast.ClassDef,)), "__init__")
    sk: list[str] = [MISSING]
    if pc is not None:
        for n in ast.walk(pc):
            if isinstance(n, ast.Try):
                sk = Scope(pc).skeleton([n])
    emit_list("preContextParse", "`PreContext.__init__`: parsing and synchronous validation of a previous context", sk)
    cx = _find(_parse(CX), "Context", (ast.ClassDef,))
    wr = _find(cx, "_workflow_run")
    init = None
    rw = one(_calls(wr, "run_workflow"))
    iv = _kw(rw, "init_state")
    val = assigned(wr, iv.id if isinstance(iv, ast.Name) else None)
    if val is not None:
        init = Scope(wr).exprs([val])[0]
    emit_str("runInitialState", "`Context._workflow_run`: where the initial broker state handed to the runtime comes from", init)
    fd = _find(cx, "from_dict")
    emit_list("fromDictBody", "`Context.from_dict`: the statements", Scope(fd).skeleton(fd.body if fd is not None else None))  # type: ignore[attr-defined]
    ec = _find(_find(_parse(BASE + "context/external_context.py"), "ExternalContext", (ast.ClassDef,)), "to_dict")
    sel = None
    if ec is not None:
        made = [n.targets[0].id for n in ast.walk(ec) if isinstance(n, ast.Assign) and len(n.targets) == 1 and isinstance(n.targets[0], ast.Name)
                and isinstance(n.value, ast.Call) and isinstance(n.value.func, ast.Attribute) and n.value.func.attr == "to_serialized"]
        if len(made) == 1:
            sel = [st for st in ec.body if any(isinstance(m, ast.Name) and m.id == made[0] for m in ast.walk(st))]  # type: ignore[attr-defined]
    emit_list("toDictSerialized", "`ExternalContext.to_dict`: the statements that mention the serialised context (data-dependent, in order)",
              Scope(ec).skeleton(sel))

    L += ["", "end GenSerialShape"]
    return L
