import WfProofs.JournalSim
/-! C27: the world recovery produces from the durable state of a crashed fresh process. -/
namespace Journal

variable {σ κ ν ο : Type} [DecidableEq κ]

/-- the crashed process after the control loop has also acted on a completion that was already
recorded in the journal (the crash fell between the INSERT and the return) -/
def actedWorld (L : Loop σ κ ν ο) (w : World σ κ ν ο) (t : Task κ) (v : ν) : World σ κ ν ο :=
  { c := (L.act w.c (some (t, v))).1, jr := w.jr, memo := w.memo, mbox := w.mbox, pend := none,
    hist := w.hist ++ [some (t, v)], outs := w.outs ++ (L.act w.c (some (t, v))).2 }

def settled (L : Loop σ κ ν ο) (w : World σ κ ν ο) : World σ κ ν ο :=
  match w.pend with
  | none => w
  | some t =>
    match w.memo t.fid with
    | none => w
    | some v => actedWorld L w t v

/-- the orphan purge deletes no recorded receive of an in-flight pull task -/
def PurgeSafe (L : Loop σ κ ν ο) (w : World σ κ ν ο) : Prop :=
  w.jr = [] ∨ ∀ t, t ∈ (settled L w).c.fl → t.pull = true → (settled L w).c.base < t.fid → w.memo t.fid = none

theorem hist_memo (L : Loop σ κ ν ο) {w : World σ κ ν ο} (hr : Reach L w) :
    ∀ t v, some (t, v) ∈ w.hist → w.memo t.fid = some v := by
  induction hr with
  | init => intro t v h; simp [Loop.world0] at h
  | step hr hs ih =>
    cases hs with
    | finish t v hm hp hmemo => intro t' v' h; exact setMemo_mono _ _ _ hmemo _ _ (ih t' v' h)
    | recv t m rest hm hp hmemo hmb => intro t' v' h; exact setMemo_mono _ _ _ hmemo _ _ (ih t' v' h)
    | send m => exact ih
    | record t v hp hm hmemo => exact ih
    | actOn t v hp hmemo =>
      intro t' v' h
      rcases List.mem_append.mp h with h | h
      · exact ih t' v' h
      · simp at h; obtain ⟨h1, h2⟩ := h; subst h1; subst h2; exact hmemo
    | timeout hp ha =>
      intro t' v' h
      rcases List.mem_append.mp h with h | h
      · exact ih t' v' h
      · simp at h

omit [DecidableEq κ] in
theorem rebuild_hist (memo : Nat → Option ν) :
    ∀ h : List (Option (Task κ × ν)), noTimeout h = true →
      (∀ t v, some (t, v) ∈ h → memo t.fid = some v) →
      (actedTasks h).map (fun t => (memo t.fid).map (fun v => (t, v))) = h := by
  intro h
  induction h with
  | nil => intro _ _; rfl
  | cons x xs ih =>
    intro hnt hm
    cases x with
    | none => simp [noTimeout] at hnt
    | some p =>
      obtain ⟨t, v⟩ := p
      simp only [actedTasks, List.map_cons]
      rw [hm t v (by simp), ih (by simpa [noTimeout] using hnt) (fun t' v' h => hm t' v' (by simp [h]))]
      rfl

theorem recover_sim_none (L : Loop σ κ ν ο) (hk : KeysDistinct L) {w : World σ κ ν ο}
    (hr : Reach L w) (hnt : noTimeout w.hist = true) (hp : w.pend = none)
    (hsafe : w.jr = [] ∨ ∀ t, t ∈ w.c.fl → t.pull = true → w.c.base < t.fid → w.memo t.fid = none) :
    ∃ wr, L.recover w.jr w.memo w.mbox = .ok wr ∧ Sim w wr := by
  have hi := inv_of_reach L hk hr hnt
  have hjr : w.jr = actedKeys w.hist := by have := hi.jr; rw [hp] at this; simpa using this
  refine ⟨_, by simp only [Loop.recover, hjr, hi.rep]; rfl, ?_⟩
  refine ⟨rfl, hjr.symm, rfl, hp.symm, ?_, rfl, ?_, ?_, ?_⟩
  · exact rebuild_hist w.memo w.hist hnt (hist_memo L hr)
  · intro f v h
    simp only [purgeMemo] at h
    split at h
    · exact h
    · simp only at h
      split at h
      · cases h
      · exact h
  · intro t ht hpl
    simp only [purgeMemo]
    split
    · rfl
    · rename_i hne
      simp only
      split
      · rename_i hlt
        rcases hsafe with h | h
        · rw [hjr] at h; rw [h] at hne; simp at hne
        · rw [h t ht hpl hlt]
      · rfl
  · intro t ht; rw [hp] at ht; cases ht

theorem settled_reach (L : Loop σ κ ν ο) {w : World σ κ ν ο} (hr : Reach L w) : Reach L (settled L w) := by
  unfold settled
  split
  · exact hr
  · rename_i t ht
    split
    · exact hr
    · rename_i v hv; exact .step hr (Step.actOn w t v ht hv)

theorem recover_sim (L : Loop σ κ ν ο) (hk : KeysDistinct L) {w : World σ κ ν ο}
    (hr : Reach L w) (hnt : noTimeout w.hist = true) (hsafe : PurgeSafe L w) :
    ∃ wr, L.recover w.jr w.memo w.mbox = .ok wr ∧ Sim (settled L w) wr := by
  have hi := inv_of_reach L hk hr hnt
  cases hp : w.pend with
  | none =>
    have e : settled L w = w := by simp [settled, hp]
    rw [e]
    exact recover_sim_none L hk hr hnt hp (by unfold PurgeSafe at hsafe; rw [e] at hsafe; exact hsafe)
  | some t0 =>
    obtain ⟨_, v, hv⟩ := hi.pend t0 hp
    have e : settled L w = actedWorld L w t0 v := by
      simp [settled, hp, hv]
    have hr1 := settled_reach L hr
    rw [e] at hr1 ⊢
    exact recover_sim_none L hk hr1 (by simp [actedWorld, noTimeout_append, hnt, noTimeout]) rfl
      (by unfold PurgeSafe at hsafe; rw [e] at hsafe; exact hsafe)

end Journal
