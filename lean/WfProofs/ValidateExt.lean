import WfProofs.ValidateSpec
/-!
Helper lemmas for the C23 extension, part 1: the offender lists of the three graph checks as sets,
the split of `_validate_workflow` into the part that does not read `skip_graph_checks` and the graph
checks, and what the terminal-event check can still find once event connectivity holds.
-/
open Validate

namespace Validate

/-! ### offender lists, member by member -/

theorem mem_unreachable {H : Hier} {W : List Step} {start : Cls} (hnd : (names W).Nodup) {n : Nat} :
    n ∈ unreachable H W start ↔
      ∃ s ∈ W, s.name = n ∧ ckReach ∉ s.skip ∧ Node.step n ∉ fwdReach H W start := by
  simp only [unreachable, List.mem_filter, Bool.and_eq_true, Bool.not_eq_true']
  constructor
  · rintro ⟨hn, hsk, hr⟩
    obtain ⟨s, hs, rfl⟩ := mem_names.mp hn
    refine ⟨s, hs, rfl, ?_, ?_⟩
    · rw [← Bool.not_eq_true, List.contains_iff_mem, mem_skipNames hnd hs] at hsk; exact hsk
    · rw [← Bool.not_eq_true, List.contains_iff_mem] at hr; exact hr
  · rintro ⟨s, hs, rfl, hsk, hr⟩
    refine ⟨mem_names.mpr ⟨s, hs, rfl⟩, ?_, ?_⟩
    · rw [← Bool.not_eq_true, List.contains_iff_mem, mem_skipNames hnd hs]; exact hsk
    · rw [← Bool.not_eq_true, List.contains_iff_mem]; exact hr

theorem consumerAny_iff {W : List Step} (c : Cls) :
    ((succs (edges W) (Node.ev c)).any (Node.isStepIn (names W))) = true ↔ ∃ s ∈ W, c ∈ s.accepted := by
  simp only [List.any_eq_true, mem_succs, mem_edges]
  constructor
  · rintro ⟨t, (⟨s, hs, c', hc', h1, _⟩ | ⟨s, _, c', _, _, h1, _⟩), _⟩
    · cases h1; exact ⟨s, hs, hc'⟩
    · cases h1
  · rintro ⟨s, hs, hc⟩
    refine ⟨Node.step s.name, Or.inl ⟨s, hs, c, hc, rfl, rfl⟩, ?_⟩
    simp only [Node.isStepIn, List.contains_iff_mem]
    exact mem_names.mpr ⟨s, hs, rfl⟩

theorem mem_dangling {H : Hier} {W : List Step} {c : Cls} :
    c ∈ dangling H W ↔
      c ∈ eventTypes W ∧ (¬∃ s ∈ W, c ∈ s.accepted) ∧ ¬(isSub H c cStop = true ∨ isSub H c cInputRequired = true) := by
  simp only [dangling, List.mem_filter, Bool.and_eq_true, Bool.not_eq_true']
  constructor
  · rintro ⟨hc, hf, ht⟩
    refine ⟨hc, ?_, ?_⟩
    · rw [← consumerAny_iff, hf]; simp
    · rw [← subAny_terminal, ht]; simp
  · rintro ⟨hc, hf, ht⟩
    refine ⟨hc, ?_, ?_⟩
    · rw [← Bool.not_eq_true, consumerAny_iff]; exact hf
    · rw [← Bool.not_eq_true, subAny_terminal]; exact ht

theorem mem_deadEnds {H : Hier} {W : List Step} (hnd : (names W).Nodup) {n : Nat} :
    n ∈ deadEnds H W ↔
      ∃ s ∈ W, s.name = n ∧ (∃ c ∈ s.returns, c ≠ cNone) ∧ ckDeadEnd ∉ s.skip ∧ Node.step n ∉ revReach H W := by
  simp only [deadEnds, List.mem_filter, Bool.and_eq_true, Bool.not_eq_true']
  constructor
  · rintro ⟨hn, hsk, hr⟩
    obtain ⟨s, hs, rfl⟩ := mem_names.mp (producing_sub_names hn)
    refine ⟨s, hs, rfl, (mem_producing hnd hs).mp hn, ?_, ?_⟩
    · rw [← Bool.not_eq_true, List.contains_iff_mem, mem_skipNames hnd hs] at hsk; exact hsk
    · rw [← Bool.not_eq_true, List.contains_iff_mem] at hr; exact hr
  · rintro ⟨s, hs, rfl, hp, hsk, hr⟩
    refine ⟨(mem_producing hnd hs).mpr hp, ?_, ?_⟩
    · rw [← Bool.not_eq_true, List.contains_iff_mem, mem_skipNames hnd hs]; exact hsk
    · rw [← Bool.not_eq_true, List.contains_iff_mem]; exact hr

theorem mem_skip_ite {skip : List Nat} {code : Nat} {l : List Nat} {x : Nat} :
    x ∈ (if skip.contains code = true then [] else l) ↔ code ∉ skip ∧ x ∈ l := by
  by_cases hc : code ∈ skip
  · simp [hc]
  · simp [hc]

/-! ### the part of `_validate_workflow` that never reads `skip_graph_checks` -/

/-- everything `_validate_workflow` does before `validate_graph`: the error it raises, or the start type -/
def preGraph (H : Hier) (W : List Step) : Except Err Cls :=
  if W.isEmpty then .error .noSteps else
  match ensureStart H W with
  | .error e => .error e
  | .ok start =>
    match ensureStop H W with
    | .error e => .error e
    | .ok _ =>
      if !(acceptingStop H W).isEmpty then .error (.acceptsStop (acceptingStop H W)) else
      if !(unconsumed H W start).isEmpty then .error (.consumedNotProduced (unconsumed H W start)) else
      if !(unused H W start).isEmpty then .error (.producedNotConsumed (unused H W start)) else
      if !Handlers.valid (names W) (handlerDecls W) then
        .error (if (handlerDecls W).all (fun h => decide (1 ≤ h.maxRec)) then .handlerStructure else .handlerMaxRec)
      else .ok start

theorem validateWorkflow_split (H : Hier) (W : List Step) (skip : List Nat) :
    validateWorkflow H W skip =
      match preGraph H W with
      | .error e => .error e
      | .ok start =>
        if (validateGraph H W start skip).none then .ok (usesHitl H W start)
        else .error (.graph (validateGraph H W start skip)) := by
  unfold validateWorkflow preGraph
  by_cases hW : W.isEmpty = true
  · simp [hW]
  · simp only [hW, Bool.false_eq_true, if_false]
    cases ensureStart H W with
    | error e => rfl
    | ok start =>
      cases ensureStop H W with
      | error e => rfl
      | ok stop =>
        simp only
        by_cases h1 : (!(acceptingStop H W).isEmpty) = true
        · simp [h1]
        · by_cases h2 : (!(unconsumed H W start).isEmpty) = true
          · simp [h1, h2]
          · by_cases h3 : (!(unused H W start).isEmpty) = true
            · simp [h1, h2, h3]
            · by_cases h4 : (!Handlers.valid (names W) (handlerDecls W)) = true
              · simp [h1, h2, h3, h4]
              · simp [h1, h2, h3, h4]

theorem preGraph_start {H : Hier} {W : List Step} {start : Cls} (h : preGraph H W = .ok start) :
    ensureStart H W = .ok start := by
  unfold preGraph at h
  by_cases hW : W.isEmpty = true
  · simp [hW] at h
  · simp only [hW, Bool.false_eq_true, if_false] at h
    cases hs : ensureStart H W with
    | error e => simp [hs] at h
    | ok s =>
      cases ht : ensureStop H W with
      | error e => simp [hs, ht] at h
      | ok t =>
        simp only [hs, ht] at h
        by_cases h1 : (!(acceptingStop H W).isEmpty) = true
        · simp [h1] at h
        · by_cases h2 : (!(unconsumed H W s).isEmpty) = true
          · simp [h1, h2] at h
          · by_cases h3 : (!(unused H W s).isEmpty) = true
            · simp [h1, h2, h3] at h
            · by_cases h4 : (!Handlers.valid (names W) (handlerDecls W)) = true
              · simp [h1, h2, h3, h4] at h
              · simp [h1, h2, h3, h4] at h
                rw [h]

/-- no graph error before the graph checks -/
theorem preGraph_not_graph {H : Hier} {W : List Step} {g : GraphErrs} : preGraph H W ≠ .error (.graph g) := by
  intro h
  unfold preGraph at h
  by_cases hW : W.isEmpty = true
  · simp [hW] at h
  · simp only [hW, Bool.false_eq_true, if_false] at h
    rcases ensureStart_cases H W with ⟨s, hs⟩ | hs | hs
    · rcases ensureStop_cases H W with ⟨t, ht⟩ | ht | ht
      · simp only [hs, ht] at h
        by_cases h1 : (!(acceptingStop H W).isEmpty) = true
        · simp [h1] at h
        · by_cases h2 : (!(unconsumed H W s).isEmpty) = true
          · simp [h1, h2] at h
          · by_cases h3 : (!(unused H W s).isEmpty) = true
            · simp [h1, h2, h3] at h
            · by_cases h4 : (!Handlers.valid (names W) (handlerDecls W)) = true
              · simp only [h1, h2, h3, h4, Bool.false_eq_true, if_false, if_true] at h
                split at h <;> simp at h
              · simp [h1, h2, h3, h4] at h
      · simp [hs, ht] at h
      · simp [hs, ht] at h
    · simp [hs] at h
    · simp [hs] at h

/-- the graph checks pass for a larger skip set when they pass for a smaller one -/
theorem validateGraph_none_mono {H : Hier} {W : List Step} {start : Cls} {skip skip' : List Nat}
    (hsub : ∀ c ∈ skip, c ∈ skip') (h : (validateGraph H W start skip).none = true) :
    (validateGraph H W start skip').none = true := by
  rw [validateGraph_none] at h ⊢
  obtain ⟨h1, h2, h3⟩ := h
  exact ⟨h1.imp (hsub _) id, h2.imp (hsub _) id, h3.imp (hsub _) id⟩

end Validate
