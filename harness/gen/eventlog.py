"""Generator for lean/WfModel/GenEventLog.lean (property C16).

Re-extracted from /repo's *current* sources on every run:

* the names the code tests for (`StopEvent.__name__` in `_is_terminal_event`,
  `InternalDispatchEvent.__name__` in `_resolve_event_stream`), resolved through the
  module's imports, and `TERMINAL_STATUSES`;
* a *statement skeleton* of every function the EventLog model transcribes (of
  `_stream_events` only the cursor resolution and the frame formats): the
  function body in source order with docstrings dropped, every top-level local that is
  assigned exactly once substituted by its definition (so renaming such a local or
  reordering independent assignments leaves the skeleton unchanged), the remaining
  locals numbered by first appearance, SQL text whitespace-normalised.  A changed
  comparison, cursor update, SQL clause, default or frame format changes the skeleton
  and breaks `C16_source_shape`.
"""
from __future__ import annotations

import ast
import copy
import re

from ..boot import repo_path

LEAN_MODULE = "GenEventLog"

SERVER = "packages/llama-agents-server/src/llama_agents/server/"
ABSTRACT = SERVER + "_store/abstract_workflow_store.py"
MEMORY = SERVER + "_store/memory_workflow_store.py"
SQLITE = SERVER + "_store/sqlite/sqlite_workflow_store.py"
MIGRATION = SERVER + "_store/sqlite/migrations/0004_add_ticks.sql"
API = SERVER + "_api.py"

TARGETS = [
    ("abstractIsTerminal", ABSTRACT, "AbstractWorkflowStore", "_is_terminal_event"),
    ("abstractSubscribe", ABSTRACT, "AbstractWorkflowStore", "subscribe_events"),
    ("memAppend", MEMORY, "MemoryWorkflowStore", "append_event"),
    ("memQuery", MEMORY, "MemoryWorkflowStore", "query_events"),
    ("memSubscribe", MEMORY, "MemoryWorkflowStore", "subscribe_events"),
    ("sqlAppend", SQLITE, "SqliteWorkflowStore", "append_event"),
    ("sqlQuery", SQLITE, "SqliteWorkflowStore", "query_events"),
    ("sqlSubscribe", SQLITE, "SqliteWorkflowStore", "subscribe_events"),
    ("apiResolve", API, "_WorkflowAPI", "_resolve_event_stream"),
    ("apiCursor", API, "_WorkflowAPI", "_stream_events"),
]
# of `_stream_events` only the cursor resolution (everything before the nested stream formatter) and the frame
# formats are pinned: the queue/feeder/heartbeat machinery and the payload encoding are not part of M3
CURSOR_ONLY = {"apiCursor"}


def lean_str(s: str) -> str:
    out = ['"']
    for ch in s:
        if ch == '"':
            out.append('\\"')
        elif ch == "\\":
            out.append("\\\\")
        elif ch == "\n":
            out.append("\\n")
        elif ch == "\t":
            out.append("\\t")
        elif 32 <= ord(ch) < 127:
            out.append(ch)
        else:
            out.append("\\u{%x}" % ord(ch))
    out.append('"')
    return "".join(out)


def find_func(tree: ast.Module, cls: str, name: str):
    for node in tree.body:
        if isinstance(node, ast.ClassDef) and node.name == cls:
            for f in node.body:
                if isinstance(f, (ast.FunctionDef, ast.AsyncFunctionDef)) and f.name == name:
                    return f
    return None


class _Subst(ast.NodeTransformer):
    def __init__(self, env: dict[str, ast.expr]):
        self.env = env

    def visit_Name(self, node: ast.Name):
        if isinstance(node.ctx, ast.Load) and node.id in self.env:
            return copy.deepcopy(self.env[node.id])
        return node


class _NormStr(ast.NodeTransformer):
    """collapse white space inside SQL string constants (written over several lines)"""

    def visit_Constant(self, node: ast.Constant):
        if isinstance(node.value, str) and re.match(r"\s*(SELECT|INSERT|UPDATE|DELETE)\b", node.value):
            return ast.copy_location(ast.Constant(value=re.sub(r"\s+", " ", node.value).strip()), node)
        return node


def _stores(node: ast.AST) -> list[str]:
    res = []
    for n in ast.walk(node):
        if isinstance(n, ast.Name) and isinstance(n.ctx, (ast.Store, ast.Del)):
            res.append(n.id)
        elif isinstance(n, (ast.FunctionDef, ast.AsyncFunctionDef)):
            res.append(n.name)
    return res


def _strip_doc(body: list[ast.stmt]) -> list[ast.stmt]:
    if body and isinstance(body[0], ast.Expr) and isinstance(body[0].value, ast.Constant) and isinstance(body[0].value.value, str):
        return body[1:]
    return body


def frame_formats(fn: ast.AST) -> list[str]:
    """the f-strings the nested stream formatter yields, interpolated names numbered by first appearance"""
    res: list[str] = []
    for n in ast.walk(fn):
        if isinstance(n, ast.Yield) and isinstance(n.value, ast.JoinedStr):
            parts = []
            seen: list[str] = []
            for v in n.value.values:
                if isinstance(v, ast.Constant):
                    parts.append(str(v.value))
                elif isinstance(v, ast.FormattedValue) and isinstance(v.value, ast.Name):
                    if v.value.id not in seen:
                        seen.append(v.value.id)
                    parts.append("{" + str(seen.index(v.value.id)) + "}")
                else:
                    parts.append("{?}")
            res.append("".join(parts))
    return res


def skeleton(fn: ast.AST, cursor_only: bool = False) -> list[str]:
    fn = copy.deepcopy(fn)
    if cursor_only:
        body = []
        for st in fn.body:
            if isinstance(st, (ast.FunctionDef, ast.AsyncFunctionDef)):
                break
            body.append(st)
        # statements that only prepare the response (media type, heartbeat) are not cursor logic
        keep = []
        for st in body:
            names = {n.id for n in ast.walk(st) if isinstance(n, ast.Name)}
            if isinstance(st, ast.Assign) and names & {"media_type", "heartbeat_interval"}:
                continue
            keep.append(st)
        fn.body = keep
    # drop docstrings and annotations everywhere (nested defs too)
    for n in ast.walk(fn):
        if isinstance(n, (ast.FunctionDef, ast.AsyncFunctionDef)):
            n.body = _strip_doc(n.body) or [ast.Pass()]
            n.returns = None
            for a in n.args.args + n.args.kwonlyargs + n.args.posonlyargs:
                a.annotation = None
    body = fn.body
    counts: dict[str, int] = {}
    for name in _stores(ast.Module(body=body, type_ignores=[])):
        counts[name] = counts.get(name, 0) + 1
    params = {a.arg for a in fn.args.args + fn.args.kwonlyargs + fn.args.posonlyargs}
    env: dict[str, ast.expr] = {}
    kept: list[ast.stmt] = []
    for st in body:
        st = _Subst(env).visit(st)
        target = None
        value = None
        if isinstance(st, ast.Assign) and len(st.targets) == 1 and isinstance(st.targets[0], ast.Name):
            target, value = st.targets[0].id, st.value
        elif isinstance(st, ast.AnnAssign) and isinstance(st.target, ast.Name) and st.value is not None:
            target, value = st.target.id, st.value
            st = ast.Assign(targets=[ast.Name(id=target, ctx=ast.Store())], value=value, lineno=0, col_offset=0)
        if target is not None and counts.get(target, 0) == 1 and target not in params:
            env[target] = value  # substituted into every later use
            continue
        kept.append(st)
    mod = ast.fix_missing_locations(_NormStr().visit(ast.Module(body=kept, type_ignores=[])))
    mod = ast.parse(ast.unparse(mod))  # fresh positions: substituted nodes carry their old ones
    # number the remaining locals by first appearance in source order
    local = {n for n in counts if n not in params}
    seen: list[tuple[int, int, str]] = []
    for n in ast.walk(mod):
        if isinstance(n, ast.Name) and n.id in local:
            seen.append((n.lineno, n.col_offset, n.id))
        elif isinstance(n, (ast.FunctionDef, ast.AsyncFunctionDef)) and n.name in local:
            seen.append((n.lineno, n.col_offset, n.name))
    order = []
    for _l, _c, nm in sorted(seen):
        if nm not in order:
            order.append(nm)
    ren = {nm: f"v{i}" for i, nm in enumerate(order)}
    for n in ast.walk(mod):
        if isinstance(n, ast.Name) and n.id in ren:
            n.id = ren[n.id]
        elif isinstance(n, (ast.FunctionDef, ast.AsyncFunctionDef)) and n.name in ren:
            n.name = ren[n.name]
    text = ast.unparse(mod)
    return [l.rstrip() for l in text.splitlines() if l.strip()]


def connection_statements(fn: ast.AST) -> list[str]:
    """what the function sends to its database connection, in source order: the SQL text of every
    `.execute / .executemany / .executescript` call (white space normalised; `<dynamic>` when it is not a
    literal), `COMMIT` for `.commit()`, `ROLLBACK` for `.rollback()`.  The two-writer model (statement
    granularity) runs exactly this program."""
    calls: list[tuple[int, int, str]] = []
    for n in ast.walk(fn):
        if not (isinstance(n, ast.Call) and isinstance(n.func, ast.Attribute)):
            continue
        attr = n.func.attr
        if attr in ("execute", "executemany", "executescript"):
            arg = n.args[0] if n.args else None
            if isinstance(arg, ast.Constant) and isinstance(arg.value, str):
                text = re.sub(r"\s+", " ", arg.value).strip()
            else:
                text = "<dynamic>"
            calls.append((n.lineno, n.col_offset, text))
        elif attr == "commit" and not n.args:
            calls.append((n.lineno, n.col_offset, "COMMIT"))
        elif attr == "rollback" and not n.args:
            calls.append((n.lineno, n.col_offset, "ROLLBACK"))
    # `conn.execute(...)` nested in another call: the inner one runs first; (line, col) of the Call node is the
    # start of its receiver expression, which orders chained calls correctly
    return [t for _l, _c, t in sorted(calls, key=lambda x: (x[0], x[1]))]


def _class_name_of(tree: ast.Module, local_name: str) -> str | None:
    """`local_name.__name__` for a class imported under `local_name`."""
    for node in ast.walk(tree):
        if isinstance(node, ast.ImportFrom):
            for a in node.names:
                if (a.asname or a.name) == local_name:
                    return a.name
        if isinstance(node, ast.ClassDef) and node.name == local_name:
            return node.name
    return None


def generate(notes: list[str]) -> list[str]:
    L: list[str] = ["namespace Gen.EventLog", ""]
    trees: dict[str, ast.Module] = {}
    for rel in (ABSTRACT, MEMORY, SQLITE, API):
        try:
            trees[rel] = ast.parse(open(repo_path(rel)).read())
        except Exception as e:  # noqa: BLE001
            notes.append(f"gen/eventlog: cannot parse {rel}: {e!r}")
            trees[rel] = ast.parse("")

    # --- names tested for
    term = None
    f = find_func(trees[ABSTRACT], "AbstractWorkflowStore", "_is_terminal_event")
    if f is not None:
        for n in ast.walk(f):
            if (isinstance(n, ast.Compare) and len(n.ops) == 1 and isinstance(n.ops[0], ast.In)
                    and isinstance(n.left, ast.Attribute) and n.left.attr == "__name__" and isinstance(n.left.value, ast.Name)):
                term = _class_name_of(trees[ABSTRACT], n.left.value.id)
    if term is None:
        notes.append("gen/eventlog: `<Class>.__name__ in ...` not found in _is_terminal_event")
        term = "<missing>"
    L.append(f"def terminalName : String := {lean_str(term)}")

    internal = None
    f = find_func(trees[API], "_WorkflowAPI", "_resolve_event_stream")
    if f is not None:
        for n in ast.walk(f):
            if (isinstance(n, ast.Assign) and isinstance(n.value, ast.Attribute) and n.value.attr == "__name__"
                    and isinstance(n.value.value, ast.Name)):
                internal = _class_name_of(trees[API], n.value.value.id)
    if internal is None:
        notes.append("gen/eventlog: `_INTERNAL_EVENT_TYPE = <Class>.__name__` not found in _resolve_event_stream")
        internal = "<missing>"
    L.append(f"def internalName : String := {lean_str(internal)}")

    statuses = None
    for node in trees[ABSTRACT].body:
        tgt = None
        if isinstance(node, ast.AnnAssign) and isinstance(node.target, ast.Name):
            tgt, val = node.target.id, node.value
        elif isinstance(node, ast.Assign) and len(node.targets) == 1 and isinstance(node.targets[0], ast.Name):
            tgt, val = node.targets[0].id, node.value
        if tgt == "TERMINAL_STATUSES" and val is not None:
            try:
                consts = [c.value for c in ast.walk(val) if isinstance(c, ast.Constant) and isinstance(c.value, str)]
                statuses = sorted(consts)
            except Exception:  # noqa: BLE001
                pass
    if statuses is None:
        notes.append("gen/eventlog: TERMINAL_STATUSES not found")
        statuses = ["<missing>"]
    L.append("def terminalStatuses : List String := [" + ", ".join(lean_str(s) for s in statuses) + "]")

    # --- events table
    try:
        sql = open(repo_path(MIGRATION)).read()
        m = re.search(r"CREATE TABLE IF NOT EXISTS events \((.*?)\);", sql, re.S)
        ddl = re.sub(r"\s+", " ", m.group(1)).strip() if m else "<missing>"
    except OSError:
        ddl = "<missing>"
    if ddl == "<missing>":
        notes.append("gen/eventlog: events table DDL not found")
    L.append(f"def eventsTableColumns : String := {lean_str(ddl)}")
    L.append("")

    # --- skeletons
    for name, rel, cls, fn in TARGETS:
        f = find_func(trees[rel], cls, fn)
        if f is None:
            notes.append(f"gen/eventlog: {cls}.{fn} not found in {rel}")
            lines = ["<missing>"]
        else:
            try:
                lines = skeleton(f, cursor_only=name in CURSOR_ONLY)
            except Exception as e:  # noqa: BLE001
                notes.append(f"gen/eventlog: skeleton of {cls}.{fn} failed: {e!r}")
                lines = ["<missing>"]
        L.append(f"def {name} : List String := [")
        L += ["  " + lean_str(l) + ("," if i + 1 < len(lines) else "") for i, l in enumerate(lines)]
        L.append("]")
    f = find_func(trees[SQLITE], "SqliteWorkflowStore", "append_event")
    stmts = connection_statements(f) if f is not None else ["<missing>"]
    if not stmts:
        notes.append("gen/eventlog: SqliteWorkflowStore.append_event sends no statement to a connection")
        stmts = ["<missing>"]
    L.append("def sqlAppendStatements : List String := [")
    L += ["  " + lean_str(l) + ("," if i + 1 < len(stmts) else "") for i, l in enumerate(stmts)]
    L.append("]")
    f = find_func(trees[API], "_WorkflowAPI", "_stream_events")
    frames = frame_formats(f) if f is not None else ["<missing>"]
    if not frames:
        notes.append("gen/eventlog: no yielded f-string found in _stream_events")
        frames = ["<missing>"]
    L.append("def apiFrames : List String := [" + ", ".join(lean_str(x) for x in frames) + "]")
    L += ["", "end Gen.EventLog"]
    return L
