import WfProofs.RunLimitInv
/-!
Run ids of one instance stay pairwise distinct: every run is in exactly one of
`created`, the waiter deque, `holding`, `finished`.  Proved by showing that every
action other than `start` preserves the multiset of ids.
-/
namespace RunLimit
open List

theorem keys_wake (ws ws' : Waiters) (q : Nat) (h : wake ws = some (ws', q)) : keys ws' = keys ws := by
  obtain ⟨pre, post, e1, e2, _⟩ := wake_spec ws ws' q h
  simp [e1, e2, keys]

theorem keys_wakeNext (s : Sem) : keys (s.wakeNext).1.waiters = keys s.waiters := by
  unfold Sem.wakeNext
  cases hw : wake s.waiters with
  | none => rfl
  | some p => exact keys_wake _ _ _ hw

theorem keys_release (s : Sem) : keys (s.release).1.waiters = keys s.waiters := by
  unfold Sem.release
  exact keys_wakeNext _

theorem count_ids (x : Inst) (q : Nat) :
    count q x.ids = count q (keys x.created) + count q (keys x.waiters) + count q x.holding
      + count q (keys x.finished) := by
  simp only [Inst.ids, count_append]

theorem count_keys_adel {α} (q r : Nat) (l : List (Nat × α)) (v : α) (h : aget r l = some v) :
    count q (keys (adel r l)) + (if r = q then 1 else 0) = count q (keys l) := by
  rw [keys_adel, count_erase]
  have hm := aget_some_mem_keys r l v h
  by_cases hq : r = q
  · subst hq
    have : 0 < count r (keys l) := count_pos_iff.mpr hm
    simp
    omega
  · simp [hq]

theorem count_keys_snoc {α} (q r : Nat) (l : List (Nat × α)) (v : α) :
    count q (keys (l ++ [(r, v)])) = count q (keys l) + (if r = q then 1 else 0) := by
  simp [keys, count_append, count_singleton]

theorem count_snoc (q r : Nat) (l : List Nat) :
    count q (l ++ [r]) = count q l + (if r = q then 1 else 0) := by
  simp [count_append, count_singleton]

theorem count_erase_mem (q r : Nat) (l : List Nat) (h : r ∈ l) :
    count q (l.erase r) + (if r = q then 1 else 0) = count q l := by
  rw [count_erase]
  by_cases hq : r = q
  · subst hq
    have : 0 < count r l := count_pos_iff.mpr h
    simp
    omega
  · simp [hq]

def startBump (q : Nat) : IAct → Nat
  | .start r => if r = q then 1 else 0
  | _ => 0

/-- every action preserves the multiset of run ids, except `start`, which adds its run -/
theorem Inst.step_count_ids (x x' : Inst) (a : IAct) (woke : List Nat)
    (h : x.step a = some (x', woke)) (q : Nat) :
    count q x'.ids = count q x.ids + startBump q a := by
  cases a <;> simp only [startBump]
  case start r =>
    simp only [Inst.step, Inst.start] at h
    split at h <;> simp at h
    rw [← h.1, count_ids, count_ids]
    simp only [Inst.waiters, count_keys_snoc]
    omega
  case «begin» r =>
    simp only [Inst.step, Inst.begin] at h
    split at h
    · cases h
    · rename_i hc
      have := count_keys_adel q r x.created _ hc
      simp at h; rw [← h.1, count_ids, count_ids]
      simp only [Inst.waiters, count_keys_snoc]
      omega
    · rename_i hc
      have := count_keys_adel q r x.created _ hc
      split at h
      · simp at h; rw [← h.1, count_ids, count_ids]
        simp only [Inst.waiters, count_snoc]
        omega
      · rename_i n hl
        simp at h; rw [← h.1, count_ids, count_ids]
        unfold Inst.enter
        simp only
        have hw : (x.sem.getD (Sem.fresh n)).waiters = x.waiters := by
          cases hs : x.sem <;> simp [Inst.waiters, hs, Sem.fresh]
        split
        · simp only [Inst.waiters, count_keys_snoc]
          simp only [Inst.waiters] at hw
          rw [hw]
          omega
        · simp only [Inst.waiters, count_snoc]
          simp only [Inst.waiters] at hw
          rw [hw]
          omega
  case cancel r =>
    simp only [Inst.step, Inst.cancel] at h
    split at h
    · simp at h; rw [← h.1, count_ids, count_ids]
      simp [Inst.waiters, keys_aset]
    · split at h
      · rename_i s hs
        split at h
        · simp at h; rw [← h.1, count_ids, count_ids]
          simp [Inst.waiters, keys_aset, hs]
        · simp at h; rw [← h.1, count_ids, count_ids]
          simp [Inst.waiters, keys_aset, hs]
        · simp at h; rw [← h.1]; simp
        · split at h <;> simp at h
          rw [← h.1]; simp
      · split at h <;> simp at h
        rw [← h.1]; simp
  case deliver r =>
    simp only [Inst.step, Inst.deliver] at h
    split at h
    · cases h
    · rename_i s hs
      split at h
      · cases h
      · cases h
      · rename_i hf
        have := count_keys_adel q r s.waiters _ hf
        simp at h
        rw [← h.1, count_ids, count_ids]
        simp only [Inst.waiters, hs, count_snoc]
        split
        · rw [keys_wakeNext]; simp only; omega
        · simp only; omega
      · rename_i hf
        have := count_keys_adel q r s.waiters _ hf
        simp at h
        rw [← h.1, count_ids, count_ids]
        simp only [Inst.waiters, hs, count_keys_snoc]
        omega
      · rename_i hf
        have := count_keys_adel q r s.waiters _ hf
        simp at h
        rw [← h.1, count_ids, count_ids]
        simp only [Inst.waiters, hs, count_keys_snoc, keys_release]
        omega
  case finish r o =>
    simp only [Inst.step, Inst.finish] at h
    split at h
    · rename_i hmem
      have := count_erase_mem q r x.holding hmem
      split at h
      · simp at h; rw [← h.1, count_ids, count_ids]
        simp only [Inst.waiters, count_keys_snoc]
        omega
      · split at h
        · cases h
        · rename_i s hs
          simp at h; rw [← h.1, count_ids, count_ids]
          simp only [Inst.waiters, hs, count_keys_snoc, keys_release]
          omega
    · cases h
  case gc =>
    simp only [Inst.step, Inst.gc] at h
    split at h
    · cases h
    · rename_i s hs
      split at h <;> simp at h
      rename_i hidle
      rw [← h.1, count_ids, count_ids]
      simp [Inst.waiters, hs, hidle.2, keys]

def Inst.Uniq (x : Inst) : Prop := x.ids.Nodup

theorem Inst.uniq_init (lim : Option Nat) : Inst.Uniq { limit := lim } := by
  simp [Inst.Uniq, Inst.ids, Inst.waiters, keys]

theorem Inst.step_uniq (x x' : Inst) (a : IAct) (woke : List Nat) (hx : x.Uniq)
    (h : x.step a = some (x', woke)) : x'.Uniq := by
  unfold Inst.Uniq at hx ⊢
  rw [nodup_iff_count] at hx ⊢
  intro q
  have hc := Inst.step_count_ids x x' a woke h q
  cases a with
  | start r =>
    simp only [startBump] at hc
    by_cases hq : r = q
    · subst hq
      simp only [Inst.step, Inst.start] at h
      split at h
      · cases h
      · rename_i hnot
        have : count r x.ids = 0 := count_eq_zero.mpr hnot
        simp at hc
        omega
    · simp [hq] at hc
      have := hx q
      omega
  | «begin» r => simp only [startBump] at hc; have := hx q; omega
  | cancel r => simp only [startBump] at hc; have := hx q; omega
  | deliver r => simp only [startBump] at hc; have := hx q; omega
  | finish r o => simp only [startBump] at hc; have := hx q; omega
  | gc => simp only [startBump] at hc; have := hx q; omega

def World.Uniq (w : World) : Prop := ∀ i x, w.get i = some x → x.Uniq

theorem World.step_uniq (w w' : World) (a : Act) (woke : List (Nat × Nat)) (hw : w.Uniq)
    (h : w.step a = some (w', woke)) : w'.Uniq := by
  intro j y hy
  cases a with
  | mk i lim =>
    rw [World.get_step_mk w w' i lim woke h j] at hy
    split at hy
    · cases hy; exact Inst.uniq_init lim
    · exact hw j y hy
  | on i a =>
    obtain ⟨x, x', wk, hx, hstep, _, hget⟩ := World.get_step_on w w' i a woke h
    rw [hget j] at hy
    split at hy
    · cases hy; exact Inst.step_uniq x _ a wk (hw i x hx) hstep
    · exact hw j y hy

theorem exec_uniq (acts : List Act) : (exec acts).Uniq := by
  have : ∀ (acts : List Act) (w : World), w.Uniq → (acts.foldl World.stepD w).Uniq := by
    intro acts
    induction acts with
    | nil => intro w hw; exact hw
    | cons a acts ih =>
      intro w hw
      apply ih
      unfold World.stepD
      cases h : w.step a with
      | none => exact hw
      | some p => exact World.step_uniq w p.1 a p.2 hw h
  exact this acts {} (by intro i x h; simp [World.get, aget] at h)

/-- distinct ids: the first entry found for a key is the only one -/
theorem aget_of_mem_nodup {α} (l : List (Nat × α)) (k : Nat) (v : α) (hn : (keys l).Nodup)
    (hm : (k, v) ∈ l) : aget k l = some v := by
  induction l with
  | nil => cases hm
  | cons p l ih =>
    obtain ⟨q, u⟩ := p
    simp only [keys, map_cons, nodup_cons] at hn
    simp only [mem_cons, Prod.mk.injEq] at hm
    rcases hm with ⟨rfl, rfl⟩ | hm
    · simp [aget]
    · have hk : k ∈ l.map (·.1) := mem_map.mpr ⟨(k, v), hm, rfl⟩
      have hq : ¬ q = k := fun e => hn.1 (e ▸ hk)
      simp only [aget, hq, if_false]
      exact ih (by simpa [keys] using hn.2) hm

end RunLimit
