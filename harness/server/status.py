"""C15 harness: the handler record's status machine on the REAL server stack.

Three things live here:

* `FaultStore` — a proxy around a real workflow store that raises `InjectedFault` from
  `update_handler_status` / `append_event` / `update` on scripted calls, records every call and lets
  monitors look at the stored row at each write;
* `OpBench` — the implementation side of the model correspondence (`wfdriver handlerstatus`): the real
  `ServerRuntimeDecorator` + `IdleReleaseDecorator` + `PersistenceDecorator` adapter chain over a stub base
  runtime, the real `_WorkflowService.cancel_handler`, the real `_on_server_start`, one op per line;
* `run_case` — one scripted workflow on the full in-process stack (`harness/server/stack.py`) under the
  virtual loop with a fault plan, cancels/sends through the service, and the observations the monitors need.
"""
from __future__ import annotations

import asyncio
import contextvars
import random
import re
from dataclasses import dataclass, field
from typing import Any

from ..engine import evtypes as ET
from ..engine import live
from ..vloop import VLoop, run_virtual
from .stack import Stack, patch_server_clocks

TERMINAL = ("completed", "failed", "cancelled")
_DB_SEQ = [0]


def make_store(kind: str) -> tuple[Any, str | None]:
    """a fresh real store; sqlite files go to tmpfs when there is one (every store call opens a connection and commits)"""
    import os

    if kind != "sqlite":
        return Stack.make_store(kind)
    d = "/dev/shm" if os.path.isdir("/dev/shm") and os.access("/dev/shm", os.W_OK) else None
    if d is None:
        return Stack.make_store(kind)
    _DB_SEQ[0] += 1
    path = os.path.join(d, f"verif_c15_{os.getpid()}_{_DB_SEQ[0]}.db")
    for suf in ("", "-wal", "-shm", "-journal"):
        try:
            os.unlink(path + suf)
        except OSError:
            pass
    return Stack.make_store(kind, db_path=path)
NOSTATE_TEXT = "handler crashed before persisting any state; cannot resume"


# set in the task of an external request (send / cancel through the service) of a race case; inherited by the
# fire-and-forget delivery task that the request spawns
_REQUEST: contextvars.ContextVar = contextvars.ContextVar("verif_c15_request", default=None)


class InjectedFault(Exception):
    """a transient store failure injected by the harness"""


class FaultStore:
    """Delegates everything to `inner`; the three write methods consult fault scripts first.

    Counter mode (`arm`): the next n calls of the method raise.  Plan mode (`plan[method] = f(index, info)`):
    `f` decides per call.  `writes` lists (method, info, failed, row-status-after) for every call."""

    def __init__(self, inner: Any, handler_id: str = "h1"):
        self._inner = inner
        self.handler_id = handler_id
        self.counters = {"uhs": 0, "app": 0, "upd": 0}
        self.plan: dict[str, Any] = {}
        self.calls = {"uhs": 0, "app": 0, "upd": 0}
        self.writes: list[tuple] = []
        self.fault_text = "s0"
        self.status_trace: list[tuple] = []  # (run_id, status) after every successful handler write
        self.early_terminal_events: list[tuple] = []  # terminal event appended while the row was not terminal
        self.by_run = False  # several handlers on one store: look rows up by the run id of the write
        # (run_id, status before, status after, method, info) for every successful handler write that found a row
        self.transitions: list[tuple] = []
        # parking: a store whose answers take time.  `park_lookups`: a handler-id lookup made on behalf of an external
        # request (the task carries _REQUEST) takes its snapshot and then waits; `park_unidle`: a status write that clears
        # idle_since waits BEFORE it is executed (the read-modify-write itself stays atomic).  The scheduler releases them.
        self.park_lookups = False
        self.park_unidle = False
        self.parked: list[dict] = []
        self.park_seq = 0
        # with `release_at_end` everything parked for a run is let through the moment a terminal status of that run has been
        # stored (the late requests complete right after the end, before any timer), and nothing is parked for it afterwards
        self.release_at_end = False
        self.ended: set[str] = set()
        self.late: list[dict] = []  # what was still parked when the terminal status of its run was stored

    def __getattr__(self, name: str) -> Any:
        return getattr(self._inner, name)

    def arm(self, method: str, n: int) -> None:
        self.counters[method] = n

    def _gate(self, method: str, info: Any) -> None:
        i = self.calls[method]
        self.calls[method] = i + 1
        fail = False
        if self.counters[method] > 0:
            self.counters[method] -= 1
            fail = True
        else:
            f = self.plan.get(method)
            if f is not None and f(i, info):
                fail = True
        self.writes.append((method, info, fail))
        if fail:
            raise InjectedFault(self.fault_text)

    def _row(self, run_id: str | None = None) -> Any:
        """the handler row of `run_id` (default: of `self.handler_id`), read behind the proxy"""
        hs = getattr(self._inner, "handlers", None)
        if hs is not None:
            if run_id is None:
                return hs.get(self.handler_id)
            for h in hs.values():
                if h.run_id == run_id:
                    return h
            return None
        with self._inner._connect() as conn:
            if run_id is None:
                r = conn.execute("SELECT run_id, status FROM handlers WHERE handler_id = ?", (self.handler_id,)).fetchone()
            else:
                r = conn.execute("SELECT run_id, status FROM handlers WHERE run_id = ?", (run_id,)).fetchone()
        if r is None:
            return None
        return type("Row", (), {"run_id": r[0], "status": r[1]})()

    def _before(self, run_id: str | None = None) -> tuple | None:
        row = self._row(run_id) if self.by_run else self._row()
        return None if row is None else (row.run_id, row.status)

    def _note(self, run_id: str | None = None, before: tuple | None = None, method: str = "?", info: Any = None) -> None:
        row = self._row(run_id) if self.by_run else self._row()
        if row is not None:
            self.status_trace.append((row.run_id, row.status))
            if before is not None and before[0] == row.run_id:
                self.transitions.append((row.run_id, before[1], row.status, method, info))

    async def _park(self, kind: str, what: Any, run_ids: list) -> None:
        if self.release_at_end and any(r in self.ended for r in run_ids):
            return
        req = _REQUEST.get()
        self.park_seq += 1
        item = {"id": self.park_seq, "kind": kind, "what": what, "ev": asyncio.Event(), "run_ids": list(run_ids),
                "hold": bool(req and req.get("hold")) and kind == "lookup", "req": req and req.get("n"), "run": req and req.get("run")}
        self.parked.append(item)
        try:
            await item["ev"].wait()
        finally:
            if item in self.parked:
                self.parked.remove(item)

    def release(self, item: dict) -> None:
        if item in self.parked:
            self.parked.remove(item)
        item["ev"].set()

    async def query(self, query: Any) -> Any:
        rows = await self._inner.query(query)
        if self.park_lookups and _REQUEST.get() is not None and getattr(query, "handler_id_in", None) is not None:
            # a read that takes time: the answer is the state at the time of the read
            snapshot = [r.model_copy() for r in rows]
            await self._park("lookup", [getattr(r, "status", None) for r in snapshot], [getattr(r, "run_id", None) for r in snapshot])
            return snapshot
        return rows

    async def update_handler_status(self, run_id: str, **kw: Any) -> None:
        unidle = "idle_since" in kw and kw["idle_since"] is None
        info = (run_id, kw.get("status"), "idle_since" in kw, unidle)
        if self.park_unidle and unidle and _REQUEST.get() is not None:
            await self._park("unidle", run_id, [run_id])
        self._gate("uhs", info)
        before = self._before(run_id)
        await self._inner.update_handler_status(run_id, **kw)
        self._note(run_id, before, "uhs", info)
        if kw.get("status") in TERMINAL:
            self.ended.add(run_id)
            if self.release_at_end:
                for it in [it for it in self.parked if run_id in it["run_ids"]]:
                    self.late.append({"run_id": run_id, "queued": it["kind"], "of_request": it["req"], "held": it["hold"]})
                    self.release(it)

    async def append_event(self, run_id: str, event: Any) -> None:
        types = list(getattr(event, "types", None) or []) + [event.type]
        self._gate("app", (run_id, event.type, "StopEvent" in types))
        if "StopEvent" in types:
            row = self._row(run_id) if self.by_run else self._row()
            if row is not None and row.run_id == run_id and row.status not in TERMINAL:
                self.early_terminal_events.append((run_id, event.type, row.status))
        await self._inner.append_event(run_id, event)

    async def update(self, handler: Any) -> None:
        self._gate("upd", (handler.run_id, handler.status))
        before = self._before(handler.run_id)
        await self._inner.update(handler)
        self._note(handler.run_id, before, "upd", (handler.run_id, handler.status))


def canon_error(text: str | None) -> str:
    if text is None:
        return "_"
    m = re.fullmatch(r"e(\d+)", text)
    if m:
        return f"e{m.group(1)}"
    m = re.fullmatch(r"Workflow timed out after (\d+)(?:\.0)?s", text)
    if m:
        return f"t{m.group(1)}"
    m = re.fullmatch(r"Operation timed out after (\d+)(?:\.0)? seconds\. .*", text)
    if m:
        return f"t{m.group(1)}"
    if text == NOSTATE_TEXT:
        return "nostate"
    m = re.fullmatch(r"s(\d+)", text)
    if m:
        return f"s{m.group(1)}"
    return "?" + text[:60].replace("|", "/").replace(" ", "_")


# ==========================================================================
# (K) implementation side of the op protocol


class _StubInternal:
    """innermost InternalRunAdapter: records what reaches the live stream"""

    def __init__(self, bench: "OpBench", run_id: str):
        self._bench = bench
        self._run_id = run_id

    @property
    def run_id(self) -> str:
        return self._run_id

    def is_replaying(self) -> bool:
        return self._bench.replaying

    async def write_to_event_stream(self, event: Any) -> None:
        self._bench.published.append((self._run_id, event))

    async def on_tick(self, tick: Any) -> None:  # pragma: no cover
        pass

    async def after_tick(self, tick: Any) -> None:  # pragma: no cover
        pass

    def get_state_store(self) -> Any:  # pragma: no cover
        return None


class _StubExternal:
    def __init__(self, bench: "OpBench", run_id: str):
        self._bench = bench
        self.run_id = run_id

    async def send_event(self, tick: Any) -> None:
        self._bench.sent.append((self.run_id, tick))


def _make_stub_runtime(bench: "OpBench") -> Any:
    from workflows.runtime.types.plugin import Runtime

    class StubRuntime(Runtime):
        def register(self, workflow: Any) -> Any:  # pragma: no cover
            raise RuntimeError("stub")

        def run_workflow(self, *a: Any, **k: Any) -> Any:  # pragma: no cover
            raise RuntimeError("stub")

        def get_internal_adapter(self, workflow: Any) -> Any:
            return _StubInternal(bench, bench.current_run)

        def get_external_adapter(self, run_id: str) -> Any:
            if run_id not in bench.known_runs:
                raise RuntimeError("no such run")
            return _StubExternal(bench, run_id)

    return StubRuntime()


class _StubWorkflow:
    """what `_on_server_start` needs of a workflow"""

    workflow_name = "wf"

    def __init__(self) -> None:
        self.resumed: list[str] = []

    def run(self, ctx: Any = None, run_id: str | None = None, **kw: Any) -> None:
        self.resumed.append(run_id or "?")


def _run_name(n: int) -> str:
    return f"r{n}"


class OpBench:
    """One op stream against the real classes.  `apply(line)` answers in the model's output format."""

    def __init__(self, store_kind: str):
        self.store_kind = store_kind
        self.stack_store: Any = None
        self.db_path: str | None = None
        self.fs: FaultStore | None = None
        self.replaying = False
        self.current_run = "r0"
        self.known_runs: set[str] = set()
        self.published: list = []
        self.sent: list = []
        self.adapters: dict[str, Any] = {}
        self.releases = 0
        self.slept_ms = 0
        self.cancel_requests: list[str] = []
        self.ready = False

    # ---- construction
    def _reset(self, idle_layer: bool, backoff_ms: list[int]) -> None:
        from llama_agents.server._runtime.idle_release_runtime import IdleReleaseDecorator
        from llama_agents.server._runtime.persistence_runtime import PersistenceDecorator
        from llama_agents.server._runtime.server_runtime import ServerRuntimeDecorator
        from llama_agents.server._service import _WorkflowService
        from workflows import Workflow
        from workflows.decorators import step
        from workflows.events import StartEvent, StopEvent

        patch_server_clocks()
        self.cleanup()
        base, self.db_path = make_store(self.store_kind)
        self.stack_store = base
        self.fs = FaultStore(base)
        self.stub = _make_stub_runtime(self)
        self.persistence = PersistenceDecorator(self.stub, store=self.fs)
        inner: Any = self.persistence
        self.idle = None
        if idle_layer:
            self.idle = IdleReleaseDecorator(self.persistence, store=self.fs, idle_timeout=1e9)
            inner = self.idle
            orig_spawn = self.idle._spawn_task

            def counting_spawn(coro: Any) -> Any:
                self.releases += 1
                return orig_spawn(coro)

            self.idle._spawn_task = counting_spawn  # type: ignore[method-assign]
        self.runtime = ServerRuntimeDecorator(inner, store=self.fs, persistence_backoff=[b / 1000.0 for b in backoff_ms])
        self.service = _WorkflowService(self.runtime, self.fs)

        class _WF(Workflow):
            @step
            async def only(self, ev: StartEvent) -> StopEvent:
                return StopEvent()

        self.wf = _WF()
        self.stub_wf = _StubWorkflow()
        self.replaying = False
        self.known_runs = set()
        self.published = []
        self.sent = []
        self.adapters = {}
        self.releases = 0
        self.slept_ms = 0
        self.cancel_requests = []
        self.ready = True

        async def fake_cancel_run(handler: Any) -> None:
            self.cancel_requests.append(handler.run_id)

        def fake_run_handler(workflow_name: str, run_id: str) -> Any:
            return type("H", (), {"run_id": run_id})()

        self.service._cancel_run = fake_cancel_run  # type: ignore[method-assign]
        self.service._workflow_run_handler = fake_run_handler  # type: ignore[method-assign]
        self.runtime._registered_workflows["wf"] = self.wf

    def cleanup(self) -> None:
        if getattr(self, "idle", None) is not None:
            for t in list(self.idle._background_tasks):
                try:
                    t.cancel()
                except RuntimeError:
                    pass
        if self.db_path:
            import os

            for suf in ("", "-wal", "-shm"):
                try:
                    os.unlink(self.db_path + suf)
                except OSError:
                    pass
            self.db_path = None

    # ---- rendering
    async def _row(self) -> str:
        from llama_agents.server._store.abstract_workflow_store import HandlerQuery

        found = await self.stack_store.query(HandlerQuery(handler_id_in=["h1"]))
        if not found:
            return "none"
        h = found[0]
        run = h.run_id[1:] if h.run_id and h.run_id.startswith("r") else "?"
        if h.completed_at is None:
            c = "none"
        else:
            c = "now" if h.completed_at == h.updated_at else "old"
        res = "_" if h.result is None else str(getattr(h.result, "uid", 0))  # IdleReleasedEvent carries no uid: token 0
        return f"run={run} st={h.status} err={canon_error(h.error)} res={res} c={c} idle={1 if h.idle_since is not None else 0}"

    def _kind_of(self, type_name: str, ev: Any = None) -> str:
        return {"T1": "stop", "StopEvent": "stop", "WorkflowFailedEvent": "failed", "WorkflowTimedOutEvent": "timedout",
                "WorkflowCancelledEvent": "cancelled", "IdleReleasedEvent": "idlereleased", "WorkflowIdleEvent": "idle",
                "T5": "other", "StepStateChanged": "other"}.get(type_name, "?" + type_name)

    async def _tail(self) -> str:
        assert self.fs is not None
        # events are per run in the store; keep the global append order from the fault store's call log
        ok_apps = [info for (m, info, failed) in self.fs.writes if m == "app" and not failed]
        n = len(ok_apps)
        last = "_" if not ok_apps else f"{ok_apps[-1][0][1:]}/{self._kind_of(ok_apps[-1][1])}"
        # cross-check with what the store really holds
        stored = 0
        for run in {i[0] for i in ok_apps}:
            stored += len(await self.stack_store.query_events(run))
        if stored != n:
            last += f"!stored={stored}"
        pn = len(self.published)
        plast = "_" if not self.published else f"{self.published[-1][0][1:]}/{self._kind_of(type(self.published[-1][1]).__name__)}"
        c = self.fs.counters
        slept = self.slept_ms + int(round((asyncio.get_event_loop().time() - self._t0) * 1000))
        return f"ev={n}:{last} pub={pn}:{plast} rel={self.releases} slept={slept} f={c['uhs']},{c['app']},{c['upd']}"

    async def _answer(self, head: str) -> str:
        return f"{head} | {await self._row()} | {await self._tail()}"

    def _event(self, kind: str, tok: int) -> Any:
        from workflows.events import (IdleReleasedEvent, WorkflowCancelledEvent, WorkflowFailedEvent, WorkflowIdleEvent,
                                      WorkflowTimedOutEvent)

        if kind == "stop":
            return ET.T1(uid=tok)
        if kind == "failed":
            return WorkflowFailedEvent(step_name="s00", exception=ET.Boom(f"e{tok}"), attempts=1, elapsed_seconds=0.0)
        if kind == "timedout":
            return WorkflowTimedOutEvent(timeout=float(tok), active_steps=[])
        if kind == "cancelled":
            return WorkflowCancelledEvent()
        if kind == "idlereleased":
            return IdleReleasedEvent()
        if kind == "idle":
            return WorkflowIdleEvent()
        if kind == "other":
            return ET.T5(uid=tok)
        raise ValueError(kind)

    def _adapter(self, run: str) -> Any:
        if run not in self.adapters:
            self.current_run = run
            self.adapters[run] = self.runtime.get_internal_adapter(self.wf)
        return self.adapters[run]

    # ---- one op
    async def apply(self, line: str) -> str:
        loop = asyncio.get_event_loop()
        self._t0 = loop.time()
        try:
            return await self._apply(line)
        finally:
            self.slept_ms += int(round((loop.time() - self._t0) * 1000))

    async def _apply(self, line: str) -> str:
        f = line.split("|")
        op = f[0]

        def nat(s: str) -> int:
            if not s.isdigit():
                raise ValueError(s)
            return int(s)

        def flag(s: str) -> bool:
            if s not in ("0", "1"):
                raise ValueError(s)
            return s == "1"

        try:
            if op == "reset" and len(f) == 3:
                il = flag(f[1])
                bs = [nat(x) for x in f[2].split(",")] if f[2] else []
                self._reset(il, bs)
                return "ok"
            if not self.ready:
                return "bad-op"
            assert self.fs is not None
            if op == "arm" and len(f) == 3:
                if f[1] not in ("uhs", "app", "upd"):
                    return "bad-op"
                self.fs.arm(f[1], nat(f[2]))
                return "ok"
            if op == "start" and len(f) == 2:
                run = _run_name(nat(f[1]))
                try:
                    await self.runtime.run_workflow_handler("h1", "wf", run)
                    res = "ok"
                except InjectedFault:
                    res = "raised"
                self.known_runs.add(run)
                if self.idle is not None:
                    self.idle._active_run_ids.add(run)
                return await self._answer(res)
            if op == "ev" and len(f) == 5:
                run, kind, tok, rp = _run_name(nat(f[1])), f[2], nat(f[3]), flag(f[4])
                if kind not in ("stop", "failed", "timedout", "cancelled", "idlereleased", "idle", "other"):
                    return "bad-op"
                self.known_runs.add(run)
                ad = self._adapter(run)
                self.replaying = rp
                try:
                    await ad.write_to_event_stream(self._event(kind, tok))
                    res = "ok"
                except InjectedFault:
                    res = "raised"
                finally:
                    self.replaying = False
                return await self._answer(res)
            if op == "uhs" and len(f) == 6:
                run = _run_name(nat(f[1]))
                kw: dict[str, Any] = {}
                if f[2] != "_":
                    if f[2] not in ("running",) + TERMINAL:
                        return "bad-op"
                    kw["status"] = f[2]
                if f[3] != "_":
                    kw["result"] = ET.T1(uid=nat(f[3]))
                if f[4] != "_":
                    e = f[4]
                    if e == "nostate":
                        kw["error"] = NOSTATE_TEXT
                    elif e[:1] == "e" and e[1:].isdigit():
                        kw["error"] = e
                    elif e[:1] == "t" and e[1:].isdigit():
                        kw["error"] = f"Workflow timed out after {e[1:]}s"
                    elif e[:1] == "s" and e[1:].isdigit():
                        kw["error"] = e
                    else:
                        return "bad-op"
                if f[5] == "n":
                    kw["idle_since"] = None
                elif f[5] == "s":
                    from datetime import datetime, timezone

                    kw["idle_since"] = datetime.now(timezone.utc)
                elif f[5] != "u":
                    return "bad-op"
                try:
                    await self.fs.update_handler_status(run, **kw)
                    res = "ok"
                except InjectedFault:
                    res = "raised"
                return await self._answer(res)
            if op == "idleclear" and len(f) == 2:
                run = _run_name(nat(f[1]))
                try:
                    if self.idle is not None and run in self.idle._active_run_ids:
                        from workflows.runtime.types.ticks import TickCancelRun

                        self.known_runs.add(run)
                        await self.runtime.get_external_adapter(run).send_event(TickCancelRun())
                    else:
                        # without the idle layer (or for a run it does not hold) the stack's only caller is the reload path
                        await self.fs.update_handler_status(run, idle_since=None)
                    res = "ok"
                except InjectedFault:
                    res = "raised"
                return await self._answer(res)
            if op == "cancel" and len(f) == 2:
                purge = flag(f[1])
                self.cancel_requests = []
                r = await self.service.cancel_handler("h1", purge=purge)
                req = self.cancel_requests[0][1:] if self.cancel_requests else "_"
                return await self._answer(f"{r if r is not None else 'none'},req={req}")
            if op == "restart" and len(f) == 4:
                active, fault = flag(f[2]), nat(f[3])
                rp = self._replay(f[1])
                if rp is None:
                    return "bad-op"
                return await self._answer(await self._restart(rp, active, fault))
        except ValueError:
            return "bad-op"
        return "bad-op"

    def _replay(self, s: str) -> Any:
        from llama_agents.server._runtime.persistence_runtime import ReplayedContext
        from workflows.errors import WorkflowCancelledByUser, WorkflowTimeoutError
        from workflows.events import IdleReleasedEvent
        from workflows.runtime.types.commands import CommandCompleteRun, CommandFailWorkflow, CommandHalt

        p = s.split(":")
        try:
            if p == ["nostate"]:
                return ("value", None)
            if p == ["resumable"]:
                return ("value", ReplayedContext(context=None, exit_command=None))  # type: ignore[arg-type]
            if p[0] == "raised" and len(p) == 2 and p[1].isdigit():
                return ("raise", f"s{p[1]}")
            if p[0] == "stop" and len(p) == 2 and p[1].isdigit():
                return ("value", ReplayedContext(context=None, exit_command=CommandCompleteRun(result=ET.T1(uid=int(p[1])))))  # type: ignore[arg-type]
            if p == ["idlereleased"]:
                return ("value", ReplayedContext(context=None, exit_command=CommandCompleteRun(result=IdleReleasedEvent())))  # type: ignore[arg-type]
            if p[0] == "fail" and len(p) == 2 and p[1].isdigit():
                return ("value", ReplayedContext(context=None, exit_command=CommandFailWorkflow(step_name="s00", exception=ET.Boom(f"e{p[1]}"))))  # type: ignore[arg-type]
            if p == ["cancel"]:
                return ("value", ReplayedContext(context=None, exit_command=CommandHalt(exception=WorkflowCancelledByUser())))  # type: ignore[arg-type]
            if p[0] == "timeout" and len(p) == 2 and p[1].isdigit():
                return ("value", ReplayedContext(context=None, exit_command=CommandHalt(
                    exception=WorkflowTimeoutError(f"Operation timed out after {float(p[1])} seconds. No steps active"))))  # type: ignore[arg-type]
        except Exception:
            return None
        return None

    async def _restart(self, rp: tuple, active: bool, fault: int) -> str:
        assert self.fs is not None
        kind, val = rp

        async def fake_context_from_ticks(workflow: Any, run_id: str) -> Any:
            if kind == "raise":
                raise RuntimeError(val)
            return val

        self.persistence.context_from_ticks = fake_context_from_ticks  # type: ignore[method-assign]
        self.persistence._active_run_ids = set(self.known_runs) if active else set()
        self.fs.fault_text = f"s{fault}"
        self.stub_wf.resumed = []
        before = len(self.fs.writes)
        await self.persistence._on_server_start({"wf": self.stub_wf})  # type: ignore[dict-item]
        self.fs.fault_text = "s0"
        calls = [w for w in self.fs.writes[before:] if w[0] == "uhs"]
        if not calls:
            return "resumed" if self.stub_wf.resumed else "skipped"
        if self.stub_wf.resumed:
            return "resumed+write?"
        oks = [w for w in calls if not w[2]]
        if not oks:
            return "lost"
        if len(calls) > 1:
            return "markedfailed"
        # one successful write: the finalisation of an exit command, or a failure mark
        return "markedfailed" if kind == "raise" or val is None else "finalized"


def run_ops(store_kind: str, lines: list[str]) -> list[str]:
    """run one op stream on the real classes under the virtual loop"""
    bench = OpBench(store_kind)
    out: list[str] = []

    async def main(loop: VLoop) -> None:
        for l in lines:
            out.append(await bench.apply(l))
        if getattr(bench, "idle", None) is not None:
            for t in list(bench.idle._background_tasks):
                t.cancel()

    try:
        run_virtual(main, max_time=1e12)
    finally:
        bench.cleanup()
    return out


# ==========================================================================
# (S) whole runs on the real stack


@dataclass
class CaseResult:
    case: dict
    outcome: str = "pending"  # result | cancelled | timeout | step_failure | engine_failure | store_fault | aborted | invalid | deadlock
    outcome_detail: Any = None
    started: bool = False
    start_error: str | None = None
    record: Any = None  # PersistentHandler after quiescence
    record_late: Any = None  # after the idle timers have fired
    replay_case: Any = None  # for a run that is part of a history: the whole history
    cancel_result: Any = None  # what cancel_handler answered for a handler that had been released while idle
    released_at_cancel: bool = False
    record_restart: Any = None  # after a process crash and `_on_server_start` on a fresh stack over the same store
    restart_writes: list = field(default_factory=list)
    entered: list = field(default_factory=list)  # event type names that entered the server adapter for the run
    writes: list = field(default_factory=list)
    status_trace: list = field(default_factory=list)
    transitions: list = field(default_factory=list)  # (run_id, status before, status after, method, info) per handler write
    late_requests: list = field(default_factory=list)  # external requests that were still in flight when the run ended
    early_terminal_events: list = field(default_factory=list)
    events: list = field(default_factory=list)  # stored event types
    run_id: str | None = None
    actions: list = field(default_factory=list)
    notes: list = field(default_factory=list)
    budget: int = 0
    result_uid: Any = None
    stop_uid: Any = None


def _plan(fault: dict | None) -> dict:
    """fault = {"kind": "uhs_terminal"|"app_at"|"app_terminal"|"idle_uhs"|"upd", "k": n, "at": i}"""
    if not fault:
        return {}
    k = int(fault.get("k", 1))
    kind = fault["kind"]
    if kind == "uhs_terminal":
        seen = {"n": 0}

        def f(i: int, info: Any) -> bool:
            if info[1] in TERMINAL:
                seen["n"] += 1
                return seen["n"] <= k
            return False

        return {"uhs": f}
    if kind == "idle_uhs":
        seen2 = {"n": 0}

        def g(i: int, info: Any) -> bool:
            if info[1] == "running" and info[2]:
                seen2["n"] += 1
                return seen2["n"] <= k
            return False

        return {"uhs": g}
    if kind == "app_at":
        at = int(fault.get("at", 0))
        return {"app": lambda i, info: at <= i < at + k and not info[2]}
    if kind == "app_terminal":
        seen3 = {"n": 0}

        def h(i: int, info: Any) -> bool:
            if info[2]:
                seen3["n"] += 1
                return seen3["n"] <= k
            return False

        return {"app": h}
    if kind == "upd":
        return {"upd": lambda i, info: i < k}
    raise ValueError(kind)


_entered_hook_installed = False
_ENTERED: list[list] = []


def _install_entered_hook() -> None:
    """record what enters `_ServerInternalRunAdapter.write_to_event_stream` (observation only)"""
    global _entered_hook_installed
    if _entered_hook_installed:
        return
    import llama_agents.server._runtime.server_runtime as SR

    orig = SR._ServerInternalRunAdapter.write_to_event_stream

    async def probe(self: Any, event: Any) -> None:
        if _ENTERED:
            _ENTERED[-1].append((self.run_id, type(event).__name__, event))
        await orig(self, event)

    SR._ServerInternalRunAdapter.write_to_event_stream = probe  # type: ignore[method-assign]
    _entered_hook_installed = True


def run_case(case: dict) -> CaseResult:
    """case = {"store", "idle_timeout", "backoff", "spec", "fault", "seed", "actions"}"""
    from workflows.errors import WorkflowCancelledByUser, WorkflowTimeoutError
    from workflows.events import StopEvent

    live.install_observers()
    _install_entered_hook()
    spec = case["spec"]
    rng = random.Random(case.get("seed", 0))
    run = live.Run(spec, rng, case.get("actions"))
    res = CaseResult(case=case)
    backoff = case.get("backoff")
    res.budget = len(backoff) if backoff is not None else 2
    idle_timeout = case.get("idle_timeout")
    entered: list = []
    _ENTERED.append(entered)
    live._ACTIVE.append(run)
    state: dict[str, Any] = {"st": None, "h": None, "done": False, "quiet": 0, "stuck": False, "fs": None, "nreq": 0, "inflight": []}
    horizon = 300.0
    race = bool(case.get("race"))
    # virtual seconds between the end of the run and the completion of the requests that are still in flight (0: at once)
    late_delay = float(case.get("late_delay") or 0)

    def hook_factory(loop: VLoop):
        def hook() -> bool:
            st = state["st"]
            if st is None or state["h"] is None or state["done"]:
                return False
            options: list[tuple[str, Any]] = [("gate", key) for key in list(run.waiting)]
            for i, ext in enumerate(run.externals):
                if ext.get("after_quiet", 0) <= state["quiet"] and ext["op"] in ("send", "cancel"):
                    options.append(("ext", i))
            fs_ = state.get("fs")
            if fs_ is not None:
                # answers of the slow store that the scheduler may let through now (held lookups wait for the end of the run)
                options += [("unpark", it) for it in fs_.parked if not it["hold"]]
            near = any((not h._cancelled) and h._when <= loop.time() + horizon for h in loop._scheduled)  # type: ignore[attr-defined]
            state["quiet"] += 1
            if not options:
                if not near and not state["stuck"]:
                    state["stuck"] = True
                    res.notes.append("stuck: cancelled through the service")
                    loop.create_task(_swallow(st.cancel("h1")))
                    return True
                return False
            if near:
                options.append(("time", None))
            kind, arg = options[run.choose(len(options))]
            if kind == "time":
                return False
            if kind == "gate":
                run.waiting.remove(arg)
                run.gates[arg].set()
                return True
            if kind == "unpark":
                fs_.release(arg)
                return True
            ext = run.externals.pop(arg)
            state["nreq"] += 1
            req = {"n": state["nreq"], "op": ext["op"], "hold": ext.get("hold") == "end"} if race else None
            if ext["op"] == "cancel":
                loop.create_task(_swallow(st.cancel("h1"), req))
            else:
                loop.create_task(_swallow(st.send("h1", ET.mk(ext["ty"], run.fresh(), ext.get("k")), step=ext.get("step")), req))
            return True

        return hook

    async def _swallow(coro: Any, req: dict | None = None) -> None:
        if req is not None:
            _REQUEST.set(req)
            state["inflight"].append(req)
        try:
            await coro
        except Exception as e:
            res.notes.append(f"external op failed: {type(e).__name__}")
        finally:
            if req is not None and req in state["inflight"]:
                state["inflight"].remove(req)

    async def main(loop: VLoop) -> None:
        base, dbp = make_store(case.get("store", "memory"))
        fs = FaultStore(base)
        fs.plan = _plan(case.get("fault"))
        if race:
            fs.park_lookups = True
            fs.park_unidle = True
            fs.release_at_end = not late_delay
            state["fs"] = fs
        st = Stack.build(case.get("store", "memory"), idle_timeout=idle_timeout, persistence_backoff=backoff, store=fs, db_path=dbp)
        try:
            try:
                st.add_workflow("wf", lambda: live.build_workflow(spec, run))
            except Exception as e:
                res.outcome, res.outcome_detail = "invalid", repr(e)
                return
            await st.start()
            try:
                hd = await st.start_run("wf", "h1", ET.T0(uid=1, k=spec.get("start_k")))
            except InjectedFault as e:
                res.start_error = "fault"
                res.record = await st.handler("h1")
                return
            except Exception as e:
                res.outcome, res.outcome_detail = "invalid", repr(e)
                res.record = await st.handler("h1")
                return
            res.started = True
            res.run_id = hd.run_id
            h = st.service._workflow_run_handler("wf", hd.run_id)
            state["st"], state["h"] = st, h
            try:
                r = await h
                res.outcome = "result"
                res.result_uid = getattr(r, "uid", None)
            except WorkflowCancelledByUser:
                res.outcome = "cancelled"
            except WorkflowTimeoutError as e:
                res.outcome, res.outcome_detail = "timeout", str(e)
            except asyncio.CancelledError:
                res.outcome = "aborted"
                if idle_timeout:
                    # released from memory while idle: keep going (sends through the service reload it), then cancel it
                    res.notes.append("released while idle")
                    for _ in range(4):
                        await asyncio.sleep(idle_timeout * 1.5)
                    state["done"] = True
                    if case.get("cancel_after_release"):
                        try:
                            res.cancel_result = await st.cancel("h1")
                        except Exception as e:
                            res.cancel_result = f"error:{type(e).__name__}"
                        res.released_at_cancel = not st.active(hd.run_id)
                        await asyncio.sleep(10)
            except InjectedFault as e:
                res.outcome, res.outcome_detail = "store_fault", str(e)
            except live.RunawayRun:
                res.outcome = "runaway"
            except BaseException as e:  # noqa: BLE001
                res.outcome_detail = (type(e).__name__, str(e))
                failed = [x for x in entered if x[0] == hd.run_id and x[1] == "WorkflowFailedEvent"]
                res.outcome = "step_failure" if failed else "engine_failure"
            state["done"] = True
            for _ in range(30):
                await asyncio.sleep(0)
            if race:
                # the run has ended: the requests that are still in flight (their lookup was answered from the state
                # before the end, or their delivery is queued behind the slow store) now complete, oldest first
                res.late_requests = [{k: v for k, v in d.items() if k != "run_id"} for d in fs.late] + \
                    [{"queued": it["kind"], "of_request": it["req"], "held": it["hold"]} for it in fs.parked]
                if late_delay and fs.parked:
                    await asyncio.sleep(late_delay)
                for _round in range(200):
                    if not fs.parked:
                        break
                    fs.release(fs.parked[0])
                    for _ in range(30):
                        await asyncio.sleep(0)
            res.record = _snap(await st.handler("h1"))
            res.events = [e.event.type for e in await st.events(hd.run_id)]
            # let every idle / release timer fire on the finished run
            await asyncio.sleep((idle_timeout or 0) * 2 + 10)
            for _ in range(10):
                await asyncio.sleep(0)
            res.record_late = _snap(await st.handler("h1"))
            if case.get("restart"):
                st2 = await st.crash()
                n0 = len(fs.writes)
                rf = int(case.get("restart_fault", 0))
                if rf:
                    base_calls = fs.calls["uhs"]
                    fs.plan = {"uhs": lambda i, info: i < base_calls + rf}
                else:
                    fs.plan = {}
                state["done"] = True
                await st2.start()
                for _ in range(30):
                    await asyncio.sleep(0)
                res.record_restart = _snap(await st2.handler("h1"))
                res.restart_writes = list(fs.writes[n0:])
                res.writes = list(fs.writes[:n0])
                st = st2
        finally:
            if res.record_restart is None:
                res.writes = list(fs.writes)
            res.status_trace = list(fs.status_trace)
            res.transitions = list(fs.transitions)
            res.early_terminal_events = list(fs.early_terminal_events)
            for it in list(fs.parked):
                fs.release(it)
            try:
                if st.idle is not None:
                    for t in list(st.idle._background_tasks):
                        t.cancel()
            except Exception:
                pass
            st.cleanup()

    try:
        try:
            run_virtual(main, max_time=1e7, hook_factory=hook_factory)
        except TimeoutError:
            res.outcome = "deadlock"
    finally:
        live._ACTIVE.pop()
        _ENTERED.pop()
    res.entered = [(r, n) for (r, n, _e) in entered]
    for (r, n, e) in entered:
        if r == res.run_id and isinstance(e, StopEvent) and n not in ("WorkflowFailedEvent", "WorkflowTimedOutEvent", "WorkflowCancelledEvent"):
            res.stop_uid = getattr(e, "uid", None)
    res.actions = list(run.trace.actions)
    return res


def _snap(h: Any) -> dict | None:
    if h is None:
        return None
    return {"status": h.status, "run_id": h.run_id, "error": h.error, "has_result": h.result is not None,
            "result_uid": getattr(h.result, "uid", None), "completed_at": h.completed_at is not None,
            "idle_since": h.idle_since is not None}


# ==========================================================================
# (S) histories: several runs, one after the other and some together, on ONE stack / runtime instance


class HistoryPlan:
    """per-run transient faults on the two retried writes: the first `upd` upserts of the run's handler row and the
    first `uhs` terminal status writes of the run raise.  Runs are told apart by run id (registered at the first upsert)."""

    def __init__(self, items: list[dict]):
        self.left = [{"upd": int(it.get("upd", 0)), "uhs": int(it.get("uhs", 0))} for it in items]
        self.index: dict[str, int] = {}
        self.next_index = 0
        self.expect: list[int] = []  # queue of history indices whose start is in progress

    def upd(self, i: int, info: Any) -> bool:
        run_id = info[0]
        if run_id not in self.index:
            self.index[run_id] = self.expect.pop(0) if self.expect else self.next_index
        idx = self.index[run_id]
        if idx < len(self.left) and self.left[idx]["upd"] > 0:
            self.left[idx]["upd"] -= 1
            return True
        return False

    def uhs(self, i: int, info: Any) -> bool:
        idx = self.index.get(info[0])
        if idx is None or info[1] not in TERMINAL:
            return False
        if self.left[idx]["uhs"] > 0:
            self.left[idx]["uhs"] -= 1
            return True
        return False


def run_history(case: dict) -> list[CaseResult]:
    """case = {"store", "idle_timeout", "backoff", "seed", "actions", "history": [{"spec", "upd", "uhs", "with_next"}, ...]}
    -> one CaseResult per run (same fields as `run_case`, writes / status trace restricted to that run)"""
    from workflows.errors import WorkflowCancelledByUser, WorkflowTimeoutError
    from workflows.events import StopEvent

    live.install_observers()
    _install_entered_hook()
    items = case["history"]
    rng = random.Random(case.get("seed", 0))
    master = live.Run({"steps": [], "externals": []}, rng, case.get("actions"))
    backoff = case.get("backoff")
    budget = len(backoff) if backoff is not None else 2
    idle_timeout = case.get("idle_timeout")
    runs = [live.Run(it["spec"], random.Random(rng.randrange(1 << 30))) for it in items]
    results = [CaseResult(case={"store": case.get("store", "memory"), "idle_timeout": idle_timeout, "backoff": backoff, "spec": it["spec"],
                                "fault": ({"kind": "uhs_terminal", "k": int(it.get("uhs", 0)), "upd": int(it.get("upd", 0))}
                                          if (it.get("uhs") or it.get("upd")) else None),
                                "history_index": i, "history_len": len(items)}, budget=budget) for i, it in enumerate(items)]
    entered: list = []
    _ENTERED.append(entered)
    live._ACTIVE.append(master)
    active: list[int] = []  # indices of runs whose handler is being awaited
    state: dict[str, Any] = {"st": None, "quiet": {}, "stuck": set(), "fs": None, "nreq": 0, "inflight": []}
    horizon = 300.0
    race = bool(case.get("race"))

    async def _swallow(i: int, coro: Any, req: dict | None = None) -> None:
        if req is not None:
            _REQUEST.set(req)
            state["inflight"].append(req)
        try:
            await coro
        except Exception as e:
            results[i].notes.append(f"external op failed: {type(e).__name__}")
        finally:
            if req is not None and req in state["inflight"]:
                state["inflight"].remove(req)

    def hook_factory(loop: VLoop):
        def hook() -> bool:
            st = state["st"]
            if st is None or not active:
                return False
            options: list[tuple[str, Any]] = []
            for i in active:
                options += [("gate", (i, key)) for key in list(runs[i].waiting)]
                q = state["quiet"].get(i, 0)
                for j, ext in enumerate(runs[i].externals):
                    if ext.get("after_quiet", 0) <= q and ext["op"] in ("send", "cancel"):
                        options.append(("ext", (i, j)))
                state["quiet"][i] = q + 1
            fs_ = state["fs"]
            if fs_ is not None:
                options += [("unpark", (-1, it)) for it in fs_.parked if not it["hold"]]
            near = any((not h._cancelled) and h._when <= loop.time() + horizon for h in loop._scheduled)  # type: ignore[attr-defined]
            if not options:
                todo = [i for i in active if i not in state["stuck"]]
                if not near and todo:
                    for i in todo:
                        state["stuck"].add(i)
                        results[i].notes.append("stuck: cancelled through the service")
                        loop.create_task(_swallow(i, st.cancel(f"h{i}")))
                    return True
                return False
            if near:
                options.append(("time", None))
            kind, arg = options[master.choose(len(options))]
            if kind == "time":
                return False
            i = arg[0]
            if kind == "unpark":
                fs_.release(arg[1])
                return True
            if kind == "gate":
                runs[i].waiting.remove(arg[1])
                runs[i].gates[arg[1]].set()
                return True
            ext = runs[i].externals.pop(arg[1])
            state["nreq"] += 1
            req = {"n": state["nreq"], "op": ext["op"], "hold": ext.get("hold") == "end", "run": i} if race else None
            if ext["op"] == "cancel":
                loop.create_task(_swallow(i, st.cancel(f"h{i}"), req))
            else:
                loop.create_task(_swallow(i, st.send(f"h{i}", ET.mk(ext["ty"], runs[i].fresh(), ext.get("k")), step=ext.get("step")), req))
            return True

        return hook

    async def main(loop: VLoop) -> None:
        base, dbp = make_store(case.get("store", "memory"))
        fs = FaultStore(base)
        fs.by_run = True
        plan = HistoryPlan(items)
        fs.plan = {"upd": plan.upd, "uhs": plan.uhs}
        if race:
            fs.park_lookups = True
            fs.park_unidle = True
            fs.release_at_end = True
            state["fs"] = fs
        st = Stack.build(case.get("store", "memory"), idle_timeout=idle_timeout, persistence_backoff=backoff, store=fs, db_path=dbp)
        try:
            for i, it in enumerate(items):
                try:
                    st.add_workflow(f"wf{i}", (lambda i=i: live.build_workflow(items[i]["spec"], runs[i])))
                except Exception as e:
                    results[i].outcome, results[i].outcome_detail = "invalid", repr(e)
            await st.start()
            state["st"] = st

            async def one(i: int) -> None:
                res = results[i]
                if res.outcome == "invalid":
                    return
                plan.expect.append(i)
                try:
                    hd = await st.start_run(f"wf{i}", f"h{i}", ET.T0(uid=1, k=items[i]["spec"].get("start_k")))
                except InjectedFault:
                    res.start_error = "fault"
                    if i in plan.expect:
                        plan.expect.remove(i)
                    res.record = await st.handler(f"h{i}")
                    return
                except Exception as e:
                    res.outcome, res.outcome_detail = "invalid", repr(e)
                    if i in plan.expect:
                        plan.expect.remove(i)
                    return
                res.started = True
                res.run_id = hd.run_id
                h = st.service._workflow_run_handler(f"wf{i}", hd.run_id)
                active.append(i)
                try:
                    r = await h
                    res.outcome = "result"
                    res.result_uid = getattr(r, "uid", None)
                except WorkflowCancelledByUser:
                    res.outcome = "cancelled"
                except WorkflowTimeoutError as e:
                    res.outcome, res.outcome_detail = "timeout", str(e)
                except asyncio.CancelledError:
                    res.outcome = "aborted"
                except InjectedFault as e:
                    res.outcome, res.outcome_detail = "store_fault", str(e)
                except live.RunawayRun:
                    res.outcome = "runaway"
                except BaseException as e:  # noqa: BLE001
                    res.outcome_detail = (type(e).__name__, str(e))
                    failed = [x for x in entered if x[0] == hd.run_id and x[1] == "WorkflowFailedEvent"]
                    res.outcome = "step_failure" if failed else "engine_failure"
                finally:
                    if i in active:
                        active.remove(i)
                for _ in range(30):
                    await asyncio.sleep(0)
                if race:
                    # this run has ended: its requests that are still in flight complete now (the other runs go on)
                    res.late_requests = [{k: v for k, v in d.items() if k != "run_id"} for d in fs.late if d["run_id"] == hd.run_id] + \
                        [{"queued": it["kind"], "of_request": it["req"], "held": it["hold"]} for it in fs.parked if it["run"] == i]
                    for _round in range(200):
                        mine = [it for it in fs.parked if it["run"] == i]
                        if not mine:
                            break
                        fs.release(mine[0])
                        for _ in range(30):
                            await asyncio.sleep(0)
                res.record = _snap(await st.handler(f"h{i}"))
                res.events = [e.event.type for e in await st.events(hd.run_id)]

            i = 0
            while i < len(items):
                group = [i]
                while items[group[-1]].get("with_next") and group[-1] + 1 < len(items):
                    group.append(group[-1] + 1)
                await asyncio.gather(*[one(j) for j in group])
                i = group[-1] + 1
            await asyncio.sleep((idle_timeout or 0) * 2 + 10)
            for _ in range(10):
                await asyncio.sleep(0)
            for i, res in enumerate(results):
                if res.started:
                    res.record_late = _snap(await st.handler(f"h{i}"))
        finally:
            for i, res in enumerate(results):
                rid = res.run_id
                res.writes = [w for w in fs.writes if rid is not None and w[1][0] == rid]
                res.status_trace = [t for t in fs.status_trace if t[0] == rid]
                res.transitions = [t for t in fs.transitions if t[0] == rid]
                res.early_terminal_events = [t for t in fs.early_terminal_events if t[0] == rid]
            for it in list(fs.parked):
                fs.release(it)
            try:
                if st.idle is not None:
                    for t in list(st.idle._background_tasks):
                        t.cancel()
            except Exception:
                pass
            st.cleanup()

    try:
        try:
            run_virtual(main, max_time=1e7, hook_factory=hook_factory)
        except TimeoutError:
            for res in results:
                if res.outcome == "pending":
                    res.outcome = "deadlock"
    finally:
        live._ACTIVE.pop()
        _ENTERED.pop()
    replay_case = {k: case.get(k) for k in ("store", "idle_timeout", "backoff", "seed", "history") + (("race",) if race else ())}
    replay_case["actions"] = list(master.trace.actions)
    for res in results:
        res.entered = [(r, n) for (r, n, _e) in entered if r == res.run_id]
        res.actions = list(master.trace.actions)
        res.replay_case = replay_case
    return results
