import WfProofs.SseClientLive
import WfModel.GenEventLog

/-!
# C17 — the client's auto-reconnecting event stream delivers each event once

`WorkflowClient.get_workflow_events` started from a numeric cursor yields every later event of
the run exactly once and in sequence order, even when the connection drops (up to the reconnect
limit) at any point, and `last_sequence` always equals the sequence of the last event yielded.

Model: `WfModel/SseClient.lean`.  `run P srv st conns` plays a script of connections; the queued
items `(sequence, data)` in `out` are what the `EventStream` yields, `sequence` being what
`last_sequence` shows right after that item.  All theorems quantify over every log, start
cursor, heartbeat schedule, reconnect limit and script (drops at every byte offset).
-/

namespace SseClient
open Gen.SseClient

/-! ## hypotheses -/

/-- What `model_dump_json()` of an envelope looks like: a JSON object, and (RFC 8259) no raw
control character.  Checked on every generated payload by the harness. -/
def EnvelopeJson (p : List Char) : Prop :=
  p.head? = some '{' ∧ p.getLast? = some '}' ∧ ∀ c ∈ p, 32 ≤ c.toNat

/-- The run's event log as the store keeps it (property C16) and payloads the client accepts. -/
structure WellFormed (valid : List Char → Bool) (srv : Server) : Prop where
  /-- sequences strictly increase; only the last event may be terminal -/
  log : LogOk srv.log
  json : ∀ e ∈ srv.log, EnvelopeJson e.payload
  /-- `EventEnvelopeWithMetadata.model_validate_json` accepts what the server dumped -/
  valid : ∀ e ∈ srv.log, valid e.payload = true

/-- no payload contains a character at which the reader ends a line -/
def NoLineBreakInPayload (brk : Char → Bool) (srv : Server) : Prop :=
  ∀ e ∈ srv.log, ∀ c ∈ e.payload, brk c = false

/-- the reader of the current sources -/
def client (valid : List Char → Bool) (maxR : Nat) : Params := { valid := valid, brk := isBreak, maxR := maxR }

/-- a final connection on which nothing goes wrong -/
def quiet (hb : List Nat) : Conn := { fault := .none, hb := hb }

/-! ## source shape -/

/-- The literal pieces of the framing and of the parser, the defaults, and the fact the proofs
need about the reader's line ends: a line ends at `\n`, and only at control characters.
(All regenerated from `_api.py` / `client.py` on every run.) -/
theorem _root_.C17_source_shape :
    SourceShape ∧ defaultMaxReconnect = 3 ∧ defaultAfterSequence = -1 ∧
    isBreak '\n' = true ∧ (∀ b ∈ lineBreaks, b.toNat < 32) :=
  ⟨source_shape, by decide, by decide, by decide, by decide⟩

theorem isBreak_ok : BrkOk isBreak := by
  refine ⟨C17_source_shape.2.2.2.1, ?_⟩
  intro c h1 _
  cases h : isBreak c with
  | false => rfl
  | true =>
    have hm : c ∈ lineBreaks := by simpa [isBreak] using h
    have := C17_source_shape.2.2.2.2 c hm
    omega

theorem json_evOk {valid : List Char → Bool} {brk : Char → Bool} {e : Ev}
    (hj : EnvelopeJson e.payload) (hv : valid e.payload = true) (hb : ∀ c ∈ e.payload, brk c = false) :
    EvOk valid brk e := by
  refine ⟨hv, ?_, ⟨?_, ?_⟩, hb⟩
  · intro h
    have := hj.1
    rw [h] at this
    simp at this
  · intro c hc
    rw [hj.1] at hc
    simp at hc
    subst hc
    decide
  · intro c hc
    rw [hj.2.1] at hc
    simp at hc
    subst hc
    decide

theorem ctx_of {valid : List Char → Bool} {brk : Char → Bool} {maxR : Nat} {srv : Server}
    (hb : BrkOk brk) (hwf : WellFormed valid srv) (hnb : NoLineBreakInPayload brk srv) :
    Ctx { valid := valid, brk := brk, maxR := maxR } srv :=
  ⟨hb, hwf.log, fun e he => json_evOk (hwf.json e he) (hwf.valid e he) (hnb e he)⟩

theorem json_no_isBreak {valid : List Char → Bool} {srv : Server} (hwf : WellFormed valid srv) :
    NoLineBreakInPayload isBreak srv := by
  intro e he c hc
  have h32 := (hwf.json e he).2.2 c hc
  cases h : isBreak c with
  | false => rfl
  | true =>
    have hm : c ∈ lineBreaks := by simpa [isBreak] using h
    have := C17_source_shape.2.2.2.2 c hm
    omega

theorem expected_eq {srv : Server} (h : LogOk srv.log) (c0 : Int) : expected srv c0 = vis srv c0 := by
  unfold expected vis
  rw [takeThrough_logOk _ (later_eq srv c0 ▸ h.aft c0)]

theorem inv_init (srv : Server) (c0 : Int) : Inv srv c0 { last := c0 } := ⟨0, by simp [emit], by simp [lastOf]⟩

/-! ## the property -/

/-- **Exactly once, for every splitter that is sound for the payloads** (this is the statement
that also covers the pre-fix `httpx` reader under `NoLineBreakInPayload`):
any number of refusals and of drops after any number of bytes, the failure counter staying
within `maxR`, then an undisturbed connection: the stream yields exactly the events after `c0`
(through the first terminal one), in order, once each, each showing its own sequence as
`last_sequence`; it ends normally, and it does end when the log holds a terminal event. -/
theorem _root_.C17_exactly_once_any_splitter (valid : List Char → Bool) (brk : Char → Bool) (srv : Server)
    (maxR : Nat) (c0 : Int) (drops : List Conn) (fin : List Nat)
    (hbrk : BrkOk brk) (hwf : WellFormed valid srv) (hnb : NoLineBreakInPayload brk srv)
    (hdrops : DropsOnly drops) (hbud : peakFailures 0 (drops.map (·.fault)) ≤ maxR) :
    let r := run { valid := valid, brk := brk, maxR := maxR } srv { last := c0 } (drops ++ [quiet fin])
    r.1.out = emit (expected srv c0) ∧ r.1.last = lastOf c0 (expected srv c0) ∧
    (r.2 = .done ∨ r.2 = .pending) ∧ (srv.log.any (·.terminal) = true → r.2 = .done) := by
  intro r
  rw [expected_eq hwf.log]
  exact run_exact (P := { valid := valid, brk := brk, maxR := maxR }) (ctx_of hbrk hwf hnb) c0 fin drops
    { last := c0 } hdrops (inv_init srv c0) hbud

/-- **C17 for the current sources**: no hypothesis on the payload beyond its being the JSON the
server dumps. -/
theorem _root_.C17_exactly_once (valid : List Char → Bool) (srv : Server) (maxR : Nat) (c0 : Int)
    (drops : List Conn) (fin : List Nat)
    (hwf : WellFormed valid srv) (hdrops : DropsOnly drops)
    (hbud : peakFailures 0 (drops.map (·.fault)) ≤ maxR) :
    let r := run (client valid maxR) srv { last := c0 } (drops ++ [quiet fin])
    r.1.out = emit (expected srv c0) ∧ r.1.last = lastOf c0 (expected srv c0) ∧
    (r.2 = .done ∨ r.2 = .pending) ∧ (srv.log.any (·.terminal) = true → r.2 = .done) :=
  C17_exactly_once_any_splitter valid isBreak srv maxR c0 drops fin isBreak_ok hwf (json_no_isBreak hwf) hdrops hbud

/-- **Never twice, never out of order, never a gap — for every script whatsoever** (timeouts,
status codes, exhausted budget, script cut short at any connection, drop at any byte): what has
been yielded is a prefix of the expected list, `last` (the cursor of the next reconnect) is the
sequence of the last item yielded, and the stream never dies of a validation error. -/
theorem _root_.C17_never_duplicates (valid : List Char → Bool) (srv : Server) (maxR : Nat) (c0 : Int)
    (conns : List Conn) (hwf : WellFormed valid srv) (hraw : ∀ c ∈ conns, c.raw = none) :
    let r := run (client valid maxR) srv { last := c0 } conns
    (∃ j, r.1.out = emit ((expected srv c0).take j) ∧ r.1.last = lastOf c0 ((expected srv c0).take j)) ∧
    r.2 ≠ .errParse := by
  intro r
  rw [expected_eq hwf.log]
  exact run_inv (P := client valid maxR) (ctx_of isBreak_ok hwf (json_no_isBreak hwf)) c0 conns { last := c0 } hraw
    (inv_init srv c0)

theorem getLast_emit (l : List Ev) : (emit l).getLast?.map (·.1) = l.getLast?.map fun e => (e.seq : Int) := by
  simp only [emit, List.getLast?_map]
  cases l.getLast? <;> rfl

/-- **`last_sequence` = the sequence of the last event yielded** (or the start cursor), at every
point any script can reach; and every yielded item carries the sequence of its own event. -/
theorem _root_.C17_last_sequence_tracks_yield (valid : List Char → Bool) (srv : Server) (maxR : Nat) (c0 : Int)
    (conns : List Conn) (hwf : WellFormed valid srv) (hraw : ∀ c ∈ conns, c.raw = none) :
    let r := run (client valid maxR) srv { last := c0 } conns
    r.1.last = (r.1.out.getLast?.map (·.1)).getD c0 ∧
    ∀ it ∈ r.1.out, ∃ e ∈ srv.log, c0 < (e.seq : Int) ∧ it = ((e.seq : Int), e.payload) := by
  intro r
  obtain ⟨⟨j, ho, hl⟩, _⟩ := C17_never_duplicates valid srv maxR c0 conns hwf hraw
  refine ⟨?_, ?_⟩
  · show r.1.last = _
    rw [hl, ho, getLast_emit]
    unfold lastOf
    cases ((expected srv c0).take j).getLast? <;> simp
  · intro it hit
    rw [show r.1.out = _ from ho] at hit
    simp only [emit, List.mem_map] at hit
    obtain ⟨e, he, rfl⟩ := hit
    have he' : e ∈ vis srv c0 := by
      rw [← expected_eq hwf.log]; exact List.mem_of_mem_take he
    have := List.mem_filter.mp (List.mem_filter.mp he').1
    exact ⟨e, this.1, by simpa using this.2, rfl⟩

/-- **The client gives up only when the failure counter exceeds the limit.** -/
theorem _root_.C17_gives_up_only_over_budget (valid : List Char → Bool) (srv : Server) (maxR : Nat) (c0 : Int)
    (drops : List Conn) (fin : List Nat) (hwf : WellFormed valid srv) (hdrops : DropsOnly drops)
    (hgave : (run (client valid maxR) srv { last := c0 } (drops ++ [quiet fin])).2 = .errConn) :
    maxR < peakFailures 0 (drops.map (·.fault)) := by
  apply Nat.lt_of_not_le
  intro hle
  obtain ⟨_, _, h3, _⟩ := C17_exactly_once valid srv maxR c0 drops fin hwf hdrops hle
  rw [hgave] at h3
  rcases h3 with h | h <;> exact absurd h (by decide)

/-! ## the log grows while the client streams -/

/-- A history of the run's log as the scripted connections see it: every connection sees an
extension of what the previous one saw (events appended between two connections or while one is
open), and all of it is part of the final log `top`. -/
structure Grows (script : List (Server × Conn)) (top : Server) : Prop where
  chain : (script.map (·.1.log)).Pairwise (· <+: ·)
  below : ∀ s ∈ script, s.1.log <+: top.log
  /-- the reader sends the same `include_internal` flag on every connection -/
  view : ∀ s ∈ script, s.1.inclInternal = top.inclInternal

/-- once the handler's status is terminal nothing is appended any more -/
def Settled (script : List (Server × Conn)) (top : Server) : Prop :=
  ∀ s ∈ script, s.1.statusDone = true → s.1.log = top.log

/-- `run` (one fixed log) is the constant history: everything proved of `runLive` holds of it. -/
theorem _root_.C17_run_is_live (P : Params) (srv : Server) (st : CState) (conns : List Conn) :
    run P srv st conns = runLive P st (conns.map fun c => (srv, c)) ∧
    Grows (conns.map fun c => (srv, c)) srv ∧ Settled (conns.map fun c => (srv, c)) srv := by
  refine ⟨run_eq_runLive srv conns st, ⟨?_, ?_, ?_⟩, ?_⟩
  · rw [List.map_map]
    apply List.pairwise_map.mpr
    exact List.pairwise_of_forall (fun _ _ => List.prefix_refl _)
  · intro s hs
    obtain ⟨c, _, rfl⟩ := List.mem_map.mp hs
    exact List.prefix_refl _
  · intro s hs
    obtain ⟨c, _, rfl⟩ := List.mem_map.mp hs
    rfl
  · intro s hs _
    obtain ⟨c, _, rfl⟩ := List.mem_map.mp hs
    rfl

theorem live_inv {valid : List Char → Bool} {top : Server} {maxR : Nat} (c0 : Int) {script : List (Server × Conn)}
    (hwf : WellFormed valid top) (hgrow : Grows script top) (hraw : ∀ s ∈ script, s.2.raw = none) :
    Inv top c0 (runLive (client valid maxR) { last := c0 } script).1 ∧
    (runLive (client valid maxR) { last := c0 } script).2 ≠ .errParse ∧
    ReqsOk c0 (runLive (client valid maxR) { last := c0 } script).1 ∧
    (runLive (client valid maxR) { last := c0 } script).1.reqs.length ≤ script.length := by
  obtain ⟨g1, g2, g3, g4⟩ := runLive_inv (P := client valid maxR) (ctx_of isBreak_ok hwf (json_no_isBreak hwf)) c0 script
    { last := c0 } { log := [], inclInternal := top.inclInternal } (inv_init _ c0) List.nil_prefix rfl
    (fun _ _ => List.nil_prefix) hgrow.chain hgrow.below hgrow.view hraw
  exact ⟨g1, g2, g3 ⟨[], by simp, by simp, rfl⟩, by simpa using g4⟩

/-- **Never twice, never out of order, never a gap -- while the run is still producing events.**
For every history of the log and every script whatsoever (drops at any byte, refusals, timeouts,
status codes, exhausted budget, script cut short): what has been yielded is a prefix of the events
of the FINAL log after `c0`, `last` is the sequence of the last item yielded, and the stream never
dies of a validation error. -/
theorem _root_.C17_live_never_duplicates (valid : List Char → Bool) (top : Server) (maxR : Nat) (c0 : Int)
    (script : List (Server × Conn)) (hwf : WellFormed valid top) (hgrow : Grows script top)
    (hraw : ∀ s ∈ script, s.2.raw = none) :
    let r := runLive (client valid maxR) { last := c0 } script
    (∃ j, r.1.out = emit ((expected top c0).take j) ∧ r.1.last = lastOf c0 ((expected top c0).take j)) ∧
    r.2 ≠ .errParse := by
  intro r
  rw [expected_eq hwf.log]
  obtain ⟨g1, g2, _, _⟩ := live_inv (maxR := maxR) c0 hwf hgrow hraw
  exact ⟨g1, g2⟩

/-- **Exactly once over a growing log**: refusals and drops at any byte within the budget while the
log grows, then an undisturbed connection that sees the final log: exactly the events of the final
log after `c0`, in order, once each, each showing its own sequence. -/
theorem _root_.C17_live_exactly_once (valid : List Char → Bool) (top : Server) (maxR : Nat) (c0 : Int)
    (drops : List (Server × Conn)) (fin : List Nat)
    (hwf : WellFormed valid top) (hgrow : Grows drops top) (hsettled : Settled drops top)
    (hdrops : DropsOnly (drops.map (·.2))) (hbud : peakFailures 0 (drops.map (·.2.fault)) ≤ maxR) :
    let r := runLive (client valid maxR) { last := c0 } (drops ++ [(top, quiet fin)])
    r.1.out = emit (expected top c0) ∧ r.1.last = lastOf c0 (expected top c0) ∧
    (r.2 = .done ∨ r.2 = .pending) ∧ (top.log.any (·.terminal) = true → r.2 = .done) := by
  intro r
  rw [expected_eq hwf.log]
  exact runLive_exact (P := client valid maxR) (ctx_of isBreak_ok hwf (json_no_isBreak hwf)) c0 fin drops
    { last := c0 } { log := [], inclInternal := top.inclInternal } (inv_init _ c0) List.nil_prefix rfl
    (fun _ _ => List.nil_prefix) hgrow.chain hgrow.below hgrow.view hsettled hdrops hbud

/-- **Every reconnect asks for exactly what is missing.**  For every history and every script: at
most one request per scripted connection; the first one carries the start cursor; the `i`-th one
carries the `last_sequence` the consumer reads after `ks[i]` yields, for moments `ks` that only
move forward (so each cursor is the start cursor or the sequence of an event already queued); the
cursor never goes back. -/
theorem _root_.C17_reconnect_cursors (valid : List Char → Bool) (top : Server) (maxR : Nat) (c0 : Int)
    (script : List (Server × Conn)) (hwf : WellFormed valid top) (hgrow : Grows script top)
    (hraw : ∀ s ∈ script, s.2.raw = none) :
    let r := runLive (client valid maxR) { last := c0 } script
    r.1.reqs.length ≤ script.length ∧ (script ≠ [] → r.1.reqs.head? = some c0) ∧
    (∃ ks : List Nat, ks.Pairwise (· ≤ ·) ∧ (∀ k ∈ ks, k ≤ r.1.out.length) ∧
      r.1.reqs = ks.map (streamLast c0 r.1.out)) ∧
    r.1.reqs.Pairwise (· ≤ ·) := by
  intro r
  obtain ⟨⟨j, ho, _⟩, _, ⟨ks, k1, k2, k3⟩, g4⟩ := live_inv (maxR := maxR) c0 hwf hgrow hraw
  refine ⟨g4, fun hne => runLive_reqs_head script hne { last := c0 } rfl, ⟨ks, k1, k2, k3⟩, ?_⟩
  show (runLive (client valid maxR) { last := c0 } script).1.reqs.Pairwise (· ≤ ·)
  rw [k3, ho]
  have hlog : LogOk (vis top c0) := vis_logOk hwf.log c0
  refine reqs_monotone (List.Pairwise.sublist (List.take_sublist _ _) hlog) ?_ k1
  intro e he
  exact vis_gt (List.mem_of_mem_take he)

/-- **`last_sequence` at every yield**: for every history and script, after the consumer has been
handed `k` items (any `k` up to what was queued), `EventStream.last_sequence` is the sequence of
the `k`-th event of the final log after `c0` -- the start cursor for `k = 0`. -/
theorem _root_.C17_last_sequence_at_every_yield (valid : List Char → Bool) (top : Server) (maxR : Nat) (c0 : Int)
    (script : List (Server × Conn)) (hwf : WellFormed valid top) (hgrow : Grows script top)
    (hraw : ∀ s ∈ script, s.2.raw = none) :
    let r := runLive (client valid maxR) { last := c0 } script
    ∀ k, k ≤ r.1.out.length → streamLast c0 r.1.out k = lastOf c0 ((expected top c0).take k) := by
  intro r k hk
  obtain ⟨⟨j, ho, _⟩, _⟩ := C17_live_never_duplicates valid top maxR c0 script hwf hgrow hraw
  have ho' : r.1.out = emit ((expected top c0).take j) := ho
  rw [ho'] at hk ⊢
  rw [streamLast_emit, List.take_take]
  have : (emit ((expected top c0).take j)).length = ((expected top c0).take j).length := by simp [emit]
  rw [this, List.length_take] at hk
  congr 2
  omega

/-! ## the `include_internal` filter -/

/-- **Internal events never reach the consumer unless asked for, and cost nothing else.**  For every
history and script: each yielded item is an event of the final log after `c0` that the stream's
`include_internal` flag lets through; with the flag set the expected list is every later event
through the first terminal one, without it exactly the non-internal ones among them (so
`C17_live_exactly_once` delivers all of those, each once, although the reconnect cursor -- the
sequence of the last *shown* event -- makes the server walk over the hidden ones again). -/
theorem _root_.C17_internal_filter (valid : List Char → Bool) (top : Server) (maxR : Nat) (c0 : Int)
    (script : List (Server × Conn)) (hwf : WellFormed valid top) (hgrow : Grows script top)
    (hraw : ∀ s ∈ script, s.2.raw = none) :
    let r := runLive (client valid maxR) { last := c0 } script
    (∀ it ∈ r.1.out, ∃ e ∈ top.log, c0 < (e.seq : Int) ∧ top.shows e = true ∧ it = ((e.seq : Int), e.payload)) ∧
    (top.inclInternal = true → expected top c0 = takeThrough (·.terminal) (top.later c0)) ∧
    (top.inclInternal = false → expected top c0 = (takeThrough (·.terminal) (top.later c0)).filter (fun e => !e.internal)) := by
  intro r
  refine ⟨?_, ?_, ?_⟩
  · intro it hit
    obtain ⟨⟨j, ho, _⟩, _⟩ := C17_live_never_duplicates valid top maxR c0 script hwf hgrow hraw
    rw [show r.1.out = _ from ho] at hit
    simp only [emit, List.mem_map] at hit
    obtain ⟨e, he, rfl⟩ := hit
    have he' : e ∈ vis top c0 := by
      rw [← expected_eq hwf.log]; exact List.mem_of_mem_take he
    have h1 := List.mem_filter.mp he'
    have h2 := List.mem_filter.mp h1.1
    exact ⟨e, h2.1, by simpa using h2.2, h1.2, rfl⟩
  · intro h
    unfold expected
    apply List.filter_eq_self.mpr
    intro e _
    simp [Server.shows, h]
  · intro h
    unfold expected
    apply List.filter_congr
    intro e _
    simp [Server.shows, h]

/-! ## the client's line iterator and the text of the cursor -/

/-- **Chunk boundaries do not matter**: however the decoded text of a connection is cut into
`aiter_text` chunks (empty ones included), `_iter_sse_lines` hands the frame parser the lines of
the whole text -- the expression `connect` uses. -/
theorem _root_.C17_chunking_irrelevant (brk : Char → Bool) (eof : Bool) (chunks : List (List Char)) :
    chunkedLines brk eof chunks =
      (let sp := splitLines brk chunks.flatten
       if eof && !sp.2.isEmpty then sp.1 ++ [sp.2] else sp.1) :=
  chunkedLines_eq eof chunks

/-- **The cursor survives the trip**: the server's `int(after_sequence_str)` reads back the
`str(last_sequence)` the reader sent, for every integer; the text consists of `-` and ASCII digits
only (so it is not `now` in any letter case, and no 400). -/
theorem _root_.C17_cursor_text_roundtrip (n : Int) :
    pyInt? (pyStr n) = some n ∧ ∀ c ∈ pyStr n, c = '-' ∨ ('0' ≤ c ∧ c ≤ '9') := by
  refine ⟨pyInt_pyStr n, ?_⟩
  intro c hc
  rcases pyStr_chars n c hc with h | ⟨d, hd, rfl⟩
  · exact Or.inl h
  · right
    have : ∀ d, d < 10 → ('0' ≤ digitChar d ∧ digitChar d ≤ '9') := by decide
    exact this d hd

/-- **The statements the new definitions transcribe** (regenerated from `client.py` / `_api.py`
on every run, local names abstracted): the line iterator `iterLines`/`chunkedLines` model
(`buffer += text; *lines, buffer = buffer.split(sep)`, the rest flushed only after a clean end);
`EventStream` (`streamLast`: `last_sequence` is set from the queued item right before the `yield`);
the reconnect loop in source order (the cursor enters from `after_sequence`, is sent as
`str(cursor)`, moves only after validation and before the event is queued with it; the counter is
reset after an accepted status, incremented per transport error, compared with `>`); the status
dispatch and the order of the `except` clauses `connect`/`onStatus` follow; the request carries the
cursor as a query parameter only (no `Last-Event-ID` header that would override it); the 204 of `serve`. -/
theorem _root_.C17_reader_source_shape :
    lineSource = "own-splitter" ∧
    lineIterShape = ["params=1", "buffer=''", "for text in response.aiter_text()", "buffer+=text",
      "*lines,buffer=buffer.split(sep)", "for line in lines: yield line", "if buffer: yield buffer"] ∧
    consumerShape = ["init: self.<last> = <third argument>", "last_sequence: return self.<last>",
      "item = await queue.get()", "_QueuedDone: return", "_QueuedError: raise item.error",
      "self.<last> = item.sequence", "yield item.event"] ∧
    loopShape = ["EventStream(_, _, after_sequence)", "cursor = after_sequence", "counter = 0",
      "send after_sequence=str(cursor)", "raise_for_status", "counter = 0", "validate", "cursor = int(id)",
      "queue (sequence=cursor)", "counter += 1", "if counter Gt max_reconnect_attempts: raise ConnectionError"] ∧
    statusDispatch = [(404, "raise ValueError"), (204, "put _QueuedDone; return")] ∧
    requestParams = ["sse", "include_internal", "after_sequence"] ∧ requestHeaders = ["Connection"] ∧
    handlers = [("ValueError", "pass"), ("httpx.TimeoutException", "raise TimeoutError"),
      ("httpx.RequestError,ConnectionError", "count"), ("asyncio.CancelledError", "put _QueuedDone"),
      ("BaseException", "put _QueuedError")] ∧
    serverDoneStatus = 204 ∧
    (∀ st : CState, (onStatus st 404).2 = some .errNotFound ∧ (onStatus st serverDoneStatus).2 = some .done) := by
  refine ⟨by decide, by decide, by decide, by decide, by decide, by decide, by decide, by decide, by decide, ?_⟩
  intro st
  exact ⟨by simp [onStatus], by simp [onStatus, serverDoneStatus]⟩

/-- **What `Server.serve` transcribes** (`_resolve_event_stream`, regenerated with its locals
abstracted by the C16 plug-in): the 204 test looks at ALL events after the cursor and at the
persisted status or the log's last event; the subscription starts at the same cursor; an event is
left out exactly when `include_internal` is off and the class name is the envelope's type or among
its `types`; everything else is yielded with its own sequence. -/
theorem _root_.C17_serve_source_shape :
    Gen.EventLog.internalName = "InternalDispatchEvent" ∧
    Gen.EventLog.apiResolve.drop 7 = [
      "if not await self._service.store.query_events((await self._service.store.query(HandlerQuery(handler_id_in=[handler_id])))[0].run_id, after_sequence=after_sequence):",
      "    v1 = await self._service.store.query_events((await self._service.store.query(HandlerQuery(handler_id_in=[handler_id])))[0].run_id)",
      "    v2 = is_terminal_status((await self._service.store.query(HandlerQuery(handler_id_in=[handler_id])))[0].status) or (bool(v1) and AbstractWorkflowStore._is_terminal_event(v1[-1]))",
      "    if v2:",
      "        return None",
      "async def v3():",
      "    async for v4 in self._service.store.subscribe_events((await self._service.store.query(HandlerQuery(handler_id_in=[handler_id])))[0].run_id, after_sequence=after_sequence):",
      "        v5 = v4.event",
      "        v6 = (v5.types or []) + [v5.type]",
      "        if not include_internal and InternalDispatchEvent.__name__ in v6:",
      "            continue",
      "        if not include_qualified_name:",
      "            v5 = v5.model_copy(update={'qualified_name': None})",
      "        yield (v4.sequence, v5)",
      "return v3()"] := by
  exact ⟨by decide, by decide +kernel⟩

/-! ## the pre-fix reader (F29) -/

/-- the exactly-once clause for a reader that ends lines where `httpx`'s `aiter_lines` does -/
def _root_.C17_statement_httpx : Prop :=
  ∀ (valid : List Char → Bool) (srv : Server) (maxR : Nat) (c0 : Int) (drops : List Conn) (fin : List Nat),
    WellFormed valid srv → DropsOnly drops → peakFailures 0 (drops.map (·.fault)) ≤ maxR →
    (run { valid := valid, brk := httpxBreaks.contains, maxR := maxR } srv { last := c0 } (drops ++ [quiet fin])).1.out
      = emit (expected srv c0)

def f29Payload : List Char := "{\"m\":\"line sep\"}".toList
def f29Stop : List Char := "{\"r\":1}".toList
def f29Valid (d : List Char) : Bool := d == f29Payload || d == f29Stop
def f29Srv : Server := { log := [⟨0, f29Payload, false, false⟩, ⟨1, f29Stop, true, false⟩] }

theorem f29_wellFormed : WellFormed f29Valid f29Srv := by
  refine ⟨?_, ?_, ?_⟩
  · simp [LogOk, f29Srv]
  · intro e he
    simp only [f29Srv, List.mem_cons, List.not_mem_nil, or_false] at he
    rcases he with rfl | rfl <;> exact ⟨by decide, by decide, by decide⟩
  · intro e he
    simp only [f29Srv, List.mem_cons, List.not_mem_nil, or_false] at he
    rcases he with rfl | rfl <;> decide

/-- F29: with `str.splitlines()` line ends, a payload containing U+2028 is cut in two and the
stream dies before yielding anything (no drop needed). -/
theorem _root_.C17_httpx_splitter_refuted : ¬ C17_statement_httpx := by
  intro h
  have := h f29Valid f29Srv 3 (-1) [] [] f29_wellFormed (by simp [DropsOnly]) (by decide)
  revert this
  decide +kernel

/-! ## non-vacuity -/

def exPayload0 : List Char := "{\"k\":0,\"msg\":\"wörld ✓\"}".toList
def exPayload1 : List Char := "{\"k\":1}".toList
def exStop : List Char := "{\"result\":\"ok\"}".toList
def exValid (d : List Char) : Bool := d == exPayload0 || d == exPayload1 || d == exStop
def exSrv : Server := { log := [⟨0, exPayload0, false, false⟩, ⟨1, exPayload1, false, false⟩, ⟨4, exStop, true, false⟩] }

/-- drops inside the `id:` line (3), between `id:` and `data:` (6), in the middle of the two-byte
`ö` of the JSON (28), one byte past the frame boundary (41), after a heartbeat and the next
`id:` line (19); three refusals -/
def exDrops : List Conn :=
  [{ fault := .dropAt 3 }, { fault := .dropAt 6 }, { fault := .refuse }, { fault := .dropAt 28 },
   { fault := .dropAt 41 }, { fault := .refuse }, { fault := .refuse }, { fault := .dropAt 19, hb := [1] }]

theorem ex_wellFormed : WellFormed exValid exSrv := by
  refine ⟨?_, ?_, ?_⟩
  · simp [LogOk, exSrv]
  · intro e he
    simp only [exSrv, List.mem_cons, List.not_mem_nil, or_false] at he
    rcases he with rfl | rfl | rfl <;> exact ⟨by decide, by decide, by decide⟩
  · intro e he
    simp only [exSrv, List.mem_cons, List.not_mem_nil, or_false] at he
    rcases he with rfl | rfl | rfl <;> decide

theorem ex_dropsOnly : DropsOnly exDrops := by
  intro c hc
  simp only [exDrops, List.mem_cons, List.not_mem_nil, or_false] at hc
  rcases hc with rfl | rfl | rfl | rfl | rfl | rfl | rfl | rfl <;> simp

/-- the hypotheses of `C17_exactly_once` are met by a script with eight failed connections
(counter peak 3 = limit 3) and a multi-byte payload … -/
example : WellFormed exValid exSrv ∧ DropsOnly exDrops ∧ peakFailures 0 (exDrops.map (·.fault)) ≤ 3 :=
  ⟨ex_wellFormed, ex_dropsOnly, by decide⟩

/-- … and the run really is interrupted eight times and delivers the three events -/
example : (run (client exValid 3) exSrv { last := -1 } (exDrops ++ [quiet []])).1.reqs = [-1, -1, -1, -1, -1, 0, 0, 0, 0]
    ∧ (run (client exValid 3) exSrv { last := -1 } (exDrops ++ [quiet []])).1.out
      = [(0, exPayload0), (1, exPayload1), (4, exStop)]
    ∧ (run (client exValid 3) exSrv { last := -1 } (exDrops ++ [quiet []])).2 = .done := by
  decide +kernel

/-- `C17_never_duplicates` / `C17_last_sequence_tracks_yield` on a script that ends badly: the
budget is 1, the second consecutive failure kills the stream after one event -/
example : (run (client exValid 1) exSrv { last := -1 } [{ fault := .dropAt 41 }, { fault := .refuse }, quiet []])
    = ({ last := 0, attempts := 2, out := [(0, exPayload0)], reqs := [-1, 0] }, .errConn) := by
  decide +kernel

/-- `C17_gives_up_only_over_budget`: here the peak is 2 > 1 -/
example : peakFailures 0 ([Fault.dropAt 41, Fault.refuse]) = 2 := by decide

/-- a timeout script for `C17_never_duplicates` (hypotheses: any script with `raw = none`) -/
example : (run (client exValid 3) exSrv { last := 0 } [{ fault := .timeoutAt 20 }]).2 = .errTimeout := by
  decide +kernel

/-! ## non-vacuity: growing log, cursors, chunks, cursor text -/

/-- a history: the first connection sees one event and is cut inside its `id:` line, a refusal, then
the second event has been appended and the connection is cut one byte into the third frame's
predecessor, the stop event arrives while the client is being refused -/
def exLive : List (Server × Conn) :=
  [({ log := exSrv.log.take 1 }, { fault := .dropAt 3 }), ({ log := exSrv.log.take 1 }, { fault := .refuse }),
   ({ log := exSrv.log.take 2 }, { fault := .dropAt 41 }), ({ log := exSrv.log.take 2 }, { fault := .dropAt 60, hb := [0, 1] }),
   (exSrv, { fault := .refuse })]

theorem ex_grows : Grows exLive exSrv := by
  refine ⟨?_, ?_, ?_⟩
  · decide
  · decide
  · decide

theorem ex_live_dropsOnly : DropsOnly (exLive.map (·.2)) := by
  intro c hc
  simp only [exLive, List.map_cons, List.map_nil, List.mem_cons, List.not_mem_nil, or_false] at hc
  rcases hc with rfl | rfl | rfl | rfl | rfl <;> simp

example : Grows exLive exSrv ∧ Settled exLive exSrv ∧ DropsOnly (exLive.map (·.2)) ∧
    peakFailures 0 (exLive.map (·.2.fault)) ≤ 2 ∧ WellFormed exValid exSrv :=
  ⟨ex_grows, by unfold Settled; decide, ex_live_dropsOnly, by decide, ex_wellFormed⟩

example : runLive (client exValid 2) { last := -1 } (exLive ++ [(exSrv, quiet [])])
    = ({ last := 4, attempts := 0, out := [(0, exPayload0), (1, exPayload1), (4, exStop)], reqs := [-1, -1, -1, 0, 1, 1] }, .done) := by
  decide +kernel

/-- `C17_reconnect_cursors` on that run: six requests for six connections, the moments are
`ks = [0, 0, 0, 1, 2, 2]` -/
example : (runLive (client exValid 2) { last := -1 } (exLive ++ [(exSrv, quiet [])])).1.reqs
    = [0, 0, 0, 1, 2, 2].map (streamLast (-1) [(0, exPayload0), (1, exPayload1), (4, exStop)]) := by
  decide +kernel

/-- a history that ends badly (`C17_live_never_duplicates`, `C17_last_sequence_at_every_yield`):
a read timeout after the second event while the third is not yet in the log -/
example : runLive (client exValid 3) { last := -1 }
      [({ log := exSrv.log.take 1 }, { fault := .dropAt 41 }), ({ log := exSrv.log.take 2 }, { fault := .timeoutAt 30 })]
    = ({ last := 1, attempts := 0, out := [(0, exPayload0), (1, exPayload1)], reqs := [-1, 0] }, .errTimeout)
    ∧ streamLast (-1) [(0, exPayload0), (1, exPayload1)] 0 = -1 ∧ streamLast (-1) [(0, exPayload0), (1, exPayload1)] 1 = 0
    ∧ streamLast (-1) [(0, exPayload0), (1, exPayload1)] 2 = 1 := by
  decide +kernel

/-- `C17_chunking_irrelevant`: a frame cut inside `data`, an empty chunk, a chunk holding two line
ends and an unterminated tail -/
example : chunkedLines isBreak true ["id: 1\nda".toList, [], "ta: {}\n\nx".toList]
      = ["id: 1".toList, "data: {}".toList, [], "x".toList]
    ∧ chunkedLines isBreak false ["id: 1\nda".toList, [], "ta: {}\n\nx".toList]
      = ["id: 1".toList, "data: {}".toList, []]
    ∧ (iterLines isBreak [] ["id: 1\nda".toList]).2 = "da".toList := by
  decide +kernel

/-- `C17_cursor_text_roundtrip` -/
example : pyStr (-1) = "-1".toList ∧ pyStr 0 = "0".toList ∧ pyStr 1204 = "1204".toList ∧ pyInt? "-12".toList = some (-12) := by
  decide +kernel

/-! ## non-vacuity: hidden events -/

def exIdle : List Char := "{\"idle\":1}".toList
def exValidI (d : List Char) : Bool := exValid d || d == exIdle
/-- two internal events between the shown ones, one after the stop event's predecessor -/
def exSrvI : Server :=
  { log := [⟨0, exPayload0, false, false⟩, ⟨1, exIdle, false, true⟩, ⟨2, exIdle, false, true⟩, ⟨3, exPayload1, false, false⟩,
            ⟨4, exIdle, false, true⟩, ⟨5, exStop, true, false⟩], inclInternal := false }

theorem exI_wellFormed : WellFormed exValidI exSrvI := by
  refine ⟨?_, ?_, ?_⟩
  · simp [LogOk, exSrvI]
  · intro e he
    simp only [exSrvI, List.mem_cons, List.not_mem_nil, or_false] at he
    rcases he with rfl | rfl | rfl | rfl | rfl | rfl <;> exact ⟨by decide, by decide, by decide⟩
  · intro e he
    simp only [exSrvI, List.mem_cons, List.not_mem_nil, or_false] at he
    rcases he with rfl | rfl | rfl | rfl | rfl | rfl <;> decide

/-- cut one byte after the first frame: the client reconnects from 0, the server walks over the
hidden events 1 and 2 again; cut inside the frame of event 3: again from 0 -/
example : WellFormed exValidI exSrvI ∧
    run (client exValidI 3) exSrvI { last := -1 } [{ fault := .dropAt 43 }, { fault := .dropAt 10 }, quiet []]
    = ({ last := 5, attempts := 0, out := [(0, exPayload0), (3, exPayload1), (5, exStop)], reqs := [-1, 0, 0] }, .done) ∧
    expected exSrvI (-1) = [⟨0, exPayload0, false, false⟩, ⟨3, exPayload1, false, false⟩, ⟨5, exStop, true, false⟩] ∧
    (run (client exValidI 3) { exSrvI with inclInternal := true } { last := 2 } [quiet []]).1.out
      = [(3, exPayload1), (4, exIdle), (5, exStop)] :=
  ⟨exI_wellFormed, by decide +kernel, by decide +kernel, by decide +kernel⟩

/-- what the model says of a run that is over (status terminal, no stop event) whose log ends with
hidden events: a client that has everything shown is not answered 204 (the 204 test counts the
hidden events), it gets a stream without frames that the server never closes -/
example : (run (client exValidI 3) { log := exSrvI.log.take 5, statusDone := true, inclInternal := false } { last := 3 } [quiet []])
    = ({ last := 3, attempts := 0, out := [], reqs := [3] }, .pending) ∧
    (run (client exValidI 3) { log := exSrvI.log.take 4, statusDone := true, inclInternal := false } { last := 3 } [quiet []]).2 = .done := by
  decide +kernel

end SseClient
