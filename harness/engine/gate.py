"""ExternalAsyncioAdapter.stream_published_events driven op by op, against the stream-gate model (C04).

The real adapter object (workflows/plugins/basic.py) over real AsyncioAdapterQueues, with the run replaced by the
harness: `publish` puts an event on the publish queue, `complete` resolves the future standing in for the run's
task, `arrive` starts a consumer task iterating `adapter.stream_published_events()`, `finish` lets the consumer
that has been given the terminal event ask for the next one.  After every op the loop runs until nothing moves and
the observable state is written down in the driver's format (lean/Driver/StreamGate.lean):
  locked (stream_lock.locked()), qsize, held (who has the terminal event), pending (consumers not finished),
  done (how each finished), log (deliveries in order).
(K) the same ops go to `wfdriver streamgate`.  (S) at the end of every sequence the run is over (terminal event
published and taken, task done, nobody holds the terminal event): no consumer may be pending.
"""
from __future__ import annotations

import asyncio
import random
from typing import Any

from workflows.errors import WorkflowRuntimeError
from workflows.events import Event, StopEvent
from workflows.plugins.basic import AsyncioAdapterQueues, BasicRuntime, ExternalAsyncioAdapter

from ..runner import Violation

SETTLE = 40


class Note(Event):
    n: int


def _nat(x: str) -> int | None:
    return int(x) if x.isascii() and x.isdigit() else None


def gen_ops(rng: random.Random) -> list[str]:
    """one sequence (without the leading reset); always ends with the run over and nobody holding the terminal event"""
    ops: list[str] = []
    next_id = [0]

    def arrive() -> str:
        c = next_id[0]
        next_id[0] += 1
        return f"arrive|{c}|{'-' if rng.random() < 0.7 else rng.randint(1, 3)}"

    if rng.random() < 0.5:
        # the shape of the property: consumers queue up while the run is going, then the end in every order
        body = [arrive() for _ in range(rng.randint(2, 4))] + [f"publish|{rng.randint(0, 9)}" for _ in range(rng.randint(0, 3))]
        rng.shuffle(body)
        if not body[0].startswith("arrive"):
            body.insert(0, arrive())
        tail = ["finish", "complete"] + [arrive() for _ in range(rng.choice([0, 0, 1]))]
        rng.shuffle(tail)
        ops = body + ["publish|T"] + tail
    else:
        term = False
        for _ in range(rng.randint(3, 12)):
            r = rng.random()
            if r < 0.35:
                ops.append(arrive())
            elif r < 0.65:
                ops.append(f"publish|{rng.randint(0, 9)}")
            elif r < 0.78:
                ops.append("publish|T")
                term = True
            elif r < 0.9:
                ops.append("finish")
            else:
                ops.append("complete")
    # close: the run is over, whoever has the terminal event lets go (both orders)
    if "publish|T" not in ops:
        ops.append("publish|T")
    if not any(o.startswith("arrive") for o in ops):
        ops.insert(0, arrive())
    closing = ["finish", "complete"]
    rng.shuffle(closing)
    ops += closing + ["finish", "finish"]  # a consumer further back in the queue may get the terminal event only now
    return ops


MALFORMED = ["", "arrive", "arrive|1", "arrive|x|-", "arrive|1|0", "arrive|1|x", "arrive|-1|-", "publish", "publish|t", "publish|1.5",
             "complete|1", "finish|0", "wake", "take", "arrive|1|-|9", "Reset", " reset"]


def run_real(seq: list[str]) -> tuple[list[str], dict]:
    """runs one sequence (a `reset` is implied in front); returns the expected driver lines and the final facts"""
    out: list[str] = []
    facts: dict[str, Any] = {}

    async def main() -> None:
        loop = asyncio.get_running_loop()
        queues = AsyncioAdapterQueues(run_id="gate", init_state=None)  # type: ignore[arg-type]
        queues.complete = loop.create_future()  # type: ignore[assignment]
        adapter = ExternalAsyncioAdapter(BasicRuntime(), queues)
        tasks: dict[int, asyncio.Task] = {}
        fin: dict[int, str] = {}
        log: list[tuple[int, str]] = []
        held: list[int] = []
        release: dict[int, asyncio.Event] = {}
        term_published = [False]
        facts.update(complete_before_release=None, late_entry_before_complete=False)

        async def consumer(c: int, lim: int | None) -> None:
            agen = adapter.stream_published_events()
            got = 0
            try:
                async for e in agen:
                    if isinstance(e, StopEvent):
                        log.append((c, "T"))
                        held.append(c)
                        release[c] = asyncio.Event()
                        await release[c].wait()
                        held.remove(c)
                        continue
                    log.append((c, str(e.n)))  # type: ignore[attr-defined]
                    got += 1
                    if lim is not None and got >= lim:
                        await agen.aclose()
                        fin[c] = "left"
                        return
                fin[c] = "ended"
            except WorkflowRuntimeError:
                fin[c] = "refused"

        async def settle() -> None:
            for _ in range(SETTLE):
                await asyncio.sleep(0)

        def state() -> str:
            pend = sorted(c for c, t in tasks.items() if c not in fin)
            return (f"locked={1 if queues.stream_lock.locked() else 0} qsize={queues.publish_queue.qsize()} "
                    f"held={held[0] if held else '-'} pending={','.join(map(str, pend))} "
                    f"done={';'.join(f'{c}:{fin[c]}' for c in sorted(fin))} log={','.join(f'{c}:{i}' for c, i in log)}")

        for line in seq:
            f = line.split("|")
            ok: bool | None = None
            if f == ["reset"]:
                raise ValueError("reset inside a sequence")
            if f[0] == "arrive" and len(f) == 3:
                c = _nat(f[1])
                lim = None if f[2] == "-" else _nat(f[2])
                if c is not None and (f[2] == "-" or (lim is not None and lim >= 1)):
                    ok = c not in tasks
                    if ok:
                        if any(i == "T" for _, i in log) and not queues.complete.done():
                            facts["late_entry_before_complete"] = True
                        tasks[c] = asyncio.create_task(consumer(c, lim))
            elif f[0] == "publish" and len(f) == 2 and (f[1] == "T" or _nat(f[1]) is not None):
                ok = not term_published[0]
                if ok:
                    if f[1] == "T":
                        term_published[0] = True
                        queues.publish_queue.put_nowait(StopEvent(result="r"))
                    else:
                        queues.publish_queue.put_nowait(Note(n=int(f[1])))
            elif f == ["complete"]:
                ok = term_published[0]
                if ok and not queues.complete.done():
                    queues.complete.set_result(StopEvent(result="r"))
            elif f == ["finish"]:
                ok = bool(held)
                if ok:
                    if facts["complete_before_release"] is None:
                        facts["complete_before_release"] = queues.complete.done()
                    release[held[0]].set()
            if ok is None:
                out.append("bad-op")
                continue
            await settle()
            out.append(("ok " if ok else "disabled ") + state())
        facts["pending"] = sorted(c for c in tasks if c not in fin)
        facts["over"] = term_published[0] and queues.complete.done() and not held and any(i == "T" for _, i in log)
        facts["state"] = state()
        for t in tasks.values():
            if not t.done():
                t.cancel()
        await asyncio.gather(*tasks.values(), return_exceptions=True)

    asyncio.run(main())
    return out, facts


def monitor(seq: list[str], facts: dict) -> list[Violation]:
    """the run is over, nothing is runnable: nobody may be waiting any more"""
    if not facts.get("over") or not facts.get("pending"):
        return []
    avail = bool(facts.get("complete_before_release")) and not facts.get("late_entry_before_complete")
    cls = "stream_free_after_outcome_available" if avail else "stream_free_before_outcome_available"
    return [Violation(f"C04/gate_consumer_never_terminates:{cls}",
                      f"adapter level: ops {seq}: the terminal event was published and taken, the run's task is done, the consumer that "
                      f"had the terminal event has let go, the loop is quiescent, but consumers {facts['pending']} are still waiting "
                      f"in stream_published_events() ({facts['state']}); expected: refused with WorkflowRuntimeError or given the terminal event",
                      {"gate_ops": seq})]
