import WfModel.KeyedLock
/-! Helper lemmas for M6 (`KeyedLock`): queue operations and the per-key invariant. -/
namespace KeyedLock
open GenKeyedLock

/-! ### queue operations -/

theorem length_setW (a : Nat) (f : Fut) (ws : List (Nat × Fut)) : (setW a f ws).length = ws.length := by
  induction ws with
  | nil => rfl
  | cons w r ih => simp only [setW]; split <;> simp [ih]

theorem length_wakeFirst (ws : List (Nat × Fut)) : (wakeFirst ws).length = ws.length := by
  unfold wakeFirst; split <;> simp

theorem length_removeW {a : Nat} {f : Fut} {ws : List (Nat × Fut)} (h : findW a ws = some f) :
    (removeW a ws).length + 1 = ws.length := by
  induction ws with
  | nil => simp [findW] at h
  | cons w r ih =>
    simp only [findW] at h; simp only [removeW]
    split
    · simp
    · rename_i hne; simp only [hne, if_false] at h; simp [ih h]

theorem findW_mem {a : Nat} {f : Fut} {ws : List (Nat × Fut)} (h : findW a ws = some f) : (a, f) ∈ ws := by
  induction ws with
  | nil => simp [findW] at h
  | cons w r ih =>
    simp only [findW] at h
    split at h
    · rename_i he; cases w; simp at he h; subst he; subst h; simp
    · exact List.mem_cons_of_mem _ (ih h)

theorem map_fst_setW (a : Nat) (f : Fut) (ws : List (Nat × Fut)) : (setW a f ws).map (·.1) = ws.map (·.1) := by
  induction ws with
  | nil => rfl
  | cons w r ih => simp only [setW]; split <;> simp_all

theorem map_fst_wakeFirst (ws : List (Nat × Fut)) : (wakeFirst ws).map (·.1) = ws.map (·.1) := by
  unfold wakeFirst; split <;> simp

theorem findW_none_iff {a : Nat} {ws : List (Nat × Fut)} : findW a ws = none ↔ a ∉ ws.map (·.1) := by
  induction ws with
  | nil => simp [findW]
  | cons w r ih => simp only [findW]; split <;> simp_all [eq_comm]

theorem removeW_sublist (a : Nat) (ws : List (Nat × Fut)) : (removeW a ws).Sublist ws := by
  induction ws with
  | nil => exact List.Sublist.slnil
  | cons w r ih =>
    simp only [removeW]; split
    · exact List.sublist_cons_self _ _
    · exact ih.cons_cons _

theorem findW_removeW_ne {a b : Nat} (h : a ≠ b) (ws : List (Nat × Fut)) :
    findW a (removeW b ws) = findW a ws := by
  induction ws with
  | nil => rfl
  | cons w r ih =>
    simp only [removeW]; split
    · rename_i he; simp only [findW]; rw [if_neg]; omega
    · simp only [findW, ih]

theorem findW_setW_ne {a b : Nat} (h : a ≠ b) (f : Fut) (ws : List (Nat × Fut)) :
    findW a (setW b f ws) = findW a ws := by
  induction ws with
  | nil => rfl
  | cons w r ih =>
    simp only [setW]; split
    · rename_i he; simp only [findW]; rw [if_neg (show ¬ ((b, f).1 = a) from fun h' => h h'.symm), if_neg (by omega)]
    · simp only [findW, ih]

theorem findW_append_ne {a b : Nat} (h : a ≠ b) (f : Fut) (ws : List (Nat × Fut)) :
    findW a (ws ++ [(b, f)]) = findW a ws := by
  induction ws with
  | nil => simp [findW]; omega
  | cons w r ih => simp only [List.cons_append, findW, ih]

theorem idxW_removeW_le {a b : Nat} (h : a ≠ b) (ws : List (Nat × Fut)) : idxW a (removeW b ws) ≤ idxW a ws := by
  induction ws with
  | nil => simp [removeW]
  | cons w r ih =>
    simp only [removeW]; split
    · simp only [idxW]; split <;> omega
    · simp only [idxW]; split <;> omega

theorem idxW_setW (a b : Nat) (f : Fut) (ws : List (Nat × Fut)) : idxW a (setW b f ws) = idxW a ws := by
  induction ws with
  | nil => rfl
  | cons w r ih =>
    simp only [setW]; split
    · rename_i he; simp only [idxW, he]
    · simp only [idxW, ih]

theorem idxW_wakeFirst (a : Nat) (ws : List (Nat × Fut)) : idxW a (wakeFirst ws) = idxW a ws := by
  unfold wakeFirst; split <;> simp [idxW]

theorem idxW_append {a : Nat} {g : Fut} {ws : List (Nat × Fut)} (h : findW a ws = some g) (w : Nat × Fut) :
    idxW a (ws ++ [w]) = idxW a ws := by
  induction ws with
  | nil => simp [findW] at h
  | cons x r ih =>
    simp only [findW] at h; simp only [List.cons_append, idxW]
    split
    · rfl
    · rename_i hne; simp only [hne, if_false] at h; rw [ih h]

end KeyedLock
