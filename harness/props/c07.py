"""C07 — retry building blocks obey their algebra and bounds."""
from __future__ import annotations

from .. import c07_tree, policy
from ..runner import Env, Outcome

THEOREMS = ["C07_source_shape", "C07_retry_any_is_or", "C07_retry_all_is_and", "C07_stop_any_is_or", "C07_stop_all_is_and",
            "C07_operators", "C07_wait_combine_is_sum", "C07_wait_plus", "C07_fixed", "C07_exponential_bounds",
            "C07_incrementing_bounds", "C07_random_bounds", "C07_exp_jitter_bounds", "C07_random_exp_bounds",
            "C07_chain_bounds", "C07_combine_nonneg", "C07_deterministic",
            # nested part (WfModel/RpTree.lean)
            "C07_retry_tree_is_formula", "C07_stop_tree_is_formula", "C07_flatten", "C07_operator_chains",
            "C07_operand_order_irrelevant", "C07_builtin_sum", "C07_wait_tree_bounds", "C07_bounds_attained",
            "C07_next_delay_bounded", "C07_next_some_iff", "C07_jitter_free_ignores_seed", "C07_monotone_in_attempts",
            "C07_ctor_shape", "C07_documented_defaults", "C07_default_policy", "C07_constant_delay_policy",
            "C07_exp_backoff_policy", "C07_aliases"]
LEAN_TARGETS = ["WfProps.C07"]
EXPLANATION = (
    "The __call__ bodies of every wait/stop/retry building block are TRANSLATED from retry_policy.py into Lean "
    "(Generated.lean, exact rationals) on every run; the theorems (logical algebra of any/all and |,&; combine = sum; "
    "documented interval of every strategy for all attempts and all jitter draws u in [0,1]; chain picks a member) are "
    "re-proved against that. The hand-written parts (wait_chain index, composed next, operator sugar) are pinned by "
    "C07_source_shape. Correspondence: random two-level policies evaluated by the real classes and by the model on "
    "exact dyadic inputs (stubbed jitter draw), compared as exact rationals. Implementation-only extreme stream: huge "
    "attempts/bases -> finite, within bounds, no exception, deterministic per seed, seed-dependent. "
    "Nested part: combinators take combinators as operands, so the model has TREES of any depth and arity (WfModel/RpTree.lean); "
    "every retry/stop tree is the Boolean formula of its leaves, same-kind operands flatten, operator chains a|b|c / a&b&c / a+b+c and "
    "Python's sum() are the n-ary combinator, operand order is irrelevant; every well-formed wait tree (chains and sums nested) stays in "
    "its documented interval for all attempts and draws, the interval ends are attained, a delay returned by a composed policy lies in it; "
    "jitter-free trees ignore the seed; exponential / incrementing delays never decrease with the attempt number. Constructor level: the "
    "defaults of every constructor parameter, the __init__ bodies, the reflected operators and the function-style constructors "
    "(retry_policy, ConstantDelayRetryPolicy, ExponentialBackoffRetryPolicy, wait_full_jitter, wait_none) are regenerated "
    "(harness/gen/rp_ctors.py -> Gen.RPC) and pinned by C07_ctor_shape / C07_documented_defaults; the policies they build are proved to do "
    "what their documentation says. Correspondence `rptree`: nested trees built with named constructors, operator chains, reflected "
    "operators (plain callable on the left) and sum(), constructors with omitted arguments, the function-style constructors; the "
    "documented interval computed by the harness is compared with the model's (tbounds) and checked on the implementation."
)
ASSUMPTIONS = [
    "float arithmetic is not modelled: exact rationals in Lean; the compared stream uses inputs on which every float operation is exact",
    "random.Random(seed).random() in [0,1) and uniform(a,b) = a + (b-a)*random() (CPython) are trusted",
    "exceptions are abstracted to ids; retry_if_exception_message / cause_type / user predicates are arbitrary Cond functions in the theorems",
    "fixed in this tree (F03, f30f2da): float overflow of exp_base**attempts saturates at max",
    "trees: leaves are the built-in strategies / conditions; a user-defined callable as an operand is an arbitrary function in the flat theorems "
    "(C07_flatten, C07_operator_chains, C07_operand_order_irrelevant, C07_builtin_sum) and outside the tree grammar of the bound theorems",
    "Python's operator dispatch (`f + w` with a plain function f goes to w.__radd__(f); sum() starts from the int 0) is transcribed in pySum / the "
    "chain definitions and exercised by the rptree stream, not derived",
]


def run(env: Env) -> Outcome:
    out = Outcome()
    out.rule = ("random two-level policy specs x attempts x elapsed x exception x jitter draw (exact), plus an extreme stream on the implementation; "
                "non-trivial = every evaluated line; distinct by op line")
    policy.correspondence(env, out, env.budget(6000, 120000))
    policy.extreme_and_seed_stream(env, out, env.budget(600, 12000))
    policy.algebra_stream(env, out, env.budget(1500, 30000))
    policy.units_stream(env, out, env.budget(150, 3000))
    c07_tree.tree_stream(env, out, env.budget(2500, 40000))
    c07_tree.tree_extreme_stream(env, out, env.budget(400, 8000))
    return out
