import WfModel.GenStateStore
/-!
# M5 — state stores

`workflows/context/state_store.py` (`InMemoryStateStore`, `DictState`, `get_by_path`,
`set_by_path`, `traverse_path_step`, `assign_path_step`, `merge_state`,
`create_cleared_state`), `workflows/events.py` (`DictLikeModel`) and
`llama_agents/server/_store/sqlite/sqlite_state_store.py` (`SqliteStateStore`, per-call
connections).

Values are JSON values.  Floats are opaque atoms carrying their `repr` (the stores
never compute with values, they only move them).  Objects are association lists in
insertion order (Python `dict`: assigning an existing key keeps its position, a new
key goes last).  A state is a `Root`: its model type and its top-level mapping
(`DictState._data`, or the declared fields of a typed model in declaration order).

Three sequential machines over one operation language `Op`:
* `Spec`  — the plain nested-dict specification (structural recursion, transactional edit);
* `Mem`   — `InMemoryStateStore`, written along the control flow of the code;
* `Sql`   — `SqliteStateStore`: a row that may not exist yet, every operation a
  load / compute / save over it exactly as the code issues its statements.

and one transition system `Sys` (section "C20") whose actions are the await-free
sections of concurrent `set` / `set_state` / `clear` / `edit_state` tasks around the
store's `asyncio.Lock`.
-/
namespace StateStore

/-! ## JSON values -/

inductive Json where
  | null
  | bool (b : Bool)
  | int (i : Int)
  | flt (repr : String)
  | str (s : String)
  | arr (xs : List Json)
  | obj (kvs : List (String × Json))
  deriving Repr, Inhabited

abbrev Obj := List (String × Json)

/-- `d[k]` -/
def lookup (k : String) : Obj → Option Json
  | [] => none
  | (k', v) :: r => if k' = k then some v else lookup k r

/-- `d[k] = v`: an existing key keeps its position, a new key is appended -/
def upsert (k : String) (v : Json) : Obj → Obj
  | [] => [(k, v)]
  | (k', v') :: r => if k' = k then (k, v) :: r else (k', v') :: upsert k v r

/-- `d.pop(k, None)` -/
def erase (k : String) : Obj → Obj
  | [] => []
  | (k', v') :: r => if k' = k then r else (k', v') :: erase k r

/-! ## `int(segment)` (ASCII fragment of Python's grammar)

optional surrounding ASCII whitespace, optional sign, decimal digits with single
underscores between digits. -/

def isWs (c : Char) : Bool :=
  c = ' ' || c = '\t' || c = '\n' || c = '\r' || c = Char.ofNat 11 || c = Char.ofNat 12

def stripL : List Char → List Char
  | [] => []
  | c :: r => if isWs c then stripL r else c :: r

def strip (cs : List Char) : List Char := (stripL (stripL cs).reverse).reverse

def digitVal (c : Char) : Option Nat :=
  if '0' ≤ c ∧ c ≤ '9' then some (c.toNat - '0'.toNat) else none

/-- `acc` so far; `prev` = the previous character was a digit -/
def digitsGo (acc : Nat) (prev : Bool) : List Char → Option Nat
  | [] => if prev then some acc else none
  | c :: r =>
    match digitVal c with
    | some d => digitsGo (acc * 10 + d) true r
    | none => if c = '_' && prev then digitsGo acc false r else none

def parseInt (cs : List Char) : Option Int :=
  match strip cs with
  | '-' :: r => (digitsGo 0 false r).map fun n => -(n : Int)
  | '+' :: r => (digitsGo 0 false r).map fun n => (n : Int)
  | r => (digitsGo 0 false r).map fun n => (n : Int)

/-- Python sequence index: negative counts from the end; out of range ↦ `none` (IndexError) -/
def normIdx (len : Nat) (i : Int) : Option Nat :=
  if 0 ≤ i then (if i.toNat < len then some i.toNat else none)
  else (if (-i).toNat ≤ len then some (len - (-i).toNat) else none)

/-- index a JSON container position addressed by a path segment -/
def segIdx (len : Nat) (seg : String) : Option Nat :=
  match parseInt seg.toList with
  | some i => normIdx len i
  | none => none

/-! ## Path steps inside a value (`traverse_path_step` / `assign_path_step` on dict, list, str, scalars) -/

inductive Err where
  | valueError       -- ValueError
  | attributeError   -- AttributeError
  | bodyError        -- the exception a scripted edit_state body raises on purpose
  deriving DecidableEq, Repr, Inhabited

/-- `traverse_path_step`: dict key; else `int(segment)` index into list / str; else `getattr`, which
fails for JSON values (segment names are assumed not to be Python attribute names) -/
def child (j : Json) (seg : String) : Option Json :=
  match j with
  | .obj kvs => lookup seg kvs
  | .arr xs => match segIdx xs.length seg with
    | some n => xs[n]?
    | none => none
  | .str s => match segIdx s.toList.length seg with
    | some n => (s.toList[n]?).map fun c => Json.str (String.ofList [c])
    | none => none
  | _ => none

/-- `assign_path_step`: dict key; list index in range; everything else ends in `setattr` on a
builtin, which raises AttributeError -/
def assign (j : Json) (seg : String) (v : Json) : Except Err Json :=
  match j with
  | .obj kvs => .ok (.obj (upsert seg v kvs))
  | .arr xs => match segIdx xs.length seg with
    | some n => .ok (.arr (xs.set n v))
    | none => .error .attributeError
  | _ => .error .attributeError

/-- the loop of `get_by_path` below the root -/
def walk : Json → List String → Option Json
  | j, [] => some j
  | j, s :: r => match child j s with
    | some c => walk c r
    | none => none

/-- the loop of `set_by_path` below the root: `inits` = `segments[:-1]` still to walk, `last` =
`segments[-1]`.  A missing intermediate is created as `{}`, assigned (this may raise), and the
loop continues inside it; the object finally assigned is that same dict, filled. -/
def setLoop : Json → List String → String → Json → Except Err Json
  | cur, [], last, v => assign cur last v
  | cur, seg :: more, last, v =>
    match child cur seg with
    | some c =>
      match setLoop c more last v with
      | .ok c' => assign cur seg c'
      | .error e => .error e
    | none =>
      match assign cur seg (.obj []) with
      | .error e => .error e
      | .ok _ =>
        match setLoop (.obj []) more last v with
        | .ok mid => assign cur seg mid
        | .error e => .error e

/-! ## States (`Root`) and the root step -/

/-- model types: `DictState`, the `n`-th class of an inheritance chain of typed models
(level `n+1` extends level `n`), or a model type unrelated to both -/
inductive Ty where
  | dict
  | typed (level : Nat)
  | other
  deriving DecidableEq, Repr, Inhabited

structure Root where
  ty : Ty
  data : Obj
  deriving Repr, Inhabited

/-- fields added at each level of the chain, with their defaults -/
abbrev Schema := List (List (String × Json))

def fieldsOf (sc : Schema) (n : Nat) : Obj := (sc.take (n + 1)).flatten

/-- `state_type()` -/
def defaultRoot (sc : Schema) : Ty → Root
  | .dict => ⟨.dict, []⟩
  | .typed n => ⟨.typed n, fieldsOf sc n⟩
  | .other => ⟨.other, []⟩

/-- root step of `traverse_path_step`: a `DictLikeModel` is addressed by name (`getattr` → `_data`),
a typed model by `getattr` of a declared field (an integer index attempt on it raises TypeError
and falls through) -/
def rootChild (r : Root) (seg : String) : Option Json := lookup seg r.data

/-- root step of `assign_path_step`: `DictState` takes any key; a typed model only declared fields
(pydantic raises ValueError for an unknown field name) -/
def rootAssign (r : Root) (seg : String) (v : Json) : Except Err Root :=
  match r.ty with
  | .dict => .ok { r with data := upsert seg v r.data }
  | _ => if (lookup seg r.data).isSome then .ok { r with data := upsert seg v r.data }
         else .error .valueError

def rootSet (r : Root) : List String → String → Json → Except Err Root
  | [], last, v => rootAssign r last v
  | seg :: more, last, v =>
    match rootChild r seg with
    | some c =>
      match setLoop c more last v with
      | .ok c' => rootAssign r seg c'
      | .error e => .error e
    | none =>
      match rootAssign r seg (.obj []) with
      | .error e => .error e
      | .ok _ =>
        match setLoop (.obj []) more last v with
        | .ok mid => rootAssign r seg mid
        | .error e => .error e

/-! ## `path.split(".")` -/

def splitDots : List Char → List Char → List (List Char)
  | acc, [] => [acc.reverse]
  | acc, c :: r => if c = '.' then acc.reverse :: splitDots [] r else splitDots (c :: acc) r

def splitPath (p : String) : List String := (splitDots [] p.toList).map String.ofList

def maxDepth : Nat := GenStateStore.maxDepth

/-- `segments[:-1]`, `segments[-1]` -/
def splitLast : List String → Option (List String × String)
  | [] => none
  | [x] => some ([], x)
  | x :: y :: r => match splitLast (y :: r) with
    | some (i, l) => some (x :: i, l)
    | none => none

/-- result of `get`: the state object itself (empty path) or a value -/
inductive Got where
  | root (r : Root)
  | val (j : Json)
  deriving Repr, Inhabited

/-- `get_by_path(state, path, default)`; `dflt = none` is the `Ellipsis` default -/
def getByPath (r : Root) (path : String) (dflt : Option Json) : Except Err Got :=
  if path.isEmpty then .ok (.root r) else
  let segs := splitPath path
  if segs.length > maxDepth then .error .valueError else
  let found : Option Json := match segs with
    | [] => none
    | s :: rest => match rootChild r s with
      | some c => walk c rest
      | none => none
  match found with
  | some j => .ok (.val j)
  | none => match dflt with
    | some d => .ok (.val d)
    | none => .error .valueError

/-- `set_by_path(state, path, value)` -/
def setByPath (r : Root) (path : String) (v : Json) : Except Err Root :=
  if path.isEmpty then .error .valueError else
  let segs := splitPath path
  if segs.length > maxDepth then .error .valueError else
  match splitLast segs with
  | none => .error .valueError
  | some (inits, last) => rootSet r inits last v

/-! ## `merge_state` -/

/-- `isinstance(<instance of a>, b)` -/
def isSub : Ty → Ty → Bool
  | .dict, .dict => true
  | .typed m, .typed n => n ≤ m
  | .other, .other => true
  | _, _ => false

/-- `current_type.model_validate({**current.model_dump(), **incoming.model_dump()})`: the current
fields in declaration order, each overridden by the incoming value when the incoming model has it -/
def overlay (cur inc : Obj) : Obj :=
  cur.map fun kv => (kv.1, (lookup kv.1 inc).getD kv.2)

def mergeState (cur inc : Root) : Except Err Root :=
  if isSub inc.ty cur.ty then .ok inc
  else if isSub cur.ty inc.ty then .ok { ty := cur.ty, data := overlay cur.data inc.data }
  else .error .valueError

/-! ## Operations -/

/-- scripted user code inside an `edit_state` block / on a snapshot (top level only) -/
inductive Mut where
  | setKey (k : String) (v : Json)   -- `state[k] = v` / `setattr(state, k, v)`
  | incr (k : String) (n : Int)      -- `state[k] = state[k] + n` if it is an int, else `n`
  | append (k : String) (v : Json)   -- `state[k].append(v)` if it is a list, else `state[k] = [v]`
  | delKey (k : String)              -- DictState: `state.to_dict().pop(k, None)`; typed: raises
  | raise                            -- the body raises
  deriving Repr, Inhabited

/-- type of the model instance handed to `set_state`, relative to the store's declared type:
the same type, its `k+1`-th ancestor, a `DictState`, or an unrelated model.  (Instances of a
*strict subclass* of the store's type are outside the documented domain of `set_state` and are
not expressible.) -/
inductive IncTy where
  | same
  | ancestor (k : Nat)
  | dictState
  | unrelated
  deriving DecidableEq, Repr, Inhabited

def incTy (store : Ty) : IncTy → Ty
  | .same => store
  | .ancestor k => match store with
    | .typed n => if k < n then .typed (n - 1 - k) else .other
    | _ => .other
  | .dictState => .dict
  | .unrelated => .other

inductive Op where
  | get (path : String) (dflt : Option Json)
  | set (path : String) (v : Json)
  | getState
  | setState (ity : IncTy) (data : Obj)
  | clear
  | edit (muts : List Mut)
  | mutSnap (k : String) (v : Json)   -- the caller mutates the top level of the snapshot it holds
  | writeBack                          -- `set_state(<the snapshot>)`; the caller then drops it
  deriving Repr, Inhabited

inductive Out where
  | none                      -- returned `None`
  | val (j : Json)
  | state (r : Root)
  | err (e : Err)
  | noSnap                    -- protocol: the caller holds no snapshot
  deriving Repr, Inhabited

/-- one user mutation on a state object -/
def applyMut (r : Root) : Mut → Except Err Root
  | .setKey k v => rootAssign r k v
  | .incr k n =>
    match r.ty, lookup k r.data with
    | .dict, none => rootAssign r k (.int n)
    | _, none => .error .attributeError
    | _, some (.int i) => rootAssign r k (.int (i + n))
    | _, some _ => rootAssign r k (.int n)
  | .append k v =>
    match r.ty, lookup k r.data with
    | .dict, none => rootAssign r k (.arr [v])
    | _, none => .error .attributeError
    | _, some (.arr xs) => rootAssign r k (.arr (xs ++ [v]))
    | _, some _ => rootAssign r k (.arr [v])
  | .delKey k =>
    match r.ty with
    | .dict => .ok { r with data := erase k r.data }
    | _ => .error .bodyError
  | .raise => .error .bodyError

/-- run a body: the state after the mutations that were executed, and the exception that stopped it -/
def runMuts (r : Root) : List Mut → Root × Option Err
  | [] => (r, none)
  | m :: ms => match applyMut r m with
    | .ok r' => runMuts r' ms
    | .error e => (r, some e)

def gotOut : Except Err Got → Out
  | .ok (.root r) => .state r
  | .ok (.val j) => .val j
  | .error e => .err e

/-- client side of the snapshot operations (shared by all three machines): the snapshot held is an
object of its own (`model_copy()` copies the top level; for a `DictLikeModel` this needs
`GenStateStore.dictLikeCopyOwnsData`) -/
def snapMut (held : Option Root) (k : String) (v : Json) : Option Root × Out :=
  match held with
  | none => (none, .noSnap)
  | some h => match rootAssign h k v with
    | .ok h' => (some h', .none)
    | .error e => (some h, .err e)

/-! ## Specification: a plain nested dict -/

/-- `{a: {b: ... v}}` for the missing tail of a path -/
def nest : List String → Json → Json
  | [], v => v
  | s :: r, v => .obj [(s, nest r v)]

/-- write `v` at `segs` below `j`, creating dicts for what is missing -/
def specSet : Json → List String → Json → Except Err Json
  | _, [], _ => .error .valueError
  | j, [s], v => assign j s v
  | j, s :: t :: r, v =>
    match child j s with
    | some c => match specSet c (t :: r) v with
      | .ok c' => assign j s c'
      | .error e => .error e
    | none => assign j s (nest (t :: r) v)

/-- the root as a JSON object whose key set is open (`DictState`) or closed (typed) -/
def specRootPut (r : Root) (k : String) (v : Json) : Except Err Root :=
  if r.ty = .dict ∨ (lookup k r.data).isSome then .ok { r with data := upsert k v r.data }
  else .error .valueError

def specRootSet (r : Root) : List String → Json → Except Err Root
  | [], _ => .error .valueError
  | [s], v => specRootPut r s v
  | s :: t :: rest, v =>
    match lookup s r.data with
    | some c => match specSet c (t :: rest) v with
      | .ok c' => specRootPut r s c'
      | .error e => .error e
    | none => specRootPut r s (nest (t :: rest) v)

def specGetVal (r : Root) (segs : List String) : Option Json := walk (.obj r.data) segs

/-- `get(path, default)` on the nested dict -/
def specGet (r : Root) (path : String) (d : Option Json) : Out :=
  if path.isEmpty then .state r
  else if (splitPath path).length > maxDepth then .err .valueError
  else match specGetVal r (splitPath path), d with
    | some j, _ => .val j
    | none, some dv => .val dv
    | none, none => .err .valueError

/-- `set(path, value)` on the nested dict -/
def specSetPath (r : Root) (path : String) (v : Json) : Except Err Root :=
  if path.isEmpty then .error .valueError
  else if (splitPath path).length > maxDepth then .error .valueError
  else specRootSet r (splitPath path) v

structure Spec where
  sc : Schema
  root : Root
  held : Option Root := none
  deriving Repr, Inhabited

def Spec.init (sc : Schema) (ty : Ty) : Spec := { sc := sc, root := defaultRoot sc ty }

def Spec.step (s : Spec) : Op → Spec × Out
  | .get path d => (s, specGet s.root path d)
  | .set path v =>
    match specSetPath s.root path v with
    | .ok r => ({ s with root := r }, .none)
    | .error e => (s, .err e)
  | .getState => ({ s with held := some s.root }, .state s.root)
  | .setState ity data =>
    match mergeState s.root ⟨incTy s.root.ty ity, data⟩ with
    | .ok r => ({ s with root := r }, .none)
    | .error e => (s, .err e)
  | .clear => ({ s with root := defaultRoot s.sc s.root.ty }, .none)
  | .edit muts =>
    match runMuts s.root muts with
    | (r, none) => ({ s with root := r }, .none)
    | (_, some e) => (s, .err e)          -- transactional: nothing is kept
  | .mutSnap k v => ({ s with held := (snapMut s.held k v).1 }, (snapMut s.held k v).2)
  | .writeBack =>
    match s.held with
    | none => (s, .noSnap)
    | some h => ({ s with root := h, held := none }, .none)

/-! ## `InMemoryStateStore` -/

structure Mem where
  sc : Schema
  root : Root              -- `self._state`
  held : Option Root := none
  deriving Repr, Inhabited

def Mem.init (sc : Schema) (ty : Ty) : Mem := { sc := sc, root := defaultRoot sc ty }

/-- `set_state`: `self._state = merge_state(self._state, state)` under the lock -/
def Mem.setState (m : Mem) (inc : Root) : Mem × Out :=
  match mergeState m.root inc with
  | .ok r => ({ m with root := r }, .none)
  | .error e => (m, .err e)

def Mem.step (m : Mem) : Op → Mem × Out
  | .get path d => (m, gotOut (getByPath m.root path d))
  | .set path v =>
    match setByPath m.root path v with
    | .ok r => ({ m with root := r }, .none)
    | .error e => (m, .err e)
  | .getState => ({ m with held := some m.root }, .state m.root)   -- `self._state.model_copy()`
  | .setState ity data => m.setState ⟨incTy m.root.ty ity, data⟩
  | .clear => m.setState (defaultRoot m.sc m.root.ty)              -- `create_cleared_state(self._state.__class__)`
  | .edit muts =>
    -- the body works on `self._state` itself: what it did before raising stays
    match runMuts m.root muts with
    | (r, none) => ({ m with root := r }, .none)
    | (r, some e) => ({ m with root := r }, .err e)
  | .mutSnap k v => ({ m with held := (snapMut m.held k v).1 }, (snapMut m.held k v).2)
  | .writeBack =>
    match m.held with
    | none => (m, .noSnap)
    | some h => ({ (m.setState h).1 with held := none }, (m.setState h).2)

/-! ## `SqliteStateStore` (per-call connections) -/

structure Sql where
  sc : Schema
  ty : Ty                  -- `self.state_type`
  row : Option Obj         -- `workflow_state.state_json` of this run, if the row exists
  held : Option Root := none
  deriving Repr, Inhabited

def Sql.init (sc : Schema) (ty : Ty) : Sql := { sc := sc, ty := ty, row := none }

/-- `_load_state`: SELECT; no row → default state, INSERT, COMMIT -/
def Sql.load (s : Sql) : Sql × Root :=
  match s.row with
  | some d => (s, ⟨s.ty, d⟩)
  | none => let r := defaultRoot s.sc s.ty; ({ s with row := some r.data }, r)

/-- `_save_state`: INSERT .. ON CONFLICT DO UPDATE; COMMIT -/
def Sql.save (s : Sql) (r : Root) : Sql := { s with row := some r.data }

/-- what the store holds, seen from outside -/
def Sql.abs (s : Sql) : Root :=
  match s.row with
  | some d => ⟨s.ty, d⟩
  | none => defaultRoot s.sc s.ty

/-- `set_state` body: SELECT; current = the row or (without INSERT) the default state; merge; save -/
def Sql.setState (s : Sql) (inc : Root) : Sql × Out :=
  match mergeState s.abs inc with
  | .ok r => (s.save r, .none)
  | .error e => (s, .err e)

/-- `edit_state`: lock { load; body; save } — an exception in the body skips the save -/
def Sql.edit (s : Sql) (body : Root → Root × Option Err) : Sql × Out :=
  match body s.load.2 with
  | (r, none) => (s.load.1.save r, .none)
  | (_, some e) => (s.load.1, .err e)

def Sql.step (s : Sql) : Op → Sql × Out
  | .get path d => (s.load.1, gotOut (getByPath s.load.2 path d))
  | .set path v =>
    s.edit fun st => match setByPath st path v with
      | .ok r => (r, none)
      | .error e => (st, some e)
  | .getState => ({ s.load.1 with held := some s.load.2 }, .state s.load.2)
  | .setState ity data => s.setState ⟨incTy s.ty ity, data⟩
  | .clear => s.setState (defaultRoot s.sc s.ty)        -- `create_cleared_state(self.state_type)`
  | .edit muts => s.edit fun st => runMuts st muts
  | .mutSnap k v => ({ s with held := (snapMut s.held k v).1 }, (snapMut s.held k v).2)
  | .writeBack =>
    match s.held with
    | none => (s, .noSnap)
    | some h => ({ (s.setState h).1 with held := none }, (s.setState h).2)

/-! ## Runs -/

def runOuts {σ : Type} (step : σ → Op → σ × Out) : σ → List Op → List Out
  | _, [] => []
  | s, op :: ops => (step s op).2 :: runOuts step (step s op).1 ops

def runState {σ : Type} (step : σ → Op → σ × Out) : σ → List Op → σ
  | s, [] => s
  | s, op :: ops => runState step (step s op).1 ops

/-! ## C20 — concurrent tasks around the store lock

Every task performs one store operation.  `run t` executes the next await-free section of
task `t`:
* a task that has not started calls its operation; an operation that takes the lock finds it
  free with no live waiter (`asyncio.Lock.acquire` fast path: no suspension; waiters whose future
  is already cancelled do not count) or appends itself to the FIFO and suspends;
* a queued task can run only when the lock is free and it is the head of the FIFO;
* `set`, `set_state`, `clear` are await-free once they have the lock: acquire, work, release are
  one section.  An operation that does *not* take the lock (flag from the source) just runs;
* `edit_state`: `acquire; load; <first chunk of the body>` is one section, each further chunk
  (the body awaits between chunks) one section, the last chunk together with `save; release`.

`cancel t` is `Task.cancel()` called on task `t` from outside (step timeout, run cancellation):
it only *requests* the cancellation; the `CancelledError` is raised inside `t` by its next
section (`run t`, always enabled then):
* not started: the coroutine never runs;
* queued on the lock: the waiter future is cancelled — or, when the lock had already been handed
  to `t` (free lock, `t` first in the FIFO: its future has a result), `t` is only marked
  (`_must_cancel`).  The next section raises out of `await fut`, takes the future out of the
  FIFO, and (lock free) wakes the next waiter; nothing else changes, because the lock is taken
  with `async with self._lock` (flag from the source), whose exit code only runs after a
  successful acquire;
* suspended inside an `edit_state` body: the body's `await` raises, the block is left through
  `async with` — the lock is released and nothing is saved.  What the chunks that had run did to
  the store stays if the body works on the live object (in-memory) and is dropped if it works on
  a copy (SQLite).
-/

inductive COp where
  | set (path : String) (v : Json)
  | setState (ity : IncTy) (data : Obj)
  | clear
  | edit (chunks : List (List Mut))
  deriving Repr, Inhabited

/-- the same operation as a sequential `Op` -/
def COp.toOp : COp → Op
  | .set p v => .set p v
  | .setState i d => .setState i d
  | .clear => .clear
  | .edit cs => .edit cs.flatten

inductive Pc where
  | idle
  | waiting
  /-- inside edit_state: (ghost) the mutations run so far, the chunks still to run, the object the body works on -/
  | body (ran : List Mut) (rest : List (List Mut)) (w : Root)
  | done
  /-- `cancel()` arrived before the first section -/
  | idleC
  /-- `cancel()` arrived while queued: the waiter future is cancelled (`true`), or it already had
  its result (the lock was handed over) and the task carries `_must_cancel` (`false`) -/
  | waitC (futCancelled : Bool)
  /-- `cancel()` arrived while suspended inside the body -/
  | bodyC (ran : List Mut) (rest : List (List Mut)) (w : Root)
  /-- ended by `CancelledError` before it touched the store -/
  | cancelled
  /-- ended by `CancelledError` inside the `edit_state` body; `kept`: its mutations that stay in the store -/
  | aborted (kept : List Mut)
  deriving Repr, Inhabited

/-- what a backend does in the sections of `edit_state`, and which operations take the lock -/
structure Backend (σ : Type) where
  step : σ → Op → σ × Out            -- the sequential machine (used for the one-section operations)
  begin : σ → σ × Root               -- after acquire: the object handed to the body
  publish : σ → Root → σ             -- effect on the store of the body having mutated its object
  commit : σ → Root → σ              -- after the body returned
  locks : COp → Bool
  /-- the body mutates the store's own object (a block left without saving keeps what it did) -/
  keepsPartial : Bool
  /-- the operation takes and gives back the lock only through `async with self._lock` -/
  scopedLock : COp → Bool

def Backend.kept {σ : Type} (B : Backend σ) (ran : List Mut) : List Mut := if B.keepsPartial then ran else []

def memBackend : Backend Mem where
  step := Mem.step
  begin := fun m => (m, m.root)                 -- `state = self._state`
  publish := fun m w => { m with root := w }    -- the body's object *is* the store's state
  commit := fun m w => { m with root := w }     -- `self._state = state`
  locks := fun
    | .set .. => GenStateStore.memSetLocked
    | .setState .. => GenStateStore.memSetStateLocked
    | .clear => GenStateStore.memClearLocked
    | .edit .. => GenStateStore.memEditLocked
  keepsPartial := true
  scopedLock := fun _ => GenStateStore.memLockScoped

def sqlBackend : Backend Sql where
  step := Sql.step
  begin := Sql.load
  publish := fun s _ => s                       -- the body works on a deserialised copy
  commit := Sql.save
  locks := fun
    | .set .. => GenStateStore.sqlSetLocked
    | .setState .. => GenStateStore.sqlSetStateLocked
    | .clear => GenStateStore.sqlClearLocked
    | .edit .. => GenStateStore.sqlEditLocked
  keepsPartial := false
  scopedLock := fun _ => GenStateStore.sqlLockScoped

structure Sys (σ : Type) where
  store : σ
  holder : Option Nat := none
  queue : List Nat := []
  pcs : List Pc
  log : List Nat := []      -- ghost: tasks in the order their operation completed (or was aborted inside its body)

def Sys.init {σ : Type} (st : σ) (n : Nat) : Sys σ := { store := st, pcs := List.replicate n .idle }

/-- the body of `edit_state` as a non-empty list of await-free chunks -/
def chunksOf : COp → List Mut × List (List Mut)
  | .edit (c :: rest) => (c, rest)
  | _ => ([], [])

/-- the body from chunk `c` on, run to its end without interruption: the store it leaves -/
def runBody {σ : Type} (B : Backend σ) (st : σ) (w : Root) (c : List Mut) : List (List Mut) → σ
  | [] =>
    match runMuts w c with
    | (w', some _) => B.publish st w'
    | (w', none) => B.commit (B.publish st w') w'
  | c' :: rest =>
    match runMuts w c with
    | (w', some _) => B.publish st w'
    | (w', none) => runBody B (B.publish st w') w' c' rest

/-- run chunk `c` of the body of task `t` on `w`, then either stay in the body or leave it
(leaving releases the lock) -/
def runChunk {σ : Type} (B : Backend σ) (s : Sys σ) (t : Nat) (ran c : List Mut) (rest : List (List Mut)) (w : Root) : Sys σ :=
  match runMuts w c with
  | (w', some _) =>   -- the exception leaves the `async with`: no save, release
    { s with store := B.publish s.store w', holder := none, pcs := s.pcs.set t .done, log := s.log ++ [t] }
  | (w', none) =>
    match rest with
    | [] => { s with store := B.commit (B.publish s.store w') w', holder := none, pcs := s.pcs.set t .done, log := s.log ++ [t] }
    | _ :: _ => { s with store := B.publish s.store w', pcs := s.pcs.set t (.body (ran ++ c) rest w') }

/-- task `t` has (or needs no) lock and starts working -/
def enter {σ : Type} (B : Backend σ) (s : Sys σ) (t : Nat) (op : COp) : Sys σ :=
  match op with
  | .edit cs =>
    let b := B.begin s.store
    let cr := chunksOf (.edit cs)
    runChunk B { s with store := b.1, holder := some t } t [] cr.1 cr.2 b.2
  | _ => { s with store := (B.step s.store op.toOp).1, pcs := s.pcs.set t .done, log := s.log ++ [t] }

/-- the waiter future of task `q` is cancelled -/
def futCancelled (pcs : List Pc) (q : Nat) : Bool :=
  match pcs[q]? with
  | some (.waitC true) => true
  | _ => false

def Sys.run {σ : Type} (B : Backend σ) (prog : List COp) (s : Sys σ) (t : Nat) : Option (Sys σ) :=
  match prog[t]?, s.pcs[t]? with
  | some op, some .idle =>
    if B.locks op then
      if s.holder = none ∧ s.queue.all (futCancelled s.pcs) = true then some (enter B s t op)
      else some { s with queue := s.queue ++ [t], pcs := s.pcs.set t .waiting }
    else
      match op with
      | .edit _ => none      -- an edit_state without the lock is not modelled
      | _ => some (enter B s t op)
  | some op, some .waiting =>
    if s.holder = none ∧ s.queue.head? = some t then some (enter B { s with queue := s.queue.tail } t op)
    else none
  | some op, some (.body ran (c :: rest) w) =>
    if s.holder = some t ∨ B.scopedLock op = false then some (runChunk B s t ran c rest w) else none
  | some _, some .idleC => some { s with pcs := s.pcs.set t .cancelled }
  | some op, some (.waitC _) =>
    -- `await fut` raises; `finally: self._waiters.remove(fut)`; lock free: `_wake_up_first()` (the new
    -- head of the FIFO may run).  A lock that is not scoped by `async with` is given back "in any case".
    some { s with queue := s.queue.erase t, pcs := s.pcs.set t .cancelled,
                  holder := if B.scopedLock op then s.holder else none }
  | some op, some (.bodyC ran _ _) =>
    if s.holder = some t ∨ B.scopedLock op = false then
      some { s with holder := none, pcs := s.pcs.set t (.aborted (B.kept ran)), log := s.log ++ [t] }
    else none
  | _, _ => none

/-- `Task.cancel()` on task `t`: a request; disabled once the task has ended or a request is pending -/
def Sys.cancel {σ : Type} (s : Sys σ) (t : Nat) : Option (Sys σ) :=
  match s.pcs[t]? with
  | some .idle => some { s with pcs := s.pcs.set t .idleC }
  | some .waiting =>
    -- the head of the FIFO of a free lock has been woken: its future is done and cannot be cancelled any more
    some { s with pcs := s.pcs.set t (.waitC (!(decide (s.holder = none ∧ s.queue.head? = some t)))) }
  | some (.body ran rest w) => some { s with pcs := s.pcs.set t (.bodyC ran rest w) }
  | _ => none

/-- a schedule is any list of task ids; a disabled action ends the run -/
def Sys.runAll {σ : Type} (B : Backend σ) (prog : List COp) : Sys σ → List Nat → Option (Sys σ)
  | s, [] => some s
  | s, t :: ts => match Sys.run B prog s t with
    | some s' => Sys.runAll B prog s' ts
    | none => none

def Sys.allDone {σ : Type} (s : Sys σ) : Bool := s.pcs.all fun p => match p with | .done => true | _ => false

/-- scheduler actions: run the next section of a task, or request its cancellation -/
inductive Act where
  | run (t : Nat)
  | cancel (t : Nat)
  deriving Repr, DecidableEq, Inhabited

def Sys.exec {σ : Type} (B : Backend σ) (prog : List COp) (s : Sys σ) : Act → Option (Sys σ)
  | .run t => Sys.run B prog s t
  | .cancel t => Sys.cancel s t

def Sys.execAll {σ : Type} (B : Backend σ) (prog : List COp) : Sys σ → List Act → Option (Sys σ)
  | s, [] => some s
  | s, a :: as => match Sys.exec B prog s a with
    | some s' => Sys.execAll B prog s' as
    | none => none

def Pc.settled : Pc → Bool
  | .done => true
  | .cancelled => true
  | .aborted _ => true
  | _ => false

/-- every task has ended: completed, cancelled before it touched the store, or aborted inside its body -/
def Sys.allSettled {σ : Type} (s : Sys σ) : Bool := s.pcs.all Pc.settled

/-- every task has ended, none of them inside an `edit_state` body: completed, or cancelled before it touched the store -/
def Sys.allDoneOrCancelled {σ : Type} (s : Sys σ) : Bool :=
  s.pcs.all fun p => match p with | .done => true | .cancelled => true | _ => false

/-! ### tasks created by other tasks

`asyncio.create_task(...)` inside the body of an `edit_state` block: `spawn c = some (p, k)` says
that task `c` does not exist at the start; it is created by task `p` at the beginning of chunk `k`
of its `edit_state` body (inside the `async with`, with a copy of `p`'s context).  Until then no
section of `c` can run and there is nothing to cancel.  From its creation on it is a task like any
other: its first section calls its operation, which takes the store lock like everybody else — the
store modules keep nothing per task or per context (`GenStateStore.*ContextFree`, from the source). -/

abbrev Spawn := Nat → Option (Nat × Nat)

/-- the chunk of its `edit_state` body that the next section of task `t` starts, if it starts one
(`run t` from `idle` enters the body only on the lock's fast path; from `waiting` it is enabled only
when it gets the lock) -/
def Sys.starts {σ : Type} (prog : List COp) (s : Sys σ) (t : Nat) : Option Nat :=
  match prog[t]?, s.pcs[t]? with
  | some (.edit _), some .idle =>
    if s.holder = none ∧ s.queue.all (futCancelled s.pcs) = true then some 0 else none
  | some (.edit _), some .waiting => some 0
  | some (.edit cs), some (.body _ (_ :: rest) _) => some (cs.length - (rest.length + 1))
  | _, _ => none

/-- `Sys` plus (ghost) the spawned tasks that have been created so far -/
structure SpSys (σ : Type) where
  sys : Sys σ
  born : List Nat := []

def SpSys.init {σ : Type} (st : σ) (n : Nat) : SpSys σ := { sys := Sys.init st n }

/-- the task exists: it is one of the initial tasks, or it has been created -/
def SpSys.live {σ : Type} (sp : Spawn) (s : SpSys σ) (t : Nat) : Bool :=
  match sp t with
  | none => true
  | some _ => s.born.contains t

/-- the tasks that chunk `k` of task `t` creates (a task does not create itself) -/
def children (sp : Spawn) (n t k : Nat) : List Nat :=
  (List.range n).filter fun c => decide (sp c = some (t, k)) && decide (c ≠ t)

def SpSys.exec {σ : Type} (B : Backend σ) (prog : List COp) (sp : Spawn) (s : SpSys σ) : Act → Option (SpSys σ)
  | .run t =>
    if s.live sp t then
      match Sys.run B prog s.sys t with
      | some s' =>
        some { sys := s'
               born := match Sys.starts prog s.sys t with
                 | some k => s.born ++ children sp prog.length t k
                 | none => s.born }
      | none => none
    else none
  | .cancel t =>
    if s.live sp t then
      match Sys.cancel s.sys t with
      | some s' => some { s with sys := s' }
      | none => none
    else none

def SpSys.execAll {σ : Type} (B : Backend σ) (prog : List COp) (sp : Spawn) : SpSys σ → List Act → Option (SpSys σ)
  | s, [] => some s
  | s, a :: as => match SpSys.exec B prog sp s a with
    | some s' => SpSys.execAll B prog sp s' as
    | none => none

/-- every task that exists has ended; a spawned task whose creator never reached the creating
chunk (it raised, or was cancelled, before) does not exist -/
def SpSys.allEnded {σ : Type} (sp : Spawn) (s : SpSys σ) : Bool :=
  (List.range s.sys.pcs.length).all fun t =>
    (match s.sys.pcs[t]? with | some p => p.settled | none => true) || !(s.live sp t)

/-! ### time

The awaits inside an `edit_state` body take time: `dur t k` is the number of seconds that the await
which ends chunk `k` of the body of task `t` takes (a slow call inside the block; `0`: a bare yield).
`TSys` adds a clock to `SpSys`; the scheduler has one more action, `tick d` (`d` seconds pass).  A
task suspended at such an await cannot run before the await is over (a cancellation request wakes it
at once, as `Task.cancel()` does); *nothing else* depends on the clock: the stores set no timers and
a task queued on the store lock waits for as long as it takes
(`GenStateStore.*TimerFree`, from the source: `patience = none`).

`patience op = some p` describes a store that does not have this shape: an operation that has been
queued on the lock for `p` seconds stops waiting and is carried out without the lock. -/

abbrev Durs := Nat → Nat → Nat

structure TSys (σ : Type) where
  sp : SpSys σ
  now : Nat := 0
  /-- per task: when the await it is suspended at inside its `edit_state` body is over -/
  wake : List Nat
  /-- per task: when it queued on the store lock -/
  since : List Nat

def TSys.init {σ : Type} (st : σ) (n : Nat) : TSys σ :=
  { sp := SpSys.init st n, wake := List.replicate n 0, since := List.replicate n 0 }

/-- scheduler actions of the timed system -/
inductive TAct where
  | act (a : Act)
  | tick (d : Nat)
  deriving Repr, DecidableEq, Inhabited

/-- the await (number) inside its `edit_state` body that task `t` is suspended at -/
def awaitIx (prog : List COp) (pcs : List Pc) (t : Nat) : Option Nat :=
  match prog[t]?, pcs[t]? with
  | some (.edit cs), some (.body _ rest _) => some (cs.length - (rest.length + 1))
  | _, _ => none

/-- task `t` is suspended at an await of its body that is not over yet -/
def TSys.asleep {σ : Type} (s : TSys σ) (t : Nat) : Bool :=
  match s.sp.sys.pcs[t]? with
  | some (.body _ _ _) => decide (s.now < s.wake.getD t 0)
  | _ => false

def isWaiting : Option Pc → Bool
  | some .waiting => true
  | _ => false

/-- an operation queued on the lock since `since` has run out of patience: it is taken out of the
FIFO and carried out on the spot, whoever holds the lock (one-section operations only) -/
def TSys.giveUp {σ : Type} (B : Backend σ) (prog : List COp) (patience : COp → Option Nat) (s : TSys σ) (t : Nat) :
    Option (TSys σ) :=
  match prog[t]?, s.sp.sys.pcs[t]? with
  | some (.edit _), _ => none
  | some op, some .waiting =>
    match patience op with
    | some p =>
      if s.since.getD t 0 + p ≤ s.now then
        some { s with sp := { s.sp with sys := enter B { s.sp.sys with queue := s.sp.sys.queue.erase t } t op } }
      else none
    | none => none
  | _, _ => none

def TSys.exec {σ : Type} (B : Backend σ) (prog : List COp) (sp : Spawn) (dur : Durs) (patience : COp → Option Nat)
    (s : TSys σ) : TAct → Option (TSys σ)
  | .tick d => some { s with now := s.now + d }
  | .act (.cancel t) =>
    match SpSys.exec B prog sp s.sp (.cancel t) with
    | some s' => some { s with sp := s' }
    | none => none
  | .act (.run t) =>
    if s.asleep t then none
    else
      match SpSys.exec B prog sp s.sp (.run t) with
      | some s' =>
        some { s with
          sp := s'
          wake := match awaitIx prog s'.sys.pcs t with
            | some k => s.wake.set t (s.now + dur t k)
            | none => s.wake
          since := if isWaiting s'.sys.pcs[t]? && !(isWaiting s.sp.sys.pcs[t]?) then s.since.set t s.now else s.since }
      | none => TSys.giveUp B prog patience s t

def TSys.execAll {σ : Type} (B : Backend σ) (prog : List COp) (sp : Spawn) (dur : Durs) (patience : COp → Option Nat) :
    TSys σ → List TAct → Option (TSys σ)
  | s, [] => some s
  | s, a :: as => match TSys.exec B prog sp dur patience s a with
    | some s' => TSys.execAll B prog sp dur patience s' as
    | none => none

/-- the schedule without its ticks -/
def untimed : List TAct → List Act
  | [] => []
  | .act a :: as => a :: untimed as
  | .tick _ :: as => untimed as

/-- how long an operation queues on the store lock before it stops waiting, as found in the source:
forever (the store modules use no timer) -/
def memPatience : COp → Option Nat := fun _ => if GenStateStore.memTimerFree then none else some 0
def sqlPatience : COp → Option Nat := fun _ => if GenStateStore.sqlTimerFree then none else some 0

/-- `p` occurs before `c` in `l` -/
def Before (l : List Nat) (p c : Nat) : Prop := ∃ l1 l2 l3, l = l1 ++ p :: l2 ++ c :: l3


/-- the operation task `t` counts with: its own, or — aborted inside the body — what it left behind -/
def effOp (prog : List COp) (pcs : List Pc) (t : Nat) : Option COp :=
  match pcs[t]? with
  | some (.aborted kept) => some (.edit [kept])
  | _ => prog[t]?

/-- serial execution of the operations `f t` of the tasks `order` -/
def serialBy {σ : Type} (B : Backend σ) (f : Nat → Option COp) (st : σ) (order : List Nat) : σ :=
  order.foldl (fun acc t => match f t with
    | some op => (B.step acc op.toOp).1
    | none => acc) st

/-- the serial execution of the operations of the tasks `order`, one after the other -/
def serial {σ : Type} (B : Backend σ) (prog : List COp) (st : σ) (order : List Nat) : σ :=
  order.foldl (fun acc t => match prog[t]? with
    | some op => (B.step acc op.toOp).1
    | none => acc) st

end StateStore
