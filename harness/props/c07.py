"""C07 — retry building blocks obey their algebra and bounds."""
from __future__ import annotations

from .. import policy
from ..runner import Env, Outcome

THEOREMS = ["C07_source_shape", "C07_retry_any_is_or", "C07_retry_all_is_and", "C07_stop_any_is_or", "C07_stop_all_is_and",
            "C07_operators", "C07_wait_combine_is_sum", "C07_wait_plus", "C07_fixed", "C07_exponential_bounds",
            "C07_incrementing_bounds", "C07_random_bounds", "C07_exp_jitter_bounds", "C07_random_exp_bounds",
            "C07_chain_bounds", "C07_combine_nonneg", "C07_deterministic"]
LEAN_TARGETS = ["WfProps.C07"]
EXPLANATION = (
    "The __call__ bodies of every wait/stop/retry building block are TRANSLATED from retry_policy.py into Lean "
    "(Generated.lean, exact rationals) on every run; the theorems (logical algebra of any/all and |,&; combine = sum; "
    "documented interval of every strategy for all attempts and all jitter draws u in [0,1]; chain picks a member) are "
    "re-proved against that. The hand-written parts (wait_chain index, composed next, operator sugar) are pinned by "
    "C07_source_shape. Correspondence: random two-level policies evaluated by the real classes and by the model on "
    "exact dyadic inputs (stubbed jitter draw), compared as exact rationals. Implementation-only extreme stream: huge "
    "attempts/bases -> finite, within bounds, no exception, deterministic per seed, seed-dependent."
)
ASSUMPTIONS = [
    "float arithmetic is not modelled: exact rationals in Lean; the compared stream uses inputs on which every float operation is exact",
    "random.Random(seed).random() in [0,1) and uniform(a,b) = a + (b-a)*random() (CPython) are trusted",
    "exceptions are abstracted to ids; retry_if_exception_message / cause_type / user predicates are arbitrary Cond functions in the theorems",
    "fixed in this tree (F03, f30f2da): float overflow of exp_base**attempts saturates at max",
]


def run(env: Env) -> Outcome:
    out = Outcome()
    out.rule = ("random two-level policy specs x attempts x elapsed x exception x jitter draw (exact), plus an extreme stream on the implementation; "
                "non-trivial = every evaluated line; distinct by op line")
    policy.correspondence(env, out, env.budget(6000, 120000))
    policy.extreme_and_seed_stream(env, out, env.budget(600, 12000))
    policy.algebra_stream(env, out, env.budget(1500, 30000))
    policy.units_stream(env, out, env.budget(150, 3000))
    return out
