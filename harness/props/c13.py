"""C13 — a server restart at any persisted point resumes without losing work."""
from __future__ import annotations

import asyncio
import copy
import json
import os
import random
import re
from typing import Any

from ..engine import enc, live, specgen, suite
from ..engine import evtypes as ET
from ..engine.direct import oracle_tokens
from ..runner import Divergence, Driver, Env, Outcome, Violation, diff_streams
from ..server import restart
from ..server.stack import Stack
from ..vloop import run_virtual

THEOREMS = [
    "C13_finalize",
    "C13_finalize_matches_live",
    "C13_replay_reproduces_state",
    "C13_state_kept",
    "C13_quiescent_prefix_partial",
    "C13_refuted",
    "C13_refuted_sent_event",
    "C13_refuted_second_restart",
    "C13_refuted_requirements",
    "C13_start_picks",
    "C13_restart_at_most_once",
    "C13_source_shape",
    "C13_stream_ticks_complete",
    "C13_tick_stream_shape",
    "C13_woken_run_not_idle",
    "C13_woken_run_resumed",
    "C13_idle_run_reloaded_by_send",
    "C13_idle_mark_shape",
    "C13_every_log_prefix_is_a_stop_point",
    "C13_replay_every_log_prefix",
    "C13_replay_prefix_closed_exit_kept",
    "C13_unreplayable_prefix_stays_unreplayable",
    "C13_start_picks_complete",
    "C13_no_state_marked_failed",
    "C13_legacy_ctx_resumed",
    "C13_tick_table_is_the_append_log",
    "C13_tick_append_shape",
]
LEAN_TARGETS = ["WfProps.C13"]
EXPLANATION = (
    "Lean model Replay (replay_ticks_stream exactly as coded: rewind at the replay clock, fold _reduce_tick over ALL persisted ticks at the "
    "replay clock, every command dropped except the last exit one; handler_status_from_exit_command; context_from_ticks incl. the None and "
    "legacy-ctx branches; to_serialized -> Context.from_dict = Serial.roundtrip; workflow.run(ctx=) = Runner.init (rehydrate, rewind, timeout "
    "re-armed, timer heap / tick buffer / mailbox NOT restored); _on_server_start's selection). Proved for all schedules, step results and "
    "external ticks (induction over action lists, any replay clock, policies that do not look at elapsed time): replaying the ticks persisted "
    "so far never raises and rebuilds the live reducer state up to first-attempt timestamps, hence the same serialised context up to those timestamps "
    "(C13_replay_reproduces_state); a log whose replay ends in an exit command is mapped to completed+result / failed+error / cancelled / "
    "timed-out->failed and no runner is started, and that status is the live outcome (C13_finalize, C13_finalize_matches_live); the resumed "
    "runner holds, per step, exactly the queued + in-progress invocations of the live state (a permutation; every in-progress one restarted or "
    "queued behind the worker limit), the same buffers, waiters and running flag (C13_state_kept) and, if the live tick buffer, mailbox and "
    "work-carrying timers were empty, nothing of the live runner is missing (C13_quiescent_prefix_partial). The full statement 'every prefix' "
    "is REFUTED (F12): queue-event commands are discarded by replay, so a stop right after a persisted step_result loses the step's output "
    "(C13_refuted); an event a step sent with ctx.send_event that is still in the mailbox when the step's completion is persisted is lost "
    "the same way (C13_refuted_sent_event); and a log that spans an earlier resume is replayed without that resume's re-queueing, so a "
    "second restart raises 'Worker n not found' or duplicates work (C13_refuted_second_restart); a persisted AddWaiter loses its requirements (and the has_requirements mark), so replay resolves the waiter with any logged event of the awaited type (C13_refuted_requirements; all positive theorems carry the guard NoRequirements). Tie: for every prefix k of every generated "
    "run's persisted log the real _on_server_start -> context_from_ticks -> replay_ticks_stream -> workflow.run(ctx=) on the real stack "
    "(memory and sqlite stores) is compared with the model's `restart` op on the same tick lines (decision, exit status, result, resumed "
    "runner: buffer, heap, started workers, state), plus context_from_ticks on truncated stores, plus the handler selection on generated "
    "handler tables; the start query, the exit-status table, the shape of replay_ticks_stream (rewind first, one reduce per tick, no early exit), 'on_tick before the command loop' and 'validate before replay' are re-extracted from the sources into GenReplay.lean and pinned by C13_source_shape. Search: the process is stopped at the instant the k-th tick is persisted (for EVERY k), restarted, and the run must end "
    "with the uninterrupted run's status, result and state-store contents; finalized handlers must not enter any step; ticks must be "
    "persisted before any of their commands take effect. Reading the log back: model TickStream (SqliteWorkflowStore.stream_ticks: keyset pages of _TICK_PAGE_SIZE rows, cursor = last "
    "row yielded, stop on a short page); C13_stream_ticks_complete: for every strictly increasing sequence column of any length and every positive page size the stream is exactly "
    "get_ticks' rows, in order, none skipped or repeated; C13_tick_stream_shape pins the page size, both page queries, the cursor assignment and the exit test re-extracted from the source. "
    "Tie: `stream` op on the table's own sequence column for logs below, at and beyond 1, 2, 3 pages (page size read from the source on every run). Search: stream_ticks, get_ticks and "
    "stream_workflow_ticks of both stores against what append_tick was given (a second run interleaved); a chain persisting more than two pages of ticks restarted from the sqlite and memory "
    "stores at stops beyond one and two pages and after its end (same result and state store as uninterrupted; the restart must replay every persisted tick once, in order). The harness' "
    "notion of 'the persisted log' is the record of append_tick calls, not a read of the store. "
    "Every prefix / any log / the table: C13_every_log_prefix_is_a_stop_point (at most one tick is persisted per runner action and the log is never rewritten, so the first k ticks of any run's log are the whole log of that run stopped after a prefix of its schedule) and C13_replay_every_log_prefix (C13_replay_reproduces_state restated over log prefixes); for arbitrary tick lists C13_replay_prefix_closed_exit_kept (replay of a++b succeeding implies replay of a succeeds and the whole is its continuation; an exit command is never forgotten; exit_command is always one of the three exit commands and only the idle release maps to resume) and C13_unreplayable_prefix_stays_unreplayable; C13_start_picks_complete (no eligible run overlooked), C13_no_state_marked_failed, C13_legacy_ctx_resumed. Model TickTable (sqlite append_tick's COALESCE(MAX(sequence) of the run, -1)+1 statement, the memory store's existing[-1].sequence+1 / 0 rule, get_ticks of both): C13_tick_table_is_the_append_log — after ANY interleaved history of appends each run's rows are what was appended, in call order, numbered 0..n-1, the same in both stores, and stream_ticks over them is complete; C13_tick_append_shape pins the constants and statement shapes re-extracted from both stores. Tie: `c13table` op against get_ticks of the real stores on every paging history and on short histories over 1..5 interleaved runs; search: C13/stored_log_is_not_the_append_log on both readers of both stores. "
    "The full server stack (WorkflowServer always puts IdleReleaseDecorator around PersistenceDecorator, and the start query reads the idle marker that layer maintains): model RowMark "
    "(idle announcement sets the marker; a returned send_event clears it, reloading a released run first; release; process stop) and restartHandler (marker set: the row is skipped, else restartRun). "
    "C13_woken_run_not_idle: after ANY history, once a send_event has returned and the run has not announced idleness again, the row does not carry the marker; C13_woken_run_resumed: such a row is "
    "the start query's next `restart` verdict and its restart is restartRun (so the state theorems apply); C13_idle_run_reloaded_by_send: a row that does carry it is skipped and the next send brings "
    "the run back and clears it; C13_idle_mark_shape pins the four source facts the model rests on (announcement writes idle_since before publishing; send_event clears it on the in-memory path and "
    "reloads on the other, before the tick is handed on; the reload clears it after workflow.run). Tie: `rowmark` (marker / in-memory flag after the events the harness saw, at every returned send and "
    "every stop, against the handler row and _active_run_ids) and `restartrow` (restart decision with the marker computed from those events, not read from the store). Search: generated runs on the "
    "full stack that go idle (wait_for_event, two waits in a row, human-in-the-loop request answered through another step), are answered while in memory (idle_timeout 3600 / 60 / 2 s) or after "
    "their release (2 s, late answer), and then have a gated chain or fan-out/collect to do; stopped at every persisted tick AND at every instant of the uninterrupted run at which nothing was "
    "runnable (the same prefixes with every command executed: the really idle run, its row marked); rules: a run whose persisted reducer state has work queued or in progress is resumed by the restart "
    "(C13/run_with_work_in_progress_not_resumed:<how it was woken>), its row does not carry the marker at the stop (C13/busy_run_marked_idle_in_store:…) nor when the waking send_event has returned "
    "(C13/row_marked_idle_after_send_returned:in_memory|reload), and every restart ends with the uninterrupted result (a really idle run is skipped by the restart and reloaded by the answer)."
)
LEVEL_TEXT = "proof (refuted clauses recorded as known findings; quiescent-prefix part proved)"
ASSUMPTIONS = suite.ENGINE_ASSUMPTIONS + [
    "'deterministic workflow' = specgen.gen_det_spec family (result and store independent of the schedule; store writes idempotent per input event), checked by comparing with an uninterrupted run",
    "a process stop is modelled as: no store write after the chosen append_tick returns, all in-memory tasks cancelled, a fresh runtime stack over the same store object/file (memory store: the same Python object stands for a durable store)",
    "theorems about the replay clock assume retry policies that do not look at elapsed time (TimeFree); generated policies are attempt-based",
    "pending delayed retries / waiter timeouts at the stop point are only classified (C13/stuck_after_pending_timer) — that loss is property C14's subject",
    "error strings are abstracted to their origin (step exception id, timeout, no-state, resume error)",
    "the model replays with the live configuration (catch_error tables included): true of the code since the repair fix-C13 (context_from_ticks validates first); on the unrepaired tree C13_source_shape and the `restart` correspondence fail",
    "C13_state_kept assumes the live state's running flag is set (it is after the start tick unless the run ended); theorems are about logs of runs started fresh (logs that span a resume: C13_refuted_second_restart)",
    "postgres / DBOS / agent-data stores are not run (their paginated stream_ticks are separate code with the same page loop)",
    "RowMark: memory / sqlite store calls never yield, so an idle announcement, a send_event and a release are atomic with respect to each other (the interleavings with stores that suspend are C26 / C36, model Lifecycle); the harness' idle-marker events are its own observations (WorkflowIdleEvent at the innermost adapter, return of the idle layer's send_event, _release_idle_handler dropping the run), never a read of the handler row",
    "full-stack family: no timers (retry delays, waiter timeouts) -- a run woken by a timer of the dead process is C14's subject and is classified :internal_wakeup; stop points at which an event sent with ctx.send_event is persisted while its sender's step result is not are skipped in this family (counted; see the report on C13/wrong_result_after_event_sent_again_by_reexecuted_step)",
    "TickStream / TickTable: one writer per store (append_tick calls do not overlap: sqlite runs the INSERT in one transaction, the memory store never yields); under that, the strictly increasing sequence column is proved from the writer's statement (C13_tick_table_is_the_append_log) and checked on every generated log",
]
TRUSTED_EXTRA = [
    "harness/server/stack.py, harness/server/restart.py: in-process WorkflowServer wiring (with or without the idle-release layer), store views with a kill switch and a record of every append_tick call (the reference log), tick-log truncation, stops at a persisted tick or at the next quiet instant, call-through spies on the idle layer's send_event / _release_idle_handler",
]

NOSTATE = "handler crashed before persisting any state; cannot resume"
HORIZON = 60.0


# --------------------------------------------------------------------------
# canonical forms


def canon_error(s: str | None) -> str:
    if s is None:
        return "_"
    if s == NOSTATE:
        return "nostate"
    if re.fullmatch(r"e\d+", s):
        return s
    if s.startswith("Operation timed out after"):
        return "timeout"
    return "error"


def res_value(r: Any) -> Any:
    return getattr(r, "result", None) if r is not None else None


def _policy_tokens(calls: list) -> str:
    ent: list = []
    for c in calls:
        ent += list(c.oracle)
    return oracle_tokens(ent)


def restart_lines(res: restart.CaseResult, pi: int, cfg_line: str) -> tuple[list[str], list[str], dict]:
    """model op + what the implementation did, for the restart that begins phase `pi`"""
    from workflows.runtime.types import commands as C

    ph = res.phases[pi]
    calls = res.phase_calls(pi)
    rp = [c for c in calls if c.caller == "replay_ticks_stream"]
    rw0 = next((c for c in rp if c.kind == "rewind"), None)
    reds = [c for c in rp if c.kind == "reduce"]
    runrw = next((c for c in calls if c.caller == "run" and c.kind == "rewind"), None)
    ticks = res.ticks[: ph.ticks_at_start]  # what append_tick was given (not a read of the store): the model replays the WHOLE persisted log
    now0 = rw0.now if rw0 is not None else ph.vtime_start
    nows = sorted({c.now for c in reds})
    now = nows[0] if nows else now0
    info = {"replayed": len(reds), "nows": nows}
    nowR = runrw.now if runrw is not None else now
    op = "restart %s %s %s %s %s %s %s" % (enc.num(now0), enc.num(now), enc.num(nowR), "E 0 s 0 _ _", enc.num(res.spec.get("timeout")),
                                           _policy_tokens(reds), enc.lst([enc.tick(t) for t in ticks]))
    if res.idle_timeout is not None:
        # the full stack: what the model's start query sees of the row is computed from the events the harness saw
        # (idle announcements, returned sends, releases, earlier stops), not read from the store
        op = "restartrow %s %s" % (enc.lst(row_tokens(res.rowevs[: res.phases[pi - 1].rowevs_at_stop])), op[len("restart "):])
    if ph.active_after_start:
        if runrw is None:
            exp = "resume <no runner observed>"
        else:
            rinfo = runrw.runner
            heap = [f"{enc.num(t)} {seq} {enc.tick(tk)}" for (t, seq, tk) in rinfo.get("heap", [])]
            workers = sorted((int(enc.step_id(c.step_name)), c.id) for c in runrw.cmds if isinstance(c, C.CommandRunWorker))
            npub = sum(1 for c in runrw.cmds if isinstance(c, C.CommandPublishEvent))
            exp = "resume B %s H %s R %s S %d P 0 O running ;; %s" % (
                enc.lst([enc.tick(t) for t in rinfo.get("buffer", [])]), enc.lst(heap), enc.lst([f"{a} {b}" for a, b in workers]), npub,
                enc.state(runrw.after))
    else:
        st = ph.status_at_start
        err = canon_error(ph.error_at_start)
        if st == "failed" and err in ("nostate", "error"):
            exp = "markfailed " + err
        elif st == "running":
            exp = "skip"
        else:
            rs = "_" if ph.result_at_start is None else enc.pub(ph.result_at_start)
            exp = f"finalize {st} result {rs} error {err}"
    return [cfg_line, op], ["ok", exp], info


ROW_TOKEN = {"idle": "I", "send": "S", "released": "R", "stop": "P"}


def row_tokens(evs: list) -> list[str]:
    return [ROW_TOKEN[e[0]] for e in evs]


def rowmark_lines(r: restart.CaseResult, ops: list[str], exp: list[str], owner: list, payload: dict, out: Outcome) -> None:
    """K for the idle marker: after every send_event that returned and at every stop, the model's marker / in-memory flag
    for the events seen so far against the handler row and `_active_run_ids` of the real stack"""
    if r.idle_timeout is None:
        return
    for i, e in enumerate(r.rowevs):
        if e[0] == "send" and e[1].get("row_idle") is not None:
            ops.append("rowmark " + enc.lst(row_tokens(r.rowevs[: i + 1])))
            exp.append("idle %d mem %d" % (1 if e[1]["row_idle"] else 0, 1 if e[1]["mem_after"] else 0))
            owner.append(payload)
            out.count("K:rowmark:send:" + ("in_memory" if e[1]["mem_before"] else "reload"))
    for ph in r.phases:
        if ph.crashed_at is not None and ph.row_idle_at_stop is not None and ph.mem_at_stop is not None:
            ops.append("rowmark " + enc.lst(row_tokens(r.rowevs[: ph.rowevs_at_stop])))
            exp.append("idle %d mem %d" % (1 if ph.row_idle_at_stop else 0, 1 if ph.mem_at_stop else 0))
            owner.append(payload)
            out.count("K:rowmark:stop")


def cfg_line_of(res: restart.CaseResult) -> str:
    for c in res.trace.calls:
        if c.before is not None:
            return "cfg " + enc.cfg(c.before)
    return "cfg C 0 0 0"


# --------------------------------------------------------------------------
# monitors


def classify_loss(vol: dict | None) -> str | None:
    """which volatile work existed at the stop instant (None: nothing but the reducer state)"""
    if not vol:
        return None
    if any(b in ("TickAddEvent", "cmd:CommandQueueEvent") for b in vol.get("buffer", [])):
        return "unflushed_queue_event"
    if any(m == "TickAddEvent" for m in vol.get("mailbox", [])):
        return "unpulled_sent_event"
    if vol.get("timers"):
        return "pending_timer"
    if vol.get("mailbox") or vol.get("buffer"):
        return "other_undelivered_tick"
    return None


def outcome_of(r: restart.CaseResult) -> tuple:
    return (r.status, json.dumps(res_value(r.result), sort_keys=True, default=repr), json.dumps(r.store, sort_keys=True, default=repr))


def case_payload(spec: dict, seed: int, kind: str, crash_at: list[int], **kw: Any) -> dict:
    d = {"crash": {"spec": spec, "seed": seed, "kind": kind, "crash_at": crash_at}}
    d["crash"].update(kw)
    return d


def entered(r: restart.CaseResult, pi: int) -> list:
    return [(s[1], s[2]) for s in r.phase_steps(pi) if s[0] == "enter"]


def _without_requirements(t: Any) -> Any:
    """requirements of an AddWaiter are the one part of a tick the store is known not to keep (C13/requirement_lost_in_persisted_waiter,
    tied by the `persist` correspondence); everything else must come back as processed"""
    from workflows.runtime.types import results as RR
    from workflows.runtime.types import ticks as TT

    if isinstance(t, TT.TickStepResult) and any(isinstance(x, RR.AddWaiter) and x.requirements for x in t.result):
        return t.model_copy(update={"result": [x.model_copy(update={"requirements": {}}) if isinstance(x, RR.AddWaiter) else x for x in t.result]})
    return t


def check_persist_before_effects(r: restart.CaseResult, out: Outcome, payload: dict) -> None:
    """mechanism: on_tick persists a tick right after it was reduced and before any of its commands run"""
    calls = [c for c in r.trace.calls if c.caller == "_process_tick"]
    for (n, ncalls, nstream) in r.appends:
        # the n-th persisted tick must be the tick of the ncalls-th reducer call, with nothing published in between
        if ncalls < 1 or ncalls > len(calls):
            out.violations.append(Violation("C13/tick_persisted_without_reduce", f"append #{n} happened after {ncalls} reducer calls", payload))
            return
        c = calls[ncalls - 1]
        if c.stream_len != nstream:
            out.violations.append(Violation("C13/tick_persisted_after_effects",
                                            f"persisted tick #{n} ({type(c.tick).__name__}) was written after {nstream - c.stream_len} stream write(s) of its own commands", payload))
            return
    # every processed tick (reducer call that returned) is persisted, in order, exactly once
    ok_calls = [c for c in calls if c.error is None]
    if len(r.appends) != len(ok_calls) and not any(p.crashed_at is not None for p in r.phases):
        out.violations.append(Violation("C13/processed_tick_not_persisted", f"{len(ok_calls)} ticks processed, {len(r.appends)} persisted", payload))
    want = [enc.tick(_without_requirements(c.tick)) for c in ok_calls][: len(r.ticks)]
    got = [enc.tick(_without_requirements(t)) for t in r.ticks]
    if not any(p.crashed_at is not None for p in r.phases) and want != got:
        i = next((j for j in range(min(len(want), len(got))) if want[j] != got[j]), min(len(want), len(got)))
        out.violations.append(Violation("C13/persisted_log_differs_from_processed_ticks", f"first difference at tick {i}", payload))


def resend_exposed(base: restart.CaseResult, k: int) -> list:
    """events in the first k persisted ticks that were sent with ctx.send_event by an invocation whose own completion is not
    among those k ticks: [(sender step, sender's input uid, sent uid)].  A restart re-executes that invocation from the top
    (it is in progress in the replayed state), and it sends the already accepted event again."""
    from workflows.runtime.types import ticks as T

    prefix = base.ticks[:k]
    accepted = {getattr(t.event, "uid", None) for t in prefix if isinstance(t, T.TickAddEvent)}
    done = {(t.step_name, getattr(t.event, "uid", None)) for t in prefix if isinstance(t, T.TickStepResult)}
    return [(s_[1], s_[2], s_[5]["new_uid"]) for s_ in base.phase_steps(0)
            if s_[0] == "sent" and s_[5].get("new_uid") in accepted and (s_[1], s_[2]) not in done]


def judge_single(base: restart.CaseResult, r: restart.CaseResult, k: int, out: Outcome, payload: dict) -> str:
    """one stop after persisted tick k (1 <= k <= n) and one restart; returns a tag for the distribution"""
    n = len(base.ticks)
    want = outcome_of(base)
    if len(r.phases) < 2:
        out.violations.append(Violation("C13/stop_point_not_reached", f"log of the re-run has {len(r.ticks)} ticks, stop point {k} never reached (run not reproducible)", payload))
        return "not_reached"
    p1 = r.phases[1]
    got = outcome_of(r)
    if k == n:
        # the persisted ticks already end the run: finalize with the matching status, do not re-run
        if p1.active_after_start or entered(r, 1):
            out.violations.append(Violation("C13/finalized_run_re_executed",
                                            f"log of {n} ticks ends the run ({base.status}); after restart active={p1.active_after_start}, steps entered {entered(r, 1)[:4]}", payload))
        elif p1.status_at_start != base.status:
            out.violations.append(Violation(f"C13/finalize_status_{base.status}_as_{p1.status_at_start}",
                                            f"uninterrupted run ended {base.status}; the restart finalized the handler as {p1.status_at_start} (error {p1.error_at_start!r})", payload))
        elif json.dumps(res_value(p1.result_at_start), sort_keys=True, default=repr) != want[1]:
            out.violations.append(Violation("C13/finalize_result_differs", f"uninterrupted result {want[1]}, finalized result {res_value(p1.result_at_start)!r}", payload))
        elif base.status == "failed" and re.fullmatch(r"e\d+", canon_error(base.error)) and canon_error(p1.error_at_start) != canon_error(base.error):
            out.violations.append(Violation("C13/finalize_error_differs", f"uninterrupted error {base.error!r}, finalized error {p1.error_at_start!r}", payload))
        return "finalize"
    loss = classify_loss(r.phases[0].volatile)
    wrong = wrong_deliveries(r, 1)
    if wrong:
        vol = r.phases[0].volatile or {}
        sig = "C13/requirement_lost_in_persisted_waiter" if vol.get("req_waiters") or vol.get("req_waiters_logged") else "C13/wait_requirement_violated_after_restart"
        out.violations.append(Violation(sig, f"stop after persisted tick {k} of {n}: after the restart wait_for_event returned an event that does not meet its requirements "
                                             f"(step, got k, required k) {wrong[:3]}; uninterrupted {want[0]} {want[1]}, after restart {got[0]} {got[1]}; "
                                             f"unresolved waiters with requirements at the stop: {vol.get('req_waiters')}", payload))
        return "wrong_delivery"
    if got == want:
        # every invocation of the uninterrupted run happened at least once
        have = set(entered(r, 0)) | set(entered(r, 1))
        missing = [e for e in set(entered(base, 0)) if e not in have]
        if missing:
            # e.g. the run is ended by the workflow timeout either way, but the lost event's consumer never ran
            out.violations.append(Violation(f"C13/stuck_after_{loss}" if loss else "C13/invocation_missing",
                                            f"same outcome {want[0]}, but invocations {sorted(missing)[:4]} of the uninterrupted run never happened; volatile at the stop: {r.phases[0].volatile}", payload))
            return "invocation_missing" + (":" + loss if loss else "")
        return "resumed_ok" + (":" + loss if loss else "")
    if r.status == "running":
        kindw = "stuck"
    elif r.status != base.status:
        kindw = f"ended_{r.status}_{canon_error(r.error)}"
    elif got[1] != want[1]:
        kindw = "wrong_result"
    else:
        kindw = "wrong_store"
    sig = f"C13/{kindw}_after_{loss}" if loss else f"C13/resumed_run_{kindw}"
    vol = r.phases[0].volatile or {}
    resent = resend_exposed(base, k)
    again = [x for x in resent if any(s_[0] == "sent" and s_[5].get("new_uid") == x[2] for s_ in r.phase_steps(1))]
    if again and kindw in ("wrong_result", "wrong_store"):
        # a different way of losing the result: the accepted event is delivered twice (and displaces another one)
        out.violations.append(Violation(f"C13/{kindw}_after_event_sent_again_by_reexecuted_step",
                                        f"stop after persisted tick {k} of {n} ({enc.tick(base.ticks[k - 1])[:60]}): the log holds the event(s) {[x[2] for x in again]} sent with "
                                        f"ctx.send_event by {[(x[0], x[1]) for x in again]}, whose own step result is not persisted yet; the restart re-executes that invocation and it "
                                        f"sends them again: uninterrupted {want[0]} {want[1]}, after restart {got[0]} {got[1]}; invocations entered after the restart {entered(r, 1)[:8]}", payload))
        return kindw + ":event_sent_again"
    out.violations.append(Violation(sig, f"stop after persisted tick {k} of {n} ({enc.tick(base.ticks[k - 1])[:60]}): uninterrupted {want[0]} {want[1]}, "
                                         f"after restart {got[0]} {got[1]} error={r.error!r}{' (state store ' + want[2][:80] + ' vs ' + got[2][:80] + ')' if kindw == 'wrong_store' else ''}; volatile at the stop: buffer {vol.get('buffer')} (events {vol.get('buffer_events')}), "
                                         f"mailbox {vol.get('mailbox')} (events {vol.get('mailbox_events')}), timers {vol.get('timers')}", payload))
    return kindw + (":" + loss if loss else "")


def wake_cause(evs: list) -> str:
    """how the run came by the work it has, from the harness' own record of the idle marker's events before the stop"""
    last_idle = max((i for i, e in enumerate(evs) if e[0] == "idle"), default=-1)
    last_send = max((i for i, e in enumerate(evs) if e[0] == "send"), default=-1)
    if last_idle < 0:
        return "never_idle"
    if last_send > last_idle:
        return "woken_in_memory" if evs[last_send][1].get("mem_before") else "woken_by_reload"
    return "internal_wakeup"  # no send since the announcement: a timer of the dead process (property C14's subject)


def judge_idle_layer(base: restart.CaseResult, r: restart.CaseResult, k: int, out: Outcome, payload: dict) -> str | None:
    """the full server stack (idle-release layer around persistence), one stop after persisted tick k < n: a run that has
    work queued or in progress in its persisted reducer state is resumed by the restart; and (store side, stated on its
    own) its handler row does not carry the idle marker at the stop.  Oracles: the reducer state after the k-th tick as the
    harness observed it, and the harness' own record of announcements / sends -- not the handler row."""
    if r.idle_timeout is None or len(r.phases) < 2:
        return None
    n = len(base.ticks)
    p0, p1 = r.phases[0], r.phases[1]
    vol = p0.volatile or {}
    busy = vol.get("inflight", 0) > 0
    cause = wake_cause(r.rowevs[: p0.rowevs_at_stop])
    out.count(f"idle_layer:stop:{'busy' if busy else 'no_work'}:{cause}:row_{'idle' if p0.row_idle_at_stop else 'clear'}")
    if not busy or k >= n:
        return None
    tag = None
    where = (f"stop ({p0.mode}) after persisted tick {k} of {n} ({enc.tick(base.ticks[k - 1])[:50]}), {r.kind} store, idle_timeout {r.idle_timeout}: "
             f"the persisted reducer state has {vol.get('inflight')} invocation(s) queued / in progress; before the stop the harness saw "
             f"{row_tokens(r.rowevs[: p0.rowevs_at_stop])} (I = idle announced, S = send_event returned, R = released from memory)")
    if p1.status_at_start == "running" and not p1.active_after_start:
        out.violations.append(Violation(f"C13/run_with_work_in_progress_not_resumed:{cause}",
                                        where + f"; the restarted server did not resume the run (handler left 'running', run not in memory after _on_server_start); "
                                                f"{HORIZON}s later: handler {r.status} result {res_value(r.result)!r}, steps entered after the restart {entered(r, 1)[:4]}; "
                                                f"uninterrupted: {base.status} {res_value(base.result)!r}; handler row at the stop: "
                                                f"idle marker {'set' if p0.row_idle_at_stop else 'clear'}", payload))
        tag = "busy_not_resumed:" + cause
    if p0.row_idle_at_stop:
        out.violations.append(Violation(f"C13/busy_run_marked_idle_in_store:{cause}",
                                        where + "; the handler row read after the stop carries the idle marker (idle_since set), so the start query "
                                                "(running, is_idle=False) of the next process does not see the run", payload))
        tag = tag or ("busy_marked_idle:" + cause)
    return tag


def check_send_rows(r: restart.CaseResult, out: Outcome, payload: dict, later: list | None = None) -> None:
    """store side, at the send itself: when the idle layer's send_event has returned (tick handed to the run), the handler row
    does not carry the idle marker -- read before anything of the tick was processed"""
    for e in r.rowevs:
        if e[0] == "send":
            out.count("S:send_row_checked:" + ("in_memory" if e[1].get("mem_before") else "reload"))
            if e[1].get("row_idle"):
                (later if later is not None else out.violations).append(Violation("C13/row_marked_idle_after_send_returned:" + ("in_memory" if e[1].get("mem_before") else "reload"),
                                                f"{r.kind} store, idle_timeout {r.idle_timeout}: send_event({e[1].get('tick')} uid {e[1].get('uid')}) returned at t={e[1].get('t')} for a run "
                                                f"{'in memory' if e[1].get('mem_before') else 'released from memory'}; the handler row still has idle_since set", payload))
                return


def judge_zero(r: restart.CaseResult, out: Outcome, payload: dict) -> None:
    """stop before any tick is persisted: outside the property ('after any persisted tick'); the code marks the handler failed"""
    if len(r.phases) < 2:
        return
    p1 = r.phases[1]
    if p1.active_after_start or entered(r, 1):
        out.violations.append(Violation("C13/empty_log_resumed", "a handler without any persisted tick was started again", payload))


# --------------------------------------------------------------------------
# reading the persisted log back: stream_ticks / get_ticks against what append_tick was given


def page_size(out: Outcome | None = None) -> int:
    """the sqlite store's page size: the literal in the source (harness/gen/replay.py), cross-checked with the imported module"""
    from ..gen import replay as genreplay

    notes: list[str] = []
    lit = genreplay.tick_page_size(notes)
    try:
        from llama_agents.server._store.sqlite import sqlite_workflow_store as SQ

        live_ps = getattr(SQ, genreplay.PAGE_CONST, None)
    except Exception as e:  # pragma: no cover
        live_ps = None
        notes.append(f"sqlite store module not importable: {e!r}")
    ps = live_ps if isinstance(live_ps, int) and not isinstance(live_ps, bool) and live_ps > 0 else lit
    if out is not None:
        for n_ in notes:
            if n_ not in out.notes:
                out.notes.append(n_)
        if lit is not None and isinstance(live_ps, int) and lit != live_ps and "page size literal differs from the module attribute" not in " ".join(out.notes):
            out.notes.append(f"page size literal differs from the module attribute: {lit} vs {live_ps}")
    return ps if isinstance(ps, int) and ps > 0 else 100


def _is_subseq(a: list, b: list) -> bool:
    it = iter(b)
    return all(any(x == y for y in it) for x in a)


def seq_diff(want: list[str], got: list[str]) -> tuple[str, str] | None:
    """how a read `got` of a log differs from the log `want` (both canonical strings, in order)"""
    if got == want:
        return None
    i = next((j for j in range(min(len(want), len(got))) if want[j] != got[j]), min(len(want), len(got)))
    where = f"first difference at position {i} of {len(want)} (read has {len(got)} entries)"
    if len(got) < len(want) and _is_subseq(got, want):
        return "drops_persisted_tick", where + f": {len(want) - len(got)} persisted tick(s) missing, the first one is #{i}"
    if len(got) > len(want) and _is_subseq(want, got):
        return "repeats_persisted_tick", where + f": {len(got) - len(want)} tick(s) too many"
    if sorted(got) == sorted(want):
        return "reorders_persisted_ticks", where
    return "differs_from_persisted_log", where


def rows_diff(want_data: list, rows: list) -> tuple[str, str] | None:
    """StoredTick rows of a read against the tick_data append_tick was given, in order"""
    bad = next((x for x in rows if isinstance(x, str)), None)
    if bad is not None:
        return "raises", bad
    d = seq_diff([json.dumps(x, sort_keys=True, default=repr) for x in want_data],
                 [json.dumps(x.tick_data, sort_keys=True, default=repr) for x in rows])
    if d is not None:
        return d
    seqs = [x.sequence for x in rows]
    if any(b <= a for a, b in zip(seqs, seqs[1:])):
        return "sequence_not_increasing", f"sequence numbers {seqs[:6]}..."
    return None


def check_store_reads(r: restart.CaseResult, out: Outcome, payload: dict) -> bool:
    """at the end of a real run: both readers of the store return exactly the ticks the run persisted"""
    ok = True
    for reader, rows in (("stream_ticks", r.streamed), ("get_ticks", r.listed)):
        d = rows_diff(r.appended_data, rows)
        if d is not None:
            ok = False
            out.violations.append(Violation(f"C13/{reader}_{d[0]}:{r.kind}",
                                            f"{r.kind} store, run of {len(r.appended_data)} persisted ticks: {reader}() {d[1]}", payload))
    out.count("S:store_reads_checked")
    return ok


def replay_input(r: restart.CaseResult, pi: int) -> tuple[list, bool] | None:
    """the ticks the restart of phase `pi` fed to the reducer (replay_ticks_stream), and whether the replay raised"""
    got: list = []
    started = False
    for c in r.phase_calls(pi):
        if not started:
            if c.caller == "replay_ticks_stream" and c.kind == "rewind":
                started = True
            continue
        if c.caller != "replay_ticks_stream" or c.kind != "reduce":
            break
        got.append(c.tick)
        if c.error is not None:
            return got, True
    return (got, False) if started else None


def check_replay_input(r: restart.CaseResult, pi: int, out: Outcome, payload: dict) -> bool:
    """mechanism: the restart replays every persisted tick, once, in log order"""
    ri = replay_input(r, pi)
    if ri is None:
        return True
    got_t, raised = ri
    want = [enc.tick(t) for t in r.ticks[: r.phases[pi].ticks_at_start]]
    got = [enc.tick(t) for t in got_t]
    if raised and got[:-1] == want[: len(got) - 1]:
        return True  # a replay that raised stops where it raised (judged by its outcome)
    d = seq_diff(want, got)
    out.count("S:replay_input_checked")
    if d is None:
        return True
    i = next((j for j in range(min(len(want), len(got))) if want[j] != got[j]), min(len(want), len(got)))
    out.violations.append(Violation(f"C13/replay_input_{d[0]}:{r.kind}",
                                    f"{r.kind} store, stop after {len(want)} persisted ticks: the restart replayed {len(got)} ticks; {d[1]}"
                                    + (f" ({want[i][:60]})" if i < len(want) else "")
                                    + f"; after the restart the run ended {r.status} result {res_value(r.result)!r} store {r.store!r}", payload))
    return False


def store_pages(case: dict, out: Outcome, ops: list[str], exp: list[str], owner: list) -> None:
    """append n = pages*P+extra ticks to one run (`other` ticks of a second run interleaved) and read them back"""
    from llama_agents.server._store.abstract_workflow_store import stream_workflow_ticks
    from workflows.runtime.types import ticks as T
    from workflows.runtime.types.ticks import WorkflowTickAdapter

    P = page_size(out)
    kind = case["kind"]
    n = case["n"] if "n" in case else max(0, int(case.get("pages", 0)) * P + int(case.get("extra", 0)))
    other = int(case.get("other", 0))
    rng = random.Random(case.get("seed", 0))
    payload = {"store_pages": dict(case)}
    got: dict[str, Any] = {}

    async def main(loop: Any) -> None:
        inner, db_path = Stack.make_store(kind, restart._fast_db_path() if kind == "sqlite" else None)
        try:
            order = ["r1"] * n + ["r2"] * other
            rng.shuffle(order)
            want: dict[str, list] = {"r1": [], "r2": [], "never": []}
            hist: list[tuple[str, int]] = []   # the append_tick calls in call order: (run, content code of the tick)
            codes: dict[str, int] = {}
            for rid in order:
                i = len(want[rid])
                tick = T.TickAddEvent(event=ET.T5(uid=(1000 if rid == "r1" else 500000) + i, k=i % 7)) if i % 5 else T.TickIdleCheck()
                td = WorkflowTickAdapter.dump_python(tick, mode="json")
                await inner.append_tick(rid, td)
                want[rid].append(json.loads(json.dumps(td)))
                code = ((1000 if rid == "r1" else 500000) + i) if i % 5 else 0
                codes[json.dumps(td, sort_keys=True)] = code
                hist.append((rid, code))
            got["want"] = want
            got["hist"] = hist
            got["codes"] = codes
            for rid in want:
                rd: dict[str, Any] = {}
                for name, fn in (("stream_ticks", lambda: _collect(inner.stream_ticks(rid))), ("get_ticks", lambda: inner.get_ticks(rid))):
                    try:
                        rd[name] = list(await fn())
                    except Exception as e:
                        rd[name] = [f"<raised {type(e).__name__}: {e}>"]
                try:
                    rd["typed"] = [enc.tick(t) async for t in stream_workflow_ticks(inner, rid)]
                except Exception as e:
                    rd["typed"] = [f"<raised {type(e).__name__}: {e}>"]
                got[rid] = rd
            if kind == "sqlite" and db_path is not None:
                import sqlite3

                conn = sqlite3.connect(db_path, timeout=30.0)
                try:
                    got["seqs"] = {rid: [x[0] for x in conn.execute("SELECT sequence FROM ticks WHERE run_id = ? ORDER BY sequence, id", (rid,)).fetchall()]
                                   for rid in want}
                finally:
                    conn.close()
        finally:
            if db_path:
                for suf in ("", "-wal", "-shm"):
                    try:
                        os.unlink(db_path + suf)
                    except OSError:
                        pass

    run_virtual(main, max_time=1_000_000.0)
    out.evaluations += 1
    rel = "=" if n % P == 0 else ("<" if n < P else ">")
    out.count(f"pages:{kind}:n{rel}{n // P}P")
    out.nontrivial(("store_pages", kind, n, other, case.get("seed", 0)))
    want = got.get("want", {})
    for rid in want:
        for reader in ("stream_ticks", "get_ticks"):
            d = rows_diff(want[rid], got[rid][reader])
            if d is not None:
                out.violations.append(Violation(f"C13/{reader}_{d[0]}:{kind}",
                                                f"{kind} store (page size {P}), {len(want[rid])} ticks appended to run {rid!r}"
                                                f"{' interleaved with ' + str(len(want['r2' if rid == 'r1' else 'r1'])) + ' of another run' if rid != 'never' else ''}: "
                                                f"{reader}() {d[1]}", payload))
        typed_want = [enc.tick(WorkflowTickAdapter.validate_python(copy.deepcopy(x))) for x in want[rid]]
        d2 = seq_diff(typed_want, got[rid]["typed"])
        if d2 is not None and rows_diff(want[rid], got[rid]["stream_ticks"]) is None:
            out.violations.append(Violation(f"C13/stream_workflow_ticks_{d2[0]}:{kind}", f"{kind} store, {len(want[rid])} ticks: stream_workflow_ticks {d2[1]}", payload))
        # K: the table after this history of append_tick calls (both stores): get_ticks' (sequence, content) rows against the model
        if "hist" in got:
            rnum = {"r1": 1, "r2": 2, "never": 3}
            ops.append("c13table %s %d %s" % ("sql" if kind == "sqlite" else "mem", rnum[rid],
                                              enc.lst(["%d %d" % (rnum[r_], c_) for r_, c_ in got["hist"]])))
            rows = got[rid]["get_ticks"]
            exp.append("raised" if any(isinstance(x, str) for x in rows) else
                       enc.lst(["%d:%d" % (x.sequence, got["codes"].get(json.dumps(x.tick_data, sort_keys=True), -1)) for x in rows]))
            owner.append(payload)
            out.count("K:c13table:" + kind)
            out.count("K:c13table:appends", len(got["hist"]))
        # K: the paginated reader of the sqlite store against the model, on the sequence column as it is in the table
        if kind == "sqlite" and "seqs" in got:
            ops.append("stream %d %s" % (P, enc.lst([str(x) for x in got["seqs"][rid]])))
            rows = got[rid]["stream_ticks"]
            exp.append(enc.lst([str(x.sequence) for x in rows]) if not any(isinstance(x, str) for x in rows) else "raised")
            owner.append(payload)
            out.count("K:stream")
            out.count("K:stream:rows", len(got["seqs"][rid]))


def table_corr(case: dict, out: Outcome, ops: list[str], exp: list[str], owner: list) -> None:
    """K (+S): a short history of append_tick calls over 1..5 runs in a generated interleaving, on one store; every run's get_ticks
    and stream_ticks rows as (sequence, content) against the model's `c13table`; S: per run, the rows are what was appended, numbered 0..n-1"""
    kind = case["kind"]
    hist: list[tuple[int, int]] = [tuple(x) for x in case["hist"]]  # type: ignore[misc]
    payload = {"table": dict(case)}
    got: dict[int, Any] = {}

    async def main(loop: Any) -> None:
        inner, db_path = Stack.make_store(kind, restart._fast_db_path() if kind == "sqlite" else None)
        try:
            for r_, c_ in hist:
                await inner.append_tick("run-%d" % r_, {"type": "c13-table", "code": c_})
            for r_ in sorted({r for r, _ in hist} | {99}):
                rd: dict[str, Any] = {}
                for name, fn in (("get_ticks", lambda: inner.get_ticks("run-%d" % r_)), ("stream_ticks", lambda: _collect(inner.stream_ticks("run-%d" % r_)))):
                    try:
                        rd[name] = [(x.sequence, x.tick_data.get("code", -1)) for x in await fn()]
                    except Exception as e:
                        rd[name] = f"<raised {type(e).__name__}: {e}>"
                got[r_] = rd
        finally:
            if db_path:
                for suf in ("", "-wal", "-shm"):
                    try:
                        os.unlink(db_path + suf)
                    except OSError:
                        pass

    run_virtual(main, max_time=1_000_000.0)
    out.evaluations += 1
    nruns = len({r for r, _ in hist})
    out.count(f"table:{kind}:runs={nruns}")
    out.count("table:appends", len(hist))
    out.nontrivial(("table", kind, tuple(hist)))
    for r_, rd in got.items():
        want = [(i, c) for i, c in enumerate([c for rr, c in hist if rr == r_])]
        for reader in ("get_ticks", "stream_ticks"):
            rows = rd[reader]
            if rows != want:
                if isinstance(rows, str):
                    what = "raised"
                elif [c for _, c in rows] != [c for _, c in want]:
                    what = "content"
                else:
                    what = "numbering"
                out.violations.append(Violation(f"C13/stored_log_is_not_the_append_log:{what}:{reader}:{kind}",
                                                f"{kind} store, {len(hist)} append_tick calls over {nruns} runs ({hist[:12]}…): {reader}('run-{r_}') = "
                                                f"{str(rows)[:300]}, appended (numbered from 0): {str(want)[:300]}", payload))
        ops.append("c13table %s %d %s" % ("sql" if kind == "sqlite" else "mem", r_, enc.lst(["%d %d" % (a, b) for a, b in hist])))
        rows = rd["get_ticks"]
        exp.append("raised" if isinstance(rows, str) else enc.lst(["%d:%d" % (a, b) for a, b in rows]))
        owner.append(payload)
        out.count("K:c13table:" + kind)
        out.count("K:c13table:appends", len(hist))


def gen_table_case(rng: random.Random, kind: str) -> dict:
    nruns = rng.choice([1, 2, 2, 3, 5])
    n = rng.choice([0, 1, rng.randint(2, 12), rng.randint(4, 40), rng.randint(4, 40)])
    shape = rng.choice(["uniform", "bursts", "one_hot"])
    hist = []
    cur = rng.randint(1, nruns)
    for i in range(n):
        if shape == "uniform":
            cur = rng.randint(1, nruns)
        elif shape == "bursts":
            if rng.random() < 0.3:
                cur = rng.randint(1, nruns)
        else:
            cur = 1 if rng.random() < 0.8 else rng.randint(1, nruns)
        hist.append([cur, rng.choice([0, 0, rng.randint(1, 9), 1000 + i])])
    return {"kind": kind, "hist": hist}


async def _collect(agen: Any) -> list:
    return [x async for x in agen]


def long_chain_spec(last: int) -> dict:
    """one deterministic chain through a single gated step: `last`+1 invocations, three persisted ticks each; every invocation
    bumps a counter in the state store exactly once, so a forked or shortened chain shows in the store even when the result agrees"""
    return {"steps": [{"name": "s00", "accepts": [0], "nw": 1, "retry": None, "script": [["ret", "5"]]},
                      {"name": "s02", "accepts": [5], "nw": 1, "retry": None,
                       "script": [["gate"], ["store_incr", "n"], ["chain", 5, last], ["ret", "stop", "uid"]]}],
            "externals": [], "det_uids": True}


MAX_CHAIN = 400


def long_chain(kind: str, total_pages: int, targets: list[int] | None, out: Outcome, ops: list[str], exp: list[str], owner: list,
               dense: bool = False, tag: str = "long") -> None:
    """a run whose persisted log exceeds `total_pages` pages, restarted at stop points given as numbers of persisted ticks
    (`targets`, each moved to the next quiescent point: the tick that started an invocation now waiting at its gate), plus the
    very end (finalize); `dense`: every stop in a window around each page boundary as well"""
    from workflows.runtime.types import ticks as T

    P = page_size(out)
    last = min(MAX_CHAIN, (total_pages * P + 20) // 3 + 1)
    if last == MAX_CHAIN:
        out.notes.append(f"long chain capped at {MAX_CHAIN} invocations (page size {P})")
    spec = long_chain_spec(last)

    def stops(base: restart.CaseResult) -> list[int]:
        n = len(base.ticks)
        quiet = [k for k in range(1, n) if isinstance(base.ticks[k - 1], T.TickAddEvent)]
        ks: list[int] = []
        for t in (targets if targets is not None else [P // 2, P + 1, P + P // 2, 2 * P + 1, n - 4]):
            k = next((q for q in quiet if q >= t), None)
            if k is not None and k not in ks:
                ks.append(k)
        if dense:
            for b in range(1, n // P + 1):
                ks += [k for k in range(max(1, b * P - 2), min(n, b * P + 7)) if k not in ks]
            ks += [k for k in quiet[::9] if k not in ks]
        out.count(f"{tag}:{kind}:log_pages", n // P)
        return ks + [n]

    all_prefixes(spec, 11, kind, out, ops, exp, owner, f"{tag}:{kind}", only=stops)


def paging_case(case: dict, out: Outcome, ops: list[str], exp: list[str], owner: list) -> None:
    if "store_pages" in case:
        store_pages(case["store_pages"], out, ops, exp, owner)
    elif "long_chain" in case:
        c = case["long_chain"]
        P = page_size(out)
        long_chain(c["kind"], int(c.get("total_pages", 2)), [int(float(x) * P) + 1 for x in c.get("stops_after_pages", [1])], out, ops, exp, owner,
                   tag="corpus_long")


def load_paging_corpus() -> list[dict]:
    p = os.path.join(suite.CORPUS_DIR, "c13_paging.json")
    if os.path.exists(p):
        return json.load(open(p))["cases"]
    return []


# --------------------------------------------------------------------------
# generated stream


def det_spec(rng: random.Random, delays: bool = False) -> dict:
    """gen_det_spec, with every worker invocation behind a gate: the scheduler opens one gate per quiescent point, so
    step completions are serialised and a (spec, seed) pair names one schedule (without it, invocations that finish in the
    same loop iteration are picked up in the iteration order of a set of tasks, which differs from run to run)"""
    spec = specgen.gen_det_spec(rng, delays=delays)
    for s in spec["steps"]:
        if s["name"] != "s00" and (not s["script"] or s["script"][0] != ["gate"]):
            s["script"].insert(0, ["gate"])
    return spec


EDGE_SPECS: list[tuple[str, dict]] = [
    # F12's shape: a -> Mid -> b -> Stop
    ("linear", {"steps": [{"name": "s00", "accepts": [0], "nw": 1, "retry": None, "script": [["ret", "5"]]},
                          {"name": "s02", "accepts": [5], "nw": 1, "retry": None, "script": [["gate"], ["ret", "stop", "uid"]]}],
                "externals": [], "det_uids": True}),
    # a run that fails: exit kind failWorkflow
    ("fails", {"steps": [{"name": "s00", "accepts": [0], "nw": 1, "retry": None, "script": [["ret", "5"]]},
                         {"name": "s02", "accepts": [5], "nw": 1, "retry": None, "script": [["gate"], ["fail_always", 7]]}],
               "externals": [], "det_uids": True}),
    # cancelled from outside while a step is gated
    ("cancelled", {"steps": [{"name": "s00", "accepts": [0], "nw": 1, "retry": None, "script": [["ret", "5"]]},
                             {"name": "s02", "accepts": [5], "nw": 1, "retry": None, "script": [["sleep", 30], ["ret", "stop", "uid"]]}],
                   "externals": [{"op": "cancel", "after_quiet": 1}], "det_uids": True, "_only_last": True}),
    # workflow timeout
    ("timeout", {"steps": [{"name": "s00", "accepts": [0], "nw": 1, "retry": None, "script": [["ret", "5"]]},
                           {"name": "s02", "accepts": [5], "nw": 1, "retry": None, "script": [["sleep", 50], ["ret", "stop", "uid"]]}],
                 "externals": [], "det_uids": True, "timeout": 10}),
    # retries without delay and a catch_error handler on the way
    ("retry_handler", {"steps": [{"name": "s00", "accepts": [0], "nw": 1, "retry": None, "script": [["ret", "5"]]},
                                 {"name": "s02", "accepts": [5], "nw": 1, "retry": {"kind": "attempts", "n": 2, "wait": 0},
                                  "script": [["gate"], ["fail_always", 3]]},
                                 {"name": "s12", "accepts": [4], "role": "handler", "for_steps": None, "max_rec": 1,
                                  "script": [["ret", "stop", "uid"]]}],
                       "externals": [], "det_uids": True}),
]


# wait_for_event with requirements: the response with the wrong `k` comes first and must not be delivered
WAIT_REQ_SPEC: dict = {
    "steps": [{"name": "s00", "accepts": [0], "nw": 1, "retry": None, "script": [["ret", "5"]]},
              {"name": "s02", "accepts": [5], "nw": 1, "retry": None,
               "script": [["wait", 3, 1, None, "w01", None, "raise"], ["ret", "stop", "waited"]]}],
    "externals": [{"op": "send", "ty": 3, "k": 2, "after_work_ticks": 4}, {"op": "send", "ty": 3, "k": 1, "after_work_ticks": 5}],
    "det_uids": True}
# the same wait without requirements: restored faithfully
WAIT_PLAIN_SPEC: dict = {
    "steps": [{"name": "s00", "accepts": [0], "nw": 1, "retry": None, "script": [["ret", "5"]]},
              {"name": "s02", "accepts": [5], "nw": 1, "retry": None,
               "script": [["wait", 3, None, None, "w01", None, "raise"], ["ret", "stop", "waited"]]}],
    "externals": [{"op": "send", "ty": 3, "k": 2, "after_work_ticks": 4}],
    "det_uids": True}
EDGE_SPECS += [("wait_req", WAIT_REQ_SPEC), ("wait_plain", WAIT_PLAIN_SPEC)]
# a fan-out of three content-identical events (Work() x 3): consecutive ticks that serialise identically are still
# three accepted events, each of which must survive the restart (seeded change C13-b de-duplicated equal consecutive ticks)
IDENTICAL_FANOUT_SPEC: dict = {
    "steps": [{"name": "s00", "accepts": [0], "nw": 1, "retry": None,
               "script": [["send", 5, None, 1], ["send", 5, None, 1], ["send", 5, None, 1], ["ret", "none"]]},
              {"name": "s02", "accepts": [5], "nw": 3, "retry": None, "script": [["gate"], ["ret", "6"]]},
              {"name": "s03", "accepts": [6], "nw": 1, "retry": None, "script": [["collect", [6, 6, 6]], ["ret", "stop", "collected"]]}],
    "externals": [], "det_uids": True, "same_uid_sends": True}
EDGE_SPECS += [("identical_fanout", IDENTICAL_FANOUT_SPEC)]


def wait_spec(rng: random.Random) -> dict:
    """a step suspended in wait_for_event (with or without a requirement on `k`); 1..3 responses arrive from outside, one
    after the other, the last one matching; the run returns the `k` of the response it was given"""
    reqk = rng.choice([None, 1, 2])
    nsend = rng.randint(1, 3)
    ks = [rng.choice([1, 2, 3]) for _ in range(nsend - 1)] + [reqk if reqk is not None else rng.choice([1, 2])]
    pre = [["gate"]] if rng.random() < 0.5 else []
    return {"steps": [{"name": "s00", "accepts": [0], "nw": 1, "retry": None, "script": [["ret", "5"]]},
                      {"name": "s02", "accepts": [5], "nw": rng.randint(1, 2), "retry": None,
                       "script": pre + [["wait", 3, reqk, None, "w01", None, "raise"], ["ret", "stop", "waited"]]}],
            "externals": [{"op": "send", "ty": 3, "k": k, "after_work_ticks": 4 + i} for i, k in enumerate(ks)],
            "det_uids": True}


def woken_spec(rng: random.Random, p_fan: float = 0.5) -> dict:
    """the full server stack (idle-release layer): the run goes idle waiting for input from outside (a step suspended in
    wait_for_event, twice in a row, or a human-in-the-loop request on the stream with the answer accepted by another step), the
    answer arrives while the run is still in memory (or, with a short idle_timeout and a late answer, after it was released),
    and the run then has further gated work: a chain of steps or a fan-out / collect.  No timers anywhere (no retry delays,
    no waiter timeouts): every stop point is within C13 proper.  Externals have fixed uids (the result is a function of them)."""
    shape = rng.choice(["wait", "wait", "hitl", "two_waits"])
    pre = [["gate"]] if rng.random() < 0.4 else []
    if rng.random() < p_fan:
        # tail: fan-out / workers (retries without delay) / collect, as in the deterministic family; its start step takes T7
        tail = specgen.gen_det_spec(rng)["steps"]
        for st in tail:
            if st["name"] == "s00":
                st["name"], st["accepts"] = "s01", [7]
            elif st["name"] != "s00" and (not st["script"] or st["script"][0] != ["gate"]):
                st["script"].insert(0, ["gate"])
    else:
        tail = [{"name": "s01", "accepts": [7], "nw": 1, "retry": None, "script": [["gate"], ["store_incr", "n"], ["ret", "9"]]},
                {"name": "s03", "accepts": [9], "nw": 1, "retry": None,
                 "script": ([["gate"]] if rng.random() < 0.7 else []) + [["store_incr", "n"], ["ret", "stop", "uid"]]}]
    if shape == "hitl":
        head = [{"name": "s00", "accepts": [0], "nw": 1, "retry": None, "script": [["stream", 2], ["ret", "none"]]},
                {"name": "s06", "accepts": [3], "nw": 1, "retry": None, "script": pre + [["ret", "7"]]}]
        nsend = 1
    else:
        waits = [["wait", 3, None, None, "w01", None, "raise"]] + ([["wait", 3, None, None, "w02", None, "raise"]] if shape == "two_waits" else [])
        head = [{"name": "s00", "accepts": [0], "nw": 1, "retry": None, "script": [["ret", "8"]]},
                {"name": "s06", "accepts": [8], "nw": 1, "retry": None, "script": pre + waits + [["ret", "7"]]}]
        nsend = len(waits)
    idle_to = rng.choice([3600.0, 3600.0, 60.0, 2.0])
    late = idle_to == 2.0 and rng.random() < 0.6  # the answer comes after the run was released from memory: reload path
    steps = head + tail
    rng.shuffle(steps)
    return {"steps": steps, "det_uids": True, "_idle_timeout": idle_to, "_quiet_stops": True, "_skip_resend_stops": True,
            "externals": [{"op": "send", "ty": 3, "k": 1 + i, "uid": 2001 + i, "when_idle": True, "idle_for": 3.0 if late else 0.0}
                          for i in range(nsend)]}


def load_woken_corpus() -> list[dict]:
    p = os.path.join(suite.CORPUS_DIR, "c13_woken.json")
    if os.path.exists(p):
        return json.load(open(p))["cases"]
    return []


def wrong_deliveries(r: restart.CaseResult, pi: int) -> list:
    """wait_for_event calls of phase `pi` that returned an event violating the requirement they were made with"""
    return [(s[1], s[5].get("got_k"), s[5].get("want_k")) for s in r.phase_steps(pi)
            if s[0] == "waited" and s[5].get("want_k") is not None and s[5].get("got_k") != s[5].get("want_k")]


def persist_lines(base: restart.CaseResult, ops: list[str], exp: list[str], owner: list, payload: dict, out: Outcome) -> None:
    """the store's view of a tick: model `persist` of the live tick object vs the tick read back from the store"""
    live_ticks = [c.tick for c in base.trace.calls if c.caller == "_process_tick" and c.error is None]
    for lt, stt in zip(live_ticks, base.ticks):
        a, b = enc.tick(lt), enc.tick(stt)
        if a.startswith("TS"):
            ops.append("persist " + a)
            exp.append(b)
            owner.append(payload)
            out.count("K:persist" + (":changed" if a != b else ""))


def all_prefixes(spec: dict, seed: int, kind: str, out: Outcome, ops: list[str], exp: list[str], owner: list, tag: str,
                 only: Any = None, only_modes: list[str] | None = None) -> restart.CaseResult | None:
    """`spec["_idle_timeout"]`: run on the full stack (idle-release layer around persistence) with that idle_timeout;
    `spec["_quiet_stops"]`: besides the stop at the instant each tick is persisted, stop at every instant of the uninterrupted
    run at which nothing was runnable (same prefixes, every command executed: e.g. the run really idle, its row marked)"""
    idle_to = spec.get("_idle_timeout")
    base = restart.run_crash_case(copy.deepcopy(spec), seed, kind, horizon=HORIZON, idle_timeout=idle_to)
    out.evaluations += 1
    payload0 = case_payload(spec, seed, kind, [])
    if base.status == "running":
        out.count(f"{tag}:baseline_unfinished")
        if not spec.get("_may_hang"):
            out.violations.append(Violation("C13/uninterrupted_run_unfinished", f"the uninterrupted run is still running after {HORIZON}s (virtual)", payload0))
        return None
    check_persist_before_effects(base, out, payload0)
    check_store_reads(base, out, case_payload(spec, seed, kind, [len(base.ticks)]))
    persist_lines(base, ops, exp, owner, payload0, out)
    n = len(base.ticks)
    out.count(f"{tag}:runs")
    out.count(f"{tag}:ticks", n)
    out.count(f"{tag}:baseline:{base.status}")
    cfgl = cfg_line_of(base)
    ks = list(range(0, n + 1)) if only is None else (only(base) if callable(only) else only)
    if spec.get("_only_last"):
        ks = [n]
    stops = [(k, (only_modes[i] if only_modes and i < len(only_modes) else "tick")) for i, k in enumerate(ks)]
    if spec.get("_quiet_stops") and only is None:
        stops += [(k, "quiet") for k in sorted(set(base.quiet_points)) if 1 <= k <= n]
    if idle_to is not None:
        rowmark_lines(base, ops, exp, owner, payload0, out)
    later: list = []  # the store-side statement at the send itself is reported after what the restarts of this run showed
    for k, mode in stops:
        if spec.get("_skip_resend_stops") and only is None and mode == "tick" and 0 < k < n and resend_exposed(base, k):
            # reported separately (unchanged code: C13/wrong_result_after_event_sent_again_by_reexecuted_step); this family is about
            # the idle marker, its generated stream stays away from that trigger
            out.count(f"{tag}:skipped_stop:sender_in_progress")
            continue
        r = restart.run_crash_case(copy.deepcopy(spec), seed, kind, crash_at=[k], horizon=HORIZON, idle_timeout=idle_to,
                                   crash_modes=[mode])
        out.evaluations += 1
        payload = case_payload(spec, seed, kind, [k]) if mode == "tick" else case_payload(spec, seed, kind, [k], modes=[mode])
        if mode == "quiet" and r.phases[0].crashed_at is not None:
            k = r.phases[0].crashed_at  # the persisted prefix at the quiet instant
        if k == 0:
            judge_zero(r, out, payload)
            t = "prefix0"
        else:
            if [enc.tick(t) for t in r.ticks[:k]] != [enc.tick(t) for t in base.ticks[:k]]:
                # the re-run took another schedule (should not happen with gated steps): nothing can be concluded for this k
                out.count(f"{tag}:not_reproducible")
                out.notes.append(f"prefix {k} of a re-run differed from its baseline log; skipped (spec seed {seed})")
                continue
            if len(r.phases) > 1:
                check_replay_input(r, 1, out, payload)
            check_store_reads(r, out, payload)
            t = judge_idle_layer(base, r, k, out, payload) or judge_single(base, r, k, out, payload)
            if idle_to is not None:
                rowmark_lines(r, ops, exp, owner, payload, out)
                check_send_rows(r, out, payload, later)
            out.nontrivial((json.dumps(spec, sort_keys=True), seed, kind, k) + (() if mode == "tick" else (mode,)))
        out.count(f"{tag}:{t}" + ("" if mode == "tick" else ":quiet_stop"))
        if len(r.phases) > 1:
            o, e, info = restart_lines(r, 1, cfgl)
            ops += o
            exp += e
            owner += [payload] * len(o)
            out.count("K:restart:" + e[1].split(" ")[0])
            out.count("K:replayed_ticks", info["replayed"])
        if idle_to is not None and len(out.samples) < 8 and t.startswith("resumed_ok") and r.phases[0].row_idle_at_stop is not None \
                and sum(1 for s_ in out.samples if isinstance(s_, dict) and "idle_layer" in s_) < 3 and wake_cause(r.rowevs[: r.phases[0].rowevs_at_stop]) != "never_idle":
            out.sample({"idle_layer": True, "spec": spec, "store": kind, "stop_after_tick": k, "of": n, "mode": mode, "verdict": t,
                        "events_before_stop": row_tokens(r.rowevs[: r.phases[0].rowevs_at_stop]), "row_idle_at_stop": r.phases[0].row_idle_at_stop,
                        "resumed_by_restart": r.phases[1].active_after_start if len(r.phases) > 1 else None,
                        "after_restart": outcome_of(r)[:2]})
        if len(out.samples) < 5 and 0 < k < n and t.startswith(("stuck", "resumed_ok")) and (len(out.samples) % 2 == (0 if t.startswith("stuck") else 1)):
            out.sample({"spec": spec, "store": kind, "stop_after_tick": k, "of": n, "tick": enc.tick(base.ticks[k - 1]), "verdict": t,
                        "uninterrupted": outcome_of(base)[:2], "after_restart": outcome_of(r)[:2], "volatile": r.phases[0].volatile})
    if idle_to is not None:
        check_send_rows(base, out, payload0, later)
        out.violations += later[:3]
    return base


def second_restarts(spec: dict, seed: int, kind: str, rng: random.Random, npairs: int, out: Outcome, ops: list[str], exp: list[str],
                    owner: list) -> None:
    """stop, restart, stop again in the resumed run, restart again"""
    base = restart.run_crash_case(copy.deepcopy(spec), seed, kind, horizon=HORIZON)
    if base.status != "completed":
        return
    want = outcome_of(base)
    n = len(base.ticks)
    cfgl = cfg_line_of(base)
    tried = 0
    for _ in range(npairs * 4):
        if tried >= npairs:
            break
        k1 = rng.randint(1, n - 1)
        r1 = restart.run_crash_case(copy.deepcopy(spec), seed, kind, crash_at=[k1], horizon=HORIZON)
        out.evaluations += 1
        if outcome_of(r1) != want or len(r1.ticks) <= k1 + 1:
            continue  # the first restart already shows a (separately judged) loss, or nothing was appended
        k2 = rng.randint(k1 + 1, len(r1.ticks))
        r = restart.run_crash_case(copy.deepcopy(spec), seed, kind, crash_at=[k1, k2], horizon=HORIZON)
        out.evaluations += 1
        tried += 1
        payload = case_payload(spec, seed, kind, [k1, k2])
        if len(r.phases) < 3:
            out.count("second:not_reached")
            continue
        o, e, _info = restart_lines(r, 2, cfgl)
        ops += o
        exp += e
        owner += [payload] * len(o)
        out.count("K:restart2:" + e[1].split(" ")[0])
        got = outcome_of(r)
        vol1, vol2 = r.phases[0].volatile or {}, r.phases[1].volatile or {}
        loss2 = classify_loss(vol2)
        finished2 = k2 == len(r1.ticks)
        if got == want:
            out.count("second:ok")
            continue
        if r.status == "running":
            kindw = "stuck"
        elif r.status != base.status:
            kindw = f"ended_{r.status}_{canon_error(r.error)}"
        elif got[1] != want[1]:
            kindw = "wrong_result"
        else:
            kindw = "wrong_store"
        if loss2 and kindw == "stuck":
            sig = f"C13/stuck_after_{loss2}"
        elif vol1.get("inflight", 0) > 0:
            # the log spans a resume that re-queued in-flight work: replay does not know about it
            sig = "C13/second_restart_replays_across_resume"
        else:
            sig = f"C13/second_restart_{kindw}"
        out.count("second:" + sig.split("/")[1])
        out.violations.append(Violation(sig, f"stops after ticks {k1} and {k2}{' (run already ended)' if finished2 else ''}: uninterrupted {want[0]} {want[1]}, after the second restart "
                                             f"{got[0]} {got[1]} error={r.error!r}; in-flight invocations at the first stop: {vol1.get('inflight')}", payload))


# --------------------------------------------------------------------------
# context_from_ticks on truncated stores (every prefix), both stores


def truncation_corr(spec: dict, seed: int, kind: str, out: Outcome, ops: list[str], exp: list[str], owner: list) -> None:
    from llama_agents.server._store.abstract_workflow_store import HandlerQuery
    from workflows.context.serializers import JsonSerializer
    from workflows.runtime.types.internal_state import BrokerState

    live.install_observers()
    run = live.Run(copy.deepcopy(spec), random.Random(seed))
    rows: list = []
    legacy_rows: list = []

    def hook_factory(loop: Any):
        def hook() -> bool:
            if run.waiting:
                key = run.waiting[run.choose(len(run.waiting))]
                run.waiting.remove(key)
                run.gates[key].set()
                return True
            return False
        return hook

    async def main(loop: Any) -> None:
        inner, db_path = Stack.make_store(kind, restart._fast_db_path() if kind == "sqlite" else None)
        st = Stack.build(kind, store=inner, db_path=db_path)
        st.add_workflow("wf", lambda: live.build_workflow(run.spec, run))
        await st.start()
        hd = await st.start_run("wf", "h1", ET.T0(uid=1, k=spec.get("start_k")))
        rid = hd.run_id
        for _ in range(int(HORIZON)):
            h = await inner.query(HandlerQuery(run_id_in=[rid]))
            if h and h[0].status != "running":
                break
            await asyncio.sleep(1)
        full = await st.ticks(rid)
        for k in range(len(full), -1, -1):
            removed = restart.truncate_ticks(inner, rid, k)
            left = await st.ticks(rid)
            if [enc.tick(t) for t in left] != [enc.tick(t) for t in full[:k]]:
                out.violations.append(Violation("C13/harness_truncate_broken", f"truncate to {k} left {len(left)} ticks (removed {removed})", {"spec": spec}))
                return
            st2 = Stack.build(kind, store=inner, db_path=db_path)
            wf = st2.add_workflow("wf", lambda: live.build_workflow(run.spec, run))
            c0 = len(run.trace.calls)
            t0 = loop.time()
            try:
                rep = await st2.persistence.context_from_ticks(wf, rid)
            except Exception as e:
                rows.append((k, "raised", None, run.trace.calls[c0:], t0, f"{type(e).__name__}: {e}"))
                continue
            if rep is None:
                rows.append((k, "none", None, [], t0, None))
                continue
            stt = BrokerState.from_serialized(rep.context._face.init_snapshot, wf, JsonSerializer())
            rows.append((k, "_" if rep.exit_command is None else enc.cmd(rep.exit_command), stt, run.trace.calls[c0:], t0, None))
        # legacy ctx path (sqlite only: the store has the old `ctx` column): context_from_ticks starts from
        # BrokerState.from_serialized(legacy ctx) and replays whatever ticks the run has
        if kind == "sqlite" and len(full) >= 2:
            import sqlite3
            from datetime import datetime, timezone

            from llama_agents.server._store.abstract_workflow_store import PersistentHandler

            snaps = {r[0]: r[2] for r in rows if r[2] is not None}
            ser = JsonSerializer()
            for j, k in enumerate(sorted(snaps)[:: max(1, len(snaps) // 3)][:4]):
                for m in (0, 2):
                    lrid = f"legacy{j}_{m}"
                    now_ = datetime.now(timezone.utc)
                    await inner.update(PersistentHandler(handler_id="h" + lrid, workflow_name="wf", status="running", run_id=lrid,
                                                         started_at=now_, updated_at=now_))
                    conn = sqlite3.connect(db_path, timeout=30.0)
                    try:
                        conn.execute("UPDATE handlers SET ctx = ? WHERE run_id = ?",
                                     (json.dumps(snaps[k].to_serialized(ser).model_dump()), lrid))
                        conn.commit()
                    finally:
                        conn.close()
                    later = full[k: k + m]
                    from workflows.runtime.types.ticks import WorkflowTickAdapter
                    for t in later:
                        await inner.append_tick(lrid, WorkflowTickAdapter.dump_python(t, mode="json"))
                    st3 = Stack.build(kind, store=inner, db_path=db_path)
                    wf3 = st3.add_workflow("wf", lambda: live.build_workflow(run.spec, run))
                    c0 = len(run.trace.calls)
                    t0 = loop.time()
                    try:
                        rep = await st3.persistence.context_from_ticks(wf3, lrid)
                    except Exception as e:
                        legacy_rows.append((snaps[k], later, "raised", None, run.trace.calls[c0:], t0))
                        continue
                    if rep is None:
                        legacy_rows.append((snaps[k], later, "none", None, [], t0))
                        continue
                    stt = BrokerState.from_serialized(rep.context._face.init_snapshot, wf3, ser)
                    legacy_rows.append((snaps[k], later, "_" if rep.exit_command is None else enc.cmd(rep.exit_command), stt,
                                        run.trace.calls[c0:], t0))
        rows.append(("ticks", full))
        st.cleanup()

    live._ACTIVE.append(run)
    try:
        run_virtual(main, max_time=1_000_000.0, hook_factory=hook_factory)
    finally:
        live._ACTIVE.pop()
    if not rows or rows[-1][0] != "ticks":
        return
    full = rows.pop()[1]
    cfgl = None
    for c in run.trace.calls:
        if c.before is not None:
            cfgl = "cfg " + enc.cfg(c.before)
            break
    if cfgl is None:
        return
    for (k, exitc, stt, calls, t0, err) in rows:
        reds = [c for c in calls if c.kind == "reduce"]
        rw = next((c for c in calls if c.kind == "rewind"), None)
        now0 = rw.now if rw is not None else t0
        now = reds[0].now if reds else now0
        ops += [cfgl, "ctx %s %s %s %s" % (enc.num(now0), enc.num(now), _policy_tokens(reds), enc.lst([enc.tick(t) for t in full[:k]]))]
        if exitc in ("none", "raised"):
            exp += ["ok", exitc]
        else:
            exp += ["ok", exitc + " ;; " + enc.state(stt)]
        owner += [{"truncate": {"spec": spec, "seed": seed, "kind": kind, "k": k}}] * 2
        out.count(f"K:ctx:{kind}")
    for (lst_, later, exitc, stt, calls, t0) in legacy_rows:
        reds = [c for c in calls if c.kind == "reduce"]
        rw = next((c for c in calls if c.kind == "rewind"), None)
        now0 = rw.now if rw is not None else t0
        now = reds[0].now if reds else now0
        # the legacy ctx is deserialised first (BrokerState.from_serialized): `state` + `serde` on the model side
        ops += [cfgl, "state " + enc.state(lst_), "serde"]
        exp += ["ok", enc.state(lst_), None]
        ops += ["legacy-current", "ctx %s %s %s %s" % (enc.num(now0), enc.num(now), _policy_tokens(reds), enc.lst([enc.tick(t) for t in later]))]
        exp += [None, exitc if exitc in ("none", "raised") else exitc + " ;; " + enc.state(stt)]
        owner += [{"legacy": {"spec": spec, "seed": seed, "later": len(later)}}] * 5
        out.count(f"K:ctx:legacy:{len(later)}")
    out.traces_validated += 1


# --------------------------------------------------------------------------
# replay_ticks_stream + handler_status_from_exit_command directly, incl. synthetic log endings


def status_corr(spec: dict, seed: int, out: Outcome, ops: list[str], exp: list[str], owner: list) -> None:
    """every exit kind through the two functions themselves: real logs and their prefixes, extended by an idle release
    (not a completion), a cancel, a workflow timeout; replay goes on after an exit tick ('last wins')"""
    from llama_agents.server._runtime.persistence_runtime import handler_status_from_exit_command
    from workflows.runtime import control_loop as CL
    from workflows.runtime.types import ticks as T
    from workflows.runtime.types.internal_state import BrokerState

    base = restart.run_crash_case(copy.deepcopy(spec), seed, "memory", horizon=HORIZON)
    out.evaluations += 1
    full = list(base.ticks)
    if not full:
        return
    variants: list[list] = [full, full + [T.TickIdleRelease()], full + [T.TickCancelRun()]]
    for k in sorted({1, max(1, len(full) // 2), len(full) - 1}):
        if 0 < k < len(full):
            variants += [full[:k] + [T.TickIdleRelease()], full[:k] + [T.TickCancelRun()], full[:k] + [T.TickTimeout(timeout=5.0)],
                         full[:k] + [T.TickIdleRelease(), full[k]]]
    live.install_observers()
    run = live.Run(copy.deepcopy(spec), random.Random(seed))
    rows: list = []

    async def main(loop: Any) -> None:
        wf = live.build_workflow(run.spec, run)
        wf._validate()
        for v in variants:
            c0 = len(run.trace.calls)

            async def stream(v: list = v) -> Any:
                for t in v:
                    yield t

            try:
                rep = await CL.replay_ticks_stream(BrokerState.from_workflow(wf), stream())
            except Exception as e:
                rows.append((v, run.trace.calls[c0:], "crash", None))
                continue
            if rep.exit_command is None:
                st = "resume"
            else:
                m = handler_status_from_exit_command(rep.exit_command)
                if m is None:
                    st = "resume"
                else:
                    status, result, error = m
                    st = "%s result %s error %s" % (status, "_" if result is None else enc.pub(result), canon_error(error))
            rows.append((v, run.trace.calls[c0:], ("_" if rep.exit_command is None else enc.cmd(rep.exit_command)) + " ;; " + enc.state(rep.state), st))

    live._ACTIVE.append(run)
    try:
        run_virtual(main, max_time=1_000_000.0)
    finally:
        live._ACTIVE.pop()
    cfgl = cfg_line_of(base)
    for (v, calls, line, st) in rows:
        reds = [c for c in calls if c.kind == "reduce"]
        rw = next((c for c in calls if c.kind == "rewind"), None)
        now0 = rw.now if rw is not None else 1000.0
        now = reds[0].now if reds else now0
        ops += [cfgl, "replay %s %s %s %s" % (enc.num(now0), enc.num(now), _policy_tokens(reds), enc.lst([enc.tick(t) for t in v]))]
        exp += ["ok", line]
        if st is not None:
            ops.append("status")
            exp.append(st)
        owner += [{"status": {"spec": spec, "seed": seed, "n": len(v)}}] * (3 if st is not None else 2)
        out.count("K:status:" + (st.split(" ")[0] if st else "crash"))
    out.traces_validated += len(rows)


# --------------------------------------------------------------------------
# which handlers _on_server_start acts on


def pick_corr(env: Env, out: Outcome, n: int, ops: list[str], exp: list[str], owner: list) -> None:
    from datetime import datetime, timezone

    from llama_agents.server._store.abstract_workflow_store import PersistentHandler

    rng = random.Random(env.rng.randrange(1 << 30))
    spec = EDGE_SPECS[0][1]
    # persisted logs to hand out: a resumable prefix, a finished log, an empty log
    base = restart.run_crash_case(copy.deepcopy(spec), 3, "memory", horizon=HORIZON)
    from workflows.runtime.types.ticks import WorkflowTickAdapter

    full = [WorkflowTickAdapter.dump_python(t, mode="json") for t in base.ticks]
    logs = {"resumable": full[:1], "finished": full, "empty": []}
    for _ in range(n):
        kind = rng.choice(["memory", "memory", "sqlite"])
        nrows = rng.randint(2, 7)
        rows: list[dict] = []
        run_pool = [f"run{i}" for i in range(1, 5)]
        for i in range(nrows):
            rows.append({
                "hid": i + 1,
                "wf": rng.choice(["wf", "wf", "wf", "other"]),
                "status": rng.choice(["running", "running", "running", "completed", "failed", "cancelled"]),
                "run": rng.choice(run_pool + [None]) if rng.random() < 0.9 else None,
                "idle": rng.random() < 0.25,
            })
        log_of = {r: rng.choice(["resumable", "resumable", "finished", "empty"]) for r in run_pool}
        seen: list = []
        started: list = []

        async def populate(store: Any, rows: list = rows, log_of: dict = log_of) -> None:
            now = datetime.now(timezone.utc)
            for row in rows:
                await store.update(PersistentHandler(handler_id=f"h{row['hid']}", workflow_name=row["wf"], status=row["status"],
                                                     run_id=row["run"], started_at=now, updated_at=now,
                                                     idle_since=now if row["idle"] else None))
            for r, which in log_of.items():
                for td in logs[which]:
                    await store.append_tick(r, td)

        live.install_observers()
        run = live.Run(copy.deepcopy(spec), random.Random(1))

        async def main(loop: Any, kind: str = kind) -> None:
            from llama_agents.server._store.abstract_workflow_store import HandlerQuery

            inner, db_path = Stack.make_store(kind, restart._fast_db_path() if kind == "sqlite" else None)
            await populate(inner)
            order = [h.handler_id for h in await inner.query(HandlerQuery(status_in=["running"], workflow_name_in=["wf"], is_idle=False))]
            seen.append(order)
            view = restart.make_view(inner)
            st = Stack.build(kind, store=view, db_path=db_path)
            st.add_workflow("wf", lambda: live.build_workflow(run.spec, run))
            orig = st.persistence.context_from_ticks

            async def spy(workflow: Any, run_id: str) -> Any:
                started.append(run_id)
                return await orig(workflow, run_id)

            st.persistence.context_from_ticks = spy  # type: ignore[method-assign]
            await st.start()
            seen.append(sorted(st.persistence._active_run_ids))
            hs = await inner.query(HandlerQuery())
            seen.append({h.handler_id: h.status for h in hs})
            restart.crash_now(st)
            for _ in range(5):
                await asyncio.sleep(0)
            st.cleanup()

        live._ACTIVE.append(run)
        try:
            run_virtual(main, max_time=1_000_000.0)
        finally:
            live._ACTIVE.pop()
        out.evaluations += 1
        order, active, statuses = seen[0], seen[1], seen[2]
        # the model gets the rows in the order the store's query returns the selected ones (others anywhere)
        by_hid = {f"h{r['hid']}": r for r in rows}
        ordered = [by_hid[h] for h in order] + [r for r in rows if f"h{r['hid']}" not in order]
        runnum = {r: i + 1 for i, r in enumerate(run_pool)}
        resuming = [runnum[r] for r, which in log_of.items() if which == "resumable"]
        line = "pick %s %s %s %s" % (enc.lst(["1"]), enc.lst([]), enc.lst([str(x) for x in resuming]),
                                     enc.lst(["%d %d %s %s %d" % (r["hid"], 1 if r["wf"] == "wf" else 2, r["status"],
                                                                  "_" if r["run"] is None else str(runnum[r["run"]]), 1 if r["idle"] else 0) for r in ordered]))
        # implementation: context_from_ticks calls, in order, are the restarts
        it = iter(started)
        impl: list[str] = []
        nxt = next(it, None)
        for r in ordered:
            hid = r["hid"]
            if f"h{hid}" in order and r["run"] is not None and nxt == r["run"] and _selected(r) :
                impl.append(f"{hid} restart {runnum[r['run']]}")
                nxt = next(it, None)
            else:
                impl.append(f"{hid} untouched")
        if nxt is not None:
            impl.append(f"extra restart of {nxt}")
        ops.append(line)
        exp.append(enc.lst(impl))
        owner.append({"pick": {"rows": rows, "logs": log_of, "store": kind}})
        out.count("K:pick:rows", len(rows))
        out.count("K:pick:restarts", len(started))
        # monitors: untouched rows keep their status; nothing runs twice; selected rows end as the model-free rule says
        uniq = {r["run"] for r in rows if r["run"] is not None and sum(1 for q in rows if q["run"] == r["run"]) == 1} | {None}
        for r in rows:
            h = f"h{r['hid']}"
            if not _selected(r) and r["run"] in uniq and statuses.get(h) != r["status"]:
                out.violations.append(Violation("C13/unselected_handler_changed", f"handler {r} went from {r['status']} to {statuses.get(h)} on server start",
                                                {"pick": {"rows": rows, "logs": log_of, "store": kind}}))
        if len(started) != len(set(started)) and all(log_of[r] == "resumable" for r in set(x for x in started if started.count(x) > 1)):
            out.violations.append(Violation("C13/run_restarted_twice", f"context_from_ticks calls {started}", {"pick": {"rows": rows, "logs": log_of, "store": kind}}))
        idle_runs = {r["run"] for r in rows if r["idle"] and r["run"] is not None} - {r["run"] for r in rows if _selected(r)}
        if idle_runs & set(active):
            out.violations.append(Violation("C13/idle_handler_resumed", f"runs {sorted(idle_runs & set(active))} belong only to idle handlers but are active after start",
                                            {"pick": {"rows": rows, "logs": log_of, "store": kind}}))


def _selected(r: dict) -> bool:
    return r["status"] == "running" and r["wf"] == "wf" and not r["idle"]


def canon_pick(line: str) -> str:
    """model output -> the implementation's observable granularity (restarted or not)"""
    toks = line.split(" ")
    n = int(toks[0])
    res: list[str] = []
    i = 1
    for _ in range(n):
        hid = toks[i]
        what = toks[i + 1]
        if what == "restart":
            res.append(f"{hid} restart {toks[i + 2]}")
            i += 3
        else:
            res.append(f"{hid} untouched")
            i += 2
    return enc.lst(res)


# --------------------------------------------------------------------------


def load_witnesses() -> list[dict]:
    p = os.path.join(suite.CORPUS_DIR, "c13_witnesses.json")
    if os.path.exists(p):
        return json.load(open(p))["cases"]
    return []


class _FixedInts(random.Random):
    """a `random.Random` whose randint answers come from a list (to re-judge one exact double stop)"""

    def __init__(self, seq: list[int]):
        super().__init__(0)
        self.seq = list(seq)

    def randint(self, a: int, b: int) -> int:  # type: ignore[override]
        return self.seq.pop(0) if self.seq else a


def replay_case(case: dict, out: Outcome, ops: list[str], exp: list[str], owner: list) -> None:
    if "store_pages" in case or "long_chain" in case:
        paging_case(case, out, ops, exp, owner)
        return
    if "table" in case:
        table_corr(case["table"], out, ops, exp, owner)
        return
    if "crash" not in case:
        return
    c = case["crash"]
    spec, seed, kind, ks = c["spec"], c["seed"], c["kind"], list(c["crash_at"])
    if len(ks) <= 1:
        all_prefixes(spec, seed, kind, out, ops, exp, owner, "replay", only=ks or None, only_modes=c.get("modes"))
    else:
        second_restarts(spec, seed, kind, _FixedInts(ks), 1, out, ops, exp, owner)


TABLE_CORPUS = [
    {"kind": "sqlite", "hist": []},
    {"kind": "memory", "hist": []},
    {"kind": "sqlite", "hist": [[1, 0], [2, 0], [1, 0], [1, 5], [2, 7], [3, 0], [1, 0]]},
    {"kind": "memory", "hist": [[1, 0], [2, 0], [1, 0], [1, 5], [2, 7], [3, 0], [1, 0]]},
    {"kind": "sqlite", "hist": [[2, 4]] * 6 + [[1, 4]]},
]


def run(env: Env) -> Outcome:
    try:
        return _run(env)
    finally:
        restart.sweep_dbs()


def _run(env: Env) -> Outcome:
    out = Outcome()
    out.rule = ("deterministic fan-out/collect workflows (specgen.gen_det_spec; 1..3 workers, retries without delay; a share with retry delays for "
                "classification; a family of steps suspended in wait_for_event with/without requirements answered from outside) plus hand-picked edge workflows for every exit kind, on the real server stack with memory and sqlite stores; "
                "for every k in 0..n the process is stopped when the k-th tick is persisted and restarted; non-trivial = a stop at 1 <= k <= n that was "
                "reached; distinct by (spec, schedule seed, store, k). K: model `restart`/`ctx`/`pick` ops on the same tick lines; plus logs of n ticks (n below/at/beyond 1..3 store pages, a second run interleaved) appended to a store and read back "
                "(`stream` op), and one chain of > 2 pages of ticks restarted beyond each page boundary; the full stack with the idle-release layer: runs that go idle, are answered from outside "
                "(in memory or after release) and have further gated work, stopped at every persisted tick and at every quiet instant (K: `rowmark`, `restartrow`)")
    rng = random.Random(env.rng.randrange(1 << 30))
    ops: list[str] = []
    exp: list[str] = []
    owner: list = []
    # ---- replay of a recorded case first
    if env.replay is not None and isinstance(env.replay.get("payload", {}).get("case"), dict):
        replay_case(env.replay["payload"]["case"], out, ops, exp, owner)
    # ---- corpus: known-finding witnesses and edge workflows (every exit kind), every prefix
    for w in load_witnesses():
        replay_case(w, out, ops, exp, owner)
    # ---- corpus: the log read back page by page (store level), and a long run restarted beyond one / two pages (sqlite)
    for w in load_paging_corpus():
        paging_case(w, out, ops, exp, owner)
    # ---- corpus: the full stack (idle-release layer): a run that went idle, was woken while in memory and is busy again,
    #      stopped at every persisted tick and at every quiet instant
    for w in load_woken_corpus():
        c = w["crash"]
        all_prefixes(c["spec"], c["seed"], c["kind"], out, ops, exp, owner, "woken_corpus:" + c["kind"], only=c.get("crash_at") or None,
                     only_modes=c.get("modes"))
    for name, spec in EDGE_SPECS:
        for kind in (("memory", "sqlite") if name in ("linear", "fails") else ("memory",)):
            all_prefixes(spec, 11, kind, out, ops, exp, owner, "edge:" + name)
    # ---- long runs (more than two pages of persisted ticks) restarted at several stop points, both stores
    thorough = env.tier != "quick"
    # (quick: the sqlite long run is the corpus case above)
    if thorough:
        long_chain("sqlite", 2, None, out, ops, exp, owner, dense=True)
    long_chain("memory", 2, None, out, ops, exp, owner, dense=thorough)
    if thorough:
        long_chain("sqlite", 3, None, out, ops, exp, owner, dense=False, tag="long3")
    # ---- store level: log sizes around and beyond the page boundaries, both stores
    P = page_size(out)
    sizes = [0, 1, P - 1, P, P + 1, 2 * P - 1, 2 * P, 2 * P + 1, 3 * P, 3 * P + 2]
    for kind in ("sqlite", "memory"):
        for n_ in (sizes if thorough else []):  # quick: the boundary sizes are the corpus cases
            store_pages({"kind": kind, "n": max(0, n_), "other": rng.choice([0, 0, 3, P + 5]), "seed": rng.randrange(1 << 30)}, out, ops, exp, owner)
        for _ in range(env.budget(2, 12) if kind == "sqlite" else env.budget(1, 4)):
            store_pages({"kind": kind, "n": rng.randint(0, 3 * P + P // 2), "other": rng.choice([0, 2, rng.randint(0, 2 * P)]),
                         "seed": rng.randrange(1 << 30)}, out, ops, exp, owner)
    # ---- store level: short append histories over 1..5 interleaved runs (the table as the append log), both stores
    for case in TABLE_CORPUS:
        table_corr(case, out, ops, exp, owner)
    for i in range(env.budget(12, 120)):
        table_corr(gen_table_case(rng, "sqlite" if i % 2 else "memory"), out, ops, exp, owner)
    # ---- generated stream
    n_mem = env.budget(5, 110)
    n_sql = env.budget(1, 30)
    n_delay = env.budget(1, 25)
    for i in range(n_mem + n_sql + n_delay):
        kind = "memory" if i < n_mem or i >= n_mem + n_sql else "sqlite"
        delays = i >= n_mem + n_sql
        spec = det_spec(rng, delays=delays)
        all_prefixes(spec, rng.randrange(1 << 30), kind, out, ops, exp, owner, "det_delay" if delays else "det:" + kind)
    # ---- waits answered from outside
    for _ in range(env.budget(2, 24)):
        all_prefixes(wait_spec(rng), rng.randrange(1 << 30), "memory", out, ops, exp, owner, "wait")
    # ---- the full stack: runs that go idle, are woken from outside and have further work
    n_wm, n_ws = env.budget(2, 40), env.budget(1, 12)
    for i in range(n_wm + n_ws):
        all_prefixes(woken_spec(rng, 0.5 if thorough else 0.25), rng.randrange(1 << 30), "memory" if i < n_wm else "sqlite", out, ops, exp, owner,
                     "woken:" + ("memory" if i < n_wm else "sqlite"))
    # ---- second restarts (logs that span a resume)
    for _ in range(env.budget(2, 40)):
        second_restarts(det_spec(rng), rng.randrange(1 << 30), "memory", rng, 2, out, ops, exp, owner)
    # ---- context_from_ticks on truncated stores
    for i in range(env.budget(2, 24)):
        truncation_corr(det_spec(rng), rng.randrange(1 << 30), "sqlite" if i % 2 else "memory", out, ops, exp, owner)
    for name, spec in EDGE_SPECS[1:4]:
        truncation_corr(spec, 11, "memory", out, ops, exp, owner)
    # ---- the two functions themselves on every exit kind
    for name, spec in EDGE_SPECS:
        status_corr(spec, 11, out, ops, exp, owner)
    # ---- handler selection
    pick_corr(env, out, env.budget(8, 150), ops, exp, owner)
    # ---- malformed lines
    bad = ["c13table sql 1 2 1 1", "c13table pg 1 0", "c13table mem x 0", "stream 0 1 1", "stream 3 2 1", "restart x", "rowmark 2 I", "rowmark 1 Q", "restartrow 1 I x", "ctx 1 2 P 0 1 TQ", "pick 1 1 0 0 1 1 1 bogus _ 0", "replay 1000 1000 P 0 2 TI", "status extra"]
    ops += bad
    exp += ["bad-op"] * len(bad)
    owner += [None] * len(bad)
    # ---- model
    try:
        mo = Driver("replay").run(ops)
    except Exception as ex:
        out.divergences.append(Divergence("replay", 0, "<driver>", repr(ex), ""))
        return out
    mo = [canon_pick(m) if o.startswith("pick ") and m != "bad-op" else m for o, m in zip(ops, mo)] + mo[len(ops):]
    exp = [m if e is None else e for e, m in zip(exp, mo)] + exp[len(mo):]
    out.disagreements_checked += len(ops)
    out.traces_validated += sum(1 for o in ops if o.startswith(("restart ", "ctx ", "pick ", "stream ", "c13table ")))
    d = diff_streams("replay", ops, mo, exp)
    if d is not None:
        a, b = d.model_out, d.impl_out
        i = 0
        while i < min(len(a), len(b)) and a[i] == b[i]:
            i += 1
        d.model_out = a[max(0, i - 200): i + 300]
        d.impl_out = b[max(0, i - 200): i + 300]
        d.op = d.op[:1200]
        d.context = owner[d.index] if d.index < len(owner) else None
        out.divergences.append(d)
    return out
