import WfProofs.HandlerStoreHistory
/-!
# C24 — handler stores answer queries consistently and retain the newest completions

Model: `WfModel/HandlerStore.lean` (tables regenerated into `WfModel/GenHandlerStore.lean`).
All theorems hold for **every** store value, hence for every store reached by any sequence of
upserts, status updates, queries and deletes, and for every combination of filters; the retention
theorems are stated over arbitrary operation sequences from the empty store.
-/

open HandlerStore Gen.HandlerStore

/-- What the sources say today (regenerated on every run): statuses and the terminal set, the
`HandlerQuery` fields, which attribute / column each filter tests and that an empty list rejects,
the `is_idle` tests, the SQL statements. -/
theorem C24_source_shape :
    statusNames = ["running", "completed", "failed", "cancelled"] ∧
    terminalFlags = [false, true, true, true] ∧ terminalIsMembership = true ∧
    completedAtFlags = terminalFlags ∧ strayStatusNames = [] ∧
    queryFields = ["handler_id_in", "run_id_in", "workflow_name_in", "status_in", "is_idle"] ∧ queryDefaultsNone = true ∧
    memIn = [(0, 0, true), (1, 1, true), (2, 2, true), (3, 3, true)] ∧ memIdle = some (4, true) ∧
    memFallsThroughTrue = true ∧ memUnrecognised = 0 ∧
    sqlIn = [(0, 0, true), (1, 1, true), (2, 2, true), (3, 3, true)] ∧
    sqlIdleTrue = some (4, true) ∧ sqlIdleFalse = some (4, false) ∧ sqlUnrecognised = 0 ∧
    sqlInTemplate = "{column} IN ({placeholders})" ∧ sqlPlaceholders = "','.join(['?'] * len(values))" ∧
    sqlParamsExtended = true ∧ sqlJoins = [" AND ", " AND "] ∧
    sqlQueryNoneIsEmpty = true ∧ sqlDeleteNoneIsZero = true ∧ sqlDeleteNoClausesIsZero = true ∧
    sqlSelectTable = "handlers" ∧ sqlUpsertTable = "handlers" ∧
    sqlWhere = "{sql} WHERE {' AND '.join(clauses)}" ∧ sqlDelete = "DELETE FROM handlers WHERE {' AND '.join(clauses)}" ∧
    sqlUpsertColumns = ["handler_id", "workflow_name", "status", "run_id", "error", "result", "started_at", "updated_at",
      "completed_at", "idle_since"] ∧
    sqlSelectColumns = sqlUpsertColumns ∧ sqlUpsertParams = sqlUpsertColumns ∧
    sqlUpsertValues = ["?", "?", "?", "?", "?", "?", "?", "?", "?", "?"] ∧ sqlUpsertKey = "handler_id" ∧
    sqlUpsertSet = ["workflow_name", "status", "run_id", "error", "result", "started_at", "updated_at", "completed_at",
      "idle_since"] ∧
    sqlRowFields = [("handler_id", 0), ("workflow_name", 1), ("status", 2), ("run_id", 3), ("error", 4), ("result", 5),
      ("started_at", 6), ("updated_at", 7), ("completed_at", 8), ("idle_since", 9)] := by
  refine ⟨rfl, rfl, rfl, rfl, rfl, rfl, rfl, rfl, rfl, rfl, rfl, rfl, rfl, rfl, rfl, rfl, rfl, rfl, rfl, rfl, rfl, rfl, rfl,
    rfl, rfl, rfl, rfl, rfl, rfl, rfl, rfl, rfl, rfl⟩

/-- **query**: in either store, `query` returns exactly (in table order, once each) the rows of
the current table that pass every given filter. -/
theorem C24_query_spec (s : Store) (q : Query) :
    ∃ p : Handler → Bool, (∀ h, p h = true ↔ Matches h q) ∧ s.query q = s.rows.filter p ∧
      ∀ h, h ∈ s.query q ↔ h ∈ s.rows ∧ Matches h q := by
  refine ⟨(matchesB · q), fun h => matchesB_iff h q, query_eq s q, ?_⟩
  intro h
  rw [query_eq, List.mem_filter, matchesB_iff]

example : let s := (Store.init .sql).run [.update { handlerId := 1, workflowName := 5, status := 1, runId := some 7 },
      .update { handlerId := 2, workflowName := 5, status := 0, idleSince := some 3 }];
    (s.query { statusIn := some [1, 2], isIdle := some false }).map (·.handlerId) = [1] := by decide

/-- a filter given as an empty list matches nothing: `query` is empty and `delete` removes nothing -/
theorem C24_query_empty_list (s : Store) (q : Query) (he : q.hasEmptyList) :
    s.query q = [] ∧ (s.delete q).1.rows = s.rows ∧ (s.delete q).2 = 0 := by
  have hall : ∀ h : Handler, matchesB h q = false := fun h => matchesB_emptyList h q he
  have hf : q.hasFilter = true := by
    unfold Query.hasFilter
    rcases he with he | he | he | he <;> simp [he]
  obtain ⟨h1, h2⟩ := delete_eq s q hf
  refine ⟨?_, ?_, ?_⟩
  · rw [query_eq]; apply List.filter_eq_nil_iff.mpr; intro h _; simp [hall h]
  · rw [h1]; apply List.filter_eq_self.mpr; intro h _; simp [hall h]
  · rw [h2, List.length_eq_zero_iff]; apply List.filter_eq_nil_iff.mpr; intro h _; simp [hall h]

example : ({ statusIn := some [1], runIdIn := some [] } : Query).hasEmptyList := Or.inr (Or.inl rfl)

/-- **delete** with at least one filter, in either store: exactly the matching rows go, the rest
stays in place, and the returned number is the number of matching rows. -/
theorem C24_delete_spec (s : Store) (q : Query) (hf : q.hasFilter = true) :
    ∃ p : Handler → Bool, (∀ h, p h = true ↔ Matches h q) ∧
      (s.delete q).1.rows = s.rows.filter (fun h => !p h) ∧
      (s.delete q).2 = (s.rows.filter p).length ∧
      (s.delete q).1.backend = s.backend ∧
      ∀ h, h ∈ (s.delete q).1.rows ↔ h ∈ s.rows ∧ ¬ Matches h q := by
  obtain ⟨h1, h2⟩ := delete_eq s q hf
  refine ⟨(matchesB · q), fun h => matchesB_iff h q, h1, h2, delete_backend s q, ?_⟩
  intro h
  rw [h1, List.mem_filter, ← matchesB_iff]
  simp

example : let s := (Store.init (.mem (some 3))).run [.update { handlerId := 1, workflowName := 5, status := 1 },
      .update { handlerId := 2, workflowName := 5, status := 0 }, .update { handlerId := 3, workflowName := 6, status := 1 }];
    ((s.delete { statusIn := some [1], workflowNameIn := some [5] }).1.rows.map (·.handlerId), (s.delete { statusIn := some [1], workflowNameIn := some [5] }).2)
      = ([2, 3], 1) := by decide

/-- outside the property (no filter at all): the in-memory store removes everything, SQLite nothing -/
theorem C24_filterless_delete_differs (s : Store) (q : Query) (hf : q.hasFilter = false) :
    (∀ mx, s.backend = .mem mx → (s.delete q).1.rows = [] ∧ (s.delete q).2 = s.rows.length) ∧
    (s.backend = .sql → (s.delete q).1.rows = s.rows ∧ (s.delete q).2 = 0) := by
  constructor
  · intro mx hb
    have hall : ∀ h : Handler, memMatches h q = true := fun h => by rw [memMatches_eq]; exact matchesB_noFilter h q hf
    unfold Store.delete; rw [hb]
    simp only
    constructor
    · apply List.filter_eq_nil_iff.mpr; intro h _; simp [hall h]
    · congr 1; apply List.filter_eq_self.mpr; intro h _; exact hall h
  · intro hb
    unfold Store.delete; rw [hb]
    simp [sqlFilters_noFilter q hf, sqlDeleteNoClausesIsZero]

example : ({} : Query).hasFilter = false := rfl

/-- **memory = SQLite**: the two matchers are the same function of (row, query); on equal tables
`query` answers the same and a `delete` with at least one filter removes the same rows and returns
the same number. -/
theorem C24_backends_agree :
    (∀ h q, memMatches h q = sqlMatches h q) ∧
    ∀ (s₁ s₂ : Store) (mx : Option Nat), s₁.backend = .mem mx → s₂.backend = .sql → s₁.rows = s₂.rows →
      ∀ q, s₁.query q = s₂.query q ∧
        (q.hasFilter = true → (s₁.delete q).1.rows = (s₂.delete q).1.rows ∧ (s₁.delete q).2 = (s₂.delete q).2) := by
  refine ⟨memMatches_eq_sqlMatches, ?_⟩
  intro s₁ s₂ mx _ _ hr q
  refine ⟨by rw [query_eq, query_eq, hr], fun hf => ?_⟩
  obtain ⟨a1, a2⟩ := delete_eq s₁ q hf
  obtain ⟨b1, b2⟩ := delete_eq s₂ q hf
  exact ⟨by rw [a1, b1, hr], by rw [a2, b2, hr]⟩

example : let s₁ := (Store.init (.mem (some 5))).run [.update { handlerId := 1, workflowName := 5, status := 1 }];
    let s₂ := (Store.init .sql).run [.update { handlerId := 1, workflowName := 5, status := 1 }];
    s₁.backend = .mem (some 5) ∧ s₂.backend = .sql ∧ s₁.rows = s₂.rows ∧ s₁.rows ≠ [] := by decide

/-- **memory = SQLite over whole histories**: from empty stores, any sequence of upserts, status
updates, queries and deletes (each delete with at least one filter) gives the same answers, op by
op, and the same table, in the unbounded in-memory store and in the SQLite store. -/
theorem C24_backends_agree_runs (ops : List Op) (hf : ∀ q, Op.delete q ∈ ops → q.hasFilter = true) :
    (Store.init (.mem none)).outs ops = (Store.init .sql).outs ops ∧
    ((Store.init (.mem none)).run ops).rows = ((Store.init .sql).run ops).rows :=
  agree_runs ops _ _ rfl rfl rfl hf

example : ∀ q, Op.delete q ∈ [Op.update { handlerId := 1, workflowName := 5, status := 1 }, .delete { isIdle := some false },
    .query {}] → q.hasFilter = true := by
  intro q hq
  simp only [List.mem_cons, List.not_mem_nil, or_false, reduceCtorEq, false_or, Op.delete.injEq] at hq
  subst hq; rfl

/-- **upsert / the current map**: in every reachable store handler ids are unique; writing `h`
replaces the row with its id (in place) or appends it and leaves every other row alone; the SQLite
store, the unbounded memory store, and any memory store on a non-terminal write hold exactly that
table afterwards. -/
theorem C24_upsert_lookup (b : Backend) (ops : List Op) (h : Handler) :
    (ids ((Store.init b).run ops).rows).Nodup ∧
    (∀ r, r ∈ upsert ((Store.init b).run ops).rows h ↔ r = h ∨ (r ∈ ((Store.init b).run ops).rows ∧ r.handlerId ≠ h.handlerId)) ∧
    ((b = .sql ∨ b = .mem none ∨ (∃ m, b = .mem m) ∧ h.terminal = false) →
      (((Store.init b).run ops).update h).rows = upsert ((Store.init b).run ops).rows h) := by
  have hw := Wf_run (Store.init b) ops (Wf_init b)
  have hb : ((Store.init b).run ops).backend = b := run_backend _ _
  refine ⟨hw.ids_nodup, fun r => mem_upsert _ _ _, ?_⟩
  rintro (rfl | rfl | ⟨⟨m, rfl⟩, ht⟩)
  · exact update_rows_unbounded _ _ (Or.inl hb)
  · exact update_rows_unbounded _ _ (Or.inr hb)
  · exact (update_mem_nonterminal _ _ m hb ht).1

example : (upsert [{ handlerId := 1, workflowName := 5, status := 0 }, { handlerId := 2, workflowName := 5, status := 0 }]
    { handlerId := 1, workflowName := 6, status := 1 }).map (fun r => (r.handlerId, r.workflowName)) = [(1, 6), (2, 5)] := by decide

/-! ## retention (in-memory store with `max_completed = m`)

`g.stamp id` (ghost state, `WfProofs/HandlerStoreRetention.lean`) is the index of the operation at
which handler `id` most recently *became* terminal — written with a terminal status while the
table held no terminal row of that id (`C24_completed_stamp`).  "Most recently completed" is the
order of these stamps: further terminal writes of an already terminal handler do not move it. -/

/-- **retention, one write**: after any history `ops`, an operation that writes handler `h`
(`update`, or `update_handler_status` that finds its run) leaves a sub-table of the upserted
table `T` in which (1) every non-terminal row of `T` is kept, (2) exactly
`min m (#terminal rows of T)` terminal rows are kept when `h` is terminal (all of `T` otherwise),
and (3) every kept terminal row became terminal later than every evicted one. -/
theorem C24_retention_step (m : Nat) (ops : List Op) (op : Op) (h : Handler) :
    let g := (Ghost.init (.mem (some m))).run ops
    g.s.written op = some h →
    (∀ r ∈ upsert g.s.rows h, r.terminal = false → r ∈ (g.step op).s.rows) ∧
    (g.step op).s.rows.Sublist (upsert g.s.rows h) ∧
    countTerminal (g.step op).s.rows =
      (if h.terminal then min m (countTerminal (upsert g.s.rows h)) else countTerminal (upsert g.s.rows h)) ∧
    (∀ k ∈ (g.step op).s.rows, k.terminal = true → ∀ e ∈ upsert g.s.rows h, e.terminal = true →
      e ∉ (g.step op).s.rows → (g.step op).stamp e.handlerId < (g.step op).stamp k.handlerId) := by
  intro g hwr
  have hg : GInv g := GInv_run _ ops (GInv_init _)
  have hb : g.s.backend = .mem (some m) := by rw [Ghost.run_s, run_backend]; rfl
  exact retention_update g hg m hb op h hwr

/-- the ghost run is the plain run (stamps do not influence the store) -/
theorem C24_ghost_erasure (b : Backend) (ops : List Op) :
    ((Ghost.init b).run ops).s = (Store.init b).run ops ∧ ((Ghost.init b).run ops).hist = ops := by
  refine ⟨Ghost.run_s _ _, ?_⟩
  rw [Ghost.run_hist]; rfl

example : let g := (Ghost.init (.mem (some 1))).run [.update { handlerId := 1, workflowName := 5, status := 1, runId := some 9 },
      .update { handlerId := 2, workflowName := 5, status := 0 }, .status { runId := 9, now := 4 }];
    (g.s.rows.map (·.handlerId), g.s.queue, g.stamp 1) = ([1, 2], [1], 0) ∧
    g.s.written (.update { handlerId := 3, workflowName := 5, status := 2 }) = some { handlerId := 3, workflowName := 5, status := 2 } := by
  decide

/-- **retention bound**: whatever happens, a store with `max_completed = m` never holds more than
`m` terminal handlers. -/
theorem C24_retention_bound (m : Nat) (ops : List Op) :
    countTerminal ((Store.init (.mem (some m))).run ops).rows ≤ m := by
  suffices H : ∀ (ops : List Op) (s : Store), Wf s → s.backend = .mem (some m) → countTerminal s.rows ≤ m →
      countTerminal (s.run ops).rows ≤ m from
    H ops _ (Wf_init _) rfl (by simp [Store.init, countTerminal])
  intro ops
  induction ops with
  | nil => intro s _ _ hc; exact hc
  | cons op ops ih =>
    intro s hw hb hc
    exact ih (s.step op).1 (Wf_step s op hw) (by rw [step_backend, hb]) (terminal_bound s m hw hb hc op)

example : countTerminal ((Store.init (.mem (some 1))).run [.update { handlerId := 1, workflowName := 5, status := 1 },
    .update { handlerId := 2, workflowName := 5, status := 3 }]).rows = 1 := by decide

/-- **nothing else evicts**: an operation that writes no handler (a query, a status update whose
run is unknown, a delete) leaves the table alone, except that a delete removes what it matches;
and with `max_completed = None` a write leaves exactly the upserted table. -/
theorem C24_no_eviction_elsewhere (mx : Option Nat) (ops : List Op) (op : Op) :
    let s := (Store.init (.mem mx)).run ops
    (s.written op = none → (s.step op).1.rows = s.rows ∨
      ∃ q, op = .delete q ∧ (s.step op).1.rows = s.rows.filter (fun r => !memMatches r q)) ∧
    (mx = none → ∀ h, s.written op = some h → (s.step op).1.rows = upsert s.rows h) := by
  intro s
  have hb : s.backend = .mem mx := run_backend _ _
  constructor
  · intro hwr
    rcases step_written_none s op hwr with h1 | ⟨q, hq, h1⟩
    · left; rw [h1]
    · right
      refine ⟨q, hq, ?_⟩
      rw [h1]; unfold Store.delete; rw [hb]
  · intro hmx h hwr
    subst hmx
    rw [step_written_some s op h hwr]
    exact update_rows_unbounded s h (Or.inr hb)

example : ((Store.init (.mem (some 1))).run [.update { handlerId := 1, workflowName := 5, status := 1 }]).written
    (.status { runId := 3, status := some 2 }) = none := by decide

/-- **what "completed at" means**: for every terminal handler in a reachable in-memory store, its
stamp is the index of an operation of the history that wrote it with a terminal status while the
table held no terminal row with its id, and after every later operation the handler has been in
the table with a terminal status. -/
theorem C24_completed_stamp (mx : Option Nat) (ops : List Op) (r : Handler) :
    let g := (Ghost.init (.mem mx)).run ops
    r ∈ g.s.rows → r.terminal = true →
    ∃ op h, ops[g.stamp r.handlerId]? = some op ∧
      ((Store.init (.mem mx)).run (ops.take (g.stamp r.handlerId))).written op = some h ∧
      h.handlerId = r.handlerId ∧ h.terminal = true ∧
      (∀ r' ∈ ((Store.init (.mem mx)).run (ops.take (g.stamp r.handlerId))).rows, r'.handlerId = r.handlerId → r'.terminal = false) ∧
      ∀ k, g.stamp r.handlerId < k → k ≤ ops.length →
        ∃ r' ∈ ((Store.init (.mem mx)).run (ops.take k)).rows, r'.handlerId = r.handlerId ∧ r'.terminal = true := by
  intro g hr ht
  have hg : GInv g := GInv_run _ ops (GInv_init _)
  have hh : HInv (.mem mx) g := HInv_run mx _ ops (GInv_init _) (HInv_init _)
  have hb : g.s.backend = .mem mx := by rw [Ghost.run_s, run_backend]; rfl
  have hq : r.handlerId ∈ g.s.queue := ((hg.wf.mem _ hb).queue_iff _).mpr ⟨r, hr, rfl, ht⟩
  obtain ⟨op, h, h1, h2, h3, h4, h5⟩ := hh.means _ hq
  have hhist : g.hist = ops := (C24_ghost_erasure _ ops).2
  rw [hhist] at h1 h2 h4 h5
  refine ⟨op, h, h1, h2, h3, ?_, ?_, h5⟩
  · unfold becameTerminal at h4
    simp only [Bool.and_eq_true] at h4
    exact h4.1
  · intro r' hr' hid
    unfold becameTerminal at h4
    simp only [Bool.and_eq_true, Bool.not_eq_true', List.any_eq_false, beq_iff_eq, not_and, Bool.not_eq_true] at h4
    exact h4.2 r' hr' (hid.trans h3.symm)

example : let g := (Ghost.init (.mem (some 2))).run [.update { handlerId := 1, workflowName := 5, status := 0 },
      .update { handlerId := 1, workflowName := 5, status := 2 }, .update { handlerId := 1, workflowName := 5, status := 2 }];
    (g.s.rows.map (fun r => (r.handlerId, r.terminal)), g.stamp 1) = ([(1, true)], 1) := by decide

/-! ## whole histories

The theorems above describe one operation on an arbitrary reachable store.  The ones below describe
the table after a whole history in terms of the operations of that history.  "The store before
operation `k`" is `(Store.init b).run (ops.take k)`; the handler an operation writes is
`Store.written` (the argument of `update`; for `update_handler_status` the updated copy of the first
handler with that run id, nothing when there is none). -/

/-- **every row is the latest write of its id** (every store, every history): a handler in the
table was written by some operation `i` of the history, has been in the table after every later
operation, and no later operation wrote its id.  Nothing is ever in a table that was not put there,
and an older version of a handler never comes back. -/
theorem C24_rows_are_last_writes (b : Backend) (ops : List Op) (r : Handler) :
    r ∈ ((Store.init b).run ops).rows →
    ∃ i op, ops[i]? = some op ∧ ((Store.init b).run (ops.take i)).written op = some r ∧
      (∀ k, i < k → k ≤ ops.length → r ∈ ((Store.init b).run (ops.take k)).rows) ∧
      ∀ j op', i < j → ops[j]? = some op' →
        ∀ h, ((Store.init b).run (ops.take j)).written op' = some h → h.handlerId ≠ r.handlerId :=
  fun hr => rows_lastWrite b ops r hr

example : let ops := [Op.update { handlerId := 1, workflowName := 5, status := 0, runId := some 9 }, .status { runId := 9, status := some 1, now := 4 },
      .update { handlerId := 2, workflowName := 5, status := 0 }];
    ((Store.init .sql).run ops).rows.map (fun r => (r.handlerId, r.status, r.completedAt)) = [(1, 1, some 4), (2, 0, none)] ∧
    ((Store.init .sql).run (ops.take 1)).written (.status { runId := 9, status := some 1, now := 4 }) =
      some { handlerId := 1, workflowName := 5, status := 1, runId := some 9, updatedAt := some 4, completedAt := some 4 } := by decide

/-- **all non-terminal handlers are kept, over whole histories** (and everything, in the SQLite and
the unbounded store): a handler written by operation `i` is in the table at the end of the history
whenever no later operation writes its id or is a delete whose filters it passes — provided the
store is SQLite, or unbounded, or the handler is non-terminal.  No number of completions of other
handlers, in any order, ever removes a running handler. -/
theorem C24_write_persists (b : Backend) (ops : List Op) (i : Nat) (op : Op) (r : Handler) :
    ops[i]? = some op → ((Store.init b).run (ops.take i)).written op = some r →
    (b = .sql ∨ b = .mem none ∨ r.terminal = false) →
    (∀ j op', i < j → ops[j]? = some op' →
      (∀ h, ((Store.init b).run (ops.take j)).written op' = some h → h.handlerId ≠ r.handlerId) ∧
      (∀ q, op' = .delete q → ¬ Matches r q)) →
    r ∈ ((Store.init b).run ops).rows :=
  fun hget hwr hk hu => write_persists b ops i op r hget hwr hk hu

example : let ops := [Op.update { handlerId := 1, workflowName := 5, status := 0 }, .update { handlerId := 2, workflowName := 5, status := 1 },
      .update { handlerId := 3, workflowName := 5, status := 2 }, .delete { statusIn := some [1, 2, 3] }];
    (((Store.init (.mem (some 1))).run ops).rows.map (·.handlerId) = [1]) ∧
    ¬ Matches { handlerId := 1, workflowName := 5, status := 0 } { statusIn := some [1, 2, 3] } := by
  refine ⟨by decide, ?_⟩
  rw [← matchesB_iff]; decide

/-- **the table as a function of the history** (refinement to "latest undisturbed write"): with
every delete carrying at least one filter, a handler `r` that nothing can evict (any handler in the
SQLite or the unbounded store, a non-terminal one in a bounded store) is in the table after `ops`
**iff** some operation wrote exactly `r` and no later operation wrote its id or was a delete whose
filters `r` passes.  Together with `C24_query_spec` this fixes every query answer from the history
alone. -/
theorem C24_table_from_history (b : Backend) (ops : List Op) (hf : ∀ q, Op.delete q ∈ ops → q.hasFilter = true) (r : Handler)
    (hk : b = .sql ∨ b = .mem none ∨ r.terminal = false) :
    r ∈ ((Store.init b).run ops).rows ↔
    ∃ i op, ops[i]? = some op ∧ ((Store.init b).run (ops.take i)).written op = some r ∧
      ∀ j op', i < j → ops[j]? = some op' →
        (∀ h, ((Store.init b).run (ops.take j)).written op' = some h → h.handlerId ≠ r.handlerId) ∧
        (∀ q, op' = .delete q → ¬ Matches r q) := by
  constructor
  · intro hr
    obtain ⟨i, op, hget, hwr, hstay, hno⟩ := rows_lastWrite b ops r hr
    exact ⟨i, op, hget, hwr, LastWrite_undisturbed b ops hf r i hstay hno⟩
  · rintro ⟨i, op, hget, hwr, hu⟩
    exact write_persists b ops i op r hget hwr hk hu

example : ∀ q, Op.delete q ∈ [Op.update { handlerId := 1, workflowName := 5, status := 0 }, .delete { handlerIdIn := some [2] }] →
    q.hasFilter = true := by
  intro q hq
  simp only [List.mem_cons, List.not_mem_nil, or_false, reduceCtorEq, false_or, Op.delete.injEq] at hq
  subst hq; rfl

/-- **`_terminal_queue` in every reachable in-memory store** (any `max_completed`, any history): it
has no repetitions, holds exactly the ids of the terminal handlers in the table (so its length is
their number), is ordered by the time each became terminal, and every entry's lookup finds a
terminal row — the two `continue` branches of `_evict_oldest_completed` ("already removed", "stale
entry") are never taken, every popped id evicts one handler. -/
theorem C24_terminal_queue_exact (mx : Option Nat) (ops : List Op) :
    let g := (Ghost.init (.mem mx)).run ops
    g.s.queue.Nodup ∧
    (∀ id, id ∈ g.s.queue ↔ ∃ r ∈ g.s.rows, r.handlerId = id ∧ r.terminal = true) ∧
    g.s.queue.length = countTerminal g.s.rows ∧
    g.s.queue.Pairwise (fun a b => g.stamp a < g.stamp b) ∧
    (∀ id ∈ g.s.queue, ∃ r, g.s.rows.find? (·.handlerId == id) = some r ∧ r.terminal = true) := by
  intro g
  have hg : GInv g := GInv_run _ ops (GInv_init _)
  have hb : g.s.backend = .mem mx := by rw [Ghost.run_s, run_backend]; rfl
  have hq := hg.wf.mem _ hb
  refine ⟨hq.queue_nodup, hq.queue_iff, hq.count.symm, (hg.ord _ hb).1, ?_⟩
  intro id hid
  obtain ⟨r, hr, hrid, hrt⟩ := (hq.queue_iff id).mp hid
  exact ⟨r, by rw [← hrid]; exact find_of_mem _ hq.ids_nodup r hr, hrt⟩

example : let g := (Ghost.init (.mem (some 2))).run [.update { handlerId := 1, workflowName := 5, status := 0 },
      .update { handlerId := 2, workflowName := 5, status := 1 }, .update { handlerId := 1, workflowName := 5, status := 3 },
      .update { handlerId := 2, workflowName := 5, status := 2 }, .update { handlerId := 3, workflowName := 5, status := 1 }];
    (g.s.queue, g.s.rows.map (·.handlerId), g.stamp 1, g.stamp 3) = ([1, 3], [1, 3], 2, 4) := by decide

/-- **evicted = older than everything retained at any later time**: if operation `i` evicts the
terminal handler `e` (it is in the upserted table and not in the table afterwards), then after every
later operation of the history every terminal handler in the table became terminal later than `e`
had when it was evicted.  So over a whole history the retained completions are always newer than
every completion evicted so far: an old completion never outlives a newer one. -/
theorem C24_evicted_stay_older (m : Nat) (ops : List Op) (i n : Nat) (op : Op) (h e : Handler) :
    let gi := (Ghost.init (.mem (some m))).run (ops.take i)
    let gn := (Ghost.init (.mem (some m))).run (ops.take n)
    ops[i]? = some op → gi.s.written op = some h →
    e ∈ upsert gi.s.rows h → e.terminal = true → e ∉ (gi.step op).s.rows →
    i < n → n ≤ ops.length →
    ∀ k ∈ gn.s.rows, k.terminal = true → (gi.step op).stamp e.handlerId < gn.stamp k.handlerId := by
  intro gi gn hget hwr he het hgone hin hnl
  have hgi : GInv gi := GInv_run _ _ (GInv_init _)
  have hb : gi.s.backend = .mem (some m) := by rw [Ghost.run_s, run_backend]; rfl
  have hb' : (gi.step op).s.backend = .mem (some m) := by
    have : (gi.step op).s.backend = gi.s.backend := step_backend gi.s op
    rw [this]; exact hb
  obtain ⟨rest, hsplit⟩ : ∃ rest, ops.take n = (ops.take i ++ [op]) ++ rest := by
    refine ⟨(ops.take n).drop (i + 1), ?_⟩
    have h1 : ops.take (i + 1) = ops.take i ++ [op] := by rw [List.take_add_one, hget]; rfl
    have h2 : (ops.take n).take (i + 1) = ops.take (i + 1) := by
      rw [List.take_take]; congr 1; omega
    rw [← h1, ← h2, List.take_append_drop]
  have hgn : gn = (gi.step op).run rest := by
    show (Ghost.init (.mem (some m))).run (ops.take n) = _
    rw [hsplit, Ghost.run_append, Ghost.run_snoc]
  rw [hgn]
  apply AllNewer_run _ (gi.step op) (GInv_step gi op hgi) (some m) hb' _ (stamp_upsert_lt gi op hgi _ hb h e hwr he het)
  intro k hk hkt
  exact (retention_update gi hgi m hb op h hwr).2.2.2 k hk hkt e he het hgone

example : let ops := [Op.update { handlerId := 1, workflowName := 5, status := 1 }, .update { handlerId := 2, workflowName := 5, status := 1 },
      .update { handlerId := 3, workflowName := 5, status := 0 }, .update { handlerId := 3, workflowName := 5, status := 2 }];
    let gi := (Ghost.init (.mem (some 1))).run (ops.take 1);
    let gn := (Ghost.init (.mem (some 1))).run (ops.take 4);
    gi.s.written (.update { handlerId := 2, workflowName := 5, status := 1 }) = some { handlerId := 2, workflowName := 5, status := 1 } ∧
    (upsert gi.s.rows { handlerId := 2, workflowName := 5, status := 1 }).map (·.handlerId) = [1, 2] ∧
    (gi.step (.update { handlerId := 2, workflowName := 5, status := 1 })).s.rows.map (·.handlerId) = [2] ∧
    (gn.s.rows.map (·.handlerId), (gi.step (.update { handlerId := 2, workflowName := 5, status := 1 })).stamp 1, gn.stamp 3) = ([3], 0, 3) := by
  decide

/-- **bounded = unbounded minus forgotten completions** (histories of upserts, queries and deletes):
after the same history, every handler of the store with `max_completed = m` is, unchanged, in the
store with `max_completed = None`; every non-terminal handler of the unbounded store is in the
bounded one; hence every query of the bounded store answers a part of what the unbounded store (and
so, by `C24_backends_agree_runs`, the SQLite store) answers, lacking only terminal handlers. -/
theorem C24_bounded_within_unbounded (m : Nat) (ops : List Op) (hns : ∀ op ∈ ops, op.isStatus = false) :
    let B := (Store.init (.mem (some m))).run ops
    let U := (Store.init (.mem none)).run ops
    (∀ r ∈ B.rows, r ∈ U.rows) ∧ (∀ r ∈ U.rows, r.terminal = false → r ∈ B.rows) ∧
    (∀ q, ∀ r ∈ B.query q, r ∈ U.query q) ∧
    (∀ q, ∀ r ∈ U.query q, r ∉ B.query q → r.terminal = true) := by
  intro B U
  have hw : Within B U := Within_run m ops _ _ (Wf_init _) (Wf_init _) rfl rfl
    ⟨fun r hr => by simp [Store.init] at hr, fun r hr => by simp [Store.init] at hr⟩ hns
  refine ⟨hw.sub, hw.live, ?_, ?_⟩
  · intro q r hr
    rw [query_eq, List.mem_filter] at hr ⊢
    exact ⟨hw.sub r hr.1, hr.2⟩
  · intro q r hr hnr
    rw [query_eq, List.mem_filter] at hr hnr
    cases ht : r.terminal with
    | true => rfl
    | false => exact absurd ⟨hw.live r hr.1 ht, hr.2⟩ hnr

/-- why `C24_bounded_within_unbounded` excludes status updates: `update_handler_status` for the run
of an evicted handler finds nothing in the bounded store (and does nothing) but revives the handler
in the unbounded one. -/
example : let ops := [Op.update { handlerId := 1, workflowName := 5, status := 1, runId := some 9 },
      .update { handlerId := 2, workflowName := 5, status := 1, runId := some 8 }, .status { runId := 9, status := some 0, now := 3 }];
    ((Store.init (.mem (some 1))).run ops).rows.map (fun r => (r.handlerId, r.status)) = [(2, 1)] ∧
    ((Store.init (.mem none)).run ops).rows.map (fun r => (r.handlerId, r.status)) = [(1, 0), (2, 1)] := by decide

example : ∀ op ∈ [Op.update { handlerId := 1, workflowName := 5, status := 1 }, .delete { isIdle := some false }, .query {}],
    op.isStatus = false := by decide

/-! ## the in-memory store's own code -/

/-- What `MemoryWorkflowStore` says today (regenerated on every run, names of parameters and locals
abstracted): the constructor's default bound and its guard, `query` as the filtered listing of the
dict, the statement shapes of `update` (store; if terminal: enqueue the id unless queued, evict;
else de-queue), `delete` (collect the matching ids; per id remove the handler and de-queue; return
their number) and `_evict_oldest_completed` (no bound: return; while the queue is longer than the
bound: pop the oldest id, skip a missing or non-terminal handler, remove the handler and its
per-run data). `Store.update`, `Store.delete` and `evict` of the model are these shapes. -/
theorem C24_memory_store_shape :
    memMaxCompletedDefault = some 1000 ∧ memNegativeMaxRaises = true ∧ memQueryIsFilteredListing = true ∧
    memUpdateShape = ["store", "if-terminal", "enqueue-if-absent", "evict", "else", "dequeue"] ∧
    memDeleteShape = ["collect-matching", "del-handler", "dequeue", "count"] ∧
    memEvictShape = ["unbounded-returns", "while-len>max", "pop-oldest", "skip-missing", "skip-nonterminal", "remove-handler",
      "drop-run-data"] ∧
    memEvictRunTables = ["events", "state_stores", "ticks"] := by
  refine ⟨rfl, rfl, rfl, rfl, rfl, rfl, rfl⟩

/-- **the constructor**: a negative `max_completed` is refused (and only that), any other value is
the bound of the store, `None` means no bound, and the default store is the one with the bound the
source gives — which therefore never holds more than that many terminal handlers, whatever happens. -/
theorem C24_constructor (v : Int) :
    (Store.initMem? (some v) = none ↔ v < 0) ∧
    (0 ≤ v → Store.initMem? (some v) = some (Store.init (.mem (some v.toNat)))) ∧
    Store.initMem? none = some (Store.init (.mem none)) ∧
    Store.initMemDefault? = some (Store.init (.mem (some 1000))) ∧
    ∀ s ops, Store.initMemDefault? = some s → countTerminal (s.run ops).rows ≤ 1000 := by
  have hd : Store.initMemDefault? = some (Store.init (.mem (some 1000))) := rfl
  refine ⟨?_, ?_, rfl, hd, ?_⟩
  · unfold Store.initMem?
    by_cases hv : v < 0 <;> simp [hv, memNegativeMaxRaises]
  · intro hv
    unfold Store.initMem?
    have : ¬ v < 0 := by omega
    simp [this]
  · intro s ops hs
    rw [hd] at hs
    cases hs
    exact C24_retention_bound 1000 ops

example : Store.initMem? (some (-1)) = none ∧ (Store.initMem? (some 2)).map (·.backend) = some (.mem (some 2)) := ⟨rfl, rfl⟩
