"""Generator for lean/WfModel/GenCliConfigSql.lean (model M16 / M16b, property C37).

Re-extracted from /repo's current llamactl sources on every run — the *shape* of what the model
`WfModel/CliConfig.lean` was read from, so that a change of a statement or of a binding breaks
`C37_source_shape_sql` / `C37_source_shape_binding` instead of silently leaving the model behind:

* every SQL statement `ConfigManager` executes, as (method, verb, table, WHERE conjuncts, rest)
  where rest = SET columns of an UPDATE / literal key of an INSERT into settings / ORDER BY, LIMIT;
  SELECT column lists and bound values are not part of the shape; the list is sorted, so
  reordering independent statements does not change it,
* every call `self.config_manager.<m>(…)` in `AuthService`, with whether it passes
  `self.env.api_url` (the binding of the service), and which `ConfigManager` methods take an
  environment argument at all,
* `EnvService.current_auth_service()` constructs `AuthService(self.config_manager(),
  self.get_current_environment())` (a fresh service is bound to the current environment),
* migration 0002 makes `profiles.id` unique,
* `ConfigManager.delete_profile` clears the selection when the *name* matches (whatever the
  environment), `ConfigManager.get_current_profile` treats an empty name as no selection.

A shape that is not found yields a sentinel (empty list / false) and a note.
"""
from __future__ import annotations

import ast
import re

from ..boot import repo_path
from ..translate import lean_str

LEAN_MODULE = "GenCliConfigSql"

CFG = "packages/llamactl/src/llama_agents/cli/config/"


def _parse(rel: str) -> ast.Module | None:
    try:
        return ast.parse(open(repo_path(rel)).read())
    except (OSError, SyntaxError):
        return None


def _class(tree: ast.AST | None, name: str) -> ast.ClassDef | None:
    if tree is None:
        return None
    return next((n for n in ast.walk(tree) if isinstance(n, ast.ClassDef) and n.name == name), None)


def _methods(cls: ast.ClassDef | None) -> list[ast.FunctionDef | ast.AsyncFunctionDef]:
    return [] if cls is None else [n for n in cls.body if isinstance(n, (ast.FunctionDef, ast.AsyncFunctionDef))]


def _ws(s: str) -> str:
    return re.sub(r"\s+", " ", s).strip()


def _conj(c: str) -> str:
    c = re.sub(r"\s+", "", c)
    return c[:-2] if c.endswith("=?") else c


def sql_shape(sql: str) -> tuple[str, str, str, str] | None:
    """(verb, table, where, rest) of one statement, or None when it is not one of the four DML verbs."""
    q = _ws(sql)
    m = re.match(r"(?i)SELECT\b.*?\bFROM (\w+)(.*)$", q)
    rest: list[str] = []
    if m:
        verb, table, tail = "SELECT", m.group(1), m.group(2)
    else:
        m = re.match(r"(?i)INSERT( OR (REPLACE|IGNORE))? INTO (\w+)\s*\(([^)]*)\)\s*VALUES\s*\((.*)\)\s*$", q)
        if m:
            verb = "INSERT" + (" OR " + m.group(2).upper() if m.group(2) else "")
            table, tail = m.group(3), ""
            lits = [v.strip() for v in m.group(5).split(",") if v.strip() != "?"]
            rest += [f"values={v}" for v in lits]
        else:
            m = re.match(r"(?i)UPDATE (\w+) SET (.*?)( WHERE .*)?$", q)
            if m:
                verb, table, tail = "UPDATE", m.group(1), m.group(3) or ""
                rest.append("set=" + ",".join(_ws(a.split("=")[0]) for a in m.group(2).split(",")))
            else:
                m = re.match(r"(?i)DELETE FROM (\w+)(.*)$", q)
                if not m:
                    return None
                verb, table, tail = "DELETE", m.group(1), m.group(2)
    where = ""
    mw = re.search(r"(?i)\bWHERE (.*?)(?= ORDER BY | LIMIT |$)", tail)
    if mw:
        where = "&".join(_conj(c) for c in re.split(r"(?i)\s+AND\s+", mw.group(1)))
    mo = re.search(r"(?i)\bORDER BY (.*?)(?= LIMIT |$)", tail)
    if mo:
        rest.append("order=" + re.sub(r"\s+", "", mo.group(1)))
    ml = re.search(r"(?i)\bLIMIT (\d+)", tail)
    if ml:
        rest.append("limit=" + ml.group(1))
    return verb, table, where, ";".join(rest)


def _sql_literals(fn: ast.AST) -> list[str]:
    out = []
    for n in ast.walk(fn):
        if isinstance(n, ast.Call) and isinstance(n.func, ast.Attribute) and n.func.attr in ("execute", "executemany", "executescript") \
                and n.args:
            a = n.args[0]
            if isinstance(a, ast.Constant) and isinstance(a.value, str):
                out.append(a.value)
            else:
                out.append("<dynamic>")  # built at run time: not a shape the model can be read from
    return out


def _tuple(xs: tuple[str, ...]) -> str:
    return "(" + ", ".join(lean_str(x) for x in xs) + ")"


def _b(v: bool) -> str:
    return "true" if v else "false"


def generate(notes: list[str]) -> list[str]:
    out: list[str] = ["namespace Gen.CliConfigSql"]

    def miss(what: str) -> None:
        notes.append(f"gen/cliconfig_sql: could not extract {what}")

    # ---- ConfigManager: SQL shapes, environment parameters
    cm = _class(_parse(CFG + "_config.py"), "ConfigManager")
    stmts: list[tuple[str, ...]] = []
    env_param: list[tuple[str, str]] = []
    for fn in _methods(cm):
        for sql in _sql_literals(fn):
            sh = sql_shape(sql)
            stmts.append((fn.name,) + (sh if sh is not None else ("<unparsed>", _ws(sql)[:60], "", "")))
        names = [a.arg for a in fn.args.args]
        if "env_url" in names or "api_url" in names:
            env_param.append((fn.name, "env_url" if "env_url" in names else "api_url"))
    if not stmts:
        miss("SQL statements of ConfigManager")
    stmts.sort()
    out.append("/-- (method, verb, table, WHERE conjuncts, rest) of every statement `ConfigManager` executes, sorted -/")
    out.append("def sqlStatements : List (String × String × String × String × String) := [")
    out += ["  " + _tuple(t) + ("," if i + 1 < len(stmts) else "") for i, t in enumerate(stmts)]
    out.append("]")
    out.append("/-- `ConfigManager` methods that take an environment argument -/")
    out.append("def envTakingMethods : List String := [" + ", ".join(lean_str(m) for m, _ in sorted(env_param)) + "]")

    # ---- ConfigManager.delete_profile / get_current_profile
    dp = next((f for f in _methods(cm) if f.name == "delete_profile"), None)
    clears_on_name = False
    if dp is not None:
        for n in ast.walk(dp):
            if isinstance(n, ast.If) and re.sub(r"\s+", "", ast.unparse(n.test)) in (
                    "self.get_settings_current_profile_name()==name", "name==self.get_settings_current_profile_name()"):
                clears_on_name = any(isinstance(c, ast.Call) and isinstance(c.func, ast.Attribute)
                                     and c.func.attr == "set_settings_current_profile" and len(c.args) == 1
                                     and isinstance(c.args[0], ast.Constant) and c.args[0].value is None
                                     for b in n.body for c in ast.walk(b))
    else:
        miss("ConfigManager.delete_profile")
    out.append(f"def deleteProfileClearsOnName : Bool := {_b(clears_on_name)}")
    gcp = next((f for f in _methods(cm) if f.name == "get_current_profile"), None)
    truthy = False
    if gcp is not None:
        for n in ast.walk(gcp):
            if isinstance(n, ast.If) and isinstance(n.test, ast.Name):
                truthy = any(isinstance(c, ast.Call) and isinstance(c.func, ast.Attribute) and c.func.attr == "get_profile"
                             for b in n.body for c in ast.walk(b))
    else:
        miss("ConfigManager.get_current_profile")
    out.append(f"def currentProfileNameTruthy : Bool := {_b(truthy)}")

    # ---- AuthService: which ConfigManager call gets the binding
    asvc = _class(_parse(CFG + "auth_service.py"), "AuthService")
    calls: list[tuple[str, str, str]] = []
    for fn in _methods(asvc):
        for n in ast.walk(fn):
            if isinstance(n, ast.Call) and isinstance(n.func, ast.Attribute) and isinstance(n.func.value, ast.Attribute) \
                    and n.func.value.attr == "config_manager" and isinstance(n.func.value.value, ast.Name) \
                    and n.func.value.value.id == "self":
                args = [ast.unparse(a) for a in n.args] + [ast.unparse(k.value) for k in n.keywords]
                env_args = sorted({a for a in args if "env" in a or "api_url" in a})
                calls.append((fn.name, n.func.attr, ",".join(env_args)))
    if not calls:
        miss("AuthService calls into ConfigManager")
    calls.sort()
    out.append("/-- (AuthService method, ConfigManager method it calls, the environment-valued arguments it passes) -/")
    out.append("def authServiceCalls : List (String × String × String) := [")
    out += ["  " + _tuple(t) + ("," if i + 1 < len(calls) else "") for i, t in enumerate(calls)]
    out.append("]")

    # ---- EnvService.current_auth_service: AuthService(self.config_manager(), self.get_current_environment())
    esvc = _class(_parse(CFG + "env_service.py"), "EnvService")
    cas = next((f for f in _methods(esvc) if f.name == "current_auth_service"), None)
    fresh = False
    if cas is not None:
        rets = [n for n in ast.walk(cas) if isinstance(n, ast.Return) and n.value is not None]
        fresh = len(rets) == 1 and re.sub(r"\s+", "", ast.unparse(rets[0].value)) == \
            "AuthService(self.config_manager(),self.get_current_environment())"
    else:
        miss("EnvService.current_auth_service")
    out.append(f"def currentAuthServiceBoundToCurrent : Bool := {_b(fresh)}")
    gce = next((f for f in _methods(esvc) if f.name == "get_current_environment"), None)
    direct = False
    if gce is not None:
        # no state of the service object besides the config-manager factory is read, and the store is asked
        attrs = {n.attr for n in ast.walk(gce) if isinstance(n, ast.Attribute) and isinstance(n.value, ast.Name) and n.value.id == "self"}
        asks = any(isinstance(n, ast.Call) and isinstance(n.func, ast.Attribute) and n.func.attr == "get_current_environment"
                   for n in ast.walk(gce))
        direct = attrs <= {"config_manager"} and asks
    else:
        miss("EnvService.get_current_environment")
    out.append("/-- `EnvService.get_current_environment` reads the store on every call (no cached copy) -/")
    out.append(f"def currentEnvironmentReadThrough : Bool := {_b(direct)}")

    # ---- migration 0002: unique ids
    try:
        sql2 = open(repo_path(CFG + "migrations/0002_add_auth_fields.sql")).read()
    except OSError:
        sql2 = ""
    uniq = re.search(r"(?i)CREATE\s+UNIQUE\s+INDEX\s+(IF\s+NOT\s+EXISTS\s+)?\w+\s+ON\s+profiles\s*\(\s*id\s*\)", sql2) is not None
    if not uniq:
        miss("unique index on profiles(id) (0002_add_auth_fields.sql)")
    out.append(f"def profilesIdUnique : Bool := {_b(uniq)}")
    out.append("end Gen.CliConfigSql")
    return out
