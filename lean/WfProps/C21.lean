import WfProofs.SqliteConn
import WfProofs.SqliteLock
import WfProofs.SqliteScratch
/-!
# C21 — the single-connection SQLite store keeps working after use

Model: `WfModel/SqliteConn.lean`.  A history is an arbitrary list of public
operations; an operation is an arbitrary glue program (`Prog`) over *sections*
(method bodies that obtain a connection, run statements, maybe commit, release);
what the statements compute is an oracle that is the same in both modes.  The
lifecycle of every section function of `SqliteWorkflowStore` and
`SqliteStateStore` is the generated table `SqliteConn.table`
(`WfModel/GenSqliteConn.lean`, re-extracted from the source on every run).
-/
open SqliteConn

/-- The lifecycle facts the proof rests on, checked on the table extracted from
the current source: the constructor opens the persistent connection; both
`_connect` providers hand it out; `create_state_store` passes it on; **no section
function closes it** (neither on the normal nor on the exception path), every
data change is committed before the section ends, no exception can leave a
successful change uncommitted; every shape was classified; every section an
operation lists is a row. -/
theorem C21_table_ok : tableOk table = true := by decide

/-- non-vacuity: the table has the sections of both classes and the operations
that reach them. -/
example : table.secs.length ≥ 12 ∧ table.ops.length ≥ 18 ∧
    (secNames table).contains "ss._load_state" = true ∧ (secNames table).contains "ws.append_event" = true ∧
    (table.secs.filter (·.writes)).length ≥ 6 := by decide

/-- **C21.** For every statement semantics, every history of handler, event, tick
and state-store operations (any number of state stores, used interleaved) and
every initial content: the single-connection store returns the same results, in
order, as the per-call store, and leaves the same committed content. -/
theorem C21_modes_agree : ModesAgree table := by
  intro C V sem ps c0
  have h := modes_agree_of_tableOk table C21_table_ok sem ps c0
  exact ⟨h.1, h.2.committed⟩

/-- The invariant behind it: after every history the shared connection is open
and has nothing uncommitted. -/
theorem C21_shared_connection_stays_open {C V : Type} (sem : Sem C V) (ps : List (Prog V)) (c0 : C) :
    (runAll table .single sem ps (init table .single c0)).1.sharedOpen = true ∧
    (runAll table .single sem ps (init table .single c0)).1.pending = none := by
  have h := modes_agree_of_tableOk table C21_table_ok sem ps c0
  exact ⟨h.2.isOpen, h.2.clean⟩

section nonvacuity
/-- a history over the real table: `update`, create two state stores, `set` on the
second (load + save), `get` on the first, an `append_event` that raises, `query` -/
def demoSem : Sem Nat Nat := fun s a c =>
  { ok := a != 99, began := (a % 2 == 1), wrote := (a % 2 == 1) && a != 99, content := c + s + 1, val := c * 10 + a }
def demoGlue (r : Res Nat) : Prog Nat :=
  match r with
  | .val _ v => .ret v
  | .closedErr => .ret 7777
  | _ => .ret 8888
def sec! (n : String) : Nat := (idxOf table n).getD 999
def demoHistory : List (Prog Nat) :=
  [ .call none (sec! "ws.update") 1 demoGlue,
    .newStore true (fun i => .ret i),
    .newStore true (fun i => .ret i),
    .call (some 1) (sec! "ss._load_state") 1 (fun _ => .call (some 1) (sec! "ss._save_state") 3 demoGlue),
    .call (some 0) (sec! "ss._load_state") 0 demoGlue,
    .call none (sec! "ws.append_event") 99 demoGlue,
    .call none (sec! "ws.query") 0 demoGlue,
    .call (some 5) (sec! "ss._load_state") 0 demoGlue ]

/-- non-vacuity: the history runs, changes the content several times, and no
operation meets a closed connection in either mode -/
example :
    (runAll table .single demoSem demoHistory (init table .single 0)).2 =
      (runAll table .perCall demoSem demoHistory (init table .perCall 0)).2 ∧
    (runAll table .single demoSem demoHistory (init table .single 0)).2 = [1, 0, 1, 183, 320, 419, 320, 8888] ∧
    (runAll table .single demoSem demoHistory (init table .single 0)).1.committed = 32 ∧
    (runAll table .perCall demoSem demoHistory (init table .perCall 0)).1.opened = 6 := by decide
end nonvacuity

/-- The same for **any** table (any source tree), restricted to histories whose
sections are well-behaved rows: this is the part of C21 that also holds of a
tree in which some other section closes the shared connection. -/
theorem C21_modes_agree_guarded (t : Table) (hctor : t.ctorOpensShared = true) {C V : Type} (sem : Sem C V)
    (ps : List (Prog V)) (c0 : C)
    (h : ∀ p ∈ ps, Uses (fun s => secOkAt t s = true) (fun _ => True) p) :
    (runAll t .single sem ps (init t .single c0)).2 = (runAll t .perCall sem ps (init t .perCall c0)).2 ∧
    (runAll t .single sem ps (init t .single c0)).1.committed = (runAll t .perCall sem ps (init t .perCall c0)).1.committed ∧
    (runAll t .single sem ps (init t .single c0)).1.sharedOpen = true := by
  have h' := runAll_sim t sem ps _ _ h (init_sim t hctor c0)
  exact ⟨h'.1, h'.2.committed, h'.2.isOpen⟩

/-- the table of the tree before the repair (finding F19): the state store's
sections close whatever `_connect` returned -/
def f19Table : Table :=
  { wsShared := true, ssShared := true, createPassesShared := true, ctorOpensShared := true, lockPerStore := true,
    unknowns := 0,
    secs := [ ⟨"ws.query", 0, .provider, false, ⟨false, false, true, false, false⟩, ⟨true, true, true, false, false⟩⟩,
              ⟨"ss._load_state", 1, .provider, true, ⟨true, true, true, false, false⟩, ⟨true, true, true, false, false⟩⟩ ],
    ops := [(0, "query", ["ws.query"]), (1, "get", ["ss._load_state"])], staticOps := [] }

/-- non-vacuity of the guard: on the unrepaired table histories of workflow-store
operations satisfy it (and the table as a whole does not) -/
example : secOkAt f19Table 0 = true ∧ secOkAt f19Table 1 = false ∧ tableOk f19Table = false := by decide

/-- Sensitivity (why the proof breaks when a source change closes the shared
connection): if a state-store section closes the connection it runs on, the
property is false — create a state store, use it, then use anything. -/
theorem C21_state_store_closing_shared_refutes (t : Table) (hctor : t.ctorOpensShared = true)
    (hss : t.ssShared = true) (hcr : t.createPassesShared = true) (s : Nat) (sec : Sec)
    (hs : t.secs[s]? = some sec) (hp : sec.acquire = .provider) (hc : sec.shared.closeOk = true) :
    ¬ ModesAgree t := by
  intro h
  have h1 := (h Unit Bool (fun _ _ c => ⟨true, false, false, c, false⟩)
    [.newStore true (fun i => .call (some i) s false (fun _ => .call (some i) s false
        (fun r => .ret (r == .closedErr))))] ()).1
  simp [runAll, runProg, secStep, hs, onShared, init, perCall_beq_single, hctor, hss, hcr, hp, sharedAfter, freshAfter, hc] at h1

/-- the same for a workflow-store section -/
theorem C21_closing_section_refutes (t : Table) (hctor : t.ctorOpensShared = true) (hws : t.wsShared = true)
    (s : Nat) (sec : Sec) (hs : t.secs[s]? = some sec) (hp : sec.acquire = .provider)
    (hc : sec.shared.closeOk = true) : ¬ ModesAgree t := by
  intro h
  have h1 := (h Unit Bool (fun _ _ c => ⟨true, false, false, c, false⟩)
    [.call none s false (fun _ => .call none s false (fun r => .ret (r == .closedErr)))] ()).1
  simp [runAll, runProg, secStep, hs, onShared, init, perCall_beq_single, hctor, hws, hp, sharedAfter, freshAfter, hc] at h1

/-- ... and when it closes it on the exception path only -/
theorem C21_closing_on_error_refutes (t : Table) (hctor : t.ctorOpensShared = true) (hws : t.wsShared = true)
    (s : Nat) (sec : Sec) (hs : t.secs[s]? = some sec) (hp : sec.acquire = .provider)
    (hc : sec.shared.closeErr = true) : ¬ ModesAgree t := by
  intro h
  have h1 := (h Unit Bool (fun _ _ c => ⟨false, false, false, c, false⟩)
    [.call none s false (fun _ => .call none s false (fun r => .ret (r == .closedErr)))] ()).1
  simp [runAll, runProg, secStep, hs, onShared, init, perCall_beq_single, hctor, hws, hp, sharedAfter, freshAfter, hc] at h1

/-- A write that is committed on a per-call connection but not on the shared one
is a disagreement on the committed content. -/
theorem C21_uncommitted_write_refutes (t : Table) (hctor : t.ctorOpensShared = true) (hws : t.wsShared = true)
    (s : Nat) (sec : Sec) (hs : t.secs[s]? = some sec) (hp : sec.acquire = .provider) (hw : sec.writes = true)
    (hc : sec.shared.commitOk = false) (hf : sec.fresh.commitOk = true) : ¬ ModesAgree t := by
  intro h
  have h1 := (h Bool Bool (fun _ _ _ => ⟨true, true, true, true, false⟩)
    [.call none s false (fun _ => .ret false)] false).2
  cases hcl : sec.shared.closeOk <;>
    simp [runAll, runProg, secStep, hs, onShared, init, perCall_beq_single, hctor, hws, hp, sharedAfter, freshAfter, hc, hf, hw, hcl] at h1

/-- F19 as a theorem: the table of the unrepaired tree violates the property. -/
theorem C21_refuted_before_repair : ¬ ModesAgree f19Table :=
  C21_state_store_closing_shared_refutes f19Table rfl rfl rfl 1 _ rfl rfl rfl

/-- In single-connection mode there is one connection: a history of operations of
a store instance and of the state stores it creates never opens another one. -/
theorem C21_single_uses_one_connection {C V : Type} (sem : Sem C V) (ps : List (Prog V)) (c0 : C)
    (h : ∀ p ∈ ps, Uses (fun s => instanceSecAt table s = true) (fun b => b = true) p) :
    (runAll table .single sem ps (init table .single c0)).1.opened = 0 := by
  obtain ⟨hctor, hws, hss, hcr, _, _, _⟩ := tableOk_parts table C21_table_ok
  have hprov : ∀ s, instanceSecAt table s = true → secProviderAt table s = true := by
    intro s hs
    have hall : instanceProvider table = true := by decide
    unfold instanceSecAt at hs
    unfold secProviderAt
    cases hsec : table.secs[s]? with
    | none => rfl
    | some sec =>
      simp only [hsec] at hs ⊢
      have := List.all_eq_true.1 hall sec (List.mem_of_getElem? hsec)
      simp only [hs, Bool.not_true, Bool.false_or] at this
      exact this
  have hu : ∀ p ∈ ps, Uses (fun s => secProviderAt table s = true) (fun b => b = true) p := by
    intro p hp
    have := h p hp
    clear h hp
    induction this with
    | ret v => exact .ret v
    | call o s a k hP _ ih => exact .call o s a k (hprov s hP) ih
    | newStore b k hQ _ ih => exact .newStore b k hQ ih
  have := runAll_single_opens_nothing table hctor hws hss hcr sem ps (init table .single c0) hu
    (by intro b hb; simp [init] at hb)
  simpa [init] using this.1

/-- non-vacuity: the demo history (minus the operation on a missing object, which
is allowed too) satisfies the hypothesis -/
example : ∀ s ∈ [sec! "ws.update", sec! "ss._load_state", sec! "ss._save_state", sec! "ws.append_event", sec! "ws.query"],
    instanceSecAt table s = true := by decide

/-- Per-call connections do not leak: in either mode, after every history every
connection that was opened for a call has been closed (normal and exception
paths). -/
theorem C21_percall_no_leak {C V : Type} (m : Mode) (sem : Sem C V) (ps : List (Prog V)) (c0 : C) :
    (runAll table m sem ps (init table m c0)).1.opened = (runAll table m sem ps (init table m c0)).1.closed := by
  have hall : tableNoLeak table = true := by decide
  exact runAll_balanced table m sem ps _ (fun p _ => uses_noLeak_of_all table hall p) (by simp [init])

/-- non-vacuity: the per-call run of the demo history opens (and closes) connections -/
example : (runAll table .perCall demoSem demoHistory (init table .perCall 0)).1.closed = 6 := by decide

/-! ## the locks of the state stores (an open `edit_state` block and the other stores) -/

/-- Checked on the current source: every locking section of `SqliteStateStore`
(`set_state`, `edit_state`, and `set` / `clear` through them) takes one lock, and that
lock is created by the store object for itself — it is not handed in with the
connection and does not depend on the connection mode. -/
theorem C21_lock_per_store : table.lockPerStore = true := by decide

/-- **C21, lock part.** Whichever state-store objects were handed the shared
connection (all of them in single-connection mode, none with per-call connections):
every schedule of lock requests and releases, by any tasks on any store objects, is
answered the same way.  A request that is granted — at once or after a hand-over —
with per-call connections is granted at the same point on the single connection. -/
theorem C21_locks_modes_agree : LocksAgree table :=
  locksAgree_of_perStore table C21_lock_per_store

/-- An open `edit_state` block of one store object never delays an operation on
another store object: the request is granted at once when nobody holds or awaits
that object's own lock, whatever else is held (same run or not, any connection). -/
theorem C21_other_store_never_waits (stores : List Bool) (s : LSt) (task obj : Nat) (hobj : obj < stores.length)
    (hfree : ∀ p ∈ s.held ++ s.waiting, p.1 ≠ obj + 1) :
    (lockStep table stores (.acq task obj) s).2 = .got :=
  acq_free_perStore table C21_lock_per_store stores s task obj hobj hfree

/-- non-vacuity: task 0 opens an edit on store 0 and, inside it, writes store 1
(nested); task 1 queues for store 0 meanwhile and gets it at the hand-over; same
answers with and without the shared connection -/
example :
    (runLocks table [true, true] [.acq 0 0, .acq 1 0, .acq 0 1, .rel 0 1, .rel 0 0, .rel 1 0, .rel 1 0, .acq 2 5] {}).2 =
      [.got, .wait, .got, .next none, .next (some 1), .next none, .notHeld, .noStore] ∧
    (runLocks table [false, false] [.acq 0 0, .acq 1 0, .acq 0 1, .rel 0 1, .rel 0 0, .rel 1 0, .rel 1 0, .acq 2 5] {}).2 =
      [.got, .wait, .got, .next none, .next (some 1), .next none, .notHeld, .noStore] := by decide

/-- Sensitivity: if the lock is not the store object's own but comes with the shared
connection, the property is false — hold store 0's `edit_state` open and write store 1
from inside it: granted with per-call connections, queued behind itself (for ever) on
the single connection. -/
theorem C21_shared_lock_refutes (t : Table) (h : t.lockPerStore = false) : ¬ LocksAgree t := by
  intro hagree
  have h1 := hagree [true, true] [false, false] rfl [.acq 0 0, .acq 0 1]
  simp [runLocks, lockStep, lockOf, h] at h1

/-! ## connection-scoped state (TEMP tables, attached databases, PRAGMA settings) -/

/-- Checked on the current source: no section function of either store — with the helper
methods and module functions it reaches — has a statement on connection-scoped objects
(`TEMP`/`TEMPORARY` schema objects, `temp.` names, `sqlite_temp_master`, `ATTACH`/`DETACH`,
`PRAGMA`).  Such state dies with a per-call connection and stays on the persistent one. -/
theorem C21_no_connection_scoped_state : tableNoScratch table = true := by decide

/-- **C21, connection-scoped part.** Whatever connection-scoped state is and whatever a
section could do with it: every history of sections, on the workflow store and on any state
stores, returns the same values in both connection modes, and after it the persistent
connection carries exactly what a newly opened connection has. -/
theorem C21_connection_state_modes_agree : ScratchAgree table :=
  scratchAgree_of_noScratch table C21_no_connection_scoped_state

/-- a state that counts what was staged; a section answers with what it sees -/
def demoKSem : KSem Nat Nat := fun s a k => (k + a + 1, 100 * s + 10 * a + k)

/-- non-vacuity: a history over the real table (query, delete, a state-store section, a missing
object, query again) returns values, the same in both modes; on a table in which `query` and
`delete` stage their lists on the connection the later calls see the earlier lists -/
example :
    (runScratch table .single demoKSem 0 [true] [(none, sec! "ws.query", 5), (none, sec! "ws.delete", 2),
        (some 0, sec! "ss._load_state", 1), (some 3, sec! "ss._load_state", 1), (none, sec! "ws.query", 7)] 0).2 =
      [some 350, some 520, some 1210, none, some 370] ∧
    (runScratch table .perCall demoKSem 0 [false] [(none, sec! "ws.query", 5), (none, sec! "ws.delete", 2),
        (some 0, sec! "ss._load_state", 1), (some 3, sec! "ss._load_state", 1), (none, sec! "ws.query", 7)] 0).2 =
      [some 350, some 520, some 1210, none, some 370] ∧
    (runScratch { table with scratch := ["ws.query", "ws.delete"] } .single demoKSem 0 [true]
        [(none, sec! "ws.query", 5), (none, sec! "ws.delete", 2), (some 0, sec! "ss._load_state", 1),
         (none, sec! "ws.query", 7)] 0) = (17, [some 350, some 526, some 1210, some 379]) := by decide

/-- Sensitivity: if a section reachable through the provider has statements on
connection-scoped objects, the property is false — call it twice: the second call sees what
the first one left on the persistent connection, and nothing on a per-call connection. -/
theorem C21_connection_scoped_state_refutes (t : Table) (hws : t.wsShared = true) (s : Nat) (sec : Sec)
    (hs : t.secs[s]? = some sec) (hp : sec.acquire = .provider) (hk : secScratch t sec = true) :
    ¬ ScratchAgree t := by
  intro h
  have h1 := (h Nat Nat (fun _ _ k => (k + 1, k)) 0 [] [] rfl [(none, s, 0), (none, s, 0)]).1
  simp [runScratch, scratchStep, hs, onShared, hws, hp, hk, perCall_beq_single] at h1
