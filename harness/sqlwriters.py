"""Statement-level interleaving of several writers on one SQLite file.

A store that opens a connection per call (several processes / replicas / store instances on one
``db_path``) can be interleaved with another writer *between two SQL statements* of one of its
operations; inside one event loop this never happens (there is no ``await`` between the
statements), so op-level schedules cannot show it.

``Tap`` stands in for the name ``sqlite3`` inside the store's module.  Every connection the module
opens through it is a real ``sqlite3.Connection`` (a subclass, so locking, transactions and
visibility are SQLite's own) that reports each statement (``execute`` / ``executemany`` /
``executescript`` on the connection or on one of its cursors, ``commit``, ``rollback``, leaving a
``with conn:`` block) to the scheduler *before* it runs (``before``) and after it ran or failed
(``after``).  The scheduler (the property module) decides at which statement boundary the other
writer's whole operation runs; ``in_thread`` runs that operation the way another process would: on
its own thread and event loop, synchronously from the point of view of the interrupted writer.

Connections opened while ``tap.actor`` names a writer with an entry in ``tap.timeouts`` get that busy
timeout (0 = a statement that has to wait for the other writer's lock fails at once with
``database is locked`` instead of sleeping, so a blocked boundary is observed, not waited for).
Part of the trusted base (CPython 3.12 ``sqlite3``: ``Connection.execute`` does not go through
``Cursor.execute`` of a Python subclass, so both are overridden without double reports).
"""
from __future__ import annotations

import asyncio
import re
import sqlite3 as _sqlite3
import threading
from typing import Any, Callable


def norm_sql(sql: Any) -> str:
    return re.sub(r"\s+", " ", sql).strip() if isinstance(sql, str) else repr(sql)


def is_lock_error(e: BaseException) -> bool:
    return isinstance(e, _sqlite3.OperationalError) and ("locked" in str(e).lower() or "busy" in str(e).lower())


class _Cursor(_sqlite3.Cursor):
    def _report(self, kind: str, sql: Any, params: tuple, run: Callable[[], Any]) -> Any:
        conn = self.connection
        return conn._report(kind, sql, params, run, self)  # type: ignore[attr-defined]

    def execute(self, sql, *a):  # type: ignore[override]
        return self._report("execute", sql, a, lambda: _sqlite3.Cursor.execute(self, sql, *a))

    def executemany(self, sql, *a):  # type: ignore[override]
        return self._report("executemany", sql, a, lambda: _sqlite3.Cursor.executemany(self, sql, *a))

    def executescript(self, sql):  # type: ignore[override]
        return self._report("executescript", sql, (), lambda: _sqlite3.Cursor.executescript(self, sql))


class _Conn(_sqlite3.Connection):
    tap: "Tap"
    actor: Any

    def _report(self, kind: str, sql: Any, params: tuple, run: Callable[[], Any], cursor: Any = None) -> Any:
        tap = self.tap
        text = norm_sql(sql)
        tap.before(self, kind, text, params)
        try:
            res = run()
        except BaseException as e:
            tap.after(self, kind, text, params, cursor, e)
            raise
        tap.after(self, kind, text, params, res if cursor is None else cursor, None)
        return res

    def cursor(self, factory=None):  # type: ignore[override]
        return _sqlite3.Connection.cursor(self, factory or _Cursor)

    def plain_cursor(self) -> _sqlite3.Cursor:
        """a cursor on this connection (sees its uncommitted rows) whose statements are not reported"""
        return _sqlite3.Connection.cursor(self, _sqlite3.Cursor)

    def execute(self, sql, *a):  # type: ignore[override]
        return self._report("execute", sql, a, lambda: _sqlite3.Connection.execute(self, sql, *a))

    def executemany(self, sql, *a):  # type: ignore[override]
        return self._report("executemany", sql, a, lambda: _sqlite3.Connection.executemany(self, sql, *a))

    def executescript(self, sql):  # type: ignore[override]
        return self._report("executescript", sql, (), lambda: _sqlite3.Connection.executescript(self, sql))

    def commit(self):  # type: ignore[override]
        return self._report("commit", "COMMIT", (), lambda: _sqlite3.Connection.commit(self))

    def rollback(self):  # type: ignore[override]
        return self._report("rollback", "ROLLBACK", (), lambda: _sqlite3.Connection.rollback(self))

    def __exit__(self, et, ev, tb):  # type: ignore[override]
        kind, text = ("commit", "COMMIT") if et is None else ("rollback", "ROLLBACK")
        return self._report(kind, text, (), lambda: _sqlite3.Connection.__exit__(self, et, ev, tb))


class Tap:
    """`module.sqlite3 = Tap(...)`: everything but `connect` is the real module."""

    def __init__(self) -> None:
        self.actor: Any = None
        self.timeouts: dict[Any, float] = {}
        self.before: Callable[..., None] = lambda *a: None
        self.after: Callable[..., None] = lambda *a: None
        self.connections = 0

    def __getattr__(self, name: str) -> Any:
        return getattr(_sqlite3, name)

    def connect(self, *a: Any, **k: Any) -> _sqlite3.Connection:
        k = dict(k)
        if self.actor in self.timeouts:
            if len(a) >= 2:
                a = (a[0], self.timeouts[self.actor]) + tuple(a[2:])
            else:
                k["timeout"] = self.timeouts[self.actor]
        k["factory"] = _Conn
        conn = _sqlite3.connect(*a, **k)
        conn.tap = self  # type: ignore[attr-defined]
        conn.actor = self.actor  # type: ignore[attr-defined]
        self.connections += 1
        return conn


class installed:
    """with installed(module, tap): ...   (restores the module's own `sqlite3` afterwards)"""

    def __init__(self, module: Any, tap: Tap) -> None:
        self.module, self.tap = module, tap
        self.had = hasattr(module, "sqlite3")
        self.orig = getattr(module, "sqlite3", None)

    def __enter__(self) -> Tap:
        self.module.sqlite3 = self.tap
        return self.tap

    def __exit__(self, *exc: Any) -> None:
        if self.had:
            self.module.sqlite3 = self.orig
        else:
            del self.module.sqlite3


class Stuck(RuntimeError):
    pass


def in_thread(make_coro: Callable[[], Any], seconds: float = 30.0) -> Any:
    """run the coroutine as another process would: own thread, own (real-time) event loop; wait for it"""
    box: dict[str, Any] = {}

    def target() -> None:
        try:
            box["res"] = asyncio.run(make_coro())
        except BaseException as e:  # noqa: BLE001
            box["exc"] = e

    t = threading.Thread(target=target, daemon=True)
    t.start()
    t.join(seconds)
    if t.is_alive():
        raise Stuck(f"the other writer did not finish within {seconds:.0f} s of real time")
    if "exc" in box:
        raise box["exc"]
    return box.get("res")
