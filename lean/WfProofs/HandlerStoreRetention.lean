import WfProofs.HandlerStoreTable
/-! Store-level invariants for the handler-store model (C24): well-formedness of every reachable
store, closed forms of `update`, and the ghost completion stamps used to state retention. -/

namespace HandlerStore

/-- ids are unique; for the in-memory store the queue mirrors the terminal rows -/
structure Wf (s : Store) : Prop where
  ids_nodup : (ids s.rows).Nodup
  mem : ∀ m, s.backend = .mem m → QInv s.rows s.queue

theorem Wf_init (b : Backend) : Wf (Store.init b) := by
  refine ⟨by simp [Store.init, ids], fun m _ => ⟨by simp [Store.init, ids], by simp [Store.init], ?_⟩⟩
  intro id; simp [Store.init]

/-! ### closed forms of `update` -/

theorem update_backend (s : Store) (h : Handler) : (s.update h).backend = s.backend := by
  unfold Store.update
  cases hb : s.backend with
  | sql => simp
  | mem mx =>
    simp only
    split
    · cases mx <;> simp
    · simp

theorem update_sql (s : Store) (h : Handler) (hb : s.backend = .sql) :
    (s.update h).rows = upsert s.rows h ∧ (s.update h).queue = s.queue := by
  unfold Store.update; rw [hb]; simp

theorem update_mem_nonterminal (s : Store) (h : Handler) (mx : Option Nat) (hb : s.backend = .mem mx) (ht : h.terminal = false) :
    (s.update h).rows = upsert s.rows h ∧ (s.update h).queue = s.queue.erase h.handlerId := by
  unfold Store.update; rw [hb]; simp [ht]

theorem update_mem_none (s : Store) (h : Handler) (hb : s.backend = .mem none) (ht : h.terminal = true) :
    (s.update h).rows = upsert s.rows h ∧ (s.update h).queue = enqueue s.queue h.handlerId := by
  unfold Store.update; rw [hb]; simp [ht, enqueue]

theorem update_mem_some (s : Store) (h : Handler) (m : Nat) (hw : Wf s) (hb : s.backend = .mem (some m)) (ht : h.terminal = true) :
    (s.update h).rows = dropOldest (upsert s.rows h) (enqueue s.queue h.handlerId) ((enqueue s.queue h.handlerId).length - m) ∧
    (s.update h).queue = (enqueue s.queue h.handlerId).drop ((enqueue s.queue h.handlerId).length - m) := by
  have hq := QInv_enqueue (hw.mem _ hb) h ht
  have he := evict_eq m (enqueue s.queue h.handlerId) (upsert s.rows h) hq.ids_nodup hq.queue_nodup
    (fun id hid => (hq.queue_iff id).mp hid)
  unfold Store.update; rw [hb]
  simp only [ht, ↓reduceIte]
  unfold enqueue at he ⊢
  rw [he]
  exact ⟨rfl, rfl⟩

theorem Wf_update (s : Store) (h : Handler) (hw : Wf s) : Wf (s.update h) := by
  cases hb : s.backend with
  | sql =>
    refine ⟨by rw [(update_sql s h hb).1]; exact ids_upsert_nodup _ _ hw.ids_nodup, ?_⟩
    intro m hm; rw [update_backend, hb] at hm; cases hm
  | mem mx =>
    have hq0 := hw.mem _ hb
    have key : QInv (s.update h).rows (s.update h).queue := by
      cases ht : h.terminal with
      | false =>
        obtain ⟨h1, h2⟩ := update_mem_nonterminal s h mx hb ht
        rw [h1, h2]; exact QInv_nonterminal hq0 h ht
      | true =>
        cases mx with
        | none =>
          obtain ⟨h1, h2⟩ := update_mem_none s h hb ht
          rw [h1, h2]; exact QInv_enqueue hq0 h ht
        | some m =>
          obtain ⟨h1, h2⟩ := update_mem_some s h m hw hb ht
          rw [h1, h2]; exact QInv_dropOldest (QInv_enqueue hq0 h ht) _
    exact ⟨key.ids_nodup, fun _ _ => key⟩

/-! ### delete, query, status update -/

theorem delete_backend (s : Store) (q : Query) : (s.delete q).1.backend = s.backend := by
  unfold Store.delete
  cases hb : s.backend with
  | mem mx => simp
  | sql =>
    simp only
    split
    · exact hb
    · split
      · exact hb
      · simp

/-- both stores' `query` is the table filtered by the declarative matcher -/
theorem query_eq (s : Store) (q : Query) : s.query q = s.rows.filter (matchesB · q) := by
  unfold Store.query
  cases s.backend with
  | mem mx =>
    simp only
    apply List.filter_congr
    intro h _; exact memMatches_eq h q
  | sql =>
    simp only
    cases hs : sqlFilters q with
    | none =>
      simp only
      symm
      apply List.filter_eq_nil_iff.mpr
      intro h _
      rw [← sqlMatches_eq, sqlMatches_of_none h q hs]; simp
    | some cs =>
      simp only
      apply List.filter_congr
      intro h _
      rw [sqlMatches_of_filters h q cs hs, sqlMatches_eq]

/-- `delete` with at least one filter, both stores -/
theorem delete_eq (s : Store) (q : Query) (hf : q.hasFilter = true) :
    (s.delete q).1.rows = s.rows.filter (fun r => !matchesB r q) ∧ (s.delete q).2 = (s.rows.filter (matchesB · q)).length := by
  unfold Store.delete
  cases s.backend with
  | mem mx =>
    simp only
    constructor
    · apply List.filter_congr; intro h _; rw [memMatches_eq]
    · congr 1; apply List.filter_congr; intro h _; rw [memMatches_eq]
  | sql =>
    simp only
    cases hs : sqlFilters q with
    | none =>
      simp only
      have hall : ∀ h : Handler, matchesB h q = false := fun h => by
        rw [← sqlMatches_eq, sqlMatches_of_none h q hs]
      constructor
      · symm; apply List.filter_eq_self.mpr; intro h _; simp [hall h]
      · symm; rw [List.length_eq_zero_iff]; apply List.filter_eq_nil_iff.mpr; intro h _; simp [hall h]
    | some cs =>
      have hne := sqlFilters_ne_nil q cs hs hf
      have hemp : cs.isEmpty = false := by
        cases cs with
        | nil => exact absurd rfl hne
        | cons _ _ => rfl
      simp only [hemp, Bool.false_and, Bool.false_eq_true, ↓reduceIte]
      constructor
      · apply List.filter_congr; intro h _; rw [sqlMatches_of_filters h q cs hs, sqlMatches_eq]
      · congr 1; apply List.filter_congr; intro h _; rw [sqlMatches_of_filters h q cs hs, sqlMatches_eq]

theorem Wf_delete (s : Store) (q : Query) (hw : Wf s) : Wf (s.delete q).1 := by
  cases hb : s.backend with
  | mem mx =>
    have key : QInv (s.delete q).1.rows (s.delete q).1.queue := by
      have := QInv_delete (hw.mem _ hb) (memMatches · q)
      unfold Store.delete; rw [hb]; exact this
    exact ⟨key.ids_nodup, fun _ _ => key⟩
  | sql =>
    refine ⟨?_, ?_⟩
    · unfold Store.delete; rw [hb]
      simp only
      split
      · exact hw.ids_nodup
      · split
        · exact hw.ids_nodup
        · exact ids_filter_nodup _ _ hw.ids_nodup
    · intro m hm; rw [delete_backend, hb] at hm; cases hm

/-- the handler an operation writes with `update`, if any -/
def Store.written (s : Store) : Op → Option Handler
  | .update h => some h
  | .status u =>
    match s.query { runIdIn := some [u.runId] } with
    | [] => none
    | h :: _ => some (u.apply h)
  | _ => none

theorem step_written_some (s : Store) (op : Op) (h : Handler) (hwr : s.written op = some h) : (s.step op).1 = s.update h := by
  cases op with
  | update h' => simp only [Store.written, Option.some.injEq] at hwr; subst hwr; rfl
  | status u =>
    simp only [Store.written] at hwr
    simp only [Store.step, Store.updateStatus]
    split at hwr
    · cases hwr
    · rename_i h0 tl heq
      simp only [Option.some.injEq] at hwr
      subst hwr
      rw [heq]
  | query q => simp [Store.written] at hwr
  | delete q => simp [Store.written] at hwr

theorem step_written_none (s : Store) (op : Op) (hwr : s.written op = none) :
    (s.step op).1 = s ∨ ∃ q, op = .delete q ∧ (s.step op).1 = (s.delete q).1 := by
  cases op with
  | update h' => simp [Store.written] at hwr
  | status u =>
    left
    simp only [Store.written] at hwr
    simp only [Store.step, Store.updateStatus]
    split at hwr
    · rename_i heq; rw [heq]
    · cases hwr
  | query q => left; rfl
  | delete q => right; exact ⟨q, rfl, rfl⟩

theorem Wf_step (s : Store) (op : Op) (hw : Wf s) : Wf (s.step op).1 := by
  cases hwr : s.written op with
  | some h => rw [step_written_some s op h hwr]; exact Wf_update s h hw
  | none =>
    rcases step_written_none s op hwr with h1 | ⟨q, _, h1⟩
    · rw [h1]; exact hw
    · rw [h1]; exact Wf_delete s q hw

theorem step_backend (s : Store) (op : Op) : (s.step op).1.backend = s.backend := by
  cases hwr : s.written op with
  | some h => rw [step_written_some s op h hwr]; exact update_backend s h
  | none =>
    rcases step_written_none s op hwr with h1 | ⟨q, _, h1⟩
    · rw [h1]
    · rw [h1]; exact delete_backend s q

theorem run_append (s : Store) (a b : List Op) : s.run (a ++ b) = (s.run a).run b := by
  simp [Store.run, List.foldl_append]

theorem run_snoc (s : Store) (a : List Op) (op : Op) : s.run (a ++ [op]) = ((s.run a).step op).1 := by
  simp [Store.run, List.foldl_append]

theorem Wf_run (s : Store) (ops : List Op) (hw : Wf s) : Wf (s.run ops) := by
  induction ops generalizing s with
  | nil => exact hw
  | cons op ops ih => exact ih _ (Wf_step s op hw)

theorem run_backend (s : Store) (ops : List Op) : (s.run ops).backend = s.backend := by
  induction ops generalizing s with
  | nil => rfl
  | cons op ops ih =>
    have := ih (s.step op).1
    simp only [Store.run, List.foldl_cons] at this ⊢
    rw [this, step_backend]


/-! ### ghost completion stamps

`stamp id` is the index (in the history) of the operation at which handler `id` most recently
*became* terminal: it was written terminal while the table held no terminal row with that id.
Further terminal writes of the same handler do not move it. -/

def becameTerminal (rows : List Handler) (h : Handler) : Bool :=
  h.terminal && !(rows.any (fun r => r.handlerId == h.handlerId && r.terminal))

structure Ghost where
  s : Store
  stamp : Nat → Nat
  hist : List Op

def Ghost.init (b : Backend) : Ghost := { s := Store.init b, stamp := fun _ => 0, hist := [] }

def Ghost.step (g : Ghost) (op : Op) : Ghost :=
  { s := (g.s.step op).1
    hist := g.hist ++ [op]
    stamp := match g.s.written op with
      | some h => if becameTerminal g.s.rows h then (fun id => if id = h.handlerId then g.hist.length else g.stamp id) else g.stamp
      | none => g.stamp }

def Ghost.run (g : Ghost) (ops : List Op) : Ghost := ops.foldl Ghost.step g

theorem Ghost.run_s (g : Ghost) (ops : List Op) : (g.run ops).s = g.s.run ops := by
  induction ops generalizing g with
  | nil => rfl
  | cons op ops ih =>
    have := ih (g.step op)
    simp only [Ghost.run, List.foldl_cons, Store.run] at this ⊢
    rw [this]; rfl

theorem Ghost.run_hist (g : Ghost) (ops : List Op) : (g.run ops).hist = g.hist ++ ops := by
  induction ops generalizing g with
  | nil => simp [Ghost.run]
  | cons op ops ih =>
    have := ih (g.step op)
    simp only [Ghost.run, List.foldl_cons] at this ⊢
    rw [this]; simp [Ghost.step]

theorem Ghost.run_snoc (g : Ghost) (ops : List Op) (op : Op) : g.run (ops ++ [op]) = (g.run ops).step op := by
  simp [Ghost.run, List.foldl_append]

def StampOrd (stamp : Nat → Nat) (queue : List Nat) (t : Nat) : Prop :=
  queue.Pairwise (fun a b => stamp a < stamp b) ∧ ∀ id ∈ queue, stamp id < t

structure GInv (g : Ghost) : Prop where
  wf : Wf g.s
  ord : ∀ m, g.s.backend = .mem m → StampOrd g.stamp g.s.queue g.hist.length

theorem StampOrd.sublist {stamp : Nat → Nat} {q q' : List Nat} {t t' : Nat} (h : StampOrd stamp q t) (hs : q'.Sublist q)
    (ht : t ≤ t') : StampOrd stamp q' t' :=
  ⟨h.1.sublist hs, fun id hid => Nat.lt_of_lt_of_le (h.2 id (hs.subset hid)) ht⟩

theorem becameTerminal_iff {rows : List Handler} {Q : List Nat} (hq : QInv rows Q) (h : Handler) :
    becameTerminal rows h = true ↔ h.terminal = true ∧ h.handlerId ∉ Q := by
  unfold becameTerminal
  rw [hq.queue_iff]
  simp only [Bool.and_eq_true, Bool.not_eq_true', List.any_eq_false, beq_iff_eq, not_exists, not_and]

/-- the stamps after writing `h`, ordered along the enqueued queue -/
theorem StampOrd_enqueue {rows : List Handler} {Q : List Nat} (hq : QInv rows Q) (h : Handler) (ht : h.terminal = true)
    (stamp : Nat → Nat) (t : Nat) (ho : StampOrd stamp Q t) :
    StampOrd (if becameTerminal rows h then (fun id => if id = h.handlerId then t else stamp id) else stamp)
      (enqueue Q h.handlerId) (t + 1) := by
  by_cases hin : h.handlerId ∈ Q
  · have hb : becameTerminal rows h = false := by
      cases hbt : becameTerminal rows h with
      | false => rfl
      | true => exact absurd hin ((becameTerminal_iff hq h).mp hbt).2
    have he : enqueue Q h.handlerId = Q := by simp [enqueue, hin]
    rw [hb, he]
    exact ho.sublist (List.Sublist.refl _) (Nat.le_succ _)
  · have hb : becameTerminal rows h = true := (becameTerminal_iff hq h).mpr ⟨ht, hin⟩
    have he : enqueue Q h.handlerId = Q ++ [h.handlerId] := by simp [enqueue, hin]
    rw [hb, he]
    simp only [↓reduceIte]
    generalize hst' : (fun id => if id = h.handlerId then t else stamp id) = stamp'
    have hold : ∀ a ∈ Q, stamp' a = stamp a := by
      intro a ha
      have : a ≠ h.handlerId := fun heq => hin (heq ▸ ha)
      subst hst'; simp [this]
    have hnew : stamp' h.handlerId = t := by subst hst'; simp
    constructor
    · apply List.pairwise_append.mpr
      refine ⟨?_, by simp, ?_⟩
      · exact ho.1.imp_of_mem (fun {a b} ha hb hab => by rw [hold a ha, hold b hb]; exact hab)
      · intro a ha b hb
        rw [List.mem_singleton] at hb
        subst hb
        rw [hold a ha, hnew]; exact ho.2 a ha
    · intro id hid
      rcases List.mem_append.mp hid with h1 | h1
      · rw [hold id h1]; exact Nat.lt_succ_of_lt (ho.2 id h1)
      · rw [List.mem_singleton] at h1; subst h1; rw [hnew]; exact Nat.lt_succ_self _

theorem GInv_init (b : Backend) : GInv (Ghost.init b) :=
  ⟨Wf_init b, fun _ _ => ⟨by simp [Ghost.init, Store.init], by simp [Ghost.init, Store.init]⟩⟩

theorem GInv_step (g : Ghost) (op : Op) (hg : GInv g) : GInv (g.step op) := by
  refine ⟨Wf_step g.s op hg.wf, ?_⟩
  intro mx hmx
  have hb : g.s.backend = .mem mx := by
    have : (g.step op).s.backend = g.s.backend := step_backend g.s op
    rw [← this]; exact hmx
  have ho := hg.ord mx hb
  have hq := hg.wf.mem mx hb
  have hlen : (g.step op).hist.length = g.hist.length + 1 := by simp [Ghost.step]
  rw [hlen]
  cases hwr : g.s.written op with
  | none =>
    have hst : (g.step op).stamp = g.stamp := by simp [Ghost.step, hwr]
    rw [hst]
    rcases step_written_none g.s op hwr with h1 | ⟨q, _, h1⟩
    · have : (g.step op).s = g.s := h1
      rw [this]; exact ho.sublist (List.Sublist.refl _) (Nat.le_succ _)
    · have : (g.step op).s = (g.s.delete q).1 := h1
      rw [this]
      have hqq : (g.s.delete q).1.queue.Sublist g.s.queue := by
        unfold Store.delete; rw [hb]; exact List.filter_sublist
      exact ho.sublist hqq (Nat.le_succ _)
  | some h =>
    have hs : (g.step op).s = g.s.update h := step_written_some g.s op h hwr
    have hst : (g.step op).stamp =
        if becameTerminal g.s.rows h then (fun id => if id = h.handlerId then g.hist.length else g.stamp id) else g.stamp := by
      simp [Ghost.step, hwr]
    rw [hs, hst]
    cases ht : h.terminal with
    | false =>
      have hbt : becameTerminal g.s.rows h = false := by simp [becameTerminal, ht]
      rw [hbt, (update_mem_nonterminal g.s h mx hb ht).2]
      exact ho.sublist List.erase_sublist (Nat.le_succ _)
    | true =>
      have hen := StampOrd_enqueue hq h ht g.stamp g.hist.length ho
      cases mx with
      | none => rw [(update_mem_none g.s h hb ht).2]; exact hen
      | some m =>
        rw [(update_mem_some g.s h m hg.wf hb ht).2]
        exact hen.sublist (List.drop_sublist _ _) (Nat.le_refl _)

theorem GInv_run (g : Ghost) (ops : List Op) (hg : GInv g) : GInv (g.run ops) := by
  induction ops generalizing g with
  | nil => exact hg
  | cons op ops ih => exact ih _ (GInv_step g op hg)

/-! ### unbounded memory store and SQLite store run in lock step -/


theorem update_rows_unbounded (s : Store) (h : Handler) (hb : s.backend = .sql ∨ s.backend = .mem none) :
    (s.update h).rows = upsert s.rows h := by
  rcases hb with hb | hb
  · exact (update_sql s h hb).1
  · cases ht : h.terminal with
    | false => exact (update_mem_nonterminal s h none hb ht).1
    | true => exact (update_mem_none s h hb ht).1

theorem agree_step (s₁ s₂ : Store) (hb₁ : s₁.backend = .mem none) (hb₂ : s₂.backend = .sql) (hr : s₁.rows = s₂.rows)
    (op : Op) (hop : ∀ q, op = .delete q → q.hasFilter = true) :
    (s₁.step op).2 = (s₂.step op).2 ∧ (s₁.step op).1.rows = (s₂.step op).1.rows := by
  cases op with
  | update h =>
    simp only [Store.step]
    rw [update_rows_unbounded s₁ h (Or.inr hb₁), update_rows_unbounded s₂ h (Or.inl hb₂), hr]
    constructor <;> first | trivial | rfl
  | status u =>
    simp only [Store.step, Store.updateStatus]
    have hq : s₁.query { runIdIn := some [u.runId] } = s₂.query { runIdIn := some [u.runId] } := by
      rw [query_eq, query_eq, hr]
    rw [hq]
    cases s₂.query { runIdIn := some [u.runId] } with
    | nil => constructor <;> first | trivial | exact hr
    | cons h tl =>
      simp only
      rw [update_rows_unbounded s₁ _ (Or.inr hb₁), update_rows_unbounded s₂ _ (Or.inl hb₂), hr]
      constructor <;> first | trivial | rfl
  | query q =>
    simp only [Store.step]
    rw [query_eq, query_eq, hr]
    constructor <;> first | trivial | rfl
  | delete q =>
    simp only [Store.step]
    have hf := hop q rfl
    obtain ⟨a1, a2⟩ := delete_eq s₁ q hf
    obtain ⟨b1, b2⟩ := delete_eq s₂ q hf
    rw [a1, a2, b1, b2, hr]
    constructor <;> first | trivial | rfl

theorem agree_runs : ∀ (ops : List Op) (s₁ s₂ : Store), s₁.backend = .mem none → s₂.backend = .sql → s₁.rows = s₂.rows →
    (∀ q, Op.delete q ∈ ops → q.hasFilter = true) →
    s₁.outs ops = s₂.outs ops ∧ (s₁.run ops).rows = (s₂.run ops).rows := by
  intro ops
  induction ops with
  | nil => intro s₁ s₂ _ _ hr _; exact ⟨rfl, hr⟩
  | cons op ops ih =>
    intro s₁ s₂ hb₁ hb₂ hr hop
    obtain ⟨h1, h2⟩ := agree_step s₁ s₂ hb₁ hb₂ hr op (fun q hq => hop q (hq ▸ List.mem_cons_self ..))
    obtain ⟨h3, h4⟩ := ih (s₁.step op).1 (s₂.step op).1 (by rw [step_backend, hb₁]) (by rw [step_backend, hb₂]) h2
      (fun q hq => hop q (List.mem_cons_of_mem _ hq))
    constructor
    · simp only [Store.outs]; rw [h1, h3]
    · simpa [Store.run] using h4
/-! ### retention of one write -/


theorem Ghost.step_some (g : Ghost) (op : Op) (h : Handler) (hwr : g.s.written op = some h) :
    (g.step op).s = g.s.update h ∧
    (g.step op).stamp = (if becameTerminal g.s.rows h then (fun id => if id = h.handlerId then g.hist.length else g.stamp id) else g.stamp) := by
  constructor
  · exact step_written_some g.s op h hwr
  · simp [Ghost.step, hwr]

/-- retention facts of one write on a reachable bounded in-memory store -/
theorem retention_update (g : Ghost) (hg : GInv g) (m : Nat) (hb : g.s.backend = .mem (some m)) (op : Op) (h : Handler)
    (hwr : g.s.written op = some h) :
    (∀ r ∈ upsert g.s.rows h, r.terminal = false → r ∈ (g.step op).s.rows) ∧
    (g.step op).s.rows.Sublist (upsert g.s.rows h) ∧
    countTerminal (g.step op).s.rows = (if h.terminal then min m (countTerminal (upsert g.s.rows h)) else countTerminal (upsert g.s.rows h)) ∧
    (∀ k ∈ (g.step op).s.rows, k.terminal = true → ∀ e ∈ upsert g.s.rows h, e.terminal = true → e ∉ (g.step op).s.rows →
      (g.step op).stamp e.handlerId < (g.step op).stamp k.handlerId) := by
  obtain ⟨hs, hst⟩ := Ghost.step_some g op h hwr
  rw [hs, hst]
  have hq0 := hg.wf.mem _ hb
  cases ht : h.terminal with
  | false =>
    rw [(update_mem_nonterminal g.s h _ hb ht).1]
    refine ⟨fun r hr _ => hr, List.Sublist.refl _, by simp, ?_⟩
    intro k _ _ e he _ hne; exact absurd he hne
  | true =>
    rw [(update_mem_some g.s h m hg.wf hb ht).1]
    have hq := QInv_enqueue hq0 h ht
    have hqd := QInv_dropOldest hq ((enqueue g.s.queue h.handlerId).length - m)
    have hord := StampOrd_enqueue hq0 h ht g.stamp g.hist.length (hg.ord _ hb)
    refine ⟨?_, List.filter_sublist, ?_, ?_⟩
    · intro r hr hrt
      apply (mem_dropOldest _ _ _ _).mpr
      exact ⟨hr, fun hm => hq.not_mem_of_nonterminal hr hrt (List.mem_of_mem_take hm)⟩
    · rw [hqd.count, hq.count, List.length_drop]; simp only [↓reduceIte]; omega
    · intro k hk hkt e he het hne
      have hkq : k.handlerId ∈ (enqueue g.s.queue h.handlerId).drop ((enqueue g.s.queue h.handlerId).length - m) :=
        (hqd.queue_iff _).mpr ⟨k, hk, rfl, hkt⟩
      have heq : e.handlerId ∈ (enqueue g.s.queue h.handlerId).take ((enqueue g.s.queue h.handlerId).length - m) := by
        apply Decidable.byContradiction
        intro hno
        exact hne ((mem_dropOldest _ _ _ _).mpr ⟨he, hno⟩)
      have hp := hord.1
      rw [← List.take_append_drop ((enqueue g.s.queue h.handlerId).length - m) (enqueue g.s.queue h.handlerId)] at hp
      exact (List.pairwise_append.mp hp).2.2 _ heq _ hkq

/-- the number of terminal rows of a reachable bounded store never exceeds the bound -/
theorem terminal_bound (s : Store) (m : Nat) (hw : Wf s) (hb : s.backend = .mem (some m)) (hc : countTerminal s.rows ≤ m)
    (op : Op) : countTerminal (s.step op).1.rows ≤ m := by
  have hq0 := hw.mem _ hb
  cases hwr : s.written op with
  | none =>
    rcases step_written_none s op hwr with h1 | ⟨q, _, h1⟩
    · rw [h1]; exact hc
    · rw [h1]
      have : (s.delete q).1.rows = s.rows.filter (fun r => !memMatches r q) := by
        unfold Store.delete; rw [hb]
      rw [this]
      unfold countTerminal at hc ⊢
      exact Nat.le_trans (List.Sublist.length_le (List.Sublist.filter _ List.filter_sublist)) hc
  | some h =>
    rw [step_written_some s op h hwr]
    cases ht : h.terminal with
    | false =>
      have hq := QInv_nonterminal hq0 h ht
      rw [(update_mem_nonterminal s h _ hb ht).1, hq.count]
      rw [hq0.count] at hc
      exact Nat.le_trans (List.Sublist.length_le List.erase_sublist) hc
    | true =>
      have hq := QInv_enqueue hq0 h ht
      have hqd := QInv_dropOldest hq ((enqueue s.queue h.handlerId).length - m)
      rw [(update_mem_some s h m hw hb ht).1, hqd.count, List.length_drop]; omega

/-! ### what a stamp means in terms of the history -/


/-- what the stamp of a queued id points at: the operation with that index wrote the handler
terminal while the table had no terminal row of that id, and the handler has been in the table,
terminal, after every later operation -/
def StampMeans (b : Backend) (ops : List Op) (stamp : Nat → Nat) (id : Nat) : Prop :=
  ∃ op h, ops[stamp id]? = some op ∧
    ((Store.init b).run (ops.take (stamp id))).written op = some h ∧ h.handlerId = id ∧
    becameTerminal ((Store.init b).run (ops.take (stamp id))).rows h = true ∧
    ∀ k, stamp id < k → k ≤ ops.length →
      ∃ r ∈ ((Store.init b).run (ops.take k)).rows, r.handlerId = id ∧ r.terminal = true

structure HInv (b : Backend) (g : Ghost) : Prop where
  state : g.s = (Store.init b).run g.hist
  means : ∀ id ∈ g.s.queue, StampMeans b g.hist g.stamp id

theorem queue_origin (s : Store) (mx : Option Nat) (hw : Wf s) (hb : s.backend = .mem mx) (op : Op) (id : Nat)
    (hid : id ∈ (s.step op).1.queue) :
    id ∈ s.queue ∨ ∃ h, s.written op = some h ∧ h.handlerId = id ∧ h.terminal = true ∧ id ∉ s.queue := by
  cases hwr : s.written op with
  | none =>
    left
    rcases step_written_none s op hwr with h1 | ⟨q, _, h1⟩
    · rw [h1] at hid; exact hid
    · rw [h1] at hid
      have : (s.delete q).1.queue.Sublist s.queue := by
        unfold Store.delete; rw [hb]; exact List.filter_sublist
      exact this.subset hid
  | some h =>
    rw [step_written_some s op h hwr] at hid
    cases ht : h.terminal with
    | false =>
      left
      rw [(update_mem_nonterminal s h mx hb ht).2] at hid
      exact List.erase_sublist.subset hid
    | true =>
      have hen : id ∈ enqueue s.queue h.handlerId := by
        cases mx with
        | none => rw [(update_mem_none s h hb ht).2] at hid; exact hid
        | some m => rw [(update_mem_some s h m hw hb ht).2] at hid; exact List.mem_of_mem_drop hid
      by_cases hin : id ∈ s.queue
      · exact Or.inl hin
      · right
        refine ⟨h, rfl, ?_, ht, hin⟩
        unfold enqueue at hen
        split at hen
        · exact absurd hen hin
        · rcases List.mem_append.mp hen with h1 | h1
          · exact absurd h1 hin
          · exact (List.mem_singleton.mp h1).symm

theorem HInv_init (b : Backend) : HInv b (Ghost.init b) :=
  ⟨rfl, fun id hid => by simp [Ghost.init, Store.init] at hid⟩

theorem HInv_step (mx : Option Nat) (g : Ghost) (op : Op) (hg : GInv g) (hh : HInv (.mem mx) g) : HInv (.mem mx) (g.step op) := by
  have hb : g.s.backend = .mem mx := by rw [hh.state, run_backend]; rfl
  have hstate : (g.step op).s = (Store.init (.mem mx)).run (g.hist ++ [op]) := by
    rw [run_snoc, ← hh.state]; rfl
  have hhist : (g.step op).hist = g.hist ++ [op] := rfl
  refine ⟨by rw [hhist]; exact hstate, ?_⟩
  intro id hid
  have hwf' : Wf (g.step op).s := Wf_step g.s op hg.wf
  have hb' : (g.step op).s.backend = .mem mx := by
    have : (g.step op).s.backend = g.s.backend := step_backend g.s op
    rw [this]; exact hb
  -- after the new operation the handler is there and terminal
  have hnow : ∃ r ∈ ((Store.init (.mem mx)).run (g.hist ++ [op])).rows, r.handlerId = id ∧ r.terminal = true := by
    rw [← hstate]; exact ((hwf'.mem _ hb').queue_iff id).mp hid
  rw [hhist]
  rcases queue_origin g.s mx hg.wf hb op id hid with hold | ⟨h, hwr, hhid, ht, hnew⟩
  · obtain ⟨op0, h0, hget, hwr0, hid0, hbt0, hstay⟩ := hh.means id hold
    have hlt : g.stamp id < g.hist.length := (hg.ord _ hb).2 id hold
    have hst : (g.step op).stamp id = g.stamp id := by
      cases hwr : g.s.written op with
      | none => simp [Ghost.step, hwr]
      | some h =>
        cases hbt : becameTerminal g.s.rows h with
        | false => simp [Ghost.step, hwr, hbt]
        | true =>
          have : h.handlerId ∉ g.s.queue := ((becameTerminal_iff (hg.wf.mem _ hb) h).mp hbt).2
          have hne : id ≠ h.handlerId := fun heq => this (heq ▸ hold)
          simp [Ghost.step, hwr, hbt, hne]
    refine ⟨op0, h0, ?_, ?_, hid0, ?_, ?_⟩
    · rw [hst, List.getElem?_append_left hlt]; exact hget
    · rw [hst, List.take_append_of_le_length (Nat.le_of_lt hlt)]; exact hwr0
    · rw [hst, List.take_append_of_le_length (Nat.le_of_lt hlt)]; exact hbt0
    · intro k hk1 hk2
      rw [hst] at hk1
      simp only [List.length_append, List.length_singleton] at hk2
      by_cases hk : k ≤ g.hist.length
      · rw [List.take_append_of_le_length hk]; exact hstay k hk1 hk
      · have : k = (g.hist ++ [op]).length := by simp; omega
        rw [this, List.take_length]; exact hnow
  · have hbt : becameTerminal g.s.rows h = true := (becameTerminal_iff (hg.wf.mem _ hb) h).mpr ⟨ht, hhid ▸ hnew⟩
    have hst : (g.step op).stamp id = g.hist.length := by
      simp [Ghost.step, hwr, hbt, hhid]
    refine ⟨op, h, ?_, ?_, hhid, ?_, ?_⟩
    · rw [hst]; simp
    · rw [hst, List.take_left', ← hh.state]; exact hwr
      · rfl
    · rw [hst, List.take_left', ← hh.state]; exact hbt
      · rfl
    · intro k hk1 hk2
      rw [hst] at hk1
      simp only [List.length_append, List.length_singleton] at hk2
      have : k = (g.hist ++ [op]).length := by simp; omega
      rw [this, List.take_length]; exact hnow

theorem HInv_run (mx : Option Nat) (g : Ghost) (ops : List Op) (hg : GInv g) (hh : HInv (.mem mx) g) :
    HInv (.mem mx) (g.run ops) := by
  induction ops generalizing g with
  | nil => exact hh
  | cons op ops ih => exact ih _ (GInv_step g op hg) (HInv_step mx g op hg hh)

end HandlerStore
