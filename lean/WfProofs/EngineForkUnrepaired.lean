import WfProofs.EngineUnrepaired
/-!
The reducer **before** the repair "a failure in the same step result as a stale collect_events snapshot no longer both
re-runs and retries the invocation" (`_process_step_result_tick`: `if not step_no_longer_in_progress: continue` at the
head of the `StepWorkerFailed` branch), kept as a variant so that `WfProps/C05.lean` can state what the repair prevents.

Only `applyRes` differs, and only on a `failed` result when an earlier `AddCollectedEvent` of the same list has already
scheduled the re-run: there the old code handled the failure all the same (retry queued, or the run failed).  Everything
above it is the parameterised copy of `WfProofs/EngineUnrepaired.lean`, which gives back the model definitionally when
instantiated with the model's own `applyRes` (`Runner.runWith_model`).
-/
namespace Engine

/-- `applyRes` as it was: a `StepWorkerFailed` is handled even when the execution has just been scheduled to run again -/
def applyResForks (cfg : Cfg) (pol : Policy) (step : Nat) (tickEv : Ev) (didComplete : Bool) (acc : ResAcc) : Res → ResAcc
  | .failed exc failedAt =>
    { applyRes cfg pol step tickEv didComplete { acc with stillInProgress := false } (.failed exc failedAt) with
      stillInProgress := acc.stillInProgress }
  | r => applyRes cfg pol step tickEv didComplete acc r

/-- the two agree on every result unless it is a failure after a scheduled re-run -/
theorem applyResForks_eq (cfg : Cfg) (pol : Policy) (step : Nat) (tickEv : Ev) (dc : Bool) (acc : ResAcc) (r : Res)
    (h : acc.stillInProgress = false ∨ ∀ exc t, r ≠ .failed exc t) :
    applyResForks cfg pol step tickEv dc acc r = applyRes cfg pol step tickEv dc acc r := by
  cases r with
  | failed exc t =>
    rcases h with h | h
    · have : ({ acc with stillInProgress := false } : ResAcc) = acc := by cases acc; simp_all
      simp only [applyResForks, this]
      have h2 : (applyRes cfg pol step tickEv dc acc (.failed exc t)).stillInProgress = acc.stillInProgress := by
        simp only [applyRes, h, Bool.false_eq_true, ↓reduceIte]
        split
        · rfl
        all_goals
          split
          · split <;> rfl
          · rfl
      rw [← h2]
    · exact absurd rfl (h exc t)
  | _ => rfl

/-- the reducer before the repair -/
def reduceForks (cfg : Cfg) (pol : Policy) : Tick → State → Int → State × List Cmd :=
  reduceWith cfg pol (processStepResultWith cfg (applyResForks cfg pol))

/-- runs of the runner over the reducer before the repair -/
def Runner.runForks (cfg : Cfg) (pol : Policy) (r : Runner) (acts : List Act) : Runner :=
  acts.foldl (Runner.stepWith (reduceForks cfg pol)) r

end Engine
