import WfProofs.ResourceInv
/-!
Preservation of the trace part of the invariant (`LogInv`) when one event is
appended to the ghost trace.
-/
namespace Resource

theorem Delivered.mono {s s' : St} {t d v : Nat} (hlog : ∀ e, e ∈ s.log → e ∈ s'.log)
    (h : Delivered s t d v) : Delivered s' t d v := hlog _ h

theorem Paired.delivered_mono {s s' : St} {t : Nat} {xs vs : List Nat} (hlog : ∀ e, e ∈ s.log → e ∈ s'.log)
    (h : Paired (Delivered s t) xs vs) : Paired (Delivered s' t) xs vs :=
  h.mono fun _ _ hd => hlog _ hd

theorem countMade_made (l : List Ev) (t y v x : Nat) :
    countMade (.made t y v :: l) x = countMade l x + if y = x then 1 else 0 := by
  simp only [countMade, List.countP_cons, isMade, beq_iff_eq]

theorem countMadeBy_made (l : List Ev) (t' y v t x : Nat) :
    countMadeBy (.made t' y v :: l) t x = countMadeBy l t x + if t' = t ∧ y = x then 1 else 0 := by
  simp only [countMadeBy, List.countP_cons, isMadeBy, Bool.and_eq_true, beq_iff_eq]

/-- an event that is neither `made`, `call` nor `deliver` -/
def Ev.inert : Ev → Prop
  | .raised _ _ _ => True
  | .fin _ _ => True
  | _ => False

theorem LogInv.add_inert {g : Graph} {s s' : St} {e : Ev} (h : LogInv g s) (he : e.inert)
    (hlog : s'.log = e :: s.log) (hres : s'.resources = s.resources) (hn : s'.nextObj = s.nextObj) :
    LogInv g s' := by
  have hmono : ∀ e', e' ∈ s.log → e' ∈ s'.log := by intro e' h'; rw [hlog]; exact List.mem_cons_of_mem _ h'
  cases e <;> simp [Ev.inert] at he
  all_goals
    constructor
    · intro x v hx; rw [hres] at hx; obtain ⟨h1, t0, h2⟩ := h.resOk x v hx; exact ⟨h1, t0, hmono _ h2⟩
    · intro t x v hd hc; rw [hlog] at hd; simp at hd
      obtain ⟨t0, h0⟩ := h.delivC t x v hd hc; exact ⟨t0, hmono _ h0⟩
    · intro t x v hd hc; rw [hlog] at hd; simp at hd; exact hmono _ (h.delivN t x v hd hc)
    · intro t x v hm; rw [hlog] at hm; simp at hm; exact h.madeA t x v hm
    · intro x hc; rw [hlog, hres]; simpa [countMade, List.countP_cons, isMade] using h.madeC x hc
    · intro t x; rw [hlog]; simpa [countMadeBy, List.countP_cons, isMadeBy] using h.madeN t x
    · intro t x v hm; rw [hlog] at hm; simp at hm
      obtain ⟨a, ha⟩ := h.madeCall t x v hm; exact ⟨a, hmono _ ha⟩
    · intro t x v a hc; rw [hlog] at hc; simp at hc; rw [hn]; exact h.callLt t x v a hc
    · intro t x v a t' x' a' h1 h2; rw [hlog] at h1 h2; simp at h1 h2; exact h.callInj t x v a t' x' a' h1 h2
    · intro t x v a hc; rw [hlog] at hc; simp at hc
      obtain ⟨r, hr, hp⟩ := h.callArgs t x v a hc; exact ⟨r, hr, hp.delivered_mono hmono⟩

theorem LogInv.add_deliver {g : Graph} {s s' : St} {t x v : Nat} (h : LogInv g s)
    (hv : if isCached g x then (∃ t0, Ev.made t0 x v ∈ s.log) else Ev.made t x v ∈ s.log)
    (hlog : s'.log = .deliver t x v :: s.log) (hres : s'.resources = s.resources) (hn : s'.nextObj = s.nextObj) :
    LogInv g s' := by
  have hmono : ∀ e', e' ∈ s.log → e' ∈ s'.log := by intro e' h'; rw [hlog]; exact List.mem_cons_of_mem _ h'
  constructor
  · intro x v hx; rw [hres] at hx; obtain ⟨h1, t0, h2⟩ := h.resOk x v hx; exact ⟨h1, t0, hmono _ h2⟩
  · intro t' x' v' hd hc; rw [hlog] at hd; simp at hd
    rcases hd with ⟨rfl, rfl, rfl⟩ | hd
    · simp [hc] at hv; obtain ⟨t0, h0⟩ := hv; exact ⟨t0, hmono _ h0⟩
    · obtain ⟨t0, h0⟩ := h.delivC t' x' v' hd hc; exact ⟨t0, hmono _ h0⟩
  · intro t' x' v' hd hc; rw [hlog] at hd; simp at hd
    rcases hd with ⟨rfl, rfl, rfl⟩ | hd
    · simp [hc] at hv; exact hmono _ hv
    · exact hmono _ (h.delivN t' x' v' hd hc)
  · intro t x v hm; rw [hlog] at hm; simp at hm; exact h.madeA t x v hm
  · intro x hc; rw [hlog, hres]; simpa [countMade, List.countP_cons, isMade] using h.madeC x hc
  · intro t x; rw [hlog]; simpa [countMadeBy, List.countP_cons, isMadeBy] using h.madeN t x
  · intro t x v hm; rw [hlog] at hm; simp at hm
    obtain ⟨a, ha⟩ := h.madeCall t x v hm; exact ⟨a, hmono _ ha⟩
  · intro t x v a hc; rw [hlog] at hc; simp at hc; rw [hn]; exact h.callLt t x v a hc
  · intro t x v a t' x' a' h1 h2; rw [hlog] at h1 h2; simp at h1 h2; exact h.callInj t x v a t' x' a' h1 h2
  · intro t x v a hc; rw [hlog] at hc; simp at hc
    obtain ⟨r, hr, hp⟩ := h.callArgs t x v a hc; exact ⟨r, hr, hp.delivered_mono hmono⟩

theorem LogInv.add_call {g : Graph} {s s' : St} {t x : Nat} {a : List Nat} {r : Res} (h : LogInv g s)
    (hr : g[x]? = some r) (ha : Paired (Delivered s t) r.deps a)
    (hlog : s'.log = .call t x s.nextObj a :: s.log) (hres : s'.resources = s.resources)
    (hn : s'.nextObj = s.nextObj + 1) : LogInv g s' := by
  have hmono : ∀ e', e' ∈ s.log → e' ∈ s'.log := by intro e' h'; rw [hlog]; exact List.mem_cons_of_mem _ h'
  constructor
  · intro x v hx; rw [hres] at hx; obtain ⟨h1, t0, h2⟩ := h.resOk x v hx; exact ⟨h1, t0, hmono _ h2⟩
  · intro t x v hd hc; rw [hlog] at hd; simp at hd
    obtain ⟨t0, h0⟩ := h.delivC t x v hd hc; exact ⟨t0, hmono _ h0⟩
  · intro t x v hd hc; rw [hlog] at hd; simp at hd; exact hmono _ (h.delivN t x v hd hc)
  · intro t x v hm; rw [hlog] at hm; simp at hm; exact h.madeA t x v hm
  · intro x hc; rw [hlog, hres]; simpa [countMade, List.countP_cons, isMade] using h.madeC x hc
  · intro t x; rw [hlog]; simpa [countMadeBy, List.countP_cons, isMadeBy] using h.madeN t x
  · intro t x v hm; rw [hlog] at hm; simp at hm
    obtain ⟨a, ha⟩ := h.madeCall t x v hm; exact ⟨a, hmono _ ha⟩
  · intro t' x' v' a' hc; rw [hlog] at hc; simp at hc; rw [hn]
    rcases hc with ⟨_, _, rfl, _⟩ | hc
    · omega
    · have := h.callLt t' x' v' a' hc; omega
  · intro t1 x1 v1 a1 t2 x2 a2 h1 h2; rw [hlog] at h1 h2; simp at h1 h2
    rcases h1 with ⟨rfl, rfl, rfl, rfl⟩ | h1 <;> rcases h2 with ⟨rfl, rfl, h2, rfl⟩ | h2
    · exact ⟨rfl, rfl⟩
    · have := h.callLt _ _ _ _ h2; omega
    · have := h.callLt _ _ _ _ h1; omega
    · exact h.callInj _ _ _ _ _ _ _ h1 h2
  · intro t' x' v' a' hc; rw [hlog] at hc; simp at hc
    rcases hc with ⟨rfl, rfl, rfl, rfl⟩ | hc
    · exact ⟨r, hr, ha.delivered_mono hmono⟩
    · obtain ⟨r', hr', hp⟩ := h.callArgs t' x' v' a' hc; exact ⟨r', hr', hp.delivered_mono hmono⟩

/-- The factory of `x` returned `v` to task `t`: the first time for a cached `x`
(it is not in `resources`), the first time in this scope for task `t`. -/
theorem LogInv.add_made {g : Graph} {s s' : St} {t x v : Nat} {a : List Nat} {r : Res} (h : LogInv g s)
    (hr : g[x]? = some r) (hcall : Ev.call t x v a ∈ s.log) (hacyc : Acyc g x)
    (hfirst : r.cached = true → x ∉ keys s.resources)
    (hfirstBy : countMadeBy s.log t x = 0)
    (hlog : s'.log = .made t x v :: s.log)
    (hres : s'.resources = if r.cached then (x, v) :: s.resources else s.resources)
    (hn : s'.nextObj = s.nextObj) : LogInv g s' := by
  have hmono : ∀ e', e' ∈ s.log → e' ∈ s'.log := by intro e' h'; rw [hlog]; exact List.mem_cons_of_mem _ h'
  have hcx : isCached g x = r.cached := by simp [isCached, hr]
  constructor
  · intro x' v' hx; rw [hres] at hx
    by_cases hc : r.cached = true
    · simp [hc] at hx
      rcases hx with ⟨rfl, rfl⟩ | hx
      · exact ⟨by rw [hcx, hc], t, by rw [hlog]; simp⟩
      · obtain ⟨h1, t0, h2⟩ := h.resOk x' v' hx; exact ⟨h1, t0, hmono _ h2⟩
    · simp [hc] at hx; obtain ⟨h1, t0, h2⟩ := h.resOk x' v' hx; exact ⟨h1, t0, hmono _ h2⟩
  · intro t x v hd hc; rw [hlog] at hd; simp at hd
    obtain ⟨t0, h0⟩ := h.delivC t x v hd hc; exact ⟨t0, hmono _ h0⟩
  · intro t x v hd hc; rw [hlog] at hd; simp at hd; exact hmono _ (h.delivN t x v hd hc)
  · intro t' x' v' hm; rw [hlog] at hm; simp at hm
    rcases hm with ⟨_, rfl, _⟩ | hm
    · exact hacyc
    · exact h.madeA t' x' v' hm
  · intro x' hc'
    have old := h.madeC x' hc'
    rw [hlog, hres]
    by_cases hxx : x = x'
    · subst hxx
      have hc : r.cached = true := by rw [← hcx]; exact hc'
      have h0 := old.2 (hfirst hc)
      rw [countMade_made, h0]
      simp [hc, keys]
    · rw [countMade_made, if_neg hxx]
      constructor
      · simpa using old.1
      · intro hk
        have : x' ∉ keys s.resources := by
          by_cases hc : r.cached = true
          · simp [hc, keys] at hk ⊢; exact hk.2
          · simpa [hc] using hk
        simpa using old.2 this
  · intro t' x'; rw [hlog]
    rw [countMadeBy_made]
    by_cases hb : t = t' ∧ x = x'
    · obtain ⟨rfl, rfl⟩ := hb
      rw [hfirstBy]; simp
    · rw [if_neg hb]; simpa using h.madeN t' x'
  · intro t' x' v' hm; rw [hlog] at hm; simp at hm
    rcases hm with ⟨rfl, rfl, rfl⟩ | hm
    · exact ⟨a, hmono _ hcall⟩
    · obtain ⟨a', ha'⟩ := h.madeCall t' x' v' hm; exact ⟨a', hmono _ ha'⟩
  · intro t x v a hc; rw [hlog] at hc; simp at hc; rw [hn]; exact h.callLt t x v a hc
  · intro t x v a t' x' a' h1 h2; rw [hlog] at h1 h2; simp at h1 h2; exact h.callInj t x v a t' x' a' h1 h2
  · intro t x v a hc; rw [hlog] at hc; simp at hc
    obtain ⟨r, hr, hp⟩ := h.callArgs t x v a hc; exact ⟨r, hr, hp.delivered_mono hmono⟩

end Resource
