import WfProofs.EngineReduce
/-!
# C01 — a step never runs more invocations at once than its worker limit

The reducer owns the table of in-progress invocations (`in_progress`); a worker
coroutine exists only for an entry of that table (`CommandRunWorker` is emitted
next to the insertion, and on a collect re-run for the same slot).  The theorems
below hold for **every** sequence of ticks — well-formed or not, any results,
any retry-policy decisions, any clock values — so they cover every workflow
graph, worker count and completion order at once.
-/
open Engine

/-- All states reachable from `init` by rewinding and then reducing an arbitrary
list of (tick, now) pairs. -/
def C01.reach (cfg : Cfg) (pol : Policy) (st0 : State) (now0 : Int) (ticks : List (Tick × Int)) : State :=
  ticks.foldl (fun st tn => (reduce cfg pol tn.1 st tn.2).1) (rewind cfg st0 now0).1

/-- **Invariant**: in every reachable state, for every step, the worker ids of the
in-progress invocations are pairwise distinct and lie in `[0, num_workers)`. -/
theorem C01_slots_distinct_in_range (cfg : Cfg) (hwf : cfg.WF) (pol : Policy) (st0 : State)
    (h0 : IdsInv cfg st0) (now0 : Int) (ticks : List (Tick × Int)) :
    IdsInv cfg (C01.reach cfg pol st0 now0 ticks) := by
  unfold C01.reach
  have hr := rewind_idsInv cfg hwf st0 now0 h0
  generalize (rewind cfg st0 now0).1 = st at hr
  induction ticks generalizing st with
  | nil => simpa using hr
  | cons tn rest ih =>
    simp only [List.foldl_cons]
    exact ih _ (reduce_idsInv cfg hwf pol tn.1 st tn.2 hr)

/-- **Worker limit**: hence at most `num_workers` invocations of a step are in
progress in any reachable state (pigeonhole on the slots). -/
theorem C01_workers_bounded (cfg : Cfg) (hwf : cfg.WF) (pol : Policy) (st0 : State)
    (h0 : IdsInv cfg st0) (now0 : Int) (ticks : List (Tick × Int)) :
    ∀ c ∈ cfg.steps,
      ((C01.reach cfg pol st0 now0 ticks).workers c.name).inProg.length ≤ c.numWorkers := by
  intro c hc
  exact (C01_slots_distinct_in_range cfg hwf pol st0 h0 now0 ticks c hc).length_le

/-- A fresh run starts from a state satisfying the invariant (and so does any
deserialised state, whose `in_progress` lists are empty). -/
theorem C01_init (cfg : Cfg) : IdsInv cfg initState := idsInv_init cfg

/-- The slot allocator never fails: with the invariant, `id_candidates[0]` exists
whenever there is capacity, so starting a worker never raises. -/
theorem C01_allocator_total (att : Attempt) (step : Nat) (ss : StepState) (nw : Nat) (now : Int)
    (h : IdsOk ss nw) : Cmd.crash ∉ (addOrEnqueue att step ss nw now).2 :=
  addOrEnqueue_no_crash att step ss nw now h

/-- A started worker always owns the slot it is told to run on: the `runWorker`
command of `addOrEnqueue` names an id that is in the new table and was free before. -/
theorem C01_started_on_free_slot (att : Attempt) (step : Nat) (ss : StepState) (nw : Nat) (now : Int)
    (ev : Ev) (w : Nat) (h : Cmd.runWorker step ev w ∈ (addOrEnqueue att step ss nw now).2) :
    w ∉ usedIds ss ∧ w < nw ∧ w ∈ usedIds (addOrEnqueue att step ss nw now).1 := by
  unfold addOrEnqueue at h ⊢
  by_cases hlt : ss.inProg.length < nw
  · simp only [hlt, ↓reduceIte] at h ⊢
    cases hfree : freeIds ss nw with
    | nil => simp [hfree] at h
    | cons i rest =>
      simp only [hfree, List.mem_cons, Cmd.runWorker.injEq, List.mem_nil_iff, or_false,
        reduceCtorEq] at h
      obtain ⟨_, _, hw⟩ := h
      subst hw
      have hmem : w ∈ freeIds ss nw := by rw [hfree]; simp
      obtain ⟨h1, h2⟩ := mem_freeIds hmem
      refine ⟨h2, h1, ?_⟩
      simp [usedIds]
  · simp [hlt] at h

/-! Non-vacuity: a concrete configuration with two workers, three events, any order. -/
def C01.exCfg : Cfg := { steps := [{ name := 1, accepted := [5], numWorkers := 2, hasRetry := false }] }
def C01.exEv (u : Nat) : Ev := { ty := 5, kind := .plain, uid := u }
example : C01.exCfg.WF := by simp [Cfg.WF, Cfg.names, C01.exCfg]
example :
    let st := C01.reach C01.exCfg (fun _ _ _ _ => .stop) initState 0
      [(.addEvent { ev := C01.exEv 1 } none, 0), (.addEvent { ev := C01.exEv 2 } none, 0),
       (.addEvent { ev := C01.exEv 3 } none, 0)]
    ((st.workers 1).inProg.map (·.wid), (st.workers 1).queue.length) = ([0, 1], 1) := by decide
