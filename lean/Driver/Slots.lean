import Driver.Engine
import WfModel.RunnerMicro
/-! Line protocol for the worker-slot view of the runner model (C01): every line the engine driver
understands, plus

* `rmicro <now> <policy> <hint>` — same arguments as `rstep`, the state does NOT advance: the slot tables
  (sorted `(step, worker id)` pairs of the live tasks) of every micro-state of the drain that `rstep` with
  these arguments performs (`Runner.microStates`), or `empty-buffer`;
* `rinitmicro <now> <start|_> <timeout|_>` — the slot tables of every micro-state of the start of a run from
  the current reducer state (`Runner.initStates`); the state does not advance;
* `addenq <nw> <n> <used ids…>` — `_add_or_enqueue_event` on a step with these in-progress worker ids (any
  list: duplicates, out of range, more than `nw`): `run <id>`, `queue`, or `crash` (`IndexError`). -/
open Engine

namespace Drv.Slots
open Drv.Engine

def sTable (r : Runner) : String :=
  sList (fun (p : Nat × Nat) => s!"{p.1} {p.2}")
    (sortBy (fun (a b : Nat × Nat) => a.1 < b.1 || (a.1 == b.1 && a.2 < b.2)) r.slots)

def sTables (l : List Runner) : String := "M " ++ sList sTable l

def dummyEv : Ev := { ty := 5, kind := .plain, uid := 0 }

def step (d : DState) (line : String) : DState × String :=
  match tokens line with
  | "rmicro" :: ts =>
    match (do
      let now ← int; let p ← policy
      let h ← tok
      let hint : Option Act ←
        match h with
        | "HW" => do let s ← nat; let w ← nat; let rs ← counted res; pure (some (Act.workerDone s w rs))
        | "HP" => pure (some Act.pull)
        | "HT" => pure (some Act.timer)
        | "H0" => pure none
        | _ => fun _ => none
      pure (now, p, hint)) ts with
    | some ((now, p, hint), []) =>
      if now < d.run.now then (d, "bad-op") else
      let r0 := { d.run with now := now }
      let r1 := match hint with
        | some a => if r0.buf.isEmpty then r0.step d.cfg p a else r0
        | none => r0
      match r1.buf with
      | [] => (d, "empty-buffer")
      | _ :: _ => (d, sTables (r1.microStates d.cfg p .drain))
    | _ => (d, "bad-op")
  | "rinitmicro" :: ts =>
    match (do let now ← int; let e ← opt ev; let t ← optNat; pure (now, e, t)) ts with
    | some ((now, e, t), []) => (d, sTables (Runner.initStates d.cfg d.st now e t))
    | _ => (d, "bad-op")
  | "addenq" :: ts =>
    match (do let nw ← nat; let used ← counted nat; pure (nw, used)) ts with
    | some ((nw, used), []) =>
      let ss : StepState := { inProg := used.map (fun w =>
        { ev := dummyEv, wid := w, snapEvents := [], snapWaiters := [], attempts := 0, firstAt := 0 }) }
      let r := addOrEnqueue { ev := dummyEv } 1 ss nw 0
      let out :=
        if r.2.contains .crash then "crash"
        else match r.2.filterMap (fun c => match c with | .runWorker _ _ w => some w | _ => none) with
          | w :: _ => s!"run {w}"
          | [] => "queue"
      (d, out ++ " ;; " ++ sList toString (r.1.inProg.map (·.wid)) ++ s!" ;; {r.1.queue.length}")
    | _ => (d, "bad-op")
  | _ => Drv.Engine.step d line

end Drv.Slots
