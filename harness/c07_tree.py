"""C07, nested part: trees of combinators of any depth, constructors with omitted arguments, the function-style
policy constructors and Python's `sum()` — real `workflows.retry_policy` objects against `wfdriver rptree`
(K) and against the documented behaviour written down here independently of the model (S).

A case is a JSON-able *spec*; `build_*` makes the real object from it, `line_*` the driver line, `doc_bounds` the
documented interval.  The spec also records HOW the object is put together (named constructor, operator chain
`a | b | c`, reflected operator with a plain callable on the left, `sum([...])`), which the driver line does not
mention: the theorems say all of them are the n-ary combinator of the operands.

Exactness of the compared stream: as in harness/policy.py (small dyadic parameters, stubbed draw `seed/256`).
"""
from __future__ import annotations

import math
import random
import warnings
from fractions import Fraction
from typing import Any

import workflows.retry_policy as RP

from . import policy as P
from .runner import Divergence, Driver, Env, Outcome, Violation, diff_streams

q = P.q

# the documented defaults (docstrings / signatures as released; tenacity's values) -- NOT read from the source
DOC = {
    "exp": (1, 2, 60, 0), "inc": (0, 100, "inf"), "rand": (0, 1), "jit": (1, 2, 60, 1), "rexp": (1, 2, 60, 0), "fj": (1, 2, 60, 0),
    "policy_wait": 5, "policy_stop": 3, "cdp": (3, 5), "ebp": (5, 1, 2, 60, True),
}
KW = {
    "exp": ("multiplier", "exp_base", "max", "min"), "inc": ("start", "increment", "max"), "rand": ("min", "max"),
    "jit": ("initial", "exp_base", "max", "jitter"), "rexp": ("multiplier", "exp_base", "max", "min"),
    "fj": ("multiplier", "exp_base", "max", "min"),
}
CTOR = {"exp": "wait_exponential", "inc": "wait_incrementing", "rand": "wait_random", "jit": "wait_exponential_jitter",
        "rexp": "wait_random_exponential", "fj": "wait_full_jitter"}


# ---------------------------------------------------------------- generators (specs)

def gen_wleaf(rng: random.Random) -> list:
    k = rng.randrange(8)

    def om(v: Any, p: float = 0.35) -> Any:
        return None if rng.random() < p else v

    if k == 0:
        return ["fixed", rng.choice([0, 0.5, 1, 2, 3, 0.25, 10, -1])]
    if k == 1:
        return ["wnone"]
    if k == 2:
        return ["exp", om(rng.choice([0.5, 1, 2, 3])), om(rng.choice([1, 2, 3, 1.5])), om(rng.choice([1, 8, 60, 100])), om(rng.choice([0, 0.5, 2, -1]))]
    if k == 3:
        return ["inc", om(rng.choice([0, 0.5, 1, 2])), om(rng.choice([0.5, 1, 2, 100, -1])), om(rng.choice(["inf", 2, 10, 1000]))]
    if k == 4:
        mn = rng.choice([0, 0.5, 1, 2])
        return ["rand", om(mn, 0.2), om(mn + rng.choice([0, 0.5, 1, 2, 4]), 0.2)]
    if k == 5:
        return ["jit", om(rng.choice([0.5, 1, 2])), om(rng.choice([1, 2, 3])), om(rng.choice([8, 30, 60])), om(rng.choice([0, 0.5, 1, 2]))]
    kind = "rexp" if k == 6 else "fj"
    return [kind, om(rng.choice([0.5, 1, 2])), om(rng.choice([1, 2, 3])), om(rng.choice([8, 64])), om(rng.choice([0, 0.5, 1]))]


def gen_wtree(rng: random.Random, depth: int) -> list:
    if depth == 0 or rng.random() < 0.3:
        return ["L", gen_wleaf(rng)]
    n = rng.randint(1, 3)
    kids = [gen_wtree(rng, depth - 1) for _ in range(n)]
    if rng.random() < 0.4:
        return ["C", "named", kids]
    style = rng.choice(["named", "plus", "sum", "rplus"] if n >= 2 else ["named", "sum"])
    return ["S", style, kids]


def gen_sleaf(rng: random.Random) -> list:
    k = rng.randrange(4)
    if k == 0:
        return ["att", rng.choice([0, 1, 2, 3, 5])]
    if k == 1:
        return ["del", rng.choice([0, 0.5, 2, 5, 10])]
    if k == 2:
        return ["bef", rng.choice([0.5, 2, 5, 10])]
    return ["never"]


def gen_cleaf(rng: random.Random) -> list:
    k = rng.randrange(5)
    if k == 0:
        return ["always"]
    if k == 1:
        return ["never"]
    ids = sorted(rng.sample(range(5), rng.randint(1, 3)))
    return [["in", "notin", "unless"][k - 2], ids]


def gen_btree(rng: random.Random, depth: int, leaf: Any) -> list:
    if depth == 0 or rng.random() < 0.3:
        return ["L", leaf(rng)]
    n = rng.randint(1, 3)
    kids = [gen_btree(rng, depth - 1, leaf) for _ in range(n)]
    style = rng.choice(["named", "op", "rop"] if n >= 2 else ["named"])
    return [rng.choice(["A", "B"]), style, kids]


# ---------------------------------------------------------------- real objects

def build_wleaf(s: list) -> Any:
    if s[0] == "fixed":
        return RP.wait_fixed(s[1])
    if s[0] == "wnone":
        return RP.wait_none()
    kw = {name: (float("inf") if v == "inf" else v) for name, v in zip(KW[s[0]], s[1:]) if v is not None}
    return getattr(RP, CTOR[s[0]])(**kw)


def _plain_wait(w: Any) -> Any:
    def plain(attempts: int, *, seed: int | None = None) -> float:
        return w(attempts, seed=seed)
    return plain


def build_wtree(t: list) -> Any:
    if t[0] == "L":
        return build_wleaf(t[1])
    kids = [build_wtree(k) for k in t[2]]
    if t[0] == "C":
        return RP.wait_chain(*kids)
    if t[1] == "named":
        return RP.wait_combine(*kids)
    if t[1] == "sum":
        return sum(kids)  # 0 + w1 (-> w1.__radd__(0)) + w2 + ...
    if t[1] == "rplus":
        kids = [_plain_wait(kids[0])] + kids[1:]  # plain callable on the left: kids[1].__radd__(plain)
    acc = kids[0]
    for k in kids[1:]:
        acc = acc + k
    return acc


def build_sleaf(s: list) -> Any:
    return {"att": RP.stop_after_attempt, "del": RP.stop_after_delay, "bef": RP.stop_before_delay}[s[0]](s[1]) if s[0] != "never" else RP.stop_never()


def build_cleaf(s: list) -> Any:
    if s[0] == "always":
        return RP.retry_always()
    if s[0] == "never":
        return RP.retry_never()
    types = tuple(P.EXC_CLASSES[i] for i in s[1])
    return {"in": RP.retry_if_exception_type, "notin": RP.retry_if_not_exception_type, "unless": RP.retry_unless_exception_type}[s[0]](types)


def build_btree(t: list, which: str) -> Any:
    if t[0] == "L":
        return build_sleaf(t[1]) if which == "s" else build_cleaf(t[1])
    kids = [build_btree(k, which) for k in t[2]]
    anyc, allc = (RP.stop_any, RP.stop_all) if which == "s" else (RP.retry_any, RP.retry_all)
    if t[1] == "named":
        return (anyc if t[0] == "A" else allc)(*kids)
    if t[1] == "rop":
        k0 = kids[0]
        kids = [(lambda *a, **kw: k0(*a, **kw))] + kids[1:]  # plain callable on the left: kids[1].__ror__ / __rand__
    acc = kids[0]
    for k in kids[1:]:
        acc = (acc | k) if t[0] == "A" else (acc & k)
    return acc


# ---------------------------------------------------------------- driver lines

def _o(v: Any) -> str:
    return "-" if v is None else ("inf" if v == "inf" else q(v))


def line_wleaf(s: list) -> str:
    if s[0] == "fixed":
        return f"fixed {q(s[1])}"
    if s[0] == "wnone":
        return "wnone"
    return f"d{s[0]} " + " ".join(_o(v) for v in s[1:])


def line_wtree(t: list) -> str:
    if t[0] == "L":
        return "L " + line_wleaf(t[1])
    return f"{t[0]} {len(t[2])} " + " ".join(line_wtree(k) for k in t[2])


def line_sleaf(s: list) -> str:
    return "never" if s[0] == "never" else f"{s[0]} {q(s[1])}"


def line_cleaf(s: list) -> str:
    if s[0] in ("always", "never"):
        return s[0]
    allids = [j for j in range(10) if (j % 5) in s[1]]
    return f"{'in' if s[0] == 'in' else 'notin'} {len(allids)} " + " ".join(map(str, allids))


def line_btree(t: list, which: str) -> str:
    if t[0] == "L":
        return "L " + (line_sleaf(t[1]) if which == "s" else line_cleaf(t[1]))
    return f"{t[0]} {len(t[2])} " + " ".join(line_btree(k, which) for k in t[2])


# ---------------------------------------------------------------- documented behaviour (independent of the model)

def _eff(s: list) -> list:
    return [d if v is None else v for v, d in zip(s[1:], DOC[s[0]])]


def doc_leaf(s: list, a: int) -> tuple[bool, bool, Fraction, Fraction]:
    """(well-formed, jitter-free, lo, hi) of a leaf at attempt a, from the documentation"""
    F = Fraction
    if s[0] == "fixed":
        return s[1] >= 0, True, F(s[1]), F(s[1])
    if s[0] == "wnone":
        return True, True, F(0), F(0)
    p = _eff(s)
    if s[0] == "exp":
        lo = max(F(0), F(p[3]))
        return True, True, lo, max(lo, F(p[2]))
    if s[0] == "inc":
        if p[2] == "inf":
            return True, True, F(0), max(F(0), F(p[0]) + F(p[1]) * a)
        return p[2] >= 0, True, F(0), F(p[2])
    if s[0] == "rand":
        return 0 <= p[0] <= p[1], False, F(p[0]), F(p[1])
    if s[0] == "jit":
        return all(x >= 0 for x in p), False, F(0), F(p[2])
    return p[3] >= 0, False, F(p[3]), max(max(F(0), F(p[3])), F(p[2]))


def doc_bounds(t: list, a: int) -> tuple[bool, bool, Fraction, Fraction]:
    if t[0] == "L":
        return doc_leaf(t[1], a)
    parts = [doc_bounds(k, a) for k in t[2]]
    wf = all(p[0] for p in parts)
    jf = all(p[1] for p in parts)
    if t[0] == "C":
        if not parts:
            return False, jf, Fraction(0), Fraction(0)
        m = parts[min(a, len(parts) - 1)]
        return wf, jf, m[2], m[3]
    return wf, jf, sum((p[2] for p in parts), Fraction(0)), sum((p[3] for p in parts), Fraction(0))


def doc_sleaf(s: list, k: int, el: float, up: float) -> bool:
    return {"att": lambda: k >= s[1], "del": lambda: el >= s[1], "bef": lambda: el + up >= s[1], "never": lambda: False}[s[0]]()


def doc_cleaf(s: list, e: int) -> bool:
    if s[0] in ("always", "never"):
        return s[0] == "always"
    return ((e % 5) in s[1]) == (s[0] == "in")


def doc_btree(t: list, leafval: Any) -> bool:
    if t[0] == "L":
        return bool(leafval(t[1]))
    vals = [doc_btree(k, leafval) for k in t[2]]
    return any(vals) if t[0] == "A" else all(vals)


# ---------------------------------------------------------------- one case (also the replay entry point)

def _fmt(x: Any) -> str:
    return "none" if x is None else "some " + q(x)


def run_case(case: dict, out: Outcome, prop: str = "C07") -> tuple[list[str], list[str]]:
    """Runs one case on the real code with the stubbed draw; returns (driver lines, expected answers) and appends
    violations of the documented behaviour."""
    kind = case["kind"]
    ops: list[str] = []
    exp: list[str] = []

    def bad(rule: str, what: str) -> None:
        out.violations.append(Violation(f"{prop}/{rule}", what, {"c07tree": True, **case}))

    real_random = RP.random
    RP.random = P._StubRandomModule  # type: ignore[assignment]
    try:
        if kind == "wait":
            t, a, seed = case["tree"], case["attempts"], case["seed"]
            w = build_wtree(t)
            v = w(a, seed=seed)
            ops.append(f"twait {line_wtree(t)} {a} {q(seed / 256.0)}")
            exp.append(q(v))
            wf, jf, lo, hi = doc_bounds(t, a)
            ops.append(f"tbounds {line_wtree(t)} {a}")
            exp.append(f"{int(wf)} {int(jf)} {lo.numerator}/{lo.denominator} {hi.numerator}/{hi.denominator}")
            if w(a, seed=seed) != v:
                bad("tree_not_deterministic_for_seed", f"wait tree {line_wtree(t)} gave two values for (attempts={a}, seed={seed})")
            if wf and not (isinstance(v, (int, float)) and math.isfinite(v) and v >= 0 and lo <= Fraction(v) <= hi):
                bad("tree_out_of_bounds", f"wait tree {line_wtree(t)} at attempts={a}, draw {seed}/256 returned {v!r}; documented interval [{float(lo)}, {float(hi)}]")
            if jf and w(a, seed=(seed + 97) % 257) != v:
                bad("jitter_free_tree_depends_on_seed", f"wait tree {line_wtree(t)} has no jittered part but its value changes with the seed")
        elif kind == "sum":
            ts, a, seed = case["trees"], case["attempts"], case["seed"]
            s = sum([build_wtree(t) for t in ts])
            ops.append(f"tsum {len(ts)} " + " ".join(line_wtree(t) for t in ts) + f" {a} {q(seed / 256.0)}")
            if not ts:
                exp.append("int0" if (isinstance(s, int) and s == 0) else repr(s))
            else:
                v = s(a, seed=seed)
                exp.append(q(v))
                parts = [build_wtree(t)(a, seed=seed) for t in ts]
                if Fraction(v) != sum((Fraction(p_) for p_ in parts), Fraction(0)):
                    bad("builtin_sum_not_sum", f"sum() of {len(ts)} strategies gave {v}, the parts give {parts}")
        elif kind == "stop":
            t, k, el, up = case["tree"], case["attempts"], case["elapsed"], case["upcoming"]
            v = bool(build_btree(t, "s")(k, el, upcoming_sleep=up))
            ops.append(f"tstop {line_btree(t, 's')} {k} {q(el)} {q(up)}")
            exp.append("1" if v else "0")
            if v != doc_btree(t, lambda s: doc_sleaf(s, k, el, up)):
                bad("stop_tree_not_formula", f"stop tree {t} at (attempts={k}, elapsed={el}, upcoming={up}) answered {v}")
        elif kind == "cond":
            t, e = case["tree"], case["error"]
            v = bool(build_btree(t, "c")(P.mk_exc(e)))
            ops.append(f"tcond {line_btree(t, 'c')} {e}")
            exp.append("1" if v else "0")
            if v != doc_btree(t, lambda s: doc_cleaf(s, e)):
                bad("retry_tree_not_formula", f"retry tree {t} on exception {type(P.mk_exc(e)).__name__} answered {v}")
        elif kind == "next":
            c, w, s = case["retry"], case["wait"], case["stop"]
            el, k, e, seed = case["elapsed"], case["attempts"], case["error"], case["seed"]
            kw: dict[str, Any] = {}
            if c is not None:
                kw["retry"] = build_btree(c, "c")
            if w is not None:
                kw["wait"] = build_wtree(w)
            if s is not None:
                kw["stop"] = build_btree(s, "s")
            pol = RP.retry_policy(**kw) if case.get("via", "retry_policy") == "retry_policy" else RP._ComposableRetryPolicy(**kw)
            v = pol.next(el, k, P.mk_exc(e), seed=seed)
            ops.append("tnext " + ("CN" if c is None else "CT " + line_btree(c, "c")) + " " + ("WD" if w is None else "WT " + line_wtree(w)) + " "
                       + ("SD" if s is None else "ST " + line_btree(s, "s")) + f" {q(el)} {k} {e} {q(seed / 256.0)}")
            exp.append(_fmt(v))
            # documented: retry iff condition holds and not stopped at the delay just computed; the delay is the wait tree's
            delay = (build_wtree(w)(k, seed=seed) if w is not None else DOC["policy_wait"])
            cond_ok = True if c is None else doc_btree(c, lambda s_: doc_cleaf(s_, e))
            stopped = (k >= DOC["policy_stop"]) if s is None else doc_btree(s, lambda s_: doc_sleaf(s_, k, el, delay))
            want = delay if (cond_ok and not stopped) else None
            if v != want:
                bad("next_not_composition", f"retry_policy({case}).next(...) = {v!r}; condition {cond_ok}, stopped {stopped}, delay {delay}")
        elif kind == "cdp":
            n, d = case["n"], case["d"]
            el, k, e, seed = case["elapsed"], case["attempts"], case["error"], case["seed"]
            kw = {name: v for name, v in (("maximum_attempts", n), ("delay", d)) if v is not None}
            with warnings.catch_warnings():
                warnings.simplefilter("ignore", DeprecationWarning)
                pol = RP.ConstantDelayRetryPolicy(**kw)
            v = pol.next(el, k, P.mk_exc(e), seed=seed)
            ops.append(f"tcdp {_o(n)} {_o(d)} {q(el)} {k} {e} {q(seed / 256.0)}")
            exp.append(_fmt(v))
            ne, de = (DOC["cdp"][0] if n is None else n), (DOC["cdp"][1] if d is None else d)
            if v != (None if k >= ne else de):
                bad("constant_delay_policy", f"ConstantDelayRetryPolicy({kw}).next({el}, {k}, ..) = {v!r}; documented: {de} while attempts < {ne}")
        elif kind == "ebp":
            n, i, m, mx, j = case["n"], case["i"], case["m"], case["mx"], case["j"]
            el, k, e, seed = case["elapsed"], case["attempts"], case["error"], case["seed"]
            kw = {name: v for name, v in (("maximum_attempts", n), ("initial_delay", i), ("multiplier", m), ("max_delay", mx), ("jitter", j)) if v is not None}
            with warnings.catch_warnings():
                warnings.simplefilter("ignore", DeprecationWarning)
                pol = RP.ExponentialBackoffRetryPolicy(**kw)
            v = pol.next(el, k, P.mk_exc(e), seed=seed)
            ops.append(f"tebp {_o(n)} {_o(i)} {_o(m)} {_o(mx)} {'-' if j is None else int(j)} {q(el)} {k} {e} {q(seed / 256.0)}")
            exp.append(_fmt(v))
            ne, ie, me, mxe, je = [d_ if v_ is None else v_ for v_, d_ in zip((n, i, m, mx, j), DOC["ebp"])]
            if (v is None) != (k >= ne) or (v is not None and not (0 <= v <= max(0, mxe))):
                bad("exponential_backoff_policy", f"ExponentialBackoffRetryPolicy({kw}).next({el}, {k}, ..) = {v!r}; documented: a delay in [0, {mxe}] while attempts < {ne}")
            if v is not None and not je and Fraction(v) != max(Fraction(0), min(Fraction(ie) * Fraction(me) ** k, Fraction(mxe))):
                bad("exponential_backoff_policy_plain", f"ExponentialBackoffRetryPolicy({kw}, no jitter).next({el}, {k}, ..) = {v!r}, not min(initial*multiplier**attempts, max_delay)")
        else:
            raise ValueError(kind)
    finally:
        RP.random = real_random  # type: ignore[assignment]
    return ops, exp


def gen_case(rng: random.Random) -> dict:
    r = rng.random()
    a = rng.choice([0, 1, 2, 3, 4, 7, 12])
    seed = rng.randrange(257)
    e = rng.randrange(10)
    el = rng.choice([0, 0.5, 1, 2.5, 5, 10, 100])
    if r < 0.3:
        return {"kind": "wait", "tree": gen_wtree(rng, rng.randint(1, 3)), "attempts": a, "seed": seed}
    if r < 0.38:
        return {"kind": "sum", "trees": [gen_wtree(rng, rng.randint(0, 2)) for _ in range(rng.randint(0, 4))], "attempts": a, "seed": seed}
    if r < 0.5:
        return {"kind": "stop", "tree": gen_btree(rng, rng.randint(1, 3), gen_sleaf), "attempts": a, "elapsed": el, "upcoming": rng.choice([0, 0.5, 2, 5])}
    if r < 0.62:
        return {"kind": "cond", "tree": gen_btree(rng, rng.randint(1, 3), gen_cleaf), "error": e}
    if r < 0.84:
        return {"kind": "next", "retry": None if rng.random() < 0.35 else gen_btree(rng, rng.randint(0, 2), gen_cleaf),
                "wait": None if rng.random() < 0.3 else gen_wtree(rng, rng.randint(0, 2)),
                "stop": None if rng.random() < 0.3 else gen_btree(rng, rng.randint(0, 2), gen_sleaf),
                "via": rng.choice(["retry_policy", "class"]), "elapsed": el, "attempts": a, "error": e, "seed": seed}
    if r < 0.92:
        return {"kind": "cdp", "n": rng.choice([None, 0, 1, 3, 5]), "d": rng.choice([None, 0, 0.5, 5, 7.5]), "elapsed": el, "attempts": a, "error": e, "seed": seed}
    return {"kind": "ebp", "n": rng.choice([None, 1, 3, 5, 8]), "i": rng.choice([None, 0.5, 1, 2]), "m": rng.choice([None, 1, 2, 3]),
            "mx": rng.choice([None, 0, 8, 30, 60]), "j": rng.choice([None, False, True]), "elapsed": el, "attempts": a, "error": e, "seed": seed}


CORPUS: list[dict] = [
    # (a | (b & c)) | d written with operators, reflected operator in the inner node
    {"kind": "cond", "tree": ["A", "op", [["L", ["in", [0]]], ["B", "rop", [["L", ["notin", [1]]], ["L", ["always"]]]], ["L", ["never"]]]], "error": 3},
    {"kind": "stop", "tree": ["B", "op", [["L", ["att", 2]], ["A", "named", [["L", ["never"]], ["L", ["bef", 5]]]]]], "attempts": 3, "elapsed": 2.5, "upcoming": 2.5},
    # combine of a chain of a combine; sum(); plain callable on the left of +
    {"kind": "wait", "tree": ["S", "plus", [["L", ["fixed", 1]], ["C", "named", [["L", ["rand", None, None]], ["S", "sum", [["L", ["fixed", 2]], ["L", ["rand", 1, 3]]]]]], ["L", ["inc", None, None, None]]]], "attempts": 1, "seed": 64},
    {"kind": "wait", "tree": ["S", "rplus", [["L", ["exp", None, None, None, None]], ["L", ["fj", None, None, None, None]]]], "attempts": 7, "seed": 128},
    {"kind": "sum", "trees": [], "attempts": 0, "seed": 0},
    {"kind": "sum", "trees": [["L", ["wnone"]]], "attempts": 0, "seed": 0},
    {"kind": "next", "retry": None, "wait": None, "stop": None, "via": "retry_policy", "elapsed": 0, "attempts": 2, "error": 0, "seed": 0},
    {"kind": "next", "retry": None, "wait": None, "stop": None, "via": "class", "elapsed": 0, "attempts": 3, "error": 0, "seed": 0},
    {"kind": "cdp", "n": None, "d": None, "elapsed": 0, "attempts": 2, "error": 1, "seed": 5},
    {"kind": "ebp", "n": None, "i": None, "m": None, "mx": None, "j": None, "elapsed": 0, "attempts": 4, "error": 1, "seed": 255},
    {"kind": "ebp", "n": 8, "i": 2, "m": 3, "mx": 30, "j": False, "elapsed": 0, "attempts": 7, "error": 1, "seed": 255},
]

MALFORMED = ["twait L fixed 1/1", "twait C x L fixed 1/1 0 0/1", "twait L dexp - - - 0 0/1", "tcond A 2 L always 0", "tsum 2 L wnone 0 0/1",
             "tnext CN WD 0/1 0 0 0/1", "tebp - - - - 2 0/1 0 0 0/1", "tbounds S 1 L rand 0/1 1/0 0", "tstop L att 1/1 0 0/1", "tcdp", ""]


def tree_stream(env: Env, out: Outcome, n: int) -> None:
    """K + S on nested trees / constructors with defaults / function-style constructors / sum()."""
    rng = random.Random(env.rng.randrange(1 << 30))
    cases: list[dict] = []
    if env.replay is not None:
        rc = env.replay.get("payload", {}).get("case")
        if isinstance(rc, dict) and rc.get("c07tree"):
            cases.append({k: v for k, v in rc.items() if k != "c07tree"})
    cases += CORPUS
    cases += [gen_case(rng) for _ in range(n)]
    ops: list[str] = []
    exp: list[str] = []
    for case in cases:
        if case["kind"] == "wait_extreme":
            check_extreme(case, out, env.prop)
            continue
        try:
            o, x = run_case(case, out, env.prop)
        except Exception as ex:  # the real code raised on a well-formed construction
            out.violations.append(Violation(f"{env.prop}/tree_case_raises:{case['kind']}:{type(ex).__name__}", f"{case} raised {ex!r}", {"c07tree": True, **case}))
            continue
        ops += o
        exp += x
        out.evaluations += len(o)
        out.count("tree:" + case["kind"])
        if case["kind"] == "wait":
            t = case["tree"]
            out.count("tree:wait:depth" + str(_depth(t)))
            out.count("tree:wait:" + ("wf" if doc_bounds(t, case["attempts"])[0] else "illformed"))
        for s in _styles(case):
            out.count("tree:style:" + s)
        for line in o:
            out.nontrivial(line)
    for bad_line in MALFORMED:
        ops.append(bad_line)
        exp.append("bad-op")
        out.count("tree:malformed")
    for s in ops[:3]:
        out.sample({"op": s})
    try:
        mo = Driver("rptree").run(ops)
    except Exception as ex:
        out.divergences.append(Divergence("rptree", 0, "<driver>", repr(ex), ""))
        return
    out.traces_validated += len(ops)
    out.disagreements_checked += len(ops)
    d = diff_streams("rptree", ops, mo, exp)
    if d is not None:
        out.divergences.append(d)


def _depth(t: list) -> int:
    return 0 if t[0] == "L" else 1 + max([_depth(k) for k in t[2]] or [0])


def _styles(x: Any) -> set[str]:
    s: set[str] = set()
    if isinstance(x, dict):
        for v in x.values():
            s |= _styles(v)
    elif isinstance(x, list):
        if len(x) == 3 and x[0] in ("A", "B", "C", "S") and isinstance(x[1], str):
            s.add(f"{x[0]}:{x[1]}")
        for v in x:
            s |= _styles(v)
    return s


def tree_extreme_stream(env: Env, out: Outcome, n: int) -> None:
    """Implementation only, real `random.Random(seed)`: every well-formed wait tree returns a finite non-negative delay inside
    its documented interval also for huge attempt counts and arbitrary seeds, the same for the same seed; a tree without a
    jittered part ignores the seed."""
    rng = random.Random(env.rng.randrange(1 << 30))
    for _ in range(n):
        t = gen_wtree(rng, rng.randint(1, 3))
        a = rng.choice([0, 3, 50, 1023, 1024, 1025, 5000, 10 ** 6])
        seed = rng.randrange(1 << 32)
        check_extreme({"kind": "wait_extreme", "tree": t, "attempts": a, "seed": seed}, out, env.prop)


def check_extreme(case: dict, out: Outcome, prop: str) -> None:
    t, a, seed = case["tree"], case["attempts"], case["seed"]
    rp = {"c07tree": True, **case}
    wf, jf, lo, hi = doc_bounds(t, a)
    out.evaluations += 1
    out.count("tree:extreme:" + ("wf" if wf else "illformed"))
    try:
        w = build_wtree(t)
        v, v2, v3 = w(a, seed=seed), w(a, seed=seed), w(a, seed=seed + 1)
    except Exception as ex:
        out.violations.append(Violation(f"{prop}/tree_wait_raises:{type(ex).__name__}", f"wait tree {line_wtree(t)} at attempts={a} raised {ex!r}", rp))
        return
    if v != v2:
        out.violations.append(Violation(f"{prop}/tree_not_deterministic_for_seed", f"wait tree {line_wtree(t)} gave {v} and {v2} for seed {seed}", rp))
    if jf and v != v3:
        out.violations.append(Violation(f"{prop}/jitter_free_tree_depends_on_seed", f"wait tree {line_wtree(t)} has no jittered part; seeds {seed}, {seed + 1} give {v}, {v3}", rp))
    if wf:
        eps = 1e-9 * max(1.0, float(hi))
        if not (isinstance(v, (int, float)) and math.isfinite(v)) or v < 0 or v < float(lo) - eps or v > float(hi) + eps:
            out.violations.append(Violation(f"{prop}/tree_out_of_bounds", f"wait tree {line_wtree(t)} at attempts={a}, seed={seed} returned {v!r}; documented interval [{float(lo)}, {float(hi)}]", rp))
