import WfProofs.Migrate
import WfModel.MigrateConn
/-! Helper lemmas for the connection-level part of C28: the trace of write calls refines the abstract
run (nothing is left pending), and every file content a killed run can leave behind is classified. -/
namespace Migrate

/-- nothing pending: the connection's view is what is on disk -/
def Conn.Clean (c : Conn) : Prop := c.cur = c.durable ∧ c.inTxn = false

theorem Conn.clean_connect (db : Db) : (Conn.connect db).Clean := ⟨rfl, rfl⟩

theorem Conn.commit_clean (c : Conn) : c.commit.Clean := ⟨rfl, rfl⟩

theorem Conn.commit_of_clean {c : Conn} (h : c.Clean) : c.commit = c := by
  cases c with
  | mk d cu t =>
    obtain ⟨h1, h2⟩ := h
    simp only at h1 h2
    subst h1 h2
    rfl

theorem lastOf_nil (c : Conn) : lastOf c [] = c := rfl

theorem lastOf_cons (c x : Conn) (xs : List Conn) : lastOf c (x :: xs) = lastOf x xs := by
  simp [lastOf, List.getLast?_cons]

theorem lastOf_append (c : Conn) (a b : List Conn) : lastOf c (a ++ b) = lastOf (lastOf c a) b := by
  induction a generalizing c with
  | nil => rfl
  | cons x xs ih => simp only [List.cons_append, lastOf_cons, ih]

/-! ### the seed loop -/

def insertSeeds (rows : List (String × Nat)) (vs : List Nat) : List (String × Nat) :=
  vs.foldl (fun rows v => insertIgnore (bootstrapPkg, v) rows) rows

theorem seedT_spec (c : Conn) (vs : List Nat) :
    (∀ c' ∈ seedT c vs, c'.durable = c.durable) ∧
    (lastOf c (seedT c vs)).durable = c.durable ∧
    (lastOf c (seedT c vs)).cur = { c.cur with rows := insertSeeds c.cur.rows vs } := by
  induction vs generalizing c with
  | nil => exact ⟨fun _ h => (by simp [seedT] at h), rfl, rfl⟩
  | cons v vs ih =>
    obtain ⟨h1, h2, h3⟩ := ih (c.write fun d => { d with rows := insertIgnore (bootstrapPkg, v) d.rows })
    refine ⟨?_, ?_, ?_⟩
    · intro c' hc'
      simp only [seedT, List.mem_cons] at hc'
      rcases hc' with rfl | hc'
      · rfl
      · exact h1 c' hc'
    · simp only [seedT, lastOf_cons]
      exact h2
    · simp only [seedT, lastOf_cons]
      rw [h3]
      rfl

theorem insertSeeds_fresh (vs : List Nat) (rows : List (String × Nat))
    (h : (rows ++ vs.map fun v => (bootstrapPkg, v)).Nodup) :
    insertSeeds rows vs = rows ++ vs.map fun v => (bootstrapPkg, v) := by
  induction vs generalizing rows with
  | nil => simp [insertSeeds]
  | cons v vs ih =>
    have hnot : (bootstrapPkg, v) ∉ rows := by
      intro hm
      exact (List.nodup_append.mp h).2.2 (bootstrapPkg, v) hm (bootstrapPkg, v) (by simp) rfl
    have hstep : insertIgnore (bootstrapPkg, v) rows = rows ++ [(bootstrapPkg, v)] := by
      simp [insertIgnore, hnot]
    simp only [insertSeeds, List.foldl_cons, hstep]
    have := ih (rows ++ [(bootstrapPkg, v)]) (by simpa [List.append_assoc] using h)
    simp only [insertSeeds] at this
    rw [this]
    simp

theorem seedRows_nodup (k : Nat) : (seedRows k).Nodup := by
  rw [seedRows, List.Nodup, List.pairwise_map]
  refine (List.pairwise_lt_range' (s := 1) (n := k)).imp ?_
  intro a b hab hc
  have : a = b := by simpa using hc
  omega

theorem insertSeeds_nil (k : Nat) : insertSeeds [] (List.range' 1 k) = seedRows k := by
  rw [insertSeeds_fresh _ _ (by simpa [seedRows] using seedRows_nodup k)]
  simp [seedRows]

/-! ### bootstrap -/

/-- the file between the creation of `schema_migrations` and the commit of the seed rows -/
def seedWindow (db : Db) : Db := { db with hasSM := true, rows := [] }

theorem bootstrapT_spec (c : Conn) (hc : c.Clean) :
    (lastOf c (bootstrapT c)).Clean ∧ (lastOf c (bootstrapT c)).cur = bootstrap c.cur ∧
    (∀ c' ∈ bootstrapT c,
      (c.cur.hasSM = false ∧ 0 < c.cur.userVersion ∧ c'.durable = seedWindow c.cur) ∨
      c'.durable = bootstrap c.cur) := by
  unfold bootstrapT
  by_cases hsm : c.cur.hasSM = true
  · simp only [hsm, if_true, lastOf_nil]
    exact ⟨hc, by simp [bootstrap, hsm], fun _ h => by cases h⟩
  · have hsm' : c.cur.hasSM = false := by simpa using hsm
    simp only [hsm', Bool.false_eq_true, if_false]
    by_cases huv : 0 < c.cur.userVersion
    · simp only [huv, if_true]
      obtain ⟨h1, h2, h3⟩ := seedT_spec (c.scriptAuto fun d => { d with hasSM := true, rows := [] })
        (List.range' 1 c.cur.userVersion.toNat)
      have hlast : lastOf c ((c.scriptAuto fun d => { d with hasSM := true, rows := [] }) ::
          (seedT (c.scriptAuto fun d => { d with hasSM := true, rows := [] }) (List.range' 1 c.cur.userVersion.toNat) ++
            [(lastOf (c.scriptAuto fun d => { d with hasSM := true, rows := [] })
              (seedT (c.scriptAuto fun d => { d with hasSM := true, rows := [] }) (List.range' 1 c.cur.userVersion.toNat))).commit])) =
          (lastOf (c.scriptAuto fun d => { d with hasSM := true, rows := [] })
              (seedT (c.scriptAuto fun d => { d with hasSM := true, rows := [] }) (List.range' 1 c.cur.userVersion.toNat))).commit := by
        rw [lastOf_cons, lastOf_append]
        rfl
      have hcur : (lastOf (c.scriptAuto fun d => { d with hasSM := true, rows := [] })
              (seedT (c.scriptAuto fun d => { d with hasSM := true, rows := [] }) (List.range' 1 c.cur.userVersion.toNat))).cur =
          bootstrap c.cur := by
        rw [h3]
        simp only [Conn.scriptAuto, bootstrap, hsm', Bool.false_eq_true, if_false, huv, if_true, insertSeeds_nil]
      refine ⟨?_, ?_, ?_⟩
      · rw [hlast]; exact Conn.commit_clean _
      · rw [hlast]; exact hcur
      · intro c' hc'
        simp only [List.mem_cons, List.mem_append, List.not_mem_nil, or_false] at hc'
        rcases hc' with rfl | hc' | rfl
        · exact .inl ⟨by first | trivial | assumption, by first | trivial | assumption, rfl⟩
        · exact .inl ⟨by first | trivial | assumption, by first | trivial | assumption, by rw [h1 c' hc']; rfl⟩
        · exact .inr hcur
    · simp only [huv, if_false, lastOf_cons, lastOf_nil]
      have hb : bootstrap c.cur = { c.cur with hasSM := true, rows := [] } := by
        simp [bootstrap, hsm', huv]
      refine ⟨⟨rfl, rfl⟩, by rw [hb]; rfl, ?_⟩
      intro c' hc'
      simp only [List.mem_singleton] at hc'
      subst hc'
      exact .inr (by rw [hb]; rfl)

/-! ### the apply loop -/

theorem runFilesT_nil (pkg : String) (applied : List Nat) (c : Conn) : runFilesT pkg [] applied c = ([], none) := rfl

theorem runFilesT_skip (pkg : String) (m : Migration) (ms : List Migration) (applied : List Nat) (c : Conn)
    (h : (applied.contains m.version || m.version == 0) = true) :
    runFilesT pkg (m :: ms) applied c = runFilesT pkg ms applied c := by
  simp only [runFilesT, h, if_true]

theorem runFilesT_fail (pkg : String) (m : Migration) (ms : List Migration) (applied : List Nat) (c : Conn)
    (h : (applied.contains m.version || m.version == 0) = false)
    (hs : applyStmts c.cur.schema m.stmts = none) :
    runFilesT pkg (m :: ms) applied c = ([{ c.commit with inTxn := true }, c.commit.rollback], some m.name) := by
  have hs' : applyStmts c.commit.cur.schema m.stmts = none := hs
  simp only [runFilesT, h, Bool.false_eq_true, if_false, hs']

/-- the connection after one migration file was applied, recorded and committed -/
def afterFile (pkg : String) (m : Migration) (s : Schema) (c : Conn) : Conn :=
  ((({ c.commit with cur := { c.commit.cur with schema := s }, inTxn := true } : Conn).write
    fun d => { d with rows := d.rows ++ [(pkg, m.version)] })).commit

theorem runFilesT_ok (pkg : String) (m : Migration) (ms : List Migration) (applied : List Nat) (c : Conn) (s : Schema)
    (h : (applied.contains m.version || m.version == 0) = false)
    (hs : applyStmts c.cur.schema m.stmts = some s) :
    runFilesT pkg (m :: ms) applied c =
      (({ c.commit with cur := { c.commit.cur with schema := s }, inTxn := true } : Conn) ::
        (({ c.commit with cur := { c.commit.cur with schema := s }, inTxn := true } : Conn).write
          fun d => { d with rows := d.rows ++ [(pkg, m.version)] }) ::
        afterFile pkg m s c :: (runFilesT pkg ms (m.version :: applied) (afterFile pkg m s c)).1,
       (runFilesT pkg ms (m.version :: applied) (afterFile pkg m s c)).2) := by
  have hs' : applyStmts c.commit.cur.schema m.stmts = some s := hs
  simp only [runFilesT, h, Bool.false_eq_true, if_false, hs', afterFile]

theorem afterFile_clean (pkg : String) (m : Migration) (s : Schema) (c : Conn) : (afterFile pkg m s c).Clean :=
  Conn.commit_clean _

theorem afterFile_cur (pkg : String) (m : Migration) (s : Schema) (c : Conn) :
    (afterFile pkg m s c).cur = { c.cur with schema := s, rows := c.cur.rows ++ [(pkg, m.version)] } := rfl

/-- what the caller of `run_migrations` gets, read off a trace -/
def resultOf (c : Conn) (r : List Conn × Option String) : Result :=
  match r.2 with
  | none => .ok (lastOf c r.1).cur
  | some f => .failed f (lastOf c r.1).cur

theorem runFilesT_refines (pkg : String) (ms : List Migration) (applied : List Nat) (c : Conn) (hc : c.Clean) :
    (lastOf c (runFilesT pkg ms applied c).1).Clean ∧
      runFiles pkg ms applied c.cur = resultOf c (runFilesT pkg ms applied c) := by
  induction ms generalizing applied c with
  | nil => exact ⟨hc, rfl⟩
  | cons m ms ih =>
    by_cases h : (applied.contains m.version || m.version == 0) = true
    · rw [runFilesT_skip pkg m ms applied c h]
      simp only [runFiles, h, if_true]
      exact ih applied c hc
    · have h' : (applied.contains m.version || m.version == 0) = false := by simpa using h
      cases hs : applyStmts c.cur.schema m.stmts with
      | none =>
        rw [runFilesT_fail pkg m ms applied c h' hs]
        simp only [runFiles, h', Bool.false_eq_true, if_false, hs, resultOf, lastOf_cons, lastOf_nil]
        rw [Conn.commit_of_clean hc]
        refine ⟨⟨rfl, rfl⟩, ?_⟩
        simp only [Conn.rollback]
        rw [hc.1]
      | some s =>
        rw [runFilesT_ok pkg m ms applied c s h' hs]
        obtain ⟨ih1, ih2⟩ := ih (m.version :: applied) (afterFile pkg m s c) (afterFile_clean pkg m s c)
        simp only [lastOf_cons]
        refine ⟨ih1, ?_⟩
        simp only [runFiles, h', Bool.false_eq_true, if_false, hs]
        rw [afterFile_cur] at ih2
        rw [ih2]
        simp only [resultOf, lastOf_cons]

theorem runSourcesT_refines (srcs : List (String × List Migration)) (c : Conn) (hc : c.Clean) :
    (lastOf c (runSourcesT srcs c).1).Clean ∧ runSources srcs c.cur = resultOf c (runSourcesT srcs c) := by
  induction srcs generalizing c with
  | nil => exact ⟨hc, rfl⟩
  | cons src rest ih =>
    obtain ⟨pkg, ms⟩ := src
    obtain ⟨h1, h2⟩ := runFilesT_refines pkg ms (appliedOf pkg c.cur.rows) c hc
    simp only [runSourcesT, runSources]
    cases hr : (runFilesT pkg ms (appliedOf pkg c.cur.rows) c).2 with
    | some f =>
      simp only [resultOf, hr] at h2
      simp only [h2, resultOf]
      exact ⟨h1, trivial⟩
    | none =>
      simp only [resultOf, hr] at h2
      obtain ⟨i1, i2⟩ := ih (lastOf c (runFilesT pkg ms (appliedOf pkg c.cur.rows) c).1) h1
      simp only [h2, lastOf_append]
      refine ⟨i1, ?_⟩
      rw [i2]
      simp only [resultOf, lastOf_append]

theorem runLoadedT_refines (srcs : List (String × List Migration)) (c : Conn) (hc : c.Clean) :
    (lastOf c (runLoadedT srcs c).1).Clean ∧ runSources srcs (bootstrap c.cur) = resultOf c (runLoadedT srcs c) := by
  obtain ⟨b1, b2, _⟩ := bootstrapT_spec c hc
  obtain ⟨r1, r2⟩ := runSourcesT_refines srcs (lastOf c (bootstrapT c)) b1
  simp only [runLoadedT, lastOf_append]
  refine ⟨r1, ?_⟩
  rw [← b2, r2]
  simp only [resultOf, lastOf_append]

theorem sessionLoaded_eq (srcs : List (String × List Migration)) (db : Db) :
    sessionLoaded srcs db = (runSources srcs (bootstrap db), false) := by
  obtain ⟨h1, h2⟩ := runLoadedT_refines srcs (Conn.connect db) (Conn.clean_connect db)
  have h2' : runSources srcs (bootstrap db) = resultOf (Conn.connect db) (runLoadedT srcs (Conn.connect db)) := h2
  simp only [sessionLoaded, h2', resultOf, Conn.close, h1.2]
  cases (runLoadedT srcs (Conn.connect db)).2 with
  | none => simp [h1.1]
  | some f => simp [h1.1]

/-! ### what a killed run leaves behind -/

theorem InvAt.step_one {ms a : List Migration} {db : Db} (hwf : WellFormed ms) (h : InvAt ms a db)
    (m : Migration) (l : List Migration) (hms : ms = a ++ m :: l) :
    ∃ s, applyStmts db.schema m.stmts = some s ∧
      InvAt ms (a ++ [m]) { db with schema := s, rows := db.rows ++ [(bootstrapPkg, m.version)] } := by
  have hpre : (a ++ [m]) <+: ms := ⟨l, by rw [hms]; simp⟩
  obtain ⟨db', a', hrun, hinv', _, ha'⟩ := h.step hwf (a ++ [m]) hpre
  have ha'' := ha' (List.prefix_append a [m])
  subst ha''
  have hmem := h.applied_mem hwf
  have hnot := h.pending_not_mem hwf (m :: l) hms m (by simp)
  have hpos := hwf.1 m (by rw [hms]; simp)
  have hc : ((appliedOf bootstrapPkg db.rows).contains m.version || m.version == 0) = false := by
    simp [hnot]; omega
  have hskip := runFiles_skip bootstrapPkg a [m] (appliedOf bootstrapPkg db.rows) db (fun m' hm' => .inl (hmem m' hm'))
  simp only [runSources, hskip, runFiles, hc, Bool.false_eq_true, if_false] at hrun
  cases hs : applyStmts db.schema m.stmts with
  | none => simp [hs] at hrun
  | some s =>
    simp only [hs] at hrun
    have : db' = { db with schema := s, rows := db.rows ++ [(bootstrapPkg, m.version)] } := by
      simpa using hrun.symm
    subst this
    exact ⟨s, rfl, hinv'⟩

theorem runFilesT_inv {ms : List Migration} (hwf : WellFormed ms) :
    ∀ (l p a : List Migration) (applied : List Nat) (c : Conn),
      ms = p ++ l → p <+: a → InvAt ms a c.cur → c.Clean →
      (∀ v, v ∈ applied ↔ (bootstrapPkg, v) ∈ c.cur.rows) →
      ∀ c' ∈ (runFilesT bootstrapPkg l applied c).1,
        ∃ a', InvAt ms a' c'.durable ∧ c'.durable.userVersion = c.cur.userVersion := by
  intro l
  induction l with
  | nil => intro p a applied c _ _ _ _ _ c' hc'; cases hc'
  | cons m l ih =>
    intro p a applied c hms hpa hinv hcl happ c' hc'
    obtain ⟨u, hu⟩ := hpa
    obtain ⟨b, hab⟩ : ∃ b, ms = a ++ b := by
      obtain ⟨_, _, b, _, hms', _⟩ := hinv
      exact ⟨b, hms'⟩
    have hsplit : m :: l = u ++ b := by
      apply List.append_cancel_left (as := p)
      rw [← hms, hab, ← hu, List.append_assoc]
    cases u with
    | nil =>
      -- `m` is the first pending migration
      have hpa' : p = a := by simpa using hu
      subst hpa'
      have hb : b = m :: l := by simpa using hsplit.symm
      subst hb
      have hnot := hinv.pending_not_mem hwf (m :: l) hab m (by simp)
      have hpos := hwf.1 m (by rw [hab]; simp)
      have hc : (applied.contains m.version || m.version == 0) = false := by
        have : m.version ∉ applied := fun hm => hnot (mem_appliedOf.mpr ((happ _).mp hm))
        simp [this]; omega
      obtain ⟨s, hs, hinv'⟩ := hinv.step_one hwf m l hab
      rw [runFilesT_ok bootstrapPkg m l applied c s hc hs] at hc'
      have hcommit := Conn.commit_of_clean hcl
      simp only [List.mem_cons] at hc'
      rcases hc' with rfl | rfl | rfl | hc'
      · refine ⟨p, ?_, ?_⟩
        · simp only [hcommit]; rw [← hcl.1]; exact hinv
        · simp only [hcommit]; rw [← hcl.1]
      · refine ⟨p, ?_, ?_⟩
        · simp only [Conn.write, hcommit]; rw [← hcl.1]; exact hinv
        · simp only [Conn.write, hcommit]; rw [← hcl.1]
      · exact ⟨p ++ [m], hinv', rfl⟩
      · obtain ⟨a', h1, h2⟩ := ih (p ++ [m]) (p ++ [m]) (m.version :: applied) (afterFile bootstrapPkg m s c)
          (by rw [hab]; simp) (List.prefix_refl _) (by rw [afterFile_cur]; exact hinv')
          (afterFile_clean _ _ _ _)
          (by
            intro v
            rw [afterFile_cur]
            simp only [List.mem_cons, List.mem_append, List.not_mem_nil, or_false, Prod.mk.injEq, true_and]
            rw [happ v]
            exact or_comm) c' hc'
        exact ⟨a', h1, by rw [h2, afterFile_cur]⟩
    | cons m' u' =>
      -- `m` is already applied
      have hm : m = m' := by
        have := congrArg List.head? hsplit
        simpa using this
      subst hm
      have hin : m ∈ a := by rw [← hu]; simp
      have hmem := hinv.applied_mem hwf m hin
      have hc : (applied.contains m.version || m.version == 0) = true := by
        have : m.version ∈ applied := (happ _).mpr (mem_appliedOf.mp hmem)
        simp [this]
      rw [runFilesT_skip bootstrapPkg m l applied c hc] at hc'
      exact ih (p ++ [m]) a applied c (by rw [hms]; simp) ⟨u', by rw [← hu]; simp⟩ hinv hcl happ c' hc'

end Migrate
